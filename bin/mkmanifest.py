#!/usr/bin/env python3
# mkmanifest.py - regenerates MANIFEST.json from the table below (keeps it valid and in one place)
import json, os
V = os.path.dirname(os.path.dirname(os.path.abspath(__file__)))
LEAF_NOTE = ("Trusted: Coq 8.16.1 kernel; no axioms (Print Assumptions: closed under the global context); extraction via "
             "ExtrOcamlBasic; OCaml glue; the hand-written model is tied to the code by executing extracted model, "
             "extracted specification and the implementation (built from /repo's working tree, -fno-access-control) on "
             "the same cases; libstdc++ string/stream semantics are modelled, not verified.")
CLAIMS = {
 "C15": dict(text="Theorems over all codes and all reply sequences (classes partition, aggregate positive iff non-empty and all "
                  "positive, CR LF join, arrival order) about a Gallina model of reply/replies; model tied to the code by an "
                  "exhaustive sweep of all 65536 codes and enumerated/random reply sequences.",
             design="4/C15", note=LEAF_NOTE, technique="Coq proof (induction over appends) + exhaustive/differential correspondence with the C++ classes"),
 "C01": dict(text="Theorem: for every list of well-formed replies, every rest, every split into buffered/unread bytes, every read "
                  "schedule and ending, the k-th receive step of the model returns exactly the k-th reply and the unread "
                  "rest is kept (unbounded in replies, lines up to the cap); corollary: schedule irrelevance. The model "
                  "(match_eol, read_until with the cap, read_line, recv) is tied to the real control_connection::recv, which "
                  "runs boost::asio::read_until and match_eol over an injected in-memory transport with the same schedules.",
             design="4/C01", note=LEAF_NOTE + " boost::asio::read_until is modelled (search, full-buffer check, read) and validated by running the real one; bare-CR terminators are outside the property.",
             technique="Coq proof (invariant buffer++unread = remaining stream; induction over replies and lines) + differential correspondence over read schedules"),
 "C08": dict(text="Theorems: the repaired reply reader terminates with a reply or an exception on EVERY byte stream, schedule and "
                  "ending (explicit fuel never exhausted); the line buffer never exceeds the cap and a full buffer without "
                  "terminator is refused without another read; decimal parsing is exact-or-rejected. PARTIAL: crashes, "
                  "out-of-bounds accesses and foreign exception types are runtime behaviour no Coq model of this code can "
                  "exhibit; they are covered only by AddressSanitizer/UBSan differential runs (testing, labelled as such).",
             design="4/C08", note=LEAF_NOTE + " The runtime half (memory safety, exception types) rests on sanitised execution of truncated, mutated and arbitrary streams; data-connection and TLS-handshake fault points are exercised by the protocol checks.",
             technique="Coq proof (termination by measure |buffer|+|unread|, cap invariant) + sanitised differential correspondence with fault injection at every stream position"),
 "C19": dict(text="Theorems for every verb spelling (all case variants), every rest of line and every list of arbitrary byte-string "
                  "arguments: case-insensitive recognition, only the 27 documented verbs are accepted, the supported quoting is "
                  "inverted exactly. Totality of the logic is by construction (total function into option); that the C++ raises "
                  "nothing but cmdline_exception is checked on every generated line. Model tied to parse_command by all 2^n "
                  "case variants, near-miss verbs over all byte values, random lines and rendered argument lists.",
             design="4/C19", note=LEAF_NOTE + " libstdc++ operator>> / std::quoted and boost::iequals (classic locale) are modelled, validated by the correspondence.",
             technique="Coq proof (quoting inverse by induction, verb table by computation) + differential correspondence"),
 "C05": dict(text="Theorems for every byte string, every chunking of the source (internal buffer size and short reads), every "
                  "sequence of caller buffer sizes and every partition into write calls: upload output = to_crlf, download sink = "
                  "from_crlf with one final flush, LF-only text round-trips; model tied to the real converter classes by "
                  "exhaustive enumeration of strings over {CR,LF,x} with all boundary alignments.",
             design="4/C05", note=LEAF_NOTE + " Sources are assumed to have a sticky end-of-file (istream_adapter guarantees it). The end-to-end selection of the converter by transfer type is part of the protocol checks.",
             technique="Coq proof (buffered converter refines a per-byte automaton = substitution) + exhaustive differential correspondence"),
 "C06": dict(text="Theorems for all reply texts and all 65536 ports: soundness, completeness and rejection for the 227 and 229 "
                  "parsers (numbers taken are the numbers written, never wrapped), PORT/227 round trip for every IPv4 address "
                  "and port, EPRT syntax and port round trip, PORT refused for non-IPv4; model tied to the private static helpers "
                  "by exhaustive sweeps over all ports/port pairs/delimiters and enumerated malformed texts. The dispatch half "
                  "(which method, which endpoint is connected to / advertised) is decided on the protocol model, see level_note.",
             design="4/C06", note=LEAF_NOTE + " make_address/inet_pton (validity of the dotted quad h1.h2.h3.h4) is delegated to Boost/libc and not modelled.",
             technique="Coq proof (parser soundness/completeness, formatter round trip) + exhaustive differential correspondence"),
 "C16": dict(text="Theorems (iff) characterising when the 213 parsers yield a value and which value, for all codes and texts; "
                  "listing lines equal the LF-split specification; model tied to the code by enumerated payloads over a small "
                  "alphabet, limit values and random payloads.",
             design="4/C16", note=LEAF_NOTE, technique="Coq proof (decimal parsing without wrap, time-val grammar) + differential correspondence"),
}
REASON_WIP = "check not built yet (work in progress; see DESIGN.md section 4 for the plan)"
m = {
 "version": 1,
 "setup_cmd": "python3 bin/check.py --setup",
 "hooks": {
  "guard": "LIBFTP_VERIF",
  "enable": "none needed: harness translation units are compiled with -fno-access-control against /repo's sources; no guarded code exists in /repo",
  "baseline_off_cmd": "cmake --build /repo/_build && ctest --test-dir /repo/_build -j8",
  "source_commits": [],
  "add_only": True
 },
 "engines": [
  {"name": "coq", "path": "coq/", "serves_properties": sorted(CLAIMS), "kind_free_text": "Coq 8.16.1 development: models, proofs, Properties_<id>.v, extraction"},
  {"name": "correspondence", "path": "bin/check.py", "serves_properties": sorted(CLAIMS), "kind_free_text": "differential execution of extracted model/specification vs. implementation rebuilt from /repo"}
 ],
 "checks": [],
 "not_applicable": [],
 "notes": "Every check: python3 bin/check.py <id> quick|thorough ; replay: python3 bin/check.py <id> --replay <file>. known_findings.txt lists recorded findings and fixed defects."
}
ids = [json.loads(l)["id"] for l in open(os.path.join(V, "properties.jsonl"))]
for i in ids:
    if i in CLAIMS:
        c = CLAIMS[i]
        m["checks"].append({
            "property_id": i, "quick_cmd": "python3 bin/check.py %s quick" % i,
            "thorough_cmd": "python3 bin/check.py %s thorough" % i,
            "evidence_file": "/verif/evidence/%s.json" % i,
            "replay_cmd_template": "python3 bin/check.py %s --replay {path}" % i,
            "engine": "coq+correspondence",
            "level_claimed": {"category": "proof", "text": c["text"], "design_ref": c["design"]},
            "level_note": c["note"], "technique": c["technique"]})
    else:
        m["not_applicable"].append({"property_id": i, "reason": REASON_WIP})
json.dump(m, open(os.path.join(V, "MANIFEST.json"), "w"), indent=1)
print("MANIFEST.json written: %d checks, %d not claimed" % (len(m["checks"]), len(m["not_applicable"])))
