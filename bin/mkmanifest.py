#!/usr/bin/env python3
# mkmanifest.py - regenerates MANIFEST.json from the table below (keeps it valid and in one place)
import json, os
V = os.path.dirname(os.path.dirname(os.path.abspath(__file__)))
LEAF_NOTE = ("Trusted: Coq 8.16.1 kernel; no axioms (Print Assumptions: closed under the global context); extraction via "
             "ExtrOcamlBasic; OCaml glue; the hand-written model is tied to the code by executing extracted model, "
             "extracted specification and the implementation (built from /repo's working tree, -fno-access-control) on "
             "the same cases; libstdc++ string/stream semantics are modelled, not verified.")

PROTO_NOTE = 'Trusted: Coq 8.16.1 kernel; no axioms; extraction via ExtrOcamlBasic; OCaml glue (ocaml/driver_proto.ml). The protocol model (coq/Client.v: ftp::client as a free-monad state machine over a scripted peer; coq/DataConn.v: the data loops) is hand-written and tied to the code by running the real ftp::client (harness/client_driver.cpp, public API, loopback TCP) against bin/peer.py on generated histories and comparing, per call, outcome, state, command lines seen by the peer, observer/callback/sink logs and descriptors held with the extracted model fed the observed block sizes; a reference expectation written from the RFC tables (bin/scenarios.py) is the property oracle. Modelled, not verified: kernel TCP, Boost.Asio, OpenSSL, unique_ptr scoping (Scope), reply framing (that tie is C01).'
CLAIMS = {
 'C11': dict(text='Theorems about ordering and gating in the protocol model: a command line is written inside TLS exactly when the TLS layer of the control socket is up, and nothing can be written between the switch to the TLS socket and the completed handshake; connect sends only the fixed line AUTH TLS before the handshake, stops on a negative answer, and runs the handshake before the login program; a failed handshake ends the call without running the login; the data handshake sits between the accepted transfer command and the data loop; a data stream that ends by an error is never reported complete; the full trace of connect with a TLS context (AUTH TLS the only clear-text line, socket switch and handshake right after its positive reply) and of a download over TLS (wrap after acceptance, close-notify before close). PARTIAL: that OpenSSL encrypts, verifies chains and reports a missing close-notify is runtime behaviour, observed through the raw bytes the peer logs ahead of its TLS engine (first record after 234 and on every data connection is a handshake record; marker strings never appear in clear).', design='4/C11', note=PROTO_NOTE, technique='Coq proof (gating lemmas on do_send / handshake primitives, program structure) + differential correspondence with raw-byte inspection at the peer'),
 'C13': dict(text='Theorems: a non-graceful disconnect from ANY world writes no command and ends disconnected, plain and without TLS state whether it returns or throws; a new connection starts plain, without session and with only the new greeting to read whatever the old buffer held; receiving 421 closes the connection; graceful disconnect = QUIT, its reply, then the same release; connect from a disconnected client reads and returns the greeting and starts plain and in step. The tie: reconnect histories whose first session ends by QUIT, drop, 421, peer close, peer reset, unread replies, a failed handshake or a failing transfer, plain and TLS.', design='4/C13', note=PROTO_NOTE, technique='Coq proof (case analysis on the disconnect / connect primitives for arbitrary worlds) + differential correspondence on reconnect histories'),
 'C18': dict(text="Theorems on the abstract TLS dataflow: every data handshake offers the control connection's current session exactly when resumption is configured; that session is the fresh one of the latest successful control handshake and is untouched by command exchanges; no call changes the TLS configuration (same context); in a whole download over TLS the data handshake offers the control session exactly when resumption is on. PARTIAL: OpenSSL's session semantics are outside the model - the peer's TLS engine reports session_reused per data connection (own session cache per control connection); TLS 1.3 single-use tickets are a recorded KNOWN-FINDING.", design='4/C18', note=PROTO_NOTE, technique='Coq proof (dataflow of the session identifier; generic induction for the configuration) + session_reused observed by the scripted peer'),
 'C02': dict(text="Theorems: the command/reply step consumes exactly the peer's reaction to that command and leaves nothing unread (every call is built from it); simple calls, TYPE and rename return exactly their own replies and keep the session in step; induction over histories of simple calls; 120-then-220 is read by connect and logout; whole downloads, uploads and listings in the passive modes, the 120+220 connect and a cancelled download answered 426+226 return exactly their own replies and leave the session in step (symbolic execution of the whole call, for every payload, segmentation and both transfer types). PARTIAL: transfers in the active modes / under TLS / with the completion reply written together with the preliminary one, and the other ABOR orders, are decided by the correspondence and the lockstep oracle (unique marks in reply texts); two ABOR orderings are recorded KNOWN-FINDINGs (refuted in Coq by a vm_compute witness).", design='4/C02', note=PROTO_NOTE, technique='Coq proof (process_command step lemma, induction over histories) + differential correspondence with reply marks as ground truth'),
 'C03': dict(text='Theorems about the loop of data_connection::recv for every payload and every segmentation: a completed binary download hands the sink exactly the concatenation of the segments, flushes once after the last byte; errors are reported without flush; ASCII variant = from_crlf; end to end on the protocol model (passive modes): the whole download call hands the sink exactly the payload (binary) / from_crlf of it (ASCII), returns its three replies, makes one data connection to the parsed endpoint and closes it. PARTIAL: TCP/TLS delivery (in order, once) is assumed; exercised by transfers of the boundary sizes with several segmentation styles, all four methods, IPv4/IPv6.', design='4/C03', note=PROTO_NOTE, technique='Coq proof (induction over segments) + differential correspondence on real loopback transfers'),
 'C04': dict(text="Theorems about the loop of data_connection::send for every chunking of the source: bytes written = concatenation of what the source hands out before its first empty read (binary) / to_crlf (ASCII); end to end on the protocol model (passive modes, STOR/STOU/APPE); the program order 'close the data connection, then await the completion reply' is fixed in finish_transfer. PARTIAL: the kernel side of write/close is assumed; the peer sends the completion reply only after it saw end-of-file, so a client that waited first would block.", design='4/C04', note=PROTO_NOTE, technique='Coq proof (induction over blocks; composition with the ASCII theorem) + differential correspondence'),
 'C07': dict(text='Theorem: refusal at EPSV/PASV for every verb, path, sink/source/callback and script tail returns exactly that reply, emits no sink/source/callback event, opens no data socket and leaves the session in step; the same for refusal at the transfer command itself (passive and active modes) and at EPRT/PORT (listener closed); no data socket or listener survives ANY call (all paths). The correspondence covers every negative code x step x operation x method x plain/TLS.', design='4/C07', note=PROTO_NOTE, technique='Coq proof (symbolic run of the refusal path, scope bracket) + differential correspondence'),
 'C09': dict(text='Theorems for every API call, world and script: every command line written is free of CR/LF (by a generic decomposition of everything a program adds to the trace, proved by induction over programs); a caller text with CR or LF makes the call throw before any byte or event.', design='4/C09', note=PROTO_NOTE, technique='Coq proof (induction over the free monad of operations) + differential correspondence on the raw bytes the peer receives'),
 'C10': dict(text='Theorems: simple calls write exactly their one line and return its reply; TYPE changes the reported type exactly on a positive reply; rename sends RNTO exactly after 350; login exchanges exactly the lines of the reference table (USER; PASS exactly after 331; stop at the first negative reply; PBSZ 0 / PROT P with TLS; TYPE for the configured type) for every reply at every step, returns exactly the replies received and stays in step. PARTIAL: the transfer verbs are fixed by the programs of Client.v; their agreement with the reference table is decided by the correspondence.', design='4/C10', note=PROTO_NOTE, technique='Coq proof (process_command step lemma) + differential correspondence against the reference command table'),
 'C12': dict(text='Theorems for every payload, segmentation/chunking and poll-answer sequence, both directions and both types: cancelled at the first poll => nothing else happens; otherwise begin once, end once at the end, notify sums to the bytes moved, no block after the first true poll; the cancel path sends ABOR, reads a second reply after 426 and closes the data socket without graceful shutdown; a whole cancelled download (passive modes) returns the replies received so far followed by 426 and the ABOR reply and stays in step.', design='4/C12', note=PROTO_NOTE, technique='Coq proof (induction over blocks with the callback as an oracle) + differential correspondence with recording callbacks'),
 'C14': dict(text='Theorem for every program, world and script: what a call adds to the trace decomposes into actions such that every observer sees exactly the transcript (each event as many times as it is registered, none when removed), requests before the line is written, replies after they are read, in wire order; add appends, remove drops all registrations; a whole listing tells every observer requests, replies and the listing text in wire order.', design='4/C14', note=PROTO_NOTE, technique='Coq proof (induction over the free monad of operations) + differential correspondence with recording observers'),
 'C17': dict(text='Theorem for every history, configuration and script: after every call (returned, thrown or blocked) no data socket and no listener is held, the control socket exactly while connected. The tie to descriptors is the correspondence (/proc/self/fd after every call and after destruction).', design='4/C17', note=PROTO_NOTE, technique='Coq proof (scope bracket + no-data-primitive induction) + descriptor accounting in the differential runs'),
 "C20": dict(text="Theorems about a model of command_handler / cmdline_interface::run / main on top of the protocol model, for every input script, local file system and peer script: the run ends with the success status and only at exit / end of input (an invalid line, a cmdline_exception and an ftp_exception are printed and the loop goes on); a connection-needing command given while disconnected answers 'Connection is not open.' and does nothing else (no library call, no prompt, no file access); get refuses an existing local file without touching it, touches no other local file whatever happens, and removes the file it created when the replies are not positive; after a library error the handler has left the client disconnected with a plain socket. PARTIAL: the local file system is a finite map (regular files, names up to 255 bytes; directories, symlinks, permissions, NUL in names, signals and terminal handling are not modelled); that the real process exits with status 0 and leaves every other file alone is observed on the real binary.", design="4/C20", note="Trusted: Coq 8.16.1 kernel; no axioms; extraction via ExtrOcamlBasic; OCaml glue (ocaml/driver_proto.ml run_app). The model (coq/App.v) is hand-written and tied to the code by piping generated input scripts into the REAL cmdline binary (app/cmdline/src/*.cpp + the library, built from /repo's working tree) in a scratch directory against bin/peer.py and comparing exit status, stdout (texts of ftp_exception opaque), the final working directory and the command lines the peer saw with the extracted model. Modelled, not verified: libstdc++ iostream/filesystem, the kernel.", technique="Coq proof (case analysis on the handler, induction over the main loop's fuel) + differential correspondence with the real binary as a subprocess"),
 "C15": dict(text="Theorems over all codes and all reply sequences (classes partition, aggregate positive iff non-empty and all "
                  "positive, CR LF join, arrival order) about a Gallina model of reply/replies; model tied to the code by an "
                  "exhaustive sweep of all 65536 codes and enumerated/random reply sequences.",
             design="4/C15", note=LEAF_NOTE, technique="Coq proof (induction over appends) + exhaustive/differential correspondence with the C++ classes"),
 "C01": dict(text="Theorem: for every list of well-formed replies, every rest, every split into buffered/unread bytes, every read "
                  "schedule and ending, the k-th receive step of the model returns exactly the k-th reply and the unread "
                  "rest is kept (unbounded in replies, lines up to the cap); corollary: schedule irrelevance. The model "
                  "(match_eol, read_until with the cap, read_line, recv) is tied to the real control_connection::recv, which "
                  "runs boost::asio::read_until and match_eol over an injected in-memory transport with the same schedules.",
             design="4/C01", note=LEAF_NOTE + " boost::asio::read_until is modelled (search, full-buffer check, read) and validated by running the real one; bare-CR terminators are outside the property.",
             technique="Coq proof (invariant buffer++unread = remaining stream; induction over replies and lines) + differential correspondence over read schedules"),
 "C08": dict(text="Theorems: the repaired reply reader terminates with a reply or an exception on EVERY byte stream, schedule and "
                  "ending (explicit fuel never exhausted); the line buffer never exceeds the cap and a full buffer without "
                  "terminator is refused without another read; decimal parsing is exact-or-rejected. PARTIAL: crashes, "
                  "out-of-bounds accesses and foreign exception types are runtime behaviour no Coq model of this code can "
                  "exhibit; they are covered only by AddressSanitizer/UBSan differential runs (testing, labelled as such): the reply reader over "
                  "truncated / mutated / arbitrary streams, the ASCII converters at their buffer sizes, the decimal parsers far beyond their limits, "
                  "and the real ftp::client (sanitised build) against a peer that closes, resets or cuts a reply at every position of a dialogue.",
             design="4/C08", note=LEAF_NOTE + " The runtime half (memory safety, exception types) rests on sanitised execution of truncated, mutated and arbitrary streams; data-connection and TLS-handshake fault points are exercised by the protocol checks.",
             technique="Coq proof (termination by measure |buffer|+|unread|, cap invariant) + sanitised differential correspondence with fault injection at every stream position"),
 "C19": dict(text="Theorems for every verb spelling (all case variants), every rest of line and every list of arbitrary byte-string "
                  "arguments: case-insensitive recognition, only the 27 documented verbs are accepted, the supported quoting is "
                  "inverted exactly. Totality of the logic is by construction (total function into option); that the C++ raises "
                  "nothing but cmdline_exception is checked on every generated line. Model tied to parse_command by all 2^n "
                  "case variants, near-miss verbs over all byte values, random lines and rendered argument lists.",
             design="4/C19", note=LEAF_NOTE + " libstdc++ operator>> / std::quoted and boost::iequals (classic locale) are modelled, validated by the correspondence.",
             technique="Coq proof (quoting inverse by induction, verb table by computation) + differential correspondence"),
 "C05": dict(text="Theorems for every byte string, every chunking of the source (internal buffer size and short reads), every "
                  "sequence of caller buffer sizes and every partition into write calls: upload output = to_crlf, download sink = "
                  "from_crlf with one final flush, LF-only text round-trips; model tied to the real converter classes by "
                  "exhaustive enumeration of strings over {CR,LF,x} with all boundary alignments; end to end, ASCII transfers through the real client "
                  "(payloads cut between CR and LF, with and without callback) against from_crlf / to_crlf.",
             design="4/C05", note=LEAF_NOTE + " Sources are assumed to have a sticky end-of-file (istream_adapter guarantees it). The end-to-end selection of the converter by transfer type is part of the protocol checks.",
             technique="Coq proof (buffered converter refines a per-byte automaton = substitution) + exhaustive differential correspondence"),
 "C06": dict(text="Theorems for all reply texts and all 65536 ports: soundness, completeness and rejection for the 227 and 229 "
                  "parsers (numbers taken are the numbers written, never wrapped), PORT/227 round trip for every IPv4 address "
                  "and port, EPRT syntax and port round trip, PORT refused for non-IPv4; model tied to the private static helpers "
                  "by exhaustive sweeps over all ports/port pairs/delimiters and enumerated malformed texts. The dispatch half "
                  "(Properties_C06_dispatch.v: method by configuration, connect to exactly the parsed port, malformed reply = error, PORT refused on IPv6) "
                  "is proved on the protocol model and tied to the real client by histories over all eight combinations passive/active x RFC 2428 x IPv4/IPv6 "
                  "where the scripted peer checks where each data connection arrives / that it can reach the advertised endpoint.",
             design="4/C06", note=LEAF_NOTE + " make_address/inet_pton (validity of the dotted quad h1.h2.h3.h4) is delegated to Boost/libc and not modelled.",
             technique="Coq proof (parser soundness/completeness, formatter round trip) + exhaustive differential correspondence"),
 "C16": dict(text="Theorems (iff) characterising when the 213 parsers yield a value and which value, for all codes and texts; "
                  "listing lines equal the LF-split specification; model tied to the code by enumerated payloads over a small "
                  "alphabet, limit values and random payloads.",
             design="4/C16", note=LEAF_NOTE, technique="Coq proof (decimal parsing without wrap, time-val grammar) + differential correspondence"),
}
REASON_WIP = "check not built yet (work in progress; see DESIGN.md section 4 for the plan)"
m = {
 "version": 1,
 "setup_cmd": "python3 bin/check.py --setup",
 "hooks": {
  "guard": "LIBFTP_VERIF",
  "enable": "none needed: harness translation units are compiled with -fno-access-control against /repo's sources; no guarded code exists in /repo",
  "baseline_off_cmd": "cmake --build /repo/_build && ctest --test-dir /repo/_build -j8",
  "source_commits": [],
  "add_only": True
 },
 "engines": [
  {"name": "coq", "path": "coq/", "serves_properties": sorted(CLAIMS), "kind_free_text": "Coq 8.16.1 development: models, proofs, Properties_<id>.v, extraction"},
  {"name": "correspondence", "path": "bin/check.py", "serves_properties": sorted(CLAIMS), "kind_free_text": "differential execution of extracted model/specification vs. implementation rebuilt from /repo"}
 ],
 "checks": [],
 "not_applicable": [],
 "notes": "Every check: python3 bin/check.py <id> quick|thorough ; replay: python3 bin/check.py <id> --replay <file>. known_findings.txt lists recorded findings and fixed defects."
}
ids = [json.loads(l)["id"] for l in open(os.path.join(V, "properties.jsonl"))]
for i in ids:
    if i in CLAIMS:
        c = CLAIMS[i]
        m["checks"].append({
            "property_id": i, "quick_cmd": "python3 bin/check.py %s quick" % i,
            "thorough_cmd": "python3 bin/check.py %s thorough" % i,
            "evidence_file": "/verif/evidence/%s.json" % i,
            "replay_cmd_template": "python3 bin/check.py %s --replay {path}" % i,
            "engine": "coq+correspondence",
            "level_claimed": {"category": "proof", "text": c["text"], "design_ref": c["design"]},
            "level_note": c["note"], "technique": c["technique"]})
    else:
        m["not_applicable"].append({"property_id": i, "reason": REASON_WIP})
json.dump(m, open(os.path.join(V, "MANIFEST.json"), "w"), indent=1)
print("MANIFEST.json written: %d checks, %d not claimed" % (len(m["checks"]), len(m["not_applicable"])))
