#!/usr/bin/env python3
# sync_props.py - development helper (not used by the checks): re-copies the statements of the whole-operation lemmas
# of coq/Transfer_Proofs.v / Transfer_More.v into the Properties_*.v theorems that are closed by `exact <lemma>`,
# so that the property files always show the full statement that was proved.
import re, glob, os
C = os.path.join(os.path.dirname(os.path.dirname(os.path.abspath(__file__))), "coq")
stm = {}
for f in ("Transfer_Proofs.v", "Transfer_More.v", "Transfer_Cb.v", "Refusals.v", "Tls_Failures.v", "Session_Proofs.v"):
    src = open(os.path.join(C, f)).read()
    for m in re.finditer(r"Theorem (\w+) ([^:\n]*?) :\n(.*?)\nProof\.", src, flags=re.S):
        stm[m.group(1)] = "forall %s,\n%s" % (m.group(2).strip(), m.group(3))
n = 0
for p in glob.glob(os.path.join(C, "Properties_C*.v")):
    s = open(p).read()
    def repl(m):
        global n
        lemma = m.group(3)
        if lemma not in stm:
            return m.group(0)
        n += 1
        return "Theorem %s : %s\nProof. exact %s. Qed." % (m.group(1), stm[lemma], lemma)
    s2 = re.sub(r"Theorem (\w+) : ((?:(?!\nProof\.).)*?)\nProof\. exact (\w+)\. Qed\.", repl, s, flags=re.S)
    if s2 != s:
        open(p, "w").write(s2)
print("statements synchronised:", n)
