# registry.py - which module decides which property, and which harness binaries setup pre-builds
import vlib

MODULES = {
    "C15": "combo", "C16": "leaf", "C06": "combo", "C05": "combo", "C19": "leaf", "C02": "proto", "C09": "proto", "C10": "proto", "C14": "combo", "C03": "proto", "C04": "proto", "C07": "proto", "C12": "proto", "C17": "proto", "C11": "proto", "C13": "proto", "C18": "proto", "C01": "combo", "C08": "combo", "C20": "app",
}


def build_leaf(variant="plain"):
    import os
    cmd = [os.path.join(vlib.REPO, "app", "cmdline", "src", "command_parser.cpp")]
    return vlib.build_harness("leaf_driver", ["leaf_driver.cpp", "leaf_ext.cpp"],
                              vlib.repo_lib_sources() + cmd, variant)


def build_client(variant="plain"):
    return vlib.build_harness("client_driver", ["client_driver.cpp"], vlib.repo_lib_sources(), variant)


def build_cmdline(variant="plain"):
    from props import app
    return app.build_cmdline(variant)


HARNESS_BUILDERS = {"leaf_driver": build_leaf, "client_driver": build_client, "cmdline": build_cmdline}
