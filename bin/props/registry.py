# registry.py - which module decides which property, and which harness binaries setup pre-builds
import vlib

MODULES = {
    "C15": "leaf", "C16": "leaf", "C06": "leaf", "C05": "leaf", "C19": "leaf", "C01": "framing", "C08": "framing",
}


def build_leaf(variant="plain"):
    import os
    cmd = [os.path.join(vlib.REPO, "app", "cmdline", "src", "command_parser.cpp")]
    return vlib.build_harness("leaf_driver", ["leaf_driver.cpp", "leaf_ext.cpp"],
                              vlib.repo_lib_sources() + cmd, variant)


HARNESS_BUILDERS = {"leaf_driver": build_leaf}
