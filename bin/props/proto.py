# proto.py - properties decided on the protocol model (coq/Client.v): proof obligations of
# Properties_<id>.v + correspondence of the extracted model with the real ftp::client driven through
# its public API against the scripted peer + the property's own oracle (reference expectation of
# bin/scenarios.py and direct checks on what the peer saw).
import json, os, random, re, sys, time
sys.path.insert(0, os.path.dirname(os.path.dirname(os.path.abspath(__file__))))
import vlib, protolib as P, scenarios as S
from props import registry

H = P.H


# ---------------------------------------------------------------------------------------------- canonicalisation
def hx(s):
    return s.encode().hex() if isinstance(s, str) else bytes(s).hex()


def canon_maps(scn, res):
    """textual substitutions that turn what the real run saw (ephemeral ports, loopback addresses) into
    the names the model uses"""
    subs = []
    for si, s in enumerate(scn["sessions"]):
        log = res["peer"][si]
        ports = list(log.get("announced_ports", []))
        addrs = list(log.get("announced_addrs", []))
        for ri, r in enumerate(s["reactions"]):
            if r.get("listen") and ports:
                actual = ports.pop(0)
                at = addrs.pop(0) if addrs else log["addr"]
                mp = P.MODEL_PORT + ri
                subs.append((hx("(|||%d|)" % actual), hx("(|||%d|)" % mp)))
                subs.append((hx("%s,%d,%d)" % (at.replace(".", ","), actual // 256, actual % 256)),
                             hx("127,0,0,1,%d,%d)" % (mp // 256, mp % 256))))
    return subs


EPRT_RE = re.compile(rb"EPRT \|([12])\|([0-9a-fA-F:.]+)\|(\d+)\|")
PORT_RE = re.compile(rb"PORT (\d+),(\d+),(\d+),(\d+),(\d+),(\d+)")


def canon_line(line):
    """command lines that carry the client's ephemeral listening endpoint"""
    m = EPRT_RE.fullmatch(line)
    if m:
        return b"EPRT |%s|%s|50000|" % (m.group(1), b"::1" if m.group(1) == b"2" else b"127.0.0.1")
    m = PORT_RE.fullmatch(line)
    if m:
        return b"PORT 127,0,0,1,195,80"
    return line


def canon_tokens(ev, scn, res, ci):
    subs = res.setdefault("_subs", canon_maps(scn, res))
    out = []
    # an observer that unregisters ITSELF from inside its next callback (call kind R a a, placed right before this call):
    # it is told that one event - the first of this call - and nothing further. The model is given remove_observer(a)
    # before the call, so that single notification is taken out here; anything more stays in and shows as a difference.
    selfrm = None
    if ci > 0 and scn["calls"][ci - 1][0] == "R" and scn["calls"][ci - 1][1] == scn["calls"][ci - 1][2]:
        selfrm = "O%d:" % scn["calls"][ci - 1][1]
        first = next((t for t in ev if t.startswith("O")), None)
        if first is None or not first.startswith(selfrm):
            selfrm = None          # (not told at all, or not first: left as it is - a difference)
    for t in ev:
        if selfrm and t.startswith(selfrm):
            selfrm = None
            continue
        if t.startswith("O"):
            f = t.split(":")
            if f[1] == "c":
                call = scn["calls"][ci]
                si = call[1] if call[0] == "C" else 0
                t = "%s:c:%s:%d" % (f[0], hx("peer%d" % si), 2100 + si)
            elif f[1] == "q":
                t = "%s:q:%s" % (f[0], H(canon_line(bytes.fromhex(f[2]) if f[2] != "-" else b"")))
            elif f[1] == "r":
                body = f[3]
                for a, b in subs:
                    body = body.replace(a, b)
                t = "%s:r:%s:%s" % (f[0], f[2], body)
        out.append(t)
    return out


def canon_out(o, scn, res):
    subs = res.setdefault("_subs", canon_maps(scn, res))
    o = P.norm_out(o)
    for a, b in subs:
        o = o.replace(a, b)
    return o


# ---------------------------------------------------------------------------------------------- comparing with the model
def correspondence(scn, res, projections):
    """list of (call index, projection, implementation, model) disagreements"""
    dis = []
    ic, mc = res["calls"], res["model"]
    if len(ic) != len(mc) and scn.get("skip_corr_from") is None:
        dis.append((min(len(ic), len(mc)), "number-of-calls-completed", str(len(ic)), str(len(mc))))
    for ci, (a, b) in enumerate(zip(ic, mc)):
        if scn.get("skip_corr_from") is not None and ci >= scn["skip_corr_from"]:
            break           # calls the model does not cover (a host name that does not resolve): judged by the oracles alone
        if "out" in projections:
            ao, bo = canon_out(a["out"], scn, res), b["out"]
            exp = scn.get("exp") or []
            if ci < len(exp) and exp[ci].get("may_throw") and "throw" in (ao, bo) and (ao.startswith("ret") or bo.startswith("ret")):
                ao = bo        # the property allows the call to report an error here (kernel-dependent)
            if ao != bo:
                dis.append((ci, "out", ao[:300], bo[:300]))
        if a["out"] in ("blocked", "CRASH"):
            break
        if "state" in projections:
            if (a["open"], a["type"]) != (b["open"], b["type"]):
                dis.append((ci, "state(open,type)", str((a["open"], a["type"])), str((b["open"], b["type"]))))
        if "held" in projections and a["fds"] != b["held"]:
            dis.append((ci, "sockets-held", str(a["fds"]), str(b["held"])))
        ev = canon_tokens(a["ev"], scn, res, ci)
        if "obs" in projections:
            x, y = P.proj_obs(ev), P.proj_obs(b["ev"])
            if x != y:
                dis.append((ci, "observer-events", " ".join(x)[:400], " ".join(y)[:400]))
        if "io" in projections:
            x, y = P.proj_io(ev), P.proj_io(b["ev"])
            if scn["calls"][ci][0] == "F":      # the listing's sink is the library's own string stream
                x = [t for t in x if not t.startswith("SW") and t != "sf"]
                y = [t for t in y if not t.startswith("SW") and t != "sf"]
            if x != y:
                dis.append((ci, "callback/sink-events", " ".join(x)[:400], " ".join(y)[:400]))
    if "wire" in projections:
        mw = []
        cut = scn.get("skip_corr_from")
        for bi, b in enumerate(mc):
            if cut is not None and bi >= cut:
                break                 # (calls outside the model: what they put on the wire is left to the oracles)
            mw += P.model_wire(b["ev"])
        pw = []
        for log in res["peer"]:
            for l in log["lines"]:
                line = l["line"]
                line = line[:-2] if line.endswith(b"\r\n") else line
                pw.append((l["secured"], canon_line(line)))
        if cut is not None:
            pw = pw[:len(mw)]
        if mw != pw:
            # a client that closes with replies still unread resets the connection: its QUIT may be lost with the reset
            lossy = sum(1 for log in res["peer"] if log.get("connected") and log.get("ctl_eof") != "clean")
            quits = [i for i, (sec, l) in enumerate(mw) if l == b"QUIT"]
            import itertools
            for r in range(1, min(lossy, len(quits)) + 1):
                for drop in itertools.combinations(quits, r):
                    if [x for i, x in enumerate(mw) if i not in drop] == pw:
                        mw = pw
                        break
                if mw == pw:
                    break
        if mw != pw:
            k = 0
            while k < min(len(mw), len(pw)) and mw[k] == pw[k]:
                k += 1
            dis.append((-1, "command-lines-on-the-wire(index %d)" % k, str(pw[k:k + 3]), str(mw[k:k + 3])))
    return dis


# ---------------------------------------------------------------------------------------------- reference oracles
def returned_marks(out):
    return re.findall(r"5b6d(\w+?)5d", out)      # "[m" ... "]" in hex


def mark_of(rp):
    m = re.search(rb"\[m(\d+)\]", rp[2])
    return m.group(1).decode().encode().hex() if m else None


def oracle_lockstep(scn, res):
    """C02: the replies a call returns are exactly the replies generated for its own commands"""
    v = []
    for ci, (e, a) in enumerate(zip(scn["exp"], res["calls"])):
        if a["out"] in ("blocked", "CRASH") or a["out"].startswith("throw"):
            if not e["throws"] and not e.get("may_throw"):
                v.append((ci, "lockstep/call-does-not-return", "expected the replies %s, got %s" % (
                    [r[1] for r in e["replies"]], a["out"][:80])))
            break
        if e["kind"] in ("+", "-", "M", "Y"):
            continue
        want = [mark_of(r) for r in e["replies"]]
        if e.get("returns_last_only"):
            want = want[-1:]
        got = returned_marks(a["out"])
        if got != want:
            kind = "lockstep/replies-of-another-command" if set(got) - set(want) else "lockstep/reply-left-unread-or-dropped"
            shape = scn.get("abor_shape")
            if e.get("cancelled") and shape in ("already-complete", "abor-refused") and got == want[:-1]:
                codes = [r[1] for r in e["replies"]]
                if b"ABOR" in e["cmds"] and 426 not in codes[:-1][-1:]:
                    kind = "abor/first-reply-not-426/" + ("transfer-already-complete" if shape == "already-complete" else "abor-refused")
            v.append((ci, kind, "call %d (%s) returned marks %s, its own commands were answered with %s" % (
                ci, e["kind"], [bytes.fromhex(x).decode() for x in got], [bytes.fromhex(x).decode() for x in want])))
            break
    return v


def oracle_abor_order(scn, res):
    """C02 / C12: a cancelled upload - ABOR is sent while the data connection is still open (it is closed after the replies to
    ABOR). A client that signals end of file first makes an RFC 959 server complete the transfer and answer ABOR with one
    reply: process_abort then leaves it unread."""
    v = []
    for ci, (e, a) in enumerate(zip(scn["exp"], res["calls"])):
        if a["out"] in ("blocked", "CRASH"):
            break
        if e["kind"] != "U" or not e.get("cancelled"):
            continue
        si, ri = scn["xfer_map"].get(ci, (None, None))
        if si is None:
            continue
        for d in res["peer"][si]["data"]:
            if d.get("ri") == ri and d.get("kind") == "recv" and d.get("ended_before_abor"):
                v.append((ci, "abor/data-connection-ended-before-ABOR",
                          "the peer saw end of file on the data connection of the cancelled upload before it received ABOR"))
    return v


def oracle_commands(scn, res):
    """C10 / C09: the peer received exactly the prescribed command lines, one line per step"""
    v = []
    want = []
    sure = None
    for ci, e in enumerate(scn["exp"]):
        if ci >= len(res["calls"]):
            break
        if scn.get("reference_valid_until") is not None and ci == scn["reference_valid_until"]:
            sure = len(want)
        if e.get("cmds_only_if_returned") and res["calls"][ci]["out"].startswith("throw"):
            continue              # (a write that failed part-way: no complete line reached the peer - and none may have)
        want += [canon_line(c) for c in e["cmds"]]
        if res["calls"][ci]["out"] in ("blocked", "CRASH"):
            break
    got = []
    for log in res["peer"]:
        for k, l in enumerate(log["lines"]):
            if log.get("stayed_plain_from") is not None and k >= log["stayed_plain_from"]:
                break             # (the peer left TLS on its own: what it reads from here are TLS records, judged by the tls oracle)
            line = l["line"]
            if not line.endswith(b"\r\n"):
                v.append((-1, "wire/line-not-terminated-by-CRLF", repr(line)))
            got.append(canon_line(line[:-2] if line.endswith(b"\r\n") else line.rstrip(b"\n")))
    if sure is not None and len(got) >= sure and got == want[:len(got)]:
        # the server wrote replies nobody asked for: the client answers its next command from them and may close (reset)
        # the connection while its last command lines are still unread at the peer - those can be lost
        got = want
    if got != want:
        k = 0
        while k < min(len(got), len(want)) and got[k] == want[k]:
            k += 1
        v.append((-1, "commands/not-as-prescribed", "command #%d: peer received %r, prescribed %r" % (k, got[k:k + 2], want[k:k + 2])))
    return v


def oracle_state(scn, res):
    """is_connected() / get_transfer_type() after every call as the reference table says"""
    v = []
    for ci, (e, a) in enumerate(zip(scn["exp"], res["calls"])):
        if a["out"] in ("blocked", "CRASH"):
            break
        if a["type"] != e["type_after"]:
            v.append((ci, "type/changed-without-positive-TYPE-reply", "reported %s, expected %s" % (a["type"], e["type_after"])))
        if e.get("check_open", True) and a["open"] != (1 if e["open_after"] else 0):
            v.append((ci, "connected/flag-wrong", "is_connected()=%s expected %s" % (a["open"], e["open_after"])))
    return v


def oracle_sockets(scn, res):
    """C17: one socket while connected, none otherwise, after every call and after destruction"""
    v = []
    for ci, a in enumerate(res["calls"]):
        if a["out"] in ("blocked", "CRASH"):
            break
        if a["fds"] != a["open"]:
            v.append((ci, "sockets/held-after-call", "is_connected()=%s but %s descriptors held" % (a["open"], a["fds"])))
    d = res.get("destroyed")
    if d and res["status"] == "ok" and d != "destroyed fds=0":
        v.append((-1, "sockets/held-after-destruction", d))
    return v


def oracle_observers(scn, res):
    """C14: what each observer was told is the control-channel transcript of its registration interval"""
    v = []
    registered = []
    for ci, (e, a) in enumerate(zip(scn["exp"], res["calls"])):
        if a["out"] in ("blocked", "CRASH"):
            break
        if scn.get("reference_valid_until") is not None and ci >= scn["reference_valid_until"]:
            break           # (the session is out of step by the server's doing: only the model predicts from here)
        call = scn["calls"][ci]
        if call[0] == "+":
            registered.append(call[1])
            continue
        if call[0] == "-":
            registered = [x for x in registered if x != call[1]]
            continue
        if call[0] == "R":       # unregistered from inside a callback of an observer registered before it: nothing further
            registered = [x for x in registered if x != call[2]]
            continue
        # transcript of this call, from the reference expectation: request lines and replies in wire order
        ev = canon_tokens(a["ev"], scn, res, ci)
        per = {}
        for t in ev:
            if t.startswith("O"):
                f = t.split(":", 1)
                per.setdefault(int(f[0][1:]), []).append(f[1])
        ids = sorted(set(registered))
        for o in list(per):
            if o not in ids:
                v.append((ci, "observer/removed-observer-still-notified", "observer %d got %s" % (o, per[o][:3])))
        seqs = [tuple(per.get(o, [])) for o in ids]
        for o, sq in zip(ids, seqs):
            k = registered.count(o)
            if k > 1:        # registered k times: each event k times in a row
                if list(sq) != [x for x in sq[::k] for _ in range(k)]:
                    v.append((ci, "observer/multiple-registration-order", str(sq[:6])))
                sq = sq[::k]
            # a call that is answered by something that is no reply (garbage, a line that does not fit the buffer): the
            # observers are told of no reply
            if e.get("throws") and e.get("replies") == [] and e.get("cmds") and any(x.startswith("r:") for x in sq) \
                    and not e.get("reply_optional") and not e.get("may_throw"):
                v.append((ci, "observer/told-of-a-reply-that-is-not-on-the-wire", "observer %d was told %s" % (o, [x[:40] for x in sq if x.startswith("r:")][:2])))
            # requests must be the prescribed command lines, replies the returned ones
            reqs = [bytes.fromhex(x.split(":")[1]) if x.split(":")[1] != "-" else b"" for x in sq if x.startswith("q:")]
            want = [canon_line(c) for c in e["cmds"]]
            if not a["out"].startswith("throw") and reqs != want:
                v.append((ci, "observer/requests-differ-from-wire", "observer %d saw %r, wire %r" % (o, reqs[:4], want[:4])))
            reps = [x.split(":")[2] for x in sq if x.startswith("r:")]
            got = re.findall(r"(?<=:)[0-9a-f]{6,}|(?<=:)-", a["out"]) if False else None
            marks_seen = [m for x in sq if x.startswith("r:") for m in returned_marks(x)]
            if not a["out"].startswith("throw"):
                if e.get("returns_last_only"):
                    ok = returned_marks(a["out"]) == marks_seen[-1:]
                else:
                    ok = returned_marks(a["out"]) == marks_seen
                if not ok:
                    v.append((ci, "observer/replies-differ-from-returned", "observer %d saw marks %s, call returned %s" % (
                        o, marks_seen, returned_marks(a["out"]))))
            # a listing that returned: the observer was told the listing text - exactly once, exactly the text returned,
            # after the preliminary and before the completion reply (also when the listing is empty)
            if call[0] == "F" and a["out"].startswith("ret:list:") and e.get("moves_data"):
                ls = [i for i, x in enumerate(sq) if x.startswith("l:")]
                text = a["out"].rsplit(":", 1)[1]
                rs = [i for i, x in enumerate(sq) if x.startswith("r:")]
                if len(ls) != 1:
                    v.append((ci, "observer/listing-text-not-told-once", "observer %d was told the listing %d times (text %s)" % (o, len(ls), text[:40])))
                elif sq[ls[0]][2:] != text:
                    v.append((ci, "observer/listing-text-differs", "observer %d: %s vs returned %s" % (o, sq[ls[0]][2:42], text[:40])))
                elif len(rs) >= 2 and not (rs[-2] < ls[0] < rs[-1]):
                    v.append((ci, "observer/listing-text-out-of-order", "positions: replies %s, listing %s" % (rs, ls)))
        # a command given to a client whose connection is closed: it is reported (before the write), then the write fails
        if call[0] == "S" and e.get("throws") and e.get("cmds") == [] and a["out"].startswith("throw") and a["open"] == 0:
            line = call[1] + (b" " + call[2] if call[2] is not None else b"")
            for o, sq in zip(ids, seqs):
                k = registered.count(o)
                if list(sq) != ["q:" + (line.hex() or "-")] * k:
                    v.append((ci, "observer/command-not-reported-before-the-write",
                              "observer %d was told %s of %r on a closed connection" % (o, [x[:24] for x in sq[:3]] or "nothing", line)))
        # registration order at every event: the global log interleaves observers in registration order
        order = [int(t.split(":")[0][1:]) for t in ev if t.startswith("O")]
        n = len(registered)
        if n and order:
            if len(order) % n != 0 or any(order[i:i + n] != registered for i in range(0, len(order), n)):
                v.append((ci, "observer/not-served-in-registration-order", "order %s, registered %s" % (order[:8], registered)))
    return v


def to_crlf(s):
    """coq/Ascii.v to_crlf: CR LF stays, a lone CR and a lone LF become CR LF"""
    out, i = bytearray(), 0
    while i < len(s):
        c = s[i]
        if c == 13:
            out += b"\r\n"
            i += 2 if i + 1 < len(s) and s[i + 1] == 10 else 1
        elif c == 10:
            out += b"\r\n"
            i += 1
        else:
            out.append(c)
            i += 1
    return bytes(out)


def from_crlf(s):
    """coq/Ascii.v from_crlf: CR LF becomes LF, everything else stays"""
    return bytes(s).replace(b"\r\n", b"\n")


def oracle_transfers(scn, res):
    """C03 / C04 / C07 / C12: what moved, what the callback and the sink were told"""
    v = []
    for ci, (e, a) in enumerate(zip(scn["exp"], res["calls"])):
        if a["out"] in ("blocked", "CRASH"):
            break
        if e["kind"] not in ("D", "U", "F"):
            continue
        ev = a["ev"]
        io = [t for t in ev if re.fullmatch(r"p[01]|b|e|sf|n\d+|sw[:#].*|sr\d+:\d+", t)]
        if e.get("refused"):
            moved = [t for t in io if not re.fullmatch(r"p[01]", t)]
            if moved:
                v.append((ci, "refused/data-moved-or-callback-invoked", " ".join(P.shorten(t) for t in moved[:6])))
            if not a["out"].startswith("throw"):
                last = re.findall(r"(\d{3}):", a["out"])
                if not last or int(last[-1]) < 400:
                    v.append((ci, "refused/result-not-negative", a["out"][:120]))
                if e["kind"] == "F" and a["out"].startswith("ret:list:") and a["out"].rsplit(":", 1)[1] != "-":
                    v.append((ci, "refused/listing-returned-text", "a refused listing came back with %d bytes of text" % (len(a["out"].rsplit(":", 1)[1]) // 2)))
            continue
        if a["out"].startswith("throw"):
            # C05 (Ascii_Global.v, both branches): a failing ASCII download still leaves in the sink the conversion of what
            # it read - a prefix of what the peer sent; with a CR read last held back when the data loop failed (no flush)
            pl = e.get("payload")
            if e["kind"] == "D" and scn["cfg_type_at"].get(ci, "I") == "A" and pl is not None and len(pl) <= 4096 \
                    and not e.get("cancelled") and scn["calls"][ci][3] is None:
                sw0 = [P.sw_len_hash(t) for t in io if t.startswith("sw")]
                got_len, got_hash = sum(n for n, _ in sw0), 0
                for n, h in sw0:
                    got_hash = (got_hash * pow(P.HB, n, P.HM) + h) % P.HM
                flushed = "sf" in io
                cands = set()
                for k in range(len(pl) + 1):
                    c = from_crlf(pl[:k])
                    if not flushed and pl[:k].endswith(b"\r"):
                        c = c[:-1]
                    cands.add((len(c), P.poly_hash(c)))
                if (got_len, got_hash) not in cands:
                    v.append((ci, "download/ascii-sink-is-not-the-conversion-of-what-was-read",
                              "the call failed; its sink holds %d bytes%s, which is not the conversion of any prefix of the %d bytes sent" % (
                                  got_len, " (flushed)" if flushed else "", len(pl))))
            continue
        call = scn["calls"][ci]
        cb = call[2] if e["kind"] == "D" else (call[4] if e["kind"] == "U" else None)
        sw = [P.sw_len_hash(t) for t in io if t.startswith("sw")]
        sunk_len = sum(n for n, _ in sw)
        sunk_hash = 0
        for n, h in sw:
            sunk_hash = (sunk_hash * pow(P.HB, n, P.HM) + h) % P.HM
        sunk = sunk_len > 0
        typ = scn["cfg_type_at"].get(ci, "I")
        if e["kind"] == "D" and not e.get("cancelled") and typ == "I":
            if (sunk_len, sunk_hash) != (len(e["payload"]), P.poly_hash(e["payload"])):
                v.append((ci, "download/sink-differs-from-payload", "sink got %d bytes, peer sent %d" % (sunk_len, len(e["payload"]))))
            if [t for t in io if t in ("sf",)] != ["sf"] or (io and [t for t in io if t.startswith("sw") or t == "sf"][-1] != "sf"):
                v.append((ci, "download/flush-not-once-at-the-end", " ".join(t[:8] for t in io[-6:])))
        if e["kind"] == "D" and not e.get("cancelled") and typ == "A":
            want = from_crlf(e["payload"])
            if (sunk_len, sunk_hash) != (len(want), P.poly_hash(want)):
                v.append((ci, "download/ascii-sink-differs-from-converted-payload", "sink got %d bytes, the payload of %d converts to %d" % (sunk_len, len(e["payload"]), len(want))))
            if [t for t in io if t in ("sf",)] != ["sf"] or (io and [t for t in io if t.startswith("sw") or t == "sf"][-1] != "sf"):
                v.append((ci, "download/flush-not-once-at-the-end", " ".join(t[:8] for t in io[-6:])))
        if e["kind"] == "F" and typ == "A" and not a["out"].startswith("throw"):
            txt = a["out"].rsplit(":", 1)[1]
            if (b"" if txt == "-" else bytes.fromhex(txt)) != from_crlf(e["payload"]):
                v.append((ci, "listing/ascii-text-differs-from-converted-payload", "got %d bytes" % (len(txt) // 2)))
        if e["kind"] == "F" and typ == "I" and not a["out"].startswith("throw"):
            txt = a["out"].rsplit(":", 1)[1]
            if (b"" if txt == "-" else bytes.fromhex(txt)) != e["payload"]:
                v.append((ci, "listing/text-differs-from-payload", "got %d bytes, peer sent %d" % (len(txt) // 2, len(e["payload"]))))
        if cb is not None:
            polls = [t for t in io if t in ("p0", "p1")]
            notes = [int(t[1:]) for t in io if re.fullmatch(r"n\d+", t)]
            nb, ne = io.count("b"), io.count("e")
            first = polls[0] if polls else None
            if first == "p1":
                if nb or ne or notes or sunk:
                    v.append((ci, "callback/cancelled-before-start-but-something-happened", " ".join(t[:8] for t in io[:8])))
            else:
                if nb != 1 or ne != 1:
                    v.append((ci, "callback/begin-end-not-once", "begin x%d end x%d" % (nb, ne)))
                # order: p b (block n p)* e p
                seq = [t if not t.startswith("sw") and not t.startswith("sr") else None for t in io]
                seq = [t for t in seq if t and t != "sf"]
                shape = "".join("p" if t in ("p0", "p1") else ("n" if t[0] == "n" else t) for t in seq)
                if not re.fullmatch(r"pb(np)*ep?", shape):
                    v.append((ci, "callback/order", shape[:60]))
                if any(n > 8192 or n == 0 for n in notes):
                    v.append((ci, "callback/block-larger-than-8192", str(notes[:5])))
                # no block after the first 'cancelled' answer
                if "p1" in polls:
                    k = io.index("p1")
                    after = [t for t in io[k + 1:] if re.fullmatch(r"n\d+", t) or t.startswith("sw")]
                    if after and not (after == ["sw:0d"]):
                        v.append((ci, "callback/block-moved-after-cancellation", " ".join(t[:10] for t in after[:4])))
            moved = sum(notes)
            if e["kind"] == "D" and typ == "I" and not e.get("cancelled") and moved != len(e["payload"]):
                v.append((ci, "callback/notify-sum-differs-from-bytes-moved", "%d vs %d" % (moved, len(e["payload"]))))
        if e["kind"] == "U":
            si, ri = scn["xfer_map"].get(ci, (None, None))
            recs = [d for d in res["peer"][si]["data"] if d["kind"] == "recv" and d.get("ri") == ri] if si is not None else []
            k = 0
            if k < len(recs):
                rec = recs[k]
                if typ == "A" and not e.get("cancelled") and not e.get("source_has_empty_read") and rec["bytes"] != to_crlf(e["source"]):
                    v.append((ci, "upload/ascii-peer-received-other-bytes", "peer got %d bytes, the source of %d converts to %d" % (len(rec["bytes"]), len(e["source"]), len(to_crlf(e["source"])))))
                if typ == "I" and not e.get("cancelled") and rec["bytes"] != e["source"]:
                    v.append((ci, "upload/peer-received-other-bytes", "peer got %d bytes, source holds %d" % (len(rec["bytes"]), len(e["source"]))))
                # C04: end of file is signalled by closing the data connection - after a TLS close-notify when TLS is on
                if not e.get("cancelled") and rec.get("eof") in ("truncated", "reset"):
                    v.append((ci, "upload/data-connection-not-ended-cleanly",
                              "the peer saw the upload's data connection end by %s" % (
                                  "a TCP close without the TLS close-notify" if rec["eof"] == "truncated" else "a reset")))
                if cb is not None and (not e.get("cancelled") or e.get("drained_after_abor")):
                    notes = [int(t[1:]) for t in io if re.fullmatch(r"n\d+", t)]
                    if sum(notes) != len(rec["bytes"]):
                        v.append((ci, "callback/notify-sum-differs-from-bytes-moved", "%d vs %d" % (sum(notes), len(rec["bytes"]))))
    return v


def oracle_terminates(scn, res):
    """C08 at the client: whatever the server does and wherever it closes, every call ends by returning or by throwing
    ftp::ftp_exception - it does not hang once the server has closed, crash, trip a sanitizer or let another exception
    type escape"""
    v = []
    for ci, a in enumerate(res["calls"]):
        o = a["out"]
        if o == "blocked":
            silent = any(len(log["lines"]) > len(sess["reactions"]) for log, sess in zip(res["peer"], scn["sessions"]))
            if not silent:
                v.append((ci, "fault/call-does-not-end", "the call was still running although the peer had answered or closed"))
            break
        if o == "CRASH":
            v.append((ci, "fault/crash-or-sanitizer-report", (a.get("stderr") or "")[-400:]))
            break
        if o.startswith("throw:") and not o.startswith("throw:ftp_exception"):
            v.append((ci, "fault/foreign-exception-type", o[:120]))
    return v


ORACLES = dict(lockstep=oracle_lockstep, abor_order=oracle_abor_order, commands=oracle_commands, state=oracle_state, sockets=oracle_sockets,
               observers=oracle_observers, transfers=oracle_transfers, terminates=oracle_terminates)


# ---------------------------------------------------------------------------------------------- generators
TEXTS = [b"file.txt", b"dir/sub", b"a b", b"", b"x" * 40, b"\xff\x00z", b"-l", b"*", b"nul\x00inside", b"\x00.bak"]
SIMPLE = [(b"CWD", True), (b"CDUP", False), (b"PWD", False), (b"DELE", True), (b"MKD", True), (b"RMD", True), (b"SIZE", True),
          (b"MDTM", True), (b"STAT", None), (b"SYST", False), (b"HELP", None), (b"SITE", True), (b"NOOP", False)]


def rand_payload(rng, sizes=(0, 1, 5, 100, 3000)):
    n = rng.choice(sizes)
    data = bytes(rng.choice(b"ab\r\n\x00\xffz ") for _ in range(n))
    segs, pos = [], 0
    while pos < n:
        k = rng.choice([1, 2, 7, 100, 1460, 8192, n])
        segs.append(data[pos:pos + k])
        pos += k
    return segs


def add_simple(b, rng, code=None):
    verb, takes = rng.choice(SIMPLE)
    arg = rng.choice(TEXTS) if takes is True else (rng.choice([None, rng.choice(TEXTS)]) if takes is None else None)
    if verb == b"SITE" and arg == b"HELP":
        arg = b"CHMOD 644 f"
    b.simple(verb, arg, code, multi=(rng.random() < 0.3))


def add_transfer(b, rng, dist, **kw):
    kind = kw.pop("kind", None) or rng.choice(["D", "U", "F"])
    # the preliminary reply: 150 (about to open the data connection), 125 (already open), any other 1yz
    kw.setdefault("cmd_code", rng.choice([150, 150, 150, 125, 125, 100, 199]))
    if kind == "U":
        chunks = [c for c in rand_payload(rng) if c]
        b.transfer("U", rng.choice(TEXTS), chunks=chunks, upverb=rng.choice("SUA"), **kw)
    elif kind == "D":
        b.transfer("D", rng.choice(TEXTS), payload_segs=rand_payload(rng), completion=rng.choice(["now", "after_data", "on_close"]), **kw)
    else:
        b.transfer("F", rng.choice([None, b"dir", b""]), payload_segs=rand_payload(rng, (0, 30, 400)), names=rng.random() < 0.5,
                   completion=rng.choice(["now", "after_data", "on_close"]), **kw)
    dist.add("transfer:%s:%s%s" % (kind, b.mode, "-rfc2428" if b.rfc else ""))


def gen_mixed(rng, tier, dist, n, tls=False, observers=True, refusals=True, cancels=True, cfgs=None):
    """histories mixing every kind of call, with every reply class at the steps that branch"""
    out = []
    for i in range(n):
        mode, rfc = cfgs[i % len(cfgs)] if cfgs else rng.choice([("P", True), ("P", False), ("A", True), ("A", False)])
        b = S.Builder(rng, mode=mode, rfc=rfc, type=rng.choice("IIA"), tls=tls, resume=rng.random() < 0.5 if tls else False)
        if observers and rng.random() < 0.7:
            b.add_observer(1)
            if rng.random() < 0.4:
                b.add_observer(2)
        greeting = rng.choice([(220,), (220,), (220,), (120, 220)])
        plan = dict(user=rng.choice([331, 331, 331, 230, 332, 530, 421 if False else 500]), **{"pass": rng.choice([230, 230, 230, 202, 332, 530, 503])},
                    type=rng.choice([200, 200, 200, 504]), pbsz=rng.choice([200, 200, 200, 503]), prot=rng.choice([200, 200, 200, 534]))
        login = rng.choice([(b"user", b"secret")] * 6 + [(b"", b"pw"), (b"", b""), (b" ", b"x")] + [None] * 3)
        b.connect(login=login, greeting=greeting, plan=plan)
        if login is None and rng.random() < 0.8:
            b.login(b"anonymous", b"a@b", plan=dict(plan, user=rng.choice([331, 230])))
        for _ in range(rng.randrange(1, 9)):
            r = rng.random()
            if r < 0.3:
                add_simple(b, rng)
                dist.add("call:simple")
            elif r < 0.38:
                b.set_type(rng.choice("IA"), rng.choice([200, 200, 504, 150 if False else 250]))
                dist.add("call:set_type")
            elif r < 0.46:
                b.rename(rng.choice(TEXTS), rng.choice(TEXTS), rng.choice([350, 350, 550, 450, 250, 331, 332, 300, 399, 351]), rng.choice([250, 553]))
                dist.add("call:rename")
            elif r < 0.5 and observers:
                if rng.random() < 0.5:
                    b.add_observer(rng.choice([1, 2, 3]))
                else:
                    b.remove_observer(rng.choice([1, 2, 3]))
                dist.add("call:observer-add/remove")
            elif r < 0.53:
                # logout (REIN answered by one reply, by 120 + the final one, or refused), usually followed by a new login
                b.logout(codes=rng.choice([(220,), (220,), (120, 220), (500,), (120, 421) if False else (230,)]))
                if rng.random() < 0.7:
                    b.login(rng.choice([b"other", b"", b"anonymous"]), b"pw2", plan=dict(plan, user=rng.choice([331, 230, 530])))
                dist.add("call:logout(+login)")
            elif r < 0.57:
                b.mode, b.rfc = rng.choice([("P", True), ("P", False), ("A", True), ("A", False)])
                b.add_call(("M", b.mode))
                b.add_call(("Y", b.rfc))
                dist.add("call:set-mode/rfc2428")
            else:
                rr = rng.random()
                if refusals and rr < 0.3:
                    add_transfer(b, rng, dist, refuse_at=rng.choice(["setup", "cmd"]), refuse_code=rng.choice(S.NEG_CODES))
                    dist.add("transfer:refused")
                elif cancels and rr < 0.45:
                    kind = rng.choice(["D", "U"])
                    nblocks = rng.choice([0, 1, 2])
                    cb = [False] * (1 + nblocks) + [True] * 6 if nblocks or rng.random() < 0.5 else [True] * 6
                    big = [bytes([65 + k % 26]) * 8192 for k in range(4)]
                    if kind == "D":
                        b.transfer("D", b"big.bin", payload_segs=big + [b"z" * 200000], cb=cb, abor=dict(first=426, second=226))
                    else:
                        b.transfer("U", b"big.bin", chunks=big * 3, cb=cb, abor=dict(first=426, second=226))
                    dist.add("transfer:cancelled-after-%d-blocks" % (cb.index(True) - 1 if True in cb else -1))
                else:
                    cb = rng.choice([None, None, [False] * 40])
                    add_transfer(b, rng, dist, cb=cb)
        if rng.random() < 0.8:
            b.disconnect(rng.random() < 0.7)
        out.append(b.scenario())
    # always there (not left to the draw): logins that follow one another on one connection without REIN in between - each
    # one the full exchange, TYPE for the configured type included - also after an accepted set_transfer_type
    for k in range(4):
        mode, rfc = cfgs[k % len(cfgs)] if cfgs else ALL_METHODS[k % 4]
        b = S.Builder(rng, mode=mode, rfc=rfc, type="IA"[k % 2], tls=tls, resume=False)
        b.connect(login=((b"first", b"pw1") if k < 2 else None))
        b.login(b"carol", b"c")
        if k % 2:
            b.set_type("IA"[(k // 2) % 2], 200)
        b.login(b"dave", b"d")
        add_simple(b, rng, 200)
        b.disconnect(True)
        dist.add("call:login-after-login-without-REIN")
        out.append(b.scenario())
    return out


# ---------------------------------------------------------------------------------------------- targeted families
ALL_METHODS = [("P", True), ("P", False), ("A", True), ("A", False)]


def fam_observers(rng, n, dist):
    """add / remove histories of several observers, including double registration (std::list::remove drops all)"""
    out = []
    for i in range(n):
        b = S.Builder(rng, *rng.choice(ALL_METHODS))
        pool = [1, 2, 3]
        for _ in range(rng.randrange(0, 3)):
            b.add_observer(rng.choice(pool))
        b.connect(login=(b"u", b"p") if rng.random() < 0.5 else None, greeting=rng.choice([(220,), (120, 220)]))
        for _ in range(rng.randrange(2, 9)):
            r = rng.random()
            if r < 0.3:
                b.add_observer(rng.choice(pool))
                dist.add("observer:add")
            elif r < 0.5:
                once = [o for o in b.observers if b.observers.count(o) == 1]
                pairs = [(a, o) for a in once for o in once if b.observers.index(a) < b.observers.index(o)]
                if once and rng.random() < 0.3 and b.observers[0] in once:
                    # ... or itself (the first registered, so that it is told first)
                    a = b.observers[0]
                    b.observers = [x for x in b.observers if x != a]
                    b.add_call(("R", a, a), kind="-")
                    add_simple(b, rng)
                    dist.add("observer:removes-itself-from-inside-its-callback")
                elif pairs and rng.random() < 0.5:
                    # an observer reacts to an event by unregistering another one: that one receives nothing further,
                    # not even the event being delivered
                    a, o = rng.choice(pairs)
                    b.remove_from_callback(a, o)
                    add_simple(b, rng)
                    dist.add("observer:remove-from-inside-a-callback")
                else:
                    b.remove_observer(rng.choice(pool))
                    dist.add("observer:remove")
            elif r < 0.68:
                add_simple(b, rng)
            elif r < 0.75:
                # the server writes more replies than it was asked for, in one piece with the answer: each of them is part
                # of the control channel's transcript - reported when it is received, by whichever call receives it
                b.simple(rng.choice([b"STAT", b"SYST", b"NOOP"]), None, rng.choice([200, 211, 215]), extra=rng.choice([[299], [200, 226], [226]]))
                # the calls that follow each read one reply too early: the reference stops predicting here (the observer
                # oracle is told so), the comparison with the model goes on
                b.out_of_step_from = len(b.calls)
                for _ in range(rng.randrange(1, 3)):
                    add_simple(b, rng)
                dist.add("observer:unsolicited-replies")
                break
            elif r < 0.85:
                b.rename(b"a", b"b", rng.choice([350, 550]))
            else:
                add_transfer(b, rng, dist, refuse_at=rng.choice([None, None, "setup", "cmd"]))
        if getattr(b, "out_of_step_from", None) is not None:
            b.disconnect(rng.random() < 0.5)
            b.exp[-1]["may_throw"] = True
            scn = b.scenario()
            scn["reference_valid_until"] = b.out_of_step_from
            out.append(scn)
            continue
        r = rng.random()
        if r < 0.3 and b.connected:
            # the server gives up: the 421 is a reply like any other for the observers
            b.simple(rng.choice([b"PWD", b"NOOP"]), None, 421, multi=rng.random() < 0.4)
            dist.add("observer:421")
        elif r < 0.65 and b.connected:
            b.disconnect(rng.random() < 0.7)
        if not b.connected and rng.random() < 0.7:
            # commands given to a client that is no longer connected: the observers are told of the command (it is reported
            # BEFORE it is written), then the write fails
            for _ in range(rng.randrange(1, 3)):
                verb = rng.choice([b"NOOP", b"PWD", b"SYST"])
                b.failing(("S", verb, None), cmds=[])
            dist.add("observer:command-on-a-closed-connection")
        out.append(b.scenario())
    # always there (not left to the draw): REIN answered by 120 and then the final reply - the observers are told of both
    for k in range(3):
        b = S.Builder(rng, *ALL_METHODS[k % 4])
        b.add_observer(1)
        if k:
            b.add_observer(2)
        b.connect(login=(b"u", b"p"), greeting=((120, 220) if k == 2 else (220,)))
        add_simple(b, rng, 200)
        b.logout(codes=[(120, 220), (120, 230), (120, 530)][k])
        b.login(b"again", b"pw")
        b.simple(b"NOOP", None, 200)
        b.disconnect(True)
        dist.add("observer:logout-answered-120-then-final")
        out.append(b.scenario())
    # a reply line longer than the receive buffer (8192 bytes with its terminator): the call fails - the observers are told
    # of nothing that is not a reply on the wire (no piece of the line passed off as a reply); a line of exactly the
    # largest size is a reply like any other
    for k in range(4):
        b = S.Builder(rng, *rng.choice(ALL_METHODS))
        b.add_observer(1)
        if k % 2:
            b.add_observer(2)
        b.connect(login=(b"u", b"p"))
        if k == 0:
            b.mark += 1
            text = b"200 " + b"x" * (8192 - 2 - 4 - len(b" [m%d]" % b.mark)) + b" [m%d]" % b.mark      # 8192 bytes with CR LF
            ci = b.simple(b"NOOP", None, 200)
            b.cur[-1]["now"][0] = ("R", 200, text)
            b.exp[ci]["replies"] = [("R", 200, text)]
            b.simple(b"PWD", None, 257)
            b.disconnect(True)
            dist.add("observer:reply-line-of-exactly-8192-bytes")
        else:
            long_line = {1: b"200 " + b"x" * 9000 + b"\r\n",
                         2: b"211-status\r\n" + b"y" * 8192 + b"211 looks like the end\r\n211 end\r\n",
                         3: b"200 " + b"z" * 8188 + b"\r\n"}[k]            # 8194 bytes: two more than fit
            b.cur.append(P.reaction([("G", long_line)], close_after=True))
            b.add_call(("S", b"STAT", None), cmds=[b"STAT"], replies=[], throws=True, check_open=False)
            b.disconnect(False)
            b.exp[-1]["may_throw"] = True
            dist.add("observer:reply-line-longer-than-the-receive-buffer")
        out.append(b.scenario())
    return out


def fam_abor(rng, n, dist):
    """cancelled transfers: the RFC-legal orders of the completion reply and the replies to ABOR"""
    out = []
    shapes = [("in-progress", dict(first=426, second=226), False), ("in-progress-225", dict(first=426, second=225), False),
              ("already-complete", dict(first=226, second=None), True), ("abor-refused", dict(first=502, second=None), False),
              ("abor-225-only", dict(first=225, second=None), False),
              # one negative reply is all the server has to say about it (the transfer is dropped without a word); or the
              # server takes its leave
              ("abor-502-only", dict(first=502, second=None), False), ("abor-500-only", dict(first=500, second=None), False),
              ("abor-421", dict(first=421, second=None), False)]
    for i in range(n):
        name, ab, ff = shapes[i % len(shapes)]
        b = S.Builder(rng, *rng.choice(ALL_METHODS), type=rng.choice("IIA"))
        b.connect(login=(b"u", b"p"))
        kind = rng.choice(["D", "U"])
        nblocks = rng.choice([0, 1, 2]) if not ff else 1
        cb = [False] * (1 + nblocks) + [True] * 8
        if name == "already-complete":
            # small payload: the peer has written everything and its 226 before it reads ABOR
            b.transfer("D", b"small.bin", payload_segs=[b"x" * 8192, b"y" * 100], cb=cb, abor=ab, finish_first=True)
        elif name == "abor-refused":
            big = [bytes([65 + k % 26]) * 8192 for k in range(4)]
            ci = b.transfer(kind, b"big.bin", payload_segs=big + [b"z" * 200000], chunks=big * 3, cb=cb, abor=ab)
            if ci not in b.xfer_map:
                continue
            # the transfer's own completion reply follows when the client closes the data connection
            si, ri = b.xfer_map[ci]
            done = b.m(426, "aborted by close")
            b.sessions[si]["reactions"][ri]["on_close"] = [done]
            b.sessions[si]["reactions"][ri + 1]["drop_pending"] = False
            b.sessions[si]["reactions"][ri + 1]["abort_data"] = False     # ABOR refused: the transfer goes on
            b.sessions[si]["reactions"][ri + 1]["during_transfer"] = True
            b.exp[ci]["replies"] = b.exp[ci]["replies"] + [done]
        else:
            big = [bytes([65 + k % 26]) * 8192 for k in range(4)]
            ci = b.transfer(kind, b"big.bin", payload_segs=big + [b"z" * 200000], chunks=big * 3, cb=cb, abor=ab)
            if name == "abor-421" and ci in b.xfer_map:
                si, ri = b.xfer_map[ci]
                b.sessions[si]["reactions"][ri + 1]["close_after"] = True
                b.connected = False
                b.exp[ci]["open_after"] = False
        if b.connected:
            b.simple(b"NOOP", None, 200)
            b.simple(b"PWD", None, 257)
            b.disconnect(True)
        else:
            b.failing(("S", b"NOOP", None), cmds=[])
            b.disconnect(False)
        dist.add("abor:" + name)
        out.append(b.scenario(abor_shape=name))
    return out


def fam_downloads(rng, n, dist, thorough=False):
    out = []
    sizes = [0, 1, 8191, 8192, 8193, 16383, 16384, 16385, 20000] + ([100000, 1 << 20] if thorough else [])
    for i in range(n):
        mode, rfc = ALL_METHODS[i % 4]
        tls = (i % 3 == 1)                 # "with or without TLS": a third of the sessions are FTPS (TLS 1.2 / 1.3, resumption on / off)
        if tls:
            b = S.Builder(rng, mode, rfc, type="I", tls=True, resume=rng.random() < 0.6, tlsver=rng.choice(["12", "13"]))
            dist.add("download:over-tls")
        else:
            b = S.Builder(rng, mode, rfc, type="I", ip6=(i % 7 == 3))
        b.connect(login=(b"u", b"p"))
        refused_type = rng.random() < 0.3
        if refused_type:
            # TYPE A refused: the session stays binary - for the server and for what the client does to the bytes
            b.set_type("A", rng.choice([504, 500, 501, 502]))
            dist.add("download:after-a-refused-TYPE-A")
        for _ in range(rng.randrange(1, 4)):
            size = rng.choice(sizes)
            data = bytes(rng.randrange(256) for _ in range(min(size, 4096))) * (size // 4096 + 1)
            data = data[:size]
            if refused_type and size >= 16:
                data = b"a\r\nb\nc\rd\r\r\n" + data[11:]
            style = rng.choice(["one", "tiny", "mss", "mixed", "trickle"])
            segs, pos = [], 0
            while pos < size:
                k = {"one": size, "tiny": rng.choice([1, 2, 3]), "mss": 1460, "mixed": rng.choice([1, 100, 1460, 8192, 30000]),
                     "trickle": rng.choice([100, 200, 300])}[style]
                if style == "tiny" and pos > 64:
                    k = size
                segs.append(data[pos:pos + k])
                pos += k
            kind = rng.choice(["D", "D", "F"])
            comp = rng.choice(["now", "after_data", "on_close"])
            pace = rng.choice([None, None, 0.0005]) if style in ("trickle", "tiny") else None
            ci = b.transfer(kind, b"f.bin" if kind == "D" else None, payload_segs=segs, completion=comp,
                            cb=rng.choice([None, [False] * 300]) if kind == "D" else None, names=rng.random() < 0.5)
            if pace and ci in b.xfer_map:
                si, ri = b.xfer_map[ci]
                b.sessions[si]["reactions"][ri]["data"]["pace_s"] = pace
            dist.add("download:size-%d:%s:%s" % (size, style, comp))
        b.disconnect(True)
        out.append(b.scenario())
    # the server ends the data connection by a RESET (crash, SO_LINGER 0, a middlebox): that is not an end of file - the
    # download is reported as an error, never as a complete transfer of what happened to arrive (plain and TLS)
    for k, size in enumerate([0, 1, 8192, 300000] if not thorough else [0, 1, 8191, 8192, 8193, 100000, 300000, 3 << 20]):
        b = S.Builder(rng, *ALL_METHODS[k % 4], type="I", tls=(k % 3 == 2), resume=True, tlsver="12")
        b.connect(login=(b"u", b"p"))
        data = bytes(rng.randrange(256) for _ in range(min(size, 4096))) * (size // 4096 + 1)
        kind = "F" if k % 4 == 3 else "D"
        ci = b.transfer(kind, b"cut.bin" if kind == "D" else None, payload_segs=[data[:size]] if size else [], end="R",
                        completion=rng.choice(["now", "on_close"]), cb=None)
        b.exp[ci].update(throws=True, moves_data=False)
        b.disconnect(False)
        b.exp[-1]["may_throw"] = True
        dist.add("download:ended-by-a-reset:size-%d" % size)
        scn = b.scenario()
        scn["exp"] = [dict(e, check_open=False) for e in scn["exp"]]
        out.append(scn)
    # megabytes on one data connection: still exactly the bytes sent, still ONE flush, after the last byte
    for size in ([(3 << 20) + 5] if not thorough else [(2 << 20) - 1, 2 << 20, (2 << 20) + 1, (5 << 20) + 4097, (33 << 20) + 1]):
        b = S.Builder(rng, *rng.choice(ALL_METHODS), type="I")
        b.connect(login=(b"u", b"p"))
        blk = bytes(rng.randrange(256) for _ in range(65536))
        segs = [blk] * (size // 65536) + ([blk[:size % 65536]] if size % 65536 else [])
        kind = rng.choice(["D", "D", "F"])
        b.transfer(kind, b"big.bin" if kind == "D" else None, payload_segs=segs, completion=rng.choice(["now", "on_close"]),
                   cb=rng.choice([None, [False] * 5000]) if kind == "D" else None)
        b.simple(b"NOOP", None, 200)
        b.disconnect(True)
        dist.add("download:size-%d:megabytes" % size)
        scn = b.scenario()
        scn["call_timeout"] = 30.0
        out.append(scn)
    return out


def fam_ascii(rng, n, dist, thorough=False):
    """ASCII-type transfers end to end: payloads over {CR, LF, x} cut at every kind of boundary (between CR and LF, after a
    lone CR, at the 8192-byte block), with and without a callback, downloads, uploads and listings"""
    out = []
    pieces = [b"one\r\n", b"two\r", b"x\r\r\n", b"three\n", b"\r\n", b"end\r", b"\r", b"\n", b"plain", b"a" * 8190 + b"\r", b"\nrest\r\n"]
    for i in range(n):
        mode, rfc = ALL_METHODS[i % 4]
        b = S.Builder(rng, mode, rfc, type="A")
        b.connect(login=(b"u", b"p"))
        if i % 5 == 0:
            # a text of a few blocks, read from a std::istream in full blocks (the second call of a scenario goes through the
            # public stream adapters): every byte value, 0xFF / 0x00 / CR exactly where a new block begins - "all other bytes
            # unchanged", wherever the source's blocks happen to end
            size = rng.choice([8192, 16384, 20000, 24577])
            text = bytearray(rng.choice(b"abc \r\n\xff\x00\x1a\xe9") for _ in range(size))
            for off in (0, 8191, 8192, 16383, 16384, size - 1):
                if 0 <= off < size:
                    text[off] = rng.choice([0xFF, 0xFF, 0x00, 13, 10])
            text = bytes(text)
            blocks = [text[k:k + 8192] for k in range(0, size, 8192)]
            b.transfer("U", b"big.txt", chunks=blocks, cb=rng.choice([None, [False] * 200]), upverb=rng.choice("SUA"))
            dist.add("ascii:U:full-blocks-with-0xff-at-block-starts")
        for _ in range(rng.randrange(1, 4)):
            data = b"".join(rng.choice(pieces) for _ in range(rng.randrange(0, 7)))
            # cut positions: between CR and LF wherever there is one, plus random cuts
            cuts = sorted(set([k + 1 for k in range(len(data) - 1) if data[k] == 13] + [rng.randrange(0, len(data) + 1) for _ in range(rng.randrange(0, 4))]))
            segs, pos = [], 0
            for c in cuts:
                if c > pos:
                    segs.append(data[pos:c]); pos = c
            if pos < len(data):
                segs.append(data[pos:])
            kind = rng.choice(["D", "D", "U", "F"])
            cb = rng.choice([None, [False] * 200]) if kind != "F" else None
            ci = b.transfer(kind, b"t.txt" if kind != "F" else None, payload_segs=segs, chunks=[x for x in segs if x], cb=cb,
                            completion=rng.choice(["now", "on_close"]), upverb=rng.choice("SUA"))
            if ci in b.xfer_map and kind != "U":
                si, ri = b.xfer_map[ci]
                b.sessions[si]["reactions"][ri]["data"]["pace_s"] = 0.002     # keep the segments apart on the wire
            dist.add("ascii:%s:%s" % (kind, "callback" if cb else "no-callback"))
        b.disconnect(True)
        out.append(b.scenario())
    # an ASCII download / listing whose data connection fails after a CR (TLS stream cut without close-notify: every byte sent
    # arrives, then the error): the data loop ends without a flush, the sink holds the conversion of what was read with that
    # last CR held back - never the CR as if the text had ended there (Ascii_Global.v, the branch without a flush)
    for k, payload in enumerate([b"line\r\nab\r", b"x\r\r", b"\r"]):
        b = S.Builder(rng, *ALL_METHODS[k % 4], type="A", tls=True, resume=True, tlsver="12", verify="trusted")
        b.connect(login=(b"u", b"p"))
        kind = "F" if k == 1 else "D"
        b.transfer(kind, b"cut.txt" if kind == "D" else None, payload_segs=[payload], cb=[None, [False] * 20][k % 2] if kind == "D" else None,
                   data_fault="truncate")
        b.disconnect(False)
        dist.add("ascii:%s:cut-after-a-CR" % kind)
        out.append(b.scenario())
    return out


def fam_faults(rng, n, dist, thorough=False):
    """a dialogue cut by the server at every position: clean close, reset, or a reply cut in the middle and then close -
    before the greeting, inside a reply code, inside a multi-line reply, between the preliminary and the completion reply,
    during the data transfer; plain and TLS"""
    out = []
    bases = ["simple", "download", "upload", "list", "rename", "login-only"]
    for i in range(n):
        tls = (i % 5 == 4)
        mode, rfc = ALL_METHODS[i % 4]
        b = S.Builder(rng, mode, rfc, type=rng.choice("IA"), tls=tls, resume=True, tlsver="12", verify="trusted")
        base = bases[i % len(bases)]
        b.connect(login=(b"u", b"p"), greeting=rng.choice([(220,), (120, 220)]))
        if base == "simple":
            b.simple(b"PWD", None, 257, multi=True); b.simple(b"NOOP", None, 200)
        elif base == "download":
            b.transfer("D", b"f.bin", payload_segs=[b"x" * 9000, b"y" * 100], cb=rng.choice([None, [False] * 20]), completion="on_close")
        elif base == "upload":
            b.transfer("U", b"u.bin", chunks=[b"z" * 8192, b"w" * 10], cb=None)
        elif base == "list":
            b.transfer("F", None, payload_segs=[b"a\r\nb\r\n"], completion=rng.choice(["now", "on_close"]))
        elif base == "rename":
            b.rename(b"a", b"b"); b.simple(b"SYST", None, 215)
        b.simple(b"NOOP", None, 200)
        b.disconnect(True)
        scn = b.scenario()
        sess = scn["sessions"][0]
        nre = len(sess["reactions"])
        k = rng.randrange(-1, nre)            # -1: the greeting itself
        how = rng.choice(["close", "reset", "partial", "partial-code", "data-reset", "data-bare-close", "garbled-setup"])
        r = sess["greeting"] if k < 0 else sess["reactions"][k]
        if how == "garbled-setup":
            how = "close"           # (garbled set-up replies have their own, systematic, scenarios below)
        if how in ("data-reset", "data-bare-close") and not any(x.get("data") for x in sess["reactions"]):
            how = "close"
        if how == "close":
            r["close_after"] = True; r["on_close"] = []       # (what would have been written later is never written)
        elif how == "reset":
            r["reset_after"] = True; r["close_after"] = True; r["on_close"] = []
        elif how in ("partial", "partial-code") and r["now"]:
            last = r["now"][-1]
            text = last[2] if last[0] == "R" else last[1]
            cut = rng.randrange(1, 3) if how == "partial-code" else rng.randrange(1, max(2, len(text)))
            r["now"] = r["now"][:-1] + [("G", text[:cut])]       # the reply stops in the middle; then end of stream
            r["on_close"] = []
            r["close_after"] = True
        elif how in ("data-reset", "data-bare-close"):
            for x in sess["reactions"]:
                if x.get("data"):
                    x["data"]["end"] = "R" if how == "data-reset" else "X"
                    x["data"]["segs"] = x["data"].get("segs", [])[:1]
        else:
            r["close_after"] = True; r["on_close"] = []
        # expectations of the reference builder no longer apply after the cut: the model decides (correspondence), the
        # oracle only asks that every call ends properly
        scn["exp"] = [dict(e, throws=False, may_throw=False, check_open=False) for e in scn["exp"]]
        scn["exp"][-1]["may_throw"] = True      # QUIT on a session that a fault has left out of step (TLS: unread records): either way
        scn["exp"][-1]["check_open"] = False
        dist.add("fault:%s:%s:at-%s" % (base, how, "greeting" if k < 0 else "reaction"))
        out.append(scn)
    # the 227 / 229 reply carries something else than an endpoint (server-supplied text meets format strings, address
    # parsers, number parsers): the call must end with ftp_exception and the session goes on. One scenario per text.
    bad227 = ["(%1%,0,0,1,{p1},{p2})", "(127,0,0,1%,{p1},{p2})", "(999,0,0,1,{p1},{p2})", "({h},{p1},{p2},)", "({h},{p1})",
              "({h},256,{p2})", "{h},{p1},{p2}", "(::1,0,0,1,{p1},{p2})", "(%s%n%d,0,0,1,{p1},{p2})", "({h},{p1},{p2}", "()", "(,,,,,)",
              "({h},{p1},-1)", "(0x7f,0,0,1,{p1},{p2})", "({h},{p1},99999999999999999999)", "(1.2.3.4,{p1},{p2})", "(%%,%,%,%,{p1},{p2})"]
    bad229 = ["(|||{P})", "(|||99999|)", "(||{P}|)", "(|||%1%|)", "(|||{P}|", "()", "(||||)", "(|||-1|)", "(|||%s%n|)", "|||{P}|",
              "(|1|127.0.0.1|{P}|)", "(|||18446744073709551616|)", "(   {P} )"]
    # SIZE / MDTM answered 213 with something else than a number / a time-val: the call ends by returning the reply (the typed
    # result simply carries no value) - no other exception type, whatever the text
    bad213 = [b"213  ", b"213    ", b"213 \t ", b"213", b"213 ", b"213  7", b"213 7 ", b"213 -1", b"213 99999999999999999999999999",
              b"213 18446744073709551616", b"213 2024", b"213 20240101120000.", b"213 20240101120000.99999999999", b"213 :", b"213 \xff\x00",
              b"213-a\r\n213 b", b"213 " + b"9" * 5000]
    for k, text in enumerate(bad213 if thorough else rng.sample(bad213, 10)):
        b = S.Builder(rng, *rng.choice(ALL_METHODS))
        b.connect(login=(b"u", b"p"))
        for verb in ((b"SIZE", b"MDTM") if k % 2 == 0 else (b"MDTM", b"SIZE")):
            ci = b.simple(verb, b"f.bin", 213)
            b.mark += 1
            t = text + (b" [m%d]" % b.mark if False else b"")
            b.cur[-1]["now"][0] = ("R", 213, t)
            b.exp[ci]["replies"] = [("R", 213, t)]
        b.simple(b"NOOP", None, 200)
        b.disconnect(True)
        scn = b.scenario()
        scn["exp"] = [dict(e, throws=False, may_throw=False, check_open=False) for e in scn["exp"]]
        dist.add("fault:garbled-213-reply")
        out.append(scn)
    for rfc, texts in ((False, bad227), (True, bad229)):
        for bad in (texts if thorough else rng.sample(texts, 9)):
            b = S.Builder(rng, "P", rfc, type=rng.choice("IA"))
            b.connect(login=(b"u", b"p"))
            kind = rng.choice(["D", "U", "F"])
            b.transfer(kind, b"f.bin" if kind != "F" else None, payload_segs=[b"x" * 10], chunks=[b"y" * 10])
            b.simple(b"NOOP", None, 200)
            b.disconnect(True)
            scn = b.scenario()
            sess = scn["sessions"][0]
            ks = next(j for j, x in enumerate(sess["reactions"]) if x["now"] and x["now"][0][0] == "R" and x["now"][0][1] in (227, 229))
            it = sess["reactions"][ks]["now"][0]
            text = ("229 Entering Extended Passive Mode %s" if rfc else "227 Entering Passive Mode %s.") % bad
            sess["reactions"][ks]["now"][0] = (it[0], it[1], text.encode("latin-1")) + tuple(it[3:])
            del sess["reactions"][ks + 1]            # the transfer command is never sent
            scn["xfer_map"] = {}
            scn["exp"] = [dict(e, throws=False, may_throw=False, check_open=False) for e in scn["exp"]]
            dist.add("fault:garbled-%d-reply" % (229 if rfc else 227))
            out.append(scn)
    # listings that stop anywhere inside a line terminator (the server closed between CR and LF, or sends bare CRs): the text
    # is returned as it arrived, the call ends like any other
    for k, text in enumerate([b"a\r\nb\r", b"\r", b"x\r", b"a\r\n\r", b"\r\r", b"a\n\r", b"\n", b"a\r\nb"]):
        b = S.Builder(rng, *ALL_METHODS[k % 4], type="IA"[k % 2])
        b.connect(login=(b"u", b"p"))
        b.transfer("F", None, payload_segs=[text], names=(k % 3 == 0), completion=rng.choice(["now", "on_close"]))
        b.simple(b"NOOP", None, 200)
        b.disconnect(True)
        dist.add("fault:listing-ends-inside-a-line-terminator")
        out.append(b.scenario())
    # the server opens (active) / accepts (passive) the data connection, resets it at once and still answers the transfer
    # command positively: the client finds a dead socket at accept / at its first read - an ftp_exception like any other
    for k in range(8 if not thorough else 16):
        mode, rfc = ALL_METHODS[k % 4]
        b = S.Builder(rng, mode, rfc, type=rng.choice("IA"))
        b.connect(login=(b"u", b"p"))
        kind = "F" if k % 3 == 2 else "D"
        ci = b.transfer(kind, b"f.bin" if kind == "D" else None, payload_segs=[], end="R", completion="now")
        if ci in b.xfer_map:
            si, ri = b.xfer_map[ci]
            b.sessions[si]["reactions"][ri]["data"]["reset_first"] = True
        b.disconnect(False)
        scn = b.scenario()
        scn["exp"] = [dict(e, throws=False, may_throw=True, check_open=False) for e in scn["exp"]]
        dist.add("fault:data-connection-reset-before-the-positive-reply:%s" % ("active" if mode == "A" else "passive"))
        out.append(scn)
    return out


def fam_typefault(rng, n, dist):
    """set_transfer_type whose TYPE exchange ends without a reply (the server closes, resets, or sends something that is no
    reply): no positive acknowledgement - the type the client reports, converts by and sends at the next login is the old one"""
    out = []
    for i in range(n):
        old_t = "IA"[i % 2]
        new_t = "A" if old_t == "I" else "I"
        b = S.Builder(rng, *rng.choice(ALL_METHODS), type=old_t)
        b.connect(login=(b"u", b"p"))
        if rng.random() < 0.5:
            b.set_type(new_t, 504)                  # refused first: nothing changes either
        how = rng.choice(["close", "reset", "garbage", "partial-code", "no-code"])
        item = {"close": [], "reset": [], "garbage": [("G", b"\x00\xffnot a reply\r\n")], "partial-code": [("G", b"20")],
                "no-code": [("G", b"ok then\r\n")]}[how]
        b.cur.append(P.reaction(item, close_after=True, reset_after=(how == "reset")))
        b.add_call(("T", new_t), cmds=[b"TYPE " + new_t.encode()], replies=[], throws=True, type_after=old_t, check_open=False)
        b.connected = False
        b.disconnect(False)
        b.exp[-1]["may_throw"] = True
        if rng.random() < 0.6:
            # commands given while disconnected: their lines are never written - not now, and not later either (nothing of
            # them may turn up in front of the first command of the next connection)
            for _ in range(rng.randrange(1, 3)):
                b.failing(("S", rng.choice([b"PWD", b"NOOP", b"SYST"]), None), cmds=[])
            dist.add("typefault:commands-while-disconnected-before-the-next-connect")
        # a new session with the same client object: its login sends TYPE for the type that was never changed
        b.connect(login=(b"u2", b"p2"))
        add_simple(b, rng, 200)
        b.disconnect(True)
        dist.add("typefault:%s:%s->%s" % (how, old_t, new_t))
        out.append(b.scenario())
    return out


def fam_uploads(rng, n, dist, thorough=False):
    out = []
    sizes = [0, 1, 8191, 8192, 8193, 16383, 16384, 16385, 20000] + ([100000, 1 << 20] if thorough else [])
    for i in range(n):
        mode, rfc = ALL_METHODS[i % 4]
        tls = (i % 3 == 1)                 # a third of the sessions are FTPS: end of file = TLS close-notify, then the TCP close
        if tls:
            b = S.Builder(rng, mode, rfc, type="I", tls=True, resume=rng.random() < 0.6, tlsver=rng.choice(["12", "13"]))
            dist.add("upload:over-tls%s" % ("+resumption" if b.cfg["resume"] else ""))
        else:
            b = S.Builder(rng, mode, rfc, type="I", ip6=(i % 7 == 3))
        b.connect(login=(b"u", b"p"))
        refused_type = rng.random() < 0.3
        if refused_type:
            b.set_type("A", rng.choice([504, 500, 501, 502]))
            dist.add("upload:after-a-refused-TYPE-A")
        for _ in range(rng.randrange(1, 4)):
            size = rng.choice(sizes)
            data = (bytes(rng.randrange(256) for _ in range(min(size, 4096))) * (size // 4096 + 1))[:size]
            if refused_type and size >= 16:
                data = b"a\r\nb\nc\rd\r\r\n" + data[11:]
            if rng.random() < 0.5:
                # 0xFF (-1 as a char, EOF as an int) and 0x00 exactly where a new block begins, and at the very end
                data = bytearray(data)
                for off in (0, 8192, 16384, size - 1):
                    if 0 <= off < size:
                        data[off] = rng.choice([0xFF, 0xFF, 0x00, 0x1A])
                data = bytes(data)
            style = rng.choice(["full", "full", "one-byte", "asked-1", "half", "7000", "random"])
            chunks, pos = [], 0
            while pos < size:
                k = {"full": 8192, "one-byte": 1, "asked-1": 8191, "half": 4096, "7000": 7000, "random": rng.randrange(1, 8193)}[style]
                if style == "one-byte" and pos > 200:
                    k = 8192
                chunks.append(data[pos:pos + k])
                pos += k
            if rng.random() < 0.25:
                # a source that returns more after an empty read (record-oriented, growing file): the upload is what
                # came before the first empty read
                k = rng.randrange(0, len(chunks) + 1)
                chunks = chunks[:k] + [b""] + [b"LATE" * rng.choice([1, 3000])] + chunks[k:]
                dist.add("upload:source-yields-after-empty-read")
            ci = b.transfer("U", b"up.bin", chunks=chunks, upverb=rng.choice("SUA"), cb=rng.choice([None, [False] * 300]))
            if rng.random() < 0.3 and ci in b.xfer_map:
                si, ri = b.xfer_map[ci]
                b.sessions[si]["reactions"][ri]["data"]["read_pace_s"] = 0.001
            dist.add("upload:size-%d:%s" % (size, style))
        b.disconnect(True)
        out.append(b.scenario())
    # a server that starts reading late, with a small receive buffer: megabytes are still queued in the client when it
    # closes the data connection - they must all arrive, followed by a clean end of file (all four methods)
    for j, (mode, rfc) in enumerate(ALL_METHODS if thorough else [rng.choice(ALL_METHODS[2:]), rng.choice(ALL_METHODS[:2])]):
        # (every other one over TLS 1.3, where the server's session tickets sit unread in the client's receive queue: the
        # end of the upload is the client's close-notify FOLLOWED by everything still queued - not a reset)
        tls13 = (j % 2 == 1)
        b = S.Builder(rng, mode, rfc, type="I", tls=True, resume=(j % 4 == 1), tlsver="13") if tls13 else S.Builder(rng, mode, rfc, type="I")
        b.connect(login=(b"u", b"p"))
        size = 8 << 20 if thorough else 6 << 20          # (more than the socket buffers of a loopback connection take)
        block = bytes(rng.randrange(256) for _ in range(8192))
        chunks = [block] * (size // 8192) + [b"tail"]
        # (the process keeps receiving signals meanwhile: writes that block on the full window are interrupted part-way)
        b.signals(True)
        ci = b.transfer("U", b"late.bin", chunks=chunks, upverb=rng.choice("SUA"), cb=None)
        if ci in b.xfer_map:
            si, ri = b.xfer_map[ci]
            b.sessions[si]["reactions"][ri]["data"].update(rcvbuf=4096, read_delay_s=0.4, read_pace_s=0.0003)
        b.sessions[-1]["idle_timeout"] = 40.0
        b.signals(False)
        b.simple(b"NOOP", None, 200)
        b.disconnect(True)
        dist.add("upload:late-slow-reader:%s%s%s" % (mode, "-rfc2428" if rfc else "", ":tls13" if tls13 else ""))
        scn = b.scenario()
        scn["call_timeout"] = 40.0
        out.append(scn)
    # ... and one that leaves the data connection unread for 12 s while a third of a megabyte is queued behind a closed
    # window (back-pressure is not a dead peer): everything must still arrive, followed by a clean end of file
    for mode, rfc in ([rng.choice(ALL_METHODS[:2])] if not thorough else ALL_METHODS[:2] + [rng.choice(ALL_METHODS[2:])]):
        b = S.Builder(rng, mode, rfc, type="I")
        b.connect(login=(b"u", b"p"))
        block = bytes(rng.randrange(256) for _ in range(8192))
        chunks = [block] * 36 + [b"tail-of-the-file"]
        ci = b.transfer("U", b"stalled.bin", chunks=chunks, upverb=rng.choice("SUA"), cb=None)
        if ci in b.xfer_map:
            si, ri = b.xfer_map[ci]
            b.sessions[si]["reactions"][ri]["data"].update(rcvbuf=16384, read_delay_s=12.0)
        b.simple(b"NOOP", None, 200)
        b.disconnect(True)
        dist.add("upload:reader-stalled-12s:%s%s" % (mode, "-rfc2428" if rfc else ""))
        scn = b.scenario()
        scn["sessions"][0]["idle_timeout"] = 30.0        # (the scripted peer waits that long for the next command)
        scn["call_timeout"] = 25.0
        out.append(scn)
        continue
        out.append(b.scenario())
    return out


def fam_refusals(rng, n, dist):
    """every step at which the server can refuse x code x operation x method, interleaved with accepted operations"""
    out = []
    combos = [(m, k, at, c) for m in ALL_METHODS for k in ("D", "U", "F") for at in ("setup", "cmd") for c in S.NEG_CODES]
    rng.shuffle(combos)
    for i in range(n):
        (mode, rfc), kind, at, code = combos[i % len(combos)]
        b = S.Builder(rng, mode, rfc, type=rng.choice("IA"), tls=(i % 4 == 3), resume=rng.random() < 0.5)
        b.connect(login=(b"u", b"p"))
        if rng.random() < 0.5:
            add_transfer(b, rng, dist, kind=rng.choice(["D", "U", "F"]))
        cb = rng.choice([None, [False] * 20, [True] * 5])
        if kind == "U":
            b.transfer("U", b"x", chunks=[b"data"], cb=cb, refuse_at=at, refuse_code=code, upverb=rng.choice("SUA"))
        else:
            b.transfer(kind, b"x", payload_segs=[b"data"], cb=cb if kind == "D" else None, refuse_at=at, refuse_code=code)
        dist.add("refusal:%s:%s:%s%s:%d" % (kind, at, mode, "-rfc2428" if rfc else "", code))
        if at == "cmd" and mode == "P" and b.cur and b.cur[-1].get("data") and rng.random() < 0.5:
            # the server drops its end of the data connection (abortively) before it sends the refusal
            b.cur[-1]["data"]["reset_first"] = True
            dist.add("refusal:data-connection-reset-by-the-server-first")
        elif at == "cmd" and mode == "P" and not b.tls and b.cur and b.cur[-1].get("data") and i % 16 == 5:
            # the server keeps its end of the unused data connection open for a while (parked for the next transfer, or
            # never accepted): the refused call returns at once all the same
            b.cur[-1]["data"]["park"] = True
            dist.add("refusal:unused-data-connection-left-open-by-the-server")
        add_simple(b, rng, 200)
        add_transfer(b, rng, dist, kind=rng.choice(["D", "U", "F"]))
        b.disconnect(True)
        out.append(b.scenario())
    return out


def fam_cancel(rng, n, dist):
    out = []
    for i in range(n):
        mode, rfc = ALL_METHODS[i % 4]
        typ = "A" if i % 3 == 2 else "I"
        b = S.Builder(rng, mode, rfc, type=typ)
        b.connect(login=(b"u", b"p"))
        kind = "D" if i % 2 == 0 else "U"
        nblocks = rng.choice([0, 1, 2, 3])
        at = rng.choice(["start", "block", "never"])
        short = rng.random() < 0.5          # blocks shorter than 8192 (source / network)
        blk = rng.choice([100, 3000, 8191]) if short else 8192
        total = [bytes([65 + k % 26]) * blk for k in range(6)]
        if at == "start":
            cb = [True] * 8
        elif at == "never":
            cb = [False] * 50
        else:
            cb = [False] * (1 + nblocks) + [True] * 8
        if at == "never":
            b.transfer(kind, b"f", payload_segs=total, chunks=total, cb=cb)
        else:
            # what the server has to say about ABOR: 426 + a closing reply; one positive reply; one negative reply and
            # nothing else (the transfer dropped without a word); or its leave (421)
            ab = [dict(first=426, second=226), dict(first=426, second=226), dict(first=426, second=225), dict(first=225, second=None),
                  dict(first=226, second=None), dict(first=502, second=None), dict(first=500, second=None),
                  dict(first=550, second=None), dict(first=421, second=None)][(i // 2) % 9]
            ci = b.transfer(kind, b"f", payload_segs=total + [b"z" * 300000], chunks=total + [b"z" * 8192] * 2, cb=cb, abor=ab)
            dist.add("cancel:abor-answered-%s%s" % (ab["first"], "+%d" % ab["second"] if ab["second"] else ""))
            if ab["first"] == 421 and ci in b.xfer_map:
                si, ri = b.xfer_map[ci]
                b.sessions[si]["reactions"][ri + 1]["close_after"] = True
                b.connected = False
                b.exp[ci]["open_after"] = False
        dist.add("cancel:%s:%s:at-%s:block-%d" % (kind, typ, at, blk))
        if b.connected:
            b.simple(b"NOOP", None, 200)
            b.disconnect(True)
        else:
            b.failing(("S", b"NOOP", None), cmds=[])
            b.disconnect(False)
        out.append(b.scenario())
    # a server that is slow to read and, having answered ABOR, still takes everything the client had written before it
    # closed: what the callback was told has crossed the data connection - all of it (a close that throws queued data away
    # makes the callback a liar)
    for j in range(2):
        mode, rfc = ALL_METHODS[(j * 2 + rng.randrange(2)) % 4]
        b = S.Builder(rng, mode, rfc, type="I")
        b.connect(login=(b"u", b"p"))
        blk = [bytes([65 + k % 26]) * 8192 for k in range(40)]
        ci = b.transfer("U", b"f", chunks=blk, cb=[False] * 21 + [True] * 8, abor=dict(first=426, second=226))
        if ci in b.xfer_map:
            si, ri = b.xfer_map[ci]
            b.sessions[si]["reactions"][ri]["data"].update(read_delay_s=0.6, rcvbuf=16384)
            b.sessions[si]["reactions"][ri + 1]["abort_data"] = False
            b.sessions[si]["reactions"][ri + 1]["during_transfer"] = True
            b.exp[ci]["drained_after_abor"] = True
        dist.add("cancel:upload-drained-by-the-server-after-ABOR")
        b.simple(b"NOOP", None, 200)
        b.disconnect(True)
        out.append(b.scenario())
    return out


def fam_args(rng, n, dist):
    """caller texts over the full byte range, among them CR / LF followed by a valid command"""
    out = []
    evil = [b"x\r\nDELE y", b"\n", b"\r", b"a\r", b"a\nb", b"\r\nQUIT\r\n", b"ok", b"", b"\x00\xff", b" ", b"a b c", b"x" * 300]
    for i in range(n):
        tls = rng.random() < 0.35   # over TLS too: one line is one write, whatever the TLS record size (16384)
        if tls:
            b = S.Builder(rng, *rng.choice(ALL_METHODS), tls=True, resume=rng.random() < 0.5, tlsver=rng.choice(["12", "13"]))
        else:
            b = S.Builder(rng, *rng.choice(ALL_METHODS))
        t1, t2 = rng.choice(evil), rng.choice(evil)
        if rng.random() < 0.25:
            # long texts: around the TLS record size and the socket buffer sizes, with a CR / LF deep inside now and then
            ln = rng.choice([8185, 8192, 16370, 16379, 16380, 16381, 16384, 16390, 20000, 32768, 40000, 70000])
            t1 = bytes(rng.choice(b"abcdefghij /._-") for _ in range(64)) * (ln // 64 + 1)
            t1 = t1[:ln]
            if rng.random() < 0.2:
                k = rng.randrange(0, ln)
                t1 = t1[:k] + rng.choice([b"\r\nNOOP", b"\n", b"\r"]) + t1[k:]
            dist.add("args:long-text-%d%s" % (ln, ":tls" if tls else ""))
        bad1, bad2 = (b"\r" in t1 or b"\n" in t1), (b"\r" in t2 or b"\n" in t2)
        which = i % 7
        if which == 0:
            if bad1 or bad2:
                b.new_session(P.reaction([b.m(220)]))
                b.connected = False
                b.add_call(("C", 0, (t1, t2)), throws=True, open_after=False, check_open=True)
                out.append(b.scenario()); dist.add("args:connect-with-login:rejected"); continue
            b.connect(login=(t1, t2))
        else:
            b.connect(login=None)
        # the refused call comes right after an accepted call of the same kind whose texts have the same lengths (and, in a
        # caller that reuses its buffers, the same addresses): what was decided for one text says nothing about the next
        c1, c2 = bytes(120 if c in (10, 13) else c for c in t1), bytes(120 if c in (10, 13) else c for c in t2)
        twin = (bad1 or bad2) and which != 0 and rng.random() < 0.7 and not (c1 == b"HELP")
        if twin:
            dist.add("args:kind-%d:accepted-twin-first" % which)
            if which == 1:
                b.login(c1, c2)
            elif which == 2:
                b.rename(c1, c2)
            elif which in (4, 5):
                b.transfer("D" if which == 4 else "U", c1, payload_segs=[b"p"], chunks=[b"q"])
            elif which == 6:
                b.transfer("F", c1, payload_segs=[b"l\r\n"])
        if which == 1:
            if bad1 or bad2:
                b.add_call(("L", t1, t2), throws=True)
            else:
                b.login(t1, t2)
        elif which == 2:
            if bad1 or bad2:
                b.add_call(("N", t1, t2), throws=True)
            else:
                b.rename(t1, t2)
        elif which == 3:
            verb = rng.choice([b"CWD", b"DELE", b"MKD", b"RMD", b"SIZE", b"MDTM", b"STAT", b"HELP", b"SITE"])
            if verb == b"SITE" and t1 == b"HELP":
                t1 = b"HELP x"
            if bad1:
                if twin:
                    b.simple(verb, c1, 250)
                b.add_call(("S", verb, t1), throws=True)
            else:
                b.simple(verb, t1, 250)
        elif which in (4, 5):
            kind = "D" if which == 4 else "U"
            if bad1:
                b.add_call(("D", t1, None, None) if kind == "D" else ("U", "S", t1, [b"q"], None), throws=True)
            else:
                b.transfer(kind, t1, payload_segs=[b"p"], chunks=[b"q"])
        else:
            if bad1:
                b.add_call(("F", t1, False), throws=True)
            else:
                b.transfer("F", t1, payload_segs=[b"l\r\n"])
        dist.add("args:kind-%d:%s" % (which, "rejected" if (bad1 or (which in (0, 1, 2) and bad2)) else "sent"))
        b.simple(b"NOOP", None, 200)
        b.disconnect(True)
        out.append(b.scenario())
    return out


def fam_bursts(rng, n, dist):
    """long reply lines (which make the receive buffer grow to its full 8192 bytes) with further replies right behind them
    in the same burst - through the real sockets: a preliminary reply of 3700 .. 8191 bytes written together with a long
    completion reply, a long 120 greeting with the 220 behind it"""
    out = []
    totals = [3700, 5000, 8000, 8189, 8190, 8191]
    for i in range(n):
        total = totals[i % len(totals)]
        tls = (i % 4 == 3)
        b = S.Builder(rng, *ALL_METHODS[i % 4], type="I", tls=tls, resume=False, tlsver="12") if tls else S.Builder(rng, *ALL_METHODS[i % 4], type="I")
        b.connect(login=(b"u", b"p"))
        pad = "x" * (total - 2 - len("150  [m%d]" % (b.mark + 2)))      # the line, CR LF included, is `total` bytes long
        kind = rng.choice(["D", "F"])
        b.transfer(kind, b"f" if kind == "D" else None, payload_segs=[b"data\r\n"], completion="now", cmd_code=150,
                   pre_words=pad, done_words="y" * rng.choice([100, 2500, 4000, 8000]))
        dist.add("bursts:preliminary-reply-of-%d-bytes-with-the-completion-behind%s" % (total, ":tls" if tls else ""))
        b.simple(b"NOOP", None, 200)
        b.disconnect(True)
        out.append(b.scenario())
    return out


def fam_greetings(rng, n, dist):
    """the aggregates the calls of a session return: every reply that arrived in the call, in order - connect() with greetings
    of one and two replies (220; 120 + 220; 120 + a refusal; a refusal), with and without a login, then a few operations"""
    out = []
    shapes = [(220,), (120, 220), (120, 530), (120, 421), (530,), (120, 220), (220,), (120, 550)]
    for i in range(n):
        b = S.Builder(rng, *ALL_METHODS[i % 4], type=rng.choice("IA"))
        g = shapes[i % len(shapes)]
        b.connect(login=((b"u", b"p") if i % 3 else None), greeting=g)
        dist.add("greetings:%s:%s" % ("+".join(map(str, g)), "login" if i % 3 else "no-login"))
        if b.connected and g[-1] < 400:
            if i % 3 == 0:
                b.login(b"u", b"p", plan=dict(user=rng.choice([331, 230, 530])))
            for _ in range(rng.randrange(0, 3)):
                if rng.random() < 0.5:
                    add_simple(b, rng)
                else:
                    add_transfer(b, rng, dist, refuse_at=rng.choice([None, None, "setup", "cmd"]))
            b.logout(codes=rng.choice([(220,), (120, 220), (500,)]))
        if b.connected:
            b.disconnect(rng.random() < 0.7)
        out.append(b.scenario())
    return out


def fam_interrupted(rng, n, dist):
    """a command line far larger than the socket buffers, written to a server that takes its commands slowly, in a process
    whose signal handlers do not restart system calls: the write is interrupted part-way. The call may fail - but if it
    reports success, what the peer received is the line, once (a write resumed from its first byte puts a prefix of the
    line in front of the line). Signals are outside the protocol model: the comparison with the model ends at that call."""
    out = []
    for i in range(n):
        b = S.Builder(rng, *rng.choice(ALL_METHODS))
        b.connect(login=None)
        b.sessions[-1]["ctl_rcvbuf"] = 16384
        b.sessions[-1]["ctl_read_delay_s"] = 0.5
        b.sessions[-1]["idle_timeout"] = 30.0
        k0 = len(b.calls)
        b.add_call(("Z", 2, b.mode), kind="M")
        arg = bytes(rng.choice(b"abcdefghij/._-") for _ in range(4096)) * (1536 + i)          # about 6 MiB
        b.cur.append(P.reaction([b.m(250, "cwd")]))
        b.add_call(("S", b"CWD", arg), cmds=[b"CWD " + arg], replies=[], may_throw=True, cmds_only_if_returned=True, check_open=False,
                   reply_optional=True)
        b.add_call(("Z", False, b.mode), kind="M")
        b.add_call(("X", False), open_after=False, may_throw=True, check_open=True)
        b.connected = False
        dist.add("interrupted:command-line-of-megabytes-written-under-non-restarting-signals")
        scn = b.scenario()
        scn["skip_corr_from"] = k0
        scn["call_timeout"] = 40.0
        out.append(scn)
    return out


def fam_linelen(rng, n, dist):
    """command lines of every length in windows around 128, 256, 512, 1024, 2048, 4096, 8192, 16384: each one line, each
    ended by CR LF, the next command a line of its own"""
    out = []
    centres = [128, 256, 512, 1024, 2048, 4096, 8192, 16384]
    for i in range(n):
        tls = (i % 3 == 2)
        b = S.Builder(rng, *rng.choice(ALL_METHODS), tls=tls, resume=False, tlsver="12") if tls else S.Builder(rng, *rng.choice(ALL_METHODS))
        b.connect(login=None)
        c = centres[i % len(centres)]
        verb = rng.choice([b"CWD", b"DELE", b"SITE", b"MKD"])
        for total in range(c - 6, c + 5):
            arg = bytes(rng.choice(b"abcdefghij/._-") for _ in range(total - len(verb) - 1))
            b.simple(verb, arg, 250)
        dist.add("linelen:around-%d%s" % (c, ":tls" if tls else ""))
        b.simple(b"NOOP", None, 200)
        b.disconnect(True)
        out.append(b.scenario())
    return out


def fam_tls(rng, n, dist):
    """TLS sessions: every method x resumption x TLS version, with refusals and failures injected at AUTH TLS, at the
    control handshake, at PBSZ / PROT, at the data handshake, and data streams cut without close-notify"""
    out = []
    for i in range(n):
        mode, rfc = ALL_METHODS[i % 4]
        fault = rng.choice([None, None, "auth-refused", "ctl-handshake", "pbsz", "prot", "data-handshake", "truncate", "truncate",
                            "truncate", "unknown-ca", "unclean-close", "data-rogue-cert", "data-rogue-cert", "data-reset",
                            "data-reset", "ctl-reset-after-auth", "upload-no-close-notify", "server-drops-tls", "server-drops-tls"])
        if i % 3 == 0:
            fault = "auth-refused"          # (a third of the family: AUTH TLS refused, each code of the list below in turn)
        verify = "unknown" if fault == "unknown-ca" else ("trusted" if fault == "data-rogue-cert" else rng.choice(["trusted", "trusted", "none"]))
        b = S.Builder(rng, mode, rfc, type=rng.choice("IIA"), tls=True, resume=rng.random() < 0.6,
                      tlsver=rng.choice(["12", "12", "13"]), verify=verify)
        if rng.random() < 0.5:
            b.add_observer(1)
        plan = dict(pbsz=503 if fault == "pbsz" else 200, prot=534 if fault == "prot" else 200)
        login = (b"user-MARKER-u", b"pass-MARKER-p")
        keep_using = fault in ("ctl-handshake", "unknown-ca") and rng.random() < 0.6
        # "after a positive answer its next bytes are a TLS handshake": 234 is the usual answer, any other 2xx / 3xx is positive too
        ok_auth = rng.choice([234, 234, 234, 200, 232, 334, 299])
        # every refusal is a refusal, whatever the code: each one of the list turns up (no fallback to another mechanism)
        AUTH_REFUSALS = [500, 501, 502, 503, 504, 530, 533, 534, 431, 451, 550]
        b.connect(login=login, auth=AUTH_REFUSALS[(i // 3) % len(AUTH_REFUSALS)] if fault == "auth-refused" else ok_auth, plan=plan,
                  tls_ok=(fault not in ("ctl-handshake", "ctl-reset-after-auth")), tls_close_clean=(fault != "unclean-close"),
                  stay_plain=keep_using, tls_reset=(fault == "ctl-reset-after-auth"))
        dist.add("tls:fault-%s%s" % (fault, "+keeps-using-the-client" if keep_using else ""))
        if fault != "auth-refused":
            dist.add("tls:auth-answered-%d" % ok_auth)
        else:
            dist.add("tls:auth-refused-with-%d" % AUTH_REFUSALS[(i // 3) % len(AUTH_REFUSALS)])
        if fault in ("auth-refused", "ctl-handshake", "unknown-ca", "ctl-reset-after-auth"):
            if keep_using:
                # the application ignores the failure and goes on with the same client object: nothing more may be sent
                # (the peer has gone on as a plain server and would answer)
                b.cur += [P.reaction([b.m(331)]), P.reaction([b.m(230)]), P.reaction([b.m(200)]), P.reaction([b.m(200)])]
                b.failing(("L", b"user-MARKER-u", b"pass-MARKER-p"), cmds=[])
                b.failing(("S", b"NOOP", None), cmds=[])
                b.exp[-1]["check_open"] = b.exp[-2]["check_open"] = False
            b.disconnect(False)
            if keep_using:
                b.exp[-1]["may_throw"] = True
            out.append(b.scenario()); continue
        if fault == "server-drops-tls":
            # in the middle of a healthy session the server answers a command with a TLS close-notify, keeps the TCP
            # connection and speaks clear text from then on: the client must not follow it there - the call fails, and
            # whatever the application still does with the client, no command line travels in clear text
            for _ in range(rng.randrange(0, 3)):
                add_simple(b, rng, 200)
            k0 = len(b.calls)
            b.cur.append(P.reaction([b.m(200, "now in clear text")], tls_drop_first=True))
            b.add_call(("S", b"NOOP", None), cmds=[b"NOOP"], replies=[], throws=True, check_open=False)
            b.cur += [P.reaction([b.m(331)]), P.reaction([b.m(230)]), P.reaction([b.m(200)]), P.reaction([b.m(200)]), P.reaction([b.m(200)])]
            b.add_call(("L", b"user-MARKER-u", b"pass-MARKER-p"), cmds=[], replies=[], throws=True, may_throw=True, cmds_may_be_lost=True,
                       check_open=False)
            b.add_call(("X", False), open_after=False, may_throw=True, check_open=True)
            b.connected = False
            scn = b.scenario()
            scn["skip_corr_from"] = k0
            out.append(scn)
            continue
        nops = rng.randrange(1, 5)
        rk = rng.randrange(0, nops)          # the transfer whose data port is answered by somebody else
        for k in range(nops):
            kind = rng.choice(["D", "U", "F", "S"])
            if kind == "S" and not (fault == "data-rogue-cert" and k == rk):
                add_simple(b, rng, 200)
                continue
            if kind == "S":
                kind = "D"
            df = None
            if fault == "data-handshake" and k == 0:
                df = "handshake"
            if fault == "data-reset" and k == 0:
                df = "reset-before-handshake"
            if fault == "upload-no-close-notify" and k == 0:
                kind, df = "U", "no-close-notify"
            if fault == "truncate" and k == 0 and kind != "U":
                df = "truncate"
            if fault == "data-rogue-cert" and k == rk:
                df = "rogue-cert"
            payload = [b"PAYLOAD-MARKER " * rng.choice([0, 1, 50]), b"z" * rng.choice([0, 1, 9000])]
            payload = [x for x in payload if x]
            if df == "truncate":
                payload = [b"q" * n0 for n0 in [rng.choice([0, 0, 1, 300, 8192, 20000])] if n0]
            if df is None and kind in ("D", "U") and rng.random() < 0.25:
                # a transfer cancelled by the callback: ABOR and what follows travel inside TLS like everything else
                big = [bytes([65 + j % 26]) * 8192 for j in range(4)]
                ci = b.transfer(kind, b"big.bin", payload_segs=big + [b"z" * 200000], chunks=big * 3,
                                cb=[False] * rng.choice([1, 2, 3]) + [True] * 6, abor=dict(first=426, second=226))
                # (the server drops the data connection when it reads ABOR: the TLS shutdown of the abandoned data
                # connection cannot complete, which the call reports - after ABOR and its replies have been exchanged)
                b.exp[ci]["throws"] = True
                dist.add("tls:cancelled-transfer")
                continue
            b.transfer(kind, b"f" if kind != "F" else None, payload_segs=payload, chunks=payload,
                       cb=rng.choice([None, [False] * 60]) if kind != "F" else None, data_fault=df)
            if df:
                b.disconnect(False)
                if df == "no-close-notify":
                    # (the completion reply nobody read sits in the TLS stream: the shutdown of the control connection
                    # may report "application data after close notify" - the client is disconnected all the same)
                    b.exp[-1]["may_throw"] = True
                break
        if b.connected:
            r = rng.random()
            if r < 0.3 and fault != "unclean-close":
                # (REIN refused: the session stays as it is - inside TLS)
                b.logout(codes=rng.choice([(220,), (220,), (120, 220), (120, 230), (500,), (502,), (421,) if False else (530,)]))
                if rng.random() < 0.5:
                    b.login(b"again", b"pw")
                b.disconnect(True)
            elif r < 0.9:
                e = b.disconnect(True)
                if fault == "unclean-close":
                    b.exp[e]["throws"] = True
            else:
                b.disconnect(False)
                if fault == "unclean-close":
                    b.exp[-1]["may_throw"] = True
        out.append(b.scenario())
    # always there (not left to the draw): a healthy TLS session logged out of with REIN answered 120 + the final reply in
    # two pieces (two TLS records), then used again in clear text
    for k, codes in enumerate([(120, 220), (120, 230), (120, 220)]):
        b = S.Builder(rng, *ALL_METHODS[k % 4], type="I", tls=True, resume=(k == 0), tlsver=("13" if k == 2 else "12"), verify="trusted")
        if k == 1:
            b.add_observer(1)
        b.connect(login=(b"user-MARKER-u", b"pass-MARKER-p"))
        add_simple(b, rng, 200)
        b.logout(codes=codes)
        b.login(b"again", b"pw")
        b.simple(b"NOOP", None, 200)
        b.disconnect(True)
        dist.add("tls:logout-answered-120-then-%d" % codes[1])
        out.append(b.scenario())
    # ... and logins whose PBSZ / PROT step is refused (the login stops there: nothing further is sent, nothing stays unread)
    for k, (pb, pr) in enumerate([(503, 200), (200, 534), (500, 200), (200, 536)]):
        b = S.Builder(rng, *ALL_METHODS[k % 4], type="I", tls=True, resume=(k % 2 == 0), tlsver=("13" if k == 3 else "12"), verify="trusted")
        plan = dict(pbsz=pb, prot=pr)
        if k % 2:
            b.connect(login=(b"user-MARKER-u", b"pass-MARKER-p"), plan=plan)
        else:
            b.connect(login=None)
            b.login(b"user-MARKER-u", b"pass-MARKER-p", plan=plan)
        add_simple(b, rng, 200)
        b.simple(b"NOOP", None, 200)
        b.disconnect(True)
        dist.add("tls:login-stops-at-refused-%s" % ("PBSZ" if pb >= 400 else "PROT"))
        out.append(b.scenario())
    return out


def fam_tlsplain(rng, n, dist):
    """a client WITH a TLS context on a control connection that is NOT secured: connect() came back with a negative reply
    (AUTH TLS refused, or a negative greeting) and the application goes on with the same client - login, commands,
    transfers; or the session was logged out of (REIN drops the TLS layer) and logged in to again, with transfers"""
    out = []
    REFUSALS = [500, 502, 504, 530, 534, 431]
    for i in range(n):
        mode, rfc = ALL_METHODS[i % 4]
        how = ["auth-refused", "greeting-refused", "after-rein"][i % 3]
        b = S.Builder(rng, mode, rfc, type=rng.choice("IIA"), tls=True, resume=(i % 2 == 0), tlsver=rng.choice(["12", "12", "13"]),
                      verify=rng.choice(["trusted", "none"]))
        if rng.random() < 0.4:
            b.add_observer(1)
        login = (b"user-MARKER-u", b"pass-MARKER-p")
        if how == "auth-refused":
            b.connect(login=(login if rng.random() < 0.5 else None), auth=REFUSALS[(i // 3) % len(REFUSALS)])
        elif how == "greeting-refused":
            b.connect(login=(login if rng.random() < 0.5 else None), greeting=(rng.choice([530, 550, 500, 451]),))
        else:
            b.connect(login=login)
            if rng.random() < 0.5:
                add_simple(b, rng, 200)
            b.logout(codes=rng.choice([(220,), (220,), (120, 220)]))
        dist.add("tlsplain:%s:resume-%s" % (how, b.cfg["resume"]))
        # the application goes on
        b.login(login[0], login[1])
        for k in range(rng.randrange(1, 4)):
            kind = rng.choice(["D", "U", "F", "S"])
            if kind == "S":
                add_simple(b, rng, 200)
                continue
            payload = [b"PAYLOAD-MARKER " * rng.choice([0, 1, 50]), b"z" * rng.choice([0, 1, 9000])]
            payload = [x for x in payload if x]
            b.transfer(kind, b"f" if kind != "F" else None, payload_segs=payload, chunks=payload,
                       cb=rng.choice([None, [False] * 60]) if kind != "F" else None,
                       refuse_at=rng.choice([None, None, None, "cmd"]))
            dist.add("tlsplain:transfer-on-a-session-that-is-not-secured")
        b.disconnect(rng.random() < 0.7)
        out.append(b.scenario(plain_by=how))
    return out


def fam_reconnect(rng, n, dist, tls_share=0.4):
    """connect / operations / end of session / connect again: the next session must start clean"""
    out = []
    endings = ["quit", "drop", "421", "peer-close", "leftover", "failed-handshake", "mid-transfer-failure", "peer-reset",
               "421-then-connect", "connect-over", "421-multiline", "peer-reset-unnoticed", "peer-close-unnoticed",
               # a 421 wherever a reply is read - not only as the first answer to a command
               "421-greeting", "421-after-120-greeting", "421-completion", "421-after-120-rein"]
    for i in range(n):
        tls = rng.random() < tls_share
        ending = endings[i % len(endings)]
        if ending == "failed-handshake" and not tls:
            tls = True
        if ending in ("421-completion", "421-after-120-rein"):
            tls = False          # (under TLS the closing that follows a 421 may itself be reported: kept to the command case)
        mode, rfc = rng.choice(ALL_METHODS)
        b = S.Builder(rng, mode, rfc, type="I", tls=tls, resume=rng.random() < 0.5, tlsver="12", verify="trusted")
        if rng.random() < 0.3:
            b.add_observer(1)
        if ending in ("421-greeting", "421-after-120-greeting"):
            b.connect(login=(b"u", b"p"), greeting=((421,) if ending == "421-greeting" else (120, 421)))
        else:
            b.connect(login=(b"u", b"p"), tls_ok=(ending != "failed-handshake"))
        dist.add("reconnect:%s:%s" % ("tls" if tls else "plain", ending))
        if ending in ("421-greeting", "421-after-120-greeting"):
            if rng.random() < 0.5:
                b.disconnect(False)
        elif ending == "failed-handshake":
            b.disconnect(False)
        else:
            for _ in range(rng.randrange(0, 3)):
                add_simple(b, rng, 200)
            if rng.random() < 0.5:
                add_transfer(b, rng, dist, kind=rng.choice(["D", "U", "F"]))
            if ending == "quit":
                b.disconnect(True)
            elif ending == "drop":
                b.disconnect(False)
            elif ending == "421":
                b.simple(b"NOOP", None, 421, multi=rng.random() < 0.3)
                b.disconnect(False)
            elif ending == "421-multiline":
                b.simple(b"NOOP", None, 421, multi=True)
                if rng.random() < 0.5:
                    b.disconnect(False)
            elif ending == "421-then-connect":
                b.simple(b"NOOP", None, 421)           # the library has closed by itself: the caller connects again at once
            elif ending == "connect-over":
                pass                                   # connect() on a client that is still connected
            elif ending == "421-completion":
                # the transfer is accepted and carried out; what the server says at its end is 421
                k = rng.choice(["D", "U", "F"])
                b.transfer(k, b"f" if k != "F" else None, payload_segs=[b"x" * rng.choice([0, 10, 9000])], chunks=[b"y" * 100],
                           done_code=421, completion=rng.choice(["now", "on_close"]))
                b.connected = False
                b.exp[-1]["open_after"] = False
                if rng.random() < 0.5:
                    b.disconnect(False)
            elif ending == "421-after-120-rein":
                b.logout(codes=(120, 421))
                b.connected = False
                b.exp[-1]["open_after"] = False
                if rng.random() < 0.5:
                    b.disconnect(False)
            elif ending == "peer-close":
                b.simple(b"NOOP", None, 200, close_after=True)
                b.failing(("S", b"PWD", None), cmds=[], cmds_may_be_lost=True)
                b.disconnect(False)
            elif ending == "peer-reset":
                b.simple(b"NOOP", None, 200, reset_after=True)
                b.failing(("S", b"PWD", None), cmds=[], cmds_may_be_lost=True)
                if rng.random() < 0.5:
                    b.failing(("S", b"NOOP", None), cmds=[], cmds_may_be_lost=True)
                b.disconnect(False)
                b.exp[-1]["may_throw"] = True     # shutdown() on a reset socket may report the reset: allowed by C13
            elif ending in ("peer-reset-unnoticed", "peer-close-unnoticed"):
                # the peer resets (closes) the idle connection; the application notices nothing and, a while later, calls
                # disconnect(false) - the first thing to touch the socket after the reset arrived: whatever it reports, the
                # client is disconnected and holds no socket afterwards
                b.simple(b"NOOP", None, 200, reset_after=(ending == "peer-reset-unnoticed"), close_after=True)
                b.wait(120)
                b.disconnect(False)
                b.exp[-1]["may_throw"] = True
            elif ending == "leftover":
                b.simple(b"STAT", None, 211, extra=[299, 220])
                b.disconnect(False)
            elif ending == "mid-transfer-failure":
                if mode == "P":
                    b.transfer("D", b"f", payload_segs=[b"x"], listen="dead")
                else:
                    b.transfer("D", b"f", payload_segs=[b"x" * 10], fail_at=0)
                    b.exp[-1]["throws"] = True
                    b.exp[-1]["moves_data"] = False
                b.disconnect(False)
        # the next session, against another address
        b.connect(login=(b"u2", b"p2"))
        add_simple(b, rng, 200)
        add_transfer(b, rng, dist, kind=rng.choice(["D", "F"]))
        if i % 4 == 0:
            # connect() to a host name that does not resolve, while connected: whatever it does to the connection it had, the
            # client holds one socket if it reports connected and none otherwise - after the failure, after a disconnect
            # that follows, after destruction. (Name resolution is outside the protocol model: the comparison with the model
            # ends here, the oracles go on.)
            k = len(b.calls)
            b.add_call(("C", "unresolvable", None), throws=True, check_open=False)
            if rng.random() < 0.5:
                b.add_call(("C", "unresolvable", (b"u", b"p")), throws=True, check_open=False)
            if rng.random() < 0.6:
                # the application goes on with the client: whether the old connection was kept or dropped, nothing may
                # travel on it in another form than before (a session that was inside TLS does not continue in clear text)
                b.add_call(("S", b"NOOP", None), cmds=[b"NOOP"], replies=[], may_throw=True, cmds_may_be_lost=True, check_open=False,
                           reply_optional=True)
                b.cur.append(P.reaction([b.m(200, "noop")]))
                dist.add("reconnect:command-after-a-failed-connect-while-connected")
            b.add_call(("X", False), open_after=False, may_throw=True, check_open=True)
            b.connected = False
            dist.add("reconnect:connect-to-an-unresolvable-name-while-connected")
            scn = b.scenario()
            scn["skip_corr_from"] = k
            out.append(scn)
            continue
        b.disconnect(True)
        out.append(b.scenario())
    return out


def fam_reuse(rng, n, dist):
    """TLS session reuse: 1-5 consecutive transfers on one session, reconnects, both TLS versions, resumption on/off"""
    out = []
    for i in range(n):
        mode, rfc = ALL_METHODS[i % 4]
        b = S.Builder(rng, mode, rfc, type="I", tls=True, resume=(i % 3 != 2), tlsver=(("12" if i % 2 else "12n") if i % 5 else "13"), verify="trusted")
        # ("12n": a TLS 1.2 server that issues no tickets - sessions are resumed by their id from the server's cache)
        b.connect(login=(b"u", b"p"))
        ntr = rng.randrange(1, 6)
        cancel_at = rng.randrange(0, ntr) if rng.random() < 0.4 else None
        if b.cfg["tlsver"] == "12n":
            # (a server that keeps its sessions in a cache drops a session whose connection ended without close-notify -
            # OpenSSL's ssl_clear_bad_session: what follows a cancelled transfer is then the server's doing, not the client's)
            cancel_at = None
        for k in range(ntr):
            if k == cancel_at:
                # a transfer cancelled by the callback (closed without the graceful shutdown): the ones that follow must
                # still be offered - and get - the control session
                big = [bytes([65 + j % 26]) * 8192 for j in range(4)]
                if rng.random() < 0.5:
                    b.transfer("D", b"big.bin", payload_segs=big + [b"z" * 200000], cb=[False, False] + [True] * 6, abor=dict(first=426, second=226))
                else:
                    b.transfer("U", b"big.bin", chunks=big * 3, cb=[False, False] + [True] * 6, abor=dict(first=426, second=226))
                dist.add("reuse:cancelled-transfer-in-the-middle")
            add_transfer(b, rng, dist, kind=rng.choice(["D", "U", "F"]))
        if rng.random() < 0.25:
            # "the same context, and therefore the same certificate verification settings": somebody else answers at the data
            # port - cannot resume the offered session, presents a certificate the context does not trust; the transfer must
            # fail whether or not a session was offered
            kind = rng.choice(["D", "U", "F"])
            b.transfer(kind, b"f" if kind != "F" else None, payload_segs=[b"PAYLOAD-MARKER " * 20], chunks=[b"PAYLOAD-MARKER " * 20],
                       data_fault="rogue-cert")
            b.disconnect(False)
            dist.add("reuse:rogue-certificate-at-the-data-port:resume-%s" % b.cfg["resume"])
            out.append(b.scenario())
            continue
        ending = rng.choice(["quit", "421", "quit", "421-then-connect", "connect-over"])
        if ending == "421":
            b.simple(b"NOOP", None, 421)
            b.disconnect(False)
        elif ending == "421-then-connect":
            b.simple(b"NOOP", None, 421)
        elif ending == "connect-over":
            pass
        else:
            b.disconnect(True)
        if rng.random() < 0.6 or ending in ("421-then-connect", "connect-over"):
            b.connect(login=(b"u", b"p"))
            for _ in range(rng.randrange(1, 3)):
                add_transfer(b, rng, dist, kind=rng.choice(["D", "U", "F"]))
            b.disconnect(True)
        dist.add("reuse:tls%s:resume-%s:end-%s" % (b.cfg["tlsver"], b.cfg["resume"], ending))
        out.append(b.scenario())
    return out


def oracle_tls(scn, res):
    """C11: what the peer saw ahead of its TLS engine"""
    v = []
    if not scn["cfg"]["tls"]:
        return v
    # what the scenario itself prescribes, per session: (command, inside TLS?) - commands the application gives to a client
    # whose connect() came back with a negative reply are prescribed in clear text, because that is what the code does
    # (recorded finding: the connection is left open, unsecured, and usable)
    prescribed, cur = {}, None
    for e in scn["exp"]:
        if e.get("kind") == "C" and "session" in e:
            cur = e["session"]
        if cur is not None:
            prescribed.setdefault(cur, []).extend((canon_line(c), bool(e.get("secured"))) for c in e.get("cmds", []))
    for si, log in enumerate(res["peer"]):
        lines = log["lines"]
        pres = prescribed.get(si, [])
        for k, l in enumerate(lines):
            if l["line"].strip() == b"REIN":
                break                 # the property is scoped to the span from connect until logout / disconnect
            if not l["secured"] and l["line"].strip() != b"AUTH TLS" and scn.get("plain_by") in ("auth-refused", "greeting-refused") \
                    and k < len(pres) and pres[k] == (canon_line(l["line"].rstrip(b"\r\n")), False):
                v.append((-1, "tls/clear-text-session-after-refused-connect", "session %d: %r travelled unencrypted - connect() had "
                          "returned a negative reply (%s) and left the connection open" % (si, l["line"][:40], scn["plain_by"])))
                continue
            if log.get("stayed_plain_from") is not None and k >= log["stayed_plain_from"]:
                # after a failed handshake: bytes that are no FTP command (a TLS alert) are fine, a command line is not
                if re.match(rb"[A-Za-z]{3,4}( |\r?\n)", l["line"]):
                    v.append((-1, "tls/command-sent-in-clear-after-failed-handshake", "session %d: %r" % (si, l["line"][:40])))
                continue
            if not l["secured"] and l["line"].strip() != b"AUTH TLS":
                v.append((-1, "tls/command-in-clear-text", "session %d: %r travelled unencrypted" % (si, l["line"][:40])))
        raw = log.get("raw_in", b"")
        for marker in (b"MARKER-u", b"MARKER-p"):
            if marker in raw:
                if scn.get("plain_by") == "after-rein" and any(l["line"].strip() == b"REIN" for l in lines):
                    continue          # (logged in again after REIN: outside the span the property covers)
                if scn.get("plain_by") in ("auth-refused", "greeting-refused") and any(marker in c and not sec for c, sec in pres):
                    continue          # (reported above, command by command)
                v.append((-1, "tls/credentials-in-clear-text", "session %d: %r found in the raw bytes" % (si, marker)))
        if log.get("non_tls_bytes") and not any(l["line"].strip() == b"REIN" for l in lines) and log.get("stayed_plain_from") is None:
            nb = log["non_tls_bytes"]
            v.append((-1, "tls/bytes-on-the-secured-control-connection-are-not-tls-records",
                      "session %d: after %d TLS records the client wrote %r" % (si, nb["records_before"], nb["bytes"])))
        fa = log.get("raw_first_after_auth")
        if fa is not None and len(fa) >= 2 and fa[:2] != b"\x16\x03":
            v.append((-1, "tls/bytes-after-234-are-not-a-handshake", repr(fa)))
        for d in log["data"]:
            if d.get("arrived") and d.get("tls") is not None:
                fr = d.get("first_raw", b"")
                if len(fr) >= 2 and fr[:2] != b"\x16\x03":
                    v.append((-1, "tls/data-connection-starts-without-handshake", repr(fr)))
    # a data stream that ended without close-notify must not be delivered as a complete transfer
    for ci, (e, a) in enumerate(zip(scn["exp"], res["calls"])):
        if a["out"] in ("blocked", "CRASH"):
            break
        key = scn["xfer_map"].get(ci)
        if key and e["kind"] in ("D", "F"):
            r = scn["sessions"][key[0]]["reactions"][key[1]]
            d = r.get("data") or {}
            if d.get("tls") and d.get("end") == "X" and not a["out"].startswith("throw"):
                v.append((ci, "tls/truncated-data-stream-delivered-as-complete", a["out"][:80]))
        if key:
            r = scn["sessions"][key[0]]["reactions"][key[1]]
            d = r.get("data") or {}
            # a data connection answered with a certificate the client cannot verify must fail like the control one would
            if d.get("tls") and d.get("cert") == "rogue" and scn["cfg"]["verify"] != "none" and not a["out"].startswith("throw"):
                v.append((ci, "tls/data-connection-accepted-unverifiable-certificate", a["out"][:80]))
    return v


def oracle_reuse(scn, res):
    """C18: session offered by each data connection, as the peer's TLS engine saw it"""
    v = []
    c = scn["cfg"]
    if not c["tls"]:
        return v
    for si, log in enumerate(res["peer"]):
        k = 0
        for d in log["data"]:
            spec = None
            try:
                spec = scn["sessions"][si]["reactions"][d["ri"]].get("data")
            except (IndexError, KeyError, TypeError):
                pass
            if spec and spec.get("cert") == "rogue" and c["verify"] != "none":
                if d.get("tls") is True:
                    v.append((-1, "tls/data-connection-accepted-an-untrusted-certificate",
                              "session %d: the data handshake with a peer whose certificate the context does not trust was completed "
                              "(resumption %s)" % (si, "on" if c["resume"] else "off")))
                k += 1
                continue
            if d.get("tls") is not True:
                if d.get("arrived"):
                    k += 1          # an attempted data handshake counts: under TLS 1.3 it has used up the ticket
                continue
            reused = d.get("reused")
            if c["resume"] and not reused:
                if c["tlsver"] == "13" and k >= 1:
                    v.append((-1, "tls13/second-and-later-data-connection",
                              "session %d: data connection #%d did a full handshake although resumption is on (TLS 1.3)" % (si, k + 1)))
                else:
                    v.append((-1, "tls/control-session-not-offered", "session %d: data connection #%d was not resumed" % (si, k + 1)))
            if not c["resume"] and reused:
                v.append((-1, "tls/unexpected-resumption", "session %d: data connection #%d resumed a session" % (si, k + 1)))
            k += 1
    return v


def oracle_aggregates(scn, res):
    """what a returned aggregate reports about itself (checked by the driver against its members)"""
    v = []
    for ci, a in enumerate(res["calls"]):
        if "AGGREGATE-MISMATCH" in a["out"]:
            v.append((ci, "aggregate/status-differs-from-members", a["out"][-60:]))
    return v


def oracle_endpoints(scn, res):
    """C06: each transfer that reaches its data phase uses exactly one data connection, which arrives at the port the
    peer announced (passive) / which the peer could open to the endpoint the client advertised, an address of the
    client's control connection (active)"""
    v = []
    for ci, (e, a) in enumerate(zip(scn["exp"], res["calls"])):
        if a["out"] in ("blocked", "CRASH"):
            break
        key = scn["xfer_map"].get(ci)
        if not key or not e.get("moves_data") and not e.get("cancelled"):
            continue
        si, ri = key
        log = res["peer"][si]
        recs = [d for d in log["data"] if d.get("ri") == ri]
        if len(recs) != 1:
            v.append((ci, "endpoint/not-exactly-one-data-connection", "%d data connection records for the transfer" % len(recs)))
            continue
        d = recs[0]
        active = scn["sessions"][si]["reactions"][ri]["data"]["mode"] == "active"
        if not d.get("arrived"):
            if not a["out"].startswith("throw") or e.get("moves_data"):
                v.append((ci, "endpoint/data-connection-did-not-reach-the-negotiated-endpoint",
                          "announced %s, peer record %s" % (log.get("announced_ports"), {k: d[k] for k in d if k in ("connect_error", "connected_to")})))
            continue
        if active:
            adv = (log.get("advertised") or [None])
            ep = d.get("connected_to")
            if ep is None or ep not in adv:
                v.append((ci, "endpoint/active-connection-not-to-advertised-endpoint", "%s vs %s" % (ep, adv)))
            elif log.get("client_addr") and ep[0] != log["client_addr"]:
                v.append((ci, "endpoint/advertised-address-is-not-the-control-connection-local-address",
                          "%s advertised, control connection comes from %s" % (ep[0], log["client_addr"])))
        else:
            if d.get("arrived_at") not in (log.get("announced_ports") or []):
                v.append((ci, "endpoint/passive-connection-at-another-port", str(d.get("arrived_at"))))
    # every data socket the peer accepted belongs to some transfer: no extra connections
    for si, log in enumerate(res["peer"]):
        extra = [d for d in log["data"] if d.get("arrived") and d.get("ri") not in [k[1] for k in scn["xfer_map"].values() if k[0] == si]]
        if extra:
            v.append((-1, "endpoint/unexpected-data-connection", str(len(extra))))
    return v


def fam_dispatch(rng, n, dist):
    """all eight combinations passive/active x RFC 2428 on/off x IPv4/IPv6, mode switches inside a session, malformed
    and out-of-range 227 / 229 replies, announced ports nobody listens on, reconnects to another address"""
    out = []
    bad227 = [b"227 Entering Passive Mode (127,0,0,1,256,0)", b"227 ok (127,0,0,1,1)", b"227 no parens 127,0,0,1,4,5",
              b"227 (127,0,0,1,4,65536)", b"227 (1,2,3,4,5,6,7)", b"227 ()"]
    bad229 = [b"229 ok (|||65536|)", b"229 ok (|||6446)", b"229 ok (1234567|)", b"229 ok", b"229 ok (||||)", b"229 ok (|||-1|)"]
    for i in range(n):
        mode, rfc = ALL_METHODS[i % 4]
        ip6 = (i % 8) >= 4
        b = S.Builder(rng, mode, rfc, type="I", ip6=ip6)
        b.connect(login=(b"u", b"p"))
        for k in range(rng.randrange(1, 5)):
            r = rng.random()
            if r < 0.15:
                b.mode, b.rfc = rng.choice(ALL_METHODS)
                if ip6 and b.mode == "P":
                    b.rfc = True
                b.add_call(("M", b.mode)); b.add_call(("Y", b.rfc))
                dist.add("dispatch:switch-method")
            elif r < 0.3 and b.mode == "P":
                # a malformed / out-of-range reply to the set-up command: an error, never a connection
                text = rng.choice(bad229 if b.rfc else bad227)
                rp = P.R(int(text[:3]), text + b" [m%d]" % (b.mark + 1)); b.mark += 1
                b.cur.append(P.reaction([rp]))
                b.add_call(("D", b"f", None, None), cmds=[b.setup_cmd()], replies=[rp], throws=True)
                dist.add("dispatch:malformed-%s" % ("229" if b.rfc else "227"))
                b.disconnect(False)
                b.connect(login=(b"u", b"p"))
            elif r < 0.4 and b.mode == "P":
                b.transfer("D", b"f", payload_segs=[b"x"], listen="dead")
                dist.add("dispatch:dead-port")
                b.disconnect(False)
                b.connect(login=(b"u", b"p"))
            else:
                add_transfer(b, rng, dist, kind=rng.choice(["D", "U", "F"]))
                dist.add("dispatch:%s%s:%s" % (b.mode, "-rfc2428" if b.rfc else "", "ipv6" if ip6 else "ipv4"))
        if rng.random() < 0.5:
            # end the session (421, QUIT or not at all) and carry on against ANOTHER address
            r2 = rng.random()
            if r2 < 0.3:
                b.simple(b"NOOP", None, 421)
                b.disconnect(False)
            elif r2 < 0.55:
                b.disconnect(True)
            elif r2 < 0.75:
                b.simple(b"NOOP", None, 421)          # closed by the library; connect again without disconnect()
            else:
                pass                                  # connect() over a live connection
            if rng.random() < 0.5:
                b.ip6 = not b.ip6                     # ... to a server of the other address family
                if b.ip6 and b.mode == "P" and not b.rfc:
                    b.rfc = True
                    b.add_call(("Y", True))
            b.connect(login=(b"u", b"p"))
            add_transfer(b, rng, dist, kind=rng.choice(["D", "U", "F"]))
            dist.add("dispatch:reconnect-other-address%s" % ("-no-disconnect" if r2 >= 0.55 else ""))
        if b.connected:
            b.disconnect(True)
        out.append(b.scenario())
    return out


ORACLES.update(tls=oracle_tls, reuse=oracle_reuse, endpoints=oracle_endpoints, aggregates=oracle_aggregates)

FAMILIES = dict(interrupted=lambda r, n, d, th: fam_interrupted(r, n, d), bursts=lambda r, n, d, th: fam_bursts(r, n, d), greetings=lambda r, n, d, th: fam_greetings(r, n, d), linelen=lambda r, n, d, th: fam_linelen(r, n, d), tlsplain=lambda r, n, d, th: fam_tlsplain(r, n, d), mixed=lambda rng, n, dist, th: gen_mixed(rng, "quick", dist, n), observers=lambda r, n, d, th: fam_observers(r, n, d),
                abor=lambda r, n, d, th: fam_abor(r, n, d), downloads=fam_downloads, uploads=fam_uploads, ascii=fam_ascii, faults=fam_faults,
                refusals=lambda r, n, d, th: fam_refusals(r, n, d), cancel=lambda r, n, d, th: fam_cancel(r, n, d),
                args=lambda r, n, d, th: fam_args(r, n, d), tls=lambda r, n, d, th: fam_tls(r, n, d),
                reconnect=lambda r, n, d, th: fam_reconnect(r, n, d), reuse=lambda r, n, d, th: fam_reuse(r, n, d),
                dispatch=lambda r, n, d, th: fam_dispatch(r, n, d), typefault=lambda r, n, d, th: fam_typefault(r, n, d))

# ---------------------------------------------------------------------------------------------- the checks
PROPS = {
    # id: families with their share of the scenario budget, correspondence projections, oracles
    "C02": dict(fam=[("mixed", 5), ("abor", 2), ("refusals", 1), ("tls", 1)], proj=["out", "state", "wire"], oracles=["lockstep", "abor_order", "aggregates"]),
    "C09": dict(fam=[("args", 4), ("mixed", 2), ("reconnect", 2), ("linelen", 1), ("interrupted", 0)], proj=["out", "wire"], oracles=["commands"]),
    "C10": dict(fam=[("mixed", 6), ("args", 1), ("refusals", 1), ("tls", 2), ("typefault", 1)], proj=["out", "state", "wire"], oracles=["commands", "state", "aggregates"]),
    "C14": dict(fam=[("observers", 5), ("mixed", 2)], proj=["out", "obs"], oracles=["observers", "terminates", "commands"], variant="asan"),
    "C03": dict(fam=[("downloads", 6), ("mixed", 1), ("ascii", 1)], proj=["out", "io"], oracles=["transfers"]),
    "C04": dict(fam=[("uploads", 6), ("mixed", 1), ("ascii", 1)], proj=["out", "io", "wire"], oracles=["transfers"]),
    "C07": dict(fam=[("refusals", 6), ("mixed", 1)], proj=["out", "io", "held", "wire"], oracles=["transfers", "sockets", "lockstep", "aggregates"]),
    "C12": dict(fam=[("cancel", 5), ("mixed", 1), ("uploads", 1)], proj=["out", "io", "wire"], oracles=["transfers", "commands", "lockstep", "abor_order", "aggregates"]),
    "C17": dict(fam=[("mixed", 3), ("refusals", 1), ("cancel", 1), ("reconnect", 1), ("tls", 2)], proj=["out", "held"], oracles=["sockets"]),
    "C11": dict(fam=[("tls", 6), ("reconnect", 1), ("tlsplain", 1)], proj=["out", "state", "wire"], oracles=["tls", "commands"], n=(90, 500)),
    "C13": dict(fam=[("reconnect", 6), ("tls", 1)], proj=["out", "state", "held", "wire"], oracles=["state", "sockets", "lockstep", "tls"], n=(120, 600)),
    "C18": dict(fam=[("reuse", 1)], proj=["out", "wire"], oracles=["reuse"], n=(60, 300)),
    "C08": dict(fam=[("faults", 6), ("tlsplain", 1)], proj=["out", "state"], oracles=["terminates"], n=(120, 600), variant="asan"),
    "C01": dict(fam=[("bursts", 1)], proj=["out"], oracles=["lockstep"], n=(24, 96)),
    "C15": dict(fam=[("greetings", 1)], proj=["out"], oracles=["lockstep", "aggregates"], n=(48, 240)),
    "C05": dict(fam=[("ascii", 1)], proj=["out", "io"], oracles=["transfers"], n=(60, 300)),
    "C06": dict(fam=[("dispatch", 5), ("tls", 1)], proj=["out", "wire", "held"], oracles=["endpoints", "commands"], n=(160, 800)),
}


def generate(prop, rng, tier, dist):
    total = 1200 if tier == "thorough" else 240
    if "n" in PROPS[prop]:
        total = PROPS[prop]["n"][1 if tier == "thorough" else 0]
    fams = PROPS[prop]["fam"]
    wsum = sum(w for _, w in fams)
    scns = []
    for name, w in fams:
        n = max(4, total * w // wsum) if w else 2          # (weight 0: a fixed pair of scenarios)
        scns += FAMILIES[name](rng, n, dist, tier == "thorough")
    return scns


def run(prop, tier, seed):
    rep = vlib.Report(prop, tier, seed)
    rng = random.Random(seed * 7919 + int(prop[1:]))
    check_into(rep, prop, tier, rng)
    return rep.finish()


def check_into(rep, prop, tier, rng, module=None, merge=False):
    spec = PROPS[prop]
    module = module or ("Properties_" + prop)
    if os.path.exists(os.path.join(vlib.COQ, module + ".v")):
        prev = dict(rep.coverage)
        vlib.proof_step(rep, module)
        if merge and prev.get("obligations"):
            for k in ("obligations", "discharged"):
                rep.coverage[k] = rep.coverage.get(k, 0) + prev.get(k, 0)
            rep.coverage["theorems"] = prev.get("theorems", []) + rep.coverage.get("theorems", [])
            rep.coverage["print_assumptions"] = dict(prev.get("print_assumptions", {}), **rep.coverage.get("print_assumptions", {}))
            rep.coverage["checker_cmd"] = prev.get("checker_cmd", "") + " ; " + rep.coverage.get("checker_cmd", "")
    elif module != "-none-":
        rep.broken("coq:%s.v missing" % module, "no theorem file for this property yet")
    from props import leaf
    dist = leaf.Dist()
    scns = generate(prop, rng, tier, dist)
    try:
        drv = vlib.ocaml_driver()
        exe = registry.build_client(spec.get("variant", "plain"))
    except vlib.HarnessBuildError as e:
        rep.broken("correspondence:%s:harness-does-not-build" % prop, str(e)[-1500:])
        rep.coverage.update(evaluations=0, distinct_nontrivial=0, samples=[], rule="harness did not build")
        return
    work = os.path.join(vlib.BUILD, "work", prop)
    env = dict(os.environ, ASAN_OPTIONS="detect_leaks=0:abort_on_error=0", UBSAN_OPTIONS="print_stacktrace=1") if spec.get("variant") == "asan" else None
    results = P.run_scenarios(scns, exe, drv, work, tier, env=env)
    # a scenario that disagrees or fails an oracle is run once more, alone: only what reproduces is reported
    # (the first run shares the machine with eleven other clients and peers; real sockets under load can time out)
    known_sigs = set(k[0] for k in vlib.load_known(prop)[0])

    def is_bad(scn, res):
        if correspondence(scn, res, spec["proj"]):
            return True
        # (a recorded finding is reported as such by the report; re-running its scenarios would only cost time)
        return any(kind not in known_sigs for o in spec["oracles"] for _, kind, _ in ORACLES[o](scn, res))
    bad = [i for i in range(len(scns)) if is_bad(scns[i], results[i])]
    if bad:
        # (bounded: the shortest histories first, at most 24 of them, blocked ones last)
        bad = sorted(bad, key=lambda i: (results[i]["status"] != "ok", len(scns[i]["calls"])))[:24]
        again = P.run_scenarios([scns[i] for i in bad], exe, drv, work, tier + "-again", nworkers=2, env=env)
        for i, r in zip(bad, again):
            if not is_bad(scns[i], r):
                rep.notes.append("scenario %d disagreed in the parallel run and agreed when re-run alone (load): not reported" % i)
            results[i] = r
        # ... and a few that still disagree, a third time, one at a time: a race between the two streams of a session
        # (control and data) can repeat under the same load; what is reported has shown up three times out of three
        still = [i for i in bad if is_bad(scns[i], results[i]) and results[i]["status"] == "ok"]
        if 0 < len(still) <= 6:
            third = P.run_scenarios([scns[i] for i in still], exe, drv, work, tier + "-third", nworkers=1, env=env)
            for i, r in zip(still, third):
                if not is_bad(scns[i], r):
                    rep.notes.append("scenario %d disagreed twice and agreed in a third run, alone (timing): not reported" % i)
                    results[i] = r
    ndis, examples, nontriv = 0, [], 0
    for si, (scn, res) in enumerate(zip(scns, results)):
        for log in res["peer"]:
            for err in log.get("errors", []):
                rep.notes.append("peer error in scenario %d: %s" % (si, err))
        dis = correspondence(scn, res, spec["proj"])
        viol = []
        for o in spec["oracles"]:
            viol += ORACLES[o](scn, res)
        for ci, kind, what in viol:
            rep.violation(kind, what, dict(kind="proto", scenario=dump_scn(scn), call=ci,
                                           implementation=[c["out"][:200] for c in res["calls"]],
                                           model=[c["out"][:200] for c in res["model"]]))
        if dis:
            ndis += 1
            if len(examples) < 4:
                examples.append(dict(scenario=si, first=[dict(call=d[0], projection=d[1], implementation=d[2], model=d[3]) for d in dis[:3]],
                                     calls=[repr(c)[:120] for c in scn["calls"]]))
        if len(scn["calls"]) >= 3 and res["status"] == "ok":
            nontriv += 1
    if ndis:
        rep.broken("correspondence:%s:ftp::client-vs-extracted-protocol-model" % prop,
                   json.dumps(dict(scenarios_disagreeing=ndis, first=examples), default=str)[:6000])
    prevc = dict(rep.coverage) if merge else {}
    rep.coverage.update(
        evaluations=len(scns) + prevc.get("evaluations", 0), distinct_nontrivial=nontriv + prevc.get("distinct_nontrivial", 0),
        correspondence_disagreements=ndis + prevc.get("correspondence_disagreements", 0),
        distribution=dict(prevc.get("distribution", {}), **dist.d), protocol_histories=len(scns),
        api_calls=sum(len(s["calls"]) for s in scns),
        rule="seeded-random histories of API calls with scripted peer reactions covering the reply classes at every branching "
             "step; each history is run through the real ftp::client over loopback against bin/peer.py and through the "
             "extracted Coq model with the observed block sizes; compared per call on the projections %s; oracles %s; "
             "non-trivial = history of at least three calls that ran to its end" % (spec["proj"], spec["oracles"]),
        samples=prevc.get("samples", [])[:3] + [dict(calls=[repr(c)[:100] for c in scns[i]["calls"]][:8], outcomes=[c["out"][:60] for c in results[i]["calls"]][:8])
                 for i in range(min(3, len(scns)))])
    if merge and prevc.get("rule"):
        rep.coverage["rule"] = prevc["rule"] + " || " + rep.coverage["rule"]
    rep.assumptions = list(rep.assumptions) + ["kernel TCP: in-order exactly-once delivery; a small send arrives as written", "the scripted peer realises the script"]


def dump_scn(scn):
    def enc(o):
        if isinstance(o, (bytes, bytearray)):
            return {"hex": bytes(o).hex()}
        if isinstance(o, tuple):
            return {"tuple": [enc(x) for x in o]}
        if isinstance(o, list):
            return [enc(x) for x in o]
        if isinstance(o, dict):
            return {str(k): enc(v) for k, v in o.items()}
        return o
    return enc({k: scn[k] for k in ("cfg", "sessions", "calls", "xfer_map", "cfg_type_at")})


def _dec(o):
    if isinstance(o, dict):
        if set(o) == {"hex"}:
            return bytes.fromhex(o["hex"])
        if set(o) == {"tuple"}:
            return tuple(_dec(x) for x in o["tuple"])
        return {k: _dec(v) for k, v in o.items()}
    if isinstance(o, list):
        return [_dec(x) for x in o]
    return o


def replay(prop, path):
    r = json.load(open(path))
    if "scenario" not in r:
        print("replay file names no concrete input:", json.dumps(r.get("no_longer_checks"))[:3000])
        return 1
    scn = _dec(r["scenario"])
    scn["xfer_map"] = {int(k): tuple(v) for k, v in scn["xfer_map"].items()}
    scn["cfg_type_at"] = {int(k): v for k, v in scn["cfg_type_at"].items()}
    scn.setdefault("exp", [])
    exe = registry.build_client("plain")
    drv = vlib.ocaml_driver()
    res = P.run_scenarios([scn], exe, drv, os.path.join(vlib.BUILD, "work", prop), "replay", nworkers=1)[0]
    print("recorded: %s - %s" % (r.get("signature"), r.get("what")))
    rc = 0
    for ci, c in enumerate(scn["calls"]):
        i = res["calls"][ci]["out"][:160] if ci < len(res["calls"]) else "(not reached)"
        m = res["model"][ci]["out"][:160] if ci < len(res["model"]) else "(not reached)"
        print("call %d %r" % (ci, c))
        print("   implementation:", i)
        print("   model:         ", m)
        if canon_out(res["calls"][ci]["out"], scn, res) != res["model"][ci]["out"] if ci < min(len(res["calls"]), len(res["model"])) else True:
            rc = 1
    for log in res["peer"]:
        print("peer received:", [l["line"] for l in log["lines"]])
    if rc:
        print("VIOLATION property=%s replay=%s" % (prop, path))
    return rc
