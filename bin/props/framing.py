# framing.py - C01 (framing independent of segmentation) and C08 (termination, cap, no foreign exception)
# decided on the real control_connection::recv running over an in-memory transport (harness/leaf_ext.cpp:
# fake_socket injected into control_connection::socket_; the library's own read_until + match_eol run).
import json, os, random
import vlib
from props import registry, leaf

H = leaf.H
S = leaf.S


# ---------------------------------------------------------------- structured replies (mirrors FramingSpec.v)
def line_bytes(text, term):
    return text + (b"\r\n" if term == "c" else b"\n")


class Reply:
    def __init__(self, d3, first_rest, t0, conts=None, restz=None, tz=None):
        self.d3, self.first_rest, self.t0, self.conts, self.restz, self.tz = d3, first_rest, t0, conts, restz, tz

    def multi(self):
        return self.conts is not None

    def lines(self):
        if not self.multi():
            return [(self.d3 + self.first_rest, self.t0)]
        return [(self.d3 + b"-" + self.first_rest, self.t0)] + list(self.conts) + [(self.d3 + b" " + self.restz, self.tz)]

    def render(self):
        return b"".join(line_bytes(t, tm) for t, tm in self.lines())

    def expected(self):
        ls = self.lines()
        text = b"".join(line_bytes(t, tm) for t, tm in ls[:-1]) + ls[-1][0]
        return "ok:%d:%s" % (int(self.d3), H(text))

    def encode(self):
        if not self.multi():
            return "S:%s:%s:%s" % (H(self.d3), H(self.first_rest), self.t0)
        cs = ",".join("%s.%s" % (H(t), tm) for t, tm in self.conts) or "-"
        return "M:%s:%s:%s:%s:%s:%s" % (H(self.d3), H(self.first_rest), self.t0, cs, H(self.restz), self.tz)


def rand_text(rng, maxlen=12):
    n = rng.choice([0, 0, 1, 2, 3, 5, 8, maxlen])
    return bytes(rng.choice(b" abcXYZ-0123456789.()|,\x00\x7f\x80\xff\t") for _ in range(n))


def rand_reply(rng, dist, longline=False):
    code = rng.choice([100, 120, 125, 150, 199, 200, 211, 213, 220, 226, 227, 229, 230, 250, 257, 299, 300, 331, 332, 350,
                       399, 400, 421, 425, 426, 450, 499, 500, 502, 530, 550, 553, 599, rng.randrange(100, 600)])
    d3 = b"%03d" % code
    term = lambda: rng.choice("ccl")
    if rng.random() < 0.45:
        rest = rng.choice([b"", b" ", b" ok", b" " + rand_text(rng), rand_text(rng).lstrip(b"-"), b" " + d3 + b"-x", b"+", b"x-"])
        if rest[:1] == b"-":
            rest = b" " + rest
        if longline:
            tm = term()
            total = rng.choice([8189, 8190, 8191, 8192])
            rest = b" " + b"x" * (total - 4 - (2 if tm == "c" else 1))
            dist.add("reply:single-long-line")
            return Reply(d3, rest, tm)
        dist.add("reply:single")
        return Reply(d3, rest, term())
    other = b"%03d" % rng.choice([c for c in (100, 150, 200, 226, 550) if c != code])
    pool = [d3 + b"-x", d3, d3 + b"-", d3 + b"x", d3 + b"\t", other + b" done", other + b"-more", d3[:2] + b" x", d3[:2], b"",
            b" ", b" indented", b"0" + d3 + b" x", d3 + d3 + b" y", b"2", b"22", d3 + b"- " + d3 + b" ", rand_text(rng), b"-", b"\x00"]
    n = rng.choice([0, 0, 1, 1, 2, 3, 5])
    conts = []
    for _ in range(n):
        t = rng.choice(pool)
        if len(t) >= 4 and t[:3] == d3 and t[3:4] == b" ":
            t = d3 + b"-" + t[4:]
        conts.append((t, term()))
    if longline and conts:
        tm = term()
        total = rng.choice([8190, 8191, 8192])
        conts[0] = (b"y" * (total - (2 if tm == "c" else 1)), tm)
        dist.add("reply:multi-long-line")
    dist.add("reply:multi-%d-continuation-lines" % n)
    return Reply(d3, rand_text(rng), term(), conts, rng.choice([b"", b"end", rand_text(rng)]), term())


def frame_case(nrecv, ending, sched, pre, stream, expect=None):
    """nrecv: a number of receive steps, or a history such as 'RSRRS' (R = receive step, S = a command is sent)"""
    sc = ",".join(map(str, sched)) if sched else "-"
    c = "frame %s %s %s %s %s" % (nrecv, ending, sc, H(pre), H(stream))
    if expect is not None:
        c += " " + expect.replace(" ", "_")
    return c


def wf_cases(rng, dist, replies, tail, maxcut):
    """all the schedules for one stream of well-formed replies"""
    stream = b"".join(r.render() for r in replies) + tail
    n = len(replies)
    k421 = next((i for i, r in enumerate(replies) if int(r.d3) == 421), None)
    if k421 is None:
        expect = " ".join(r.expected() for r in replies) + " | left=" + H(tail)
    else:
        # 421 ends the connection: it is returned like any reply, what follows is dropped, a further step fails
        expect = " ".join([r.expected() for r in replies[:k421 + 1]] + (["exn"] if k421 + 1 < n else [])) + " | left=-"
        dist.add("reply:421-inside-stream")
    out = ["wfcheck %s %s %s" % (";".join(r.encode() for r in replies), H(stream[:len(stream) - len(tail)]),
                                 "_".join(r.expected() for r in replies))]
    mk = lambda sched, pre=b"", st=None: frame_case(n, rng.choice(["eof", "err"]), sched, pre, stream if st is None else st, expect)
    out.append(mk([]))
    dist.add("schedule:all-at-once")
    if len(stream) <= 3000:
        out.append(mk([1] * len(stream)))
        dist.add("schedule:one-byte-reads")
    if len(stream) <= maxcut:
        for k in range(1, len(stream)):
            out.append(mk([k]))
        dist.add("schedule:every-single-cut-position", max(0, len(stream) - 1))
    else:
        # cuts at and around every line terminator
        pos = [i for i, b in enumerate(stream) if b in (10, 13)]
        cuts = sorted(set(p + d for p in pos for d in (0, 1, 2) if 0 < p + d < len(stream)))
        for k in (cuts if len(cuts) <= 40 else rng.sample(cuts, 40)):
            out.append(mk([k]))
            dist.add("schedule:cut-at-terminators")
    for _ in range(4):
        sched = [rng.choice([1, 1, 2, 3, 5, 7, 16, 100, 511, 512, 513, 4096]) for _ in range(rng.randrange(1, 40))]
        out.append(mk(sched))
        dist.add("schedule:random")
    for _ in range(2):   # part of the stream is already in buffer_ (left over from the previous receive step)
        k = rng.randrange(0, min(len(stream), 8192) + 1)
        out.append(mk([rng.choice([1, 2, 7, 600])] * 5, stream[:k], stream[k:]))
        dist.add("prebuffered-prefix")
    if k421 is None and n >= 1:
        # histories: commands are sent between the receive steps while later replies are already buffered / arriving
        hist = lambda ops, sched, pre=b"", st=None: frame_case(ops, rng.choice(["eof", "err"]), sched, pre,
                                                               stream if st is None else st, expect)
        out.append(hist("S".join("R" * n) + "S", []))
        out.append(hist("S" + "SS".join("R" * n), [1] * min(len(stream), 3000)))
        ops = "".join(rng.choice(["R", "SR", "SSR"]) for _ in range(n)) + rng.choice(["", "S"])
        out.append(hist(ops, [rng.choice([1, 3, 17, 100, 4096]) for _ in range(rng.randrange(1, 20))]))
        k = rng.randrange(0, min(len(stream), 8192) + 1)
        out.append(hist("S".join("R" * n), [rng.choice([1, 2, 7, 600])] * 5, stream[:k], stream[k:]))
        dist.add("history:sends-between-receive-steps", 4)
    return out


CORPUS_C01 = [
    frame_case("RSR", "eof", [], b"", b"150 ok\r\n226 done\r\n", "ok:150:%s ok:226:%s | left=-" % (S("150 ok"), S("226 done"))),
    frame_case("RSRS", "eof", [], b"120 wait\r\n220 re", b"ady\r\n33", "ok:120:%s ok:220:%s | left=%s" % (S("120 wait"), S("220 ready"), S("33"))),
    frame_case(2, "eof", [7], b"", b"150 ok\r\n226 done\r\n", "ok:150:%s ok:226:%s | left=-" % (S("150 ok"), S("226 done"))),
    frame_case(2, "eof", [17], b"", b"150 ok\r\n226 done\r\n", "ok:150:%s ok:226:%s | left=-" % (S("150 ok"), S("226 done"))),
    frame_case(1, "eof", [1] * 40, b"", b"211-feat\r\n abc\r\n211 end\r\n220 x\n",
               "ok:211:%s | left=%s" % (S("211-feat\r\n abc\r\n211 end"), S("220 x\n"))),
    frame_case(2, "eof", [], b"299 LEFT\r\n2", b"20 x\r\n", "ok:299:%s ok:220:%s | left=-" % (S("299 LEFT"), S("220 x"))),
]


def gen_c01(rng, tier, dist):
    thorough = tier == "thorough"
    cases = list(CORPUS_C01)
    nstreams = 1200 if thorough else 250
    maxcut = 400 if thorough else 64
    for i in range(nstreams):
        n = rng.choice([1, 1, 2, 2, 3, 4, 6])
        longline = (i % 25 == 0)
        replies = [rand_reply(rng, dist, longline and j == 0) for j in range(n)]
        tail = rng.choice([b"", b"", b"2", b"22", b"220", b"220 x", b"\r", b"150 partial", b"\n", b"x\r\n"])
        cases += wf_cases(rng, dist, replies, tail, maxcut)
    # a long line (which makes the receive buffer grow to its full size) with a burst of further replies behind it: the
    # buffer is filled to the brim while complete replies wait in it
    for total in (3700, 5000, 8000, 8189, 8190, 8191):
        for tm in ("c", "l"):
            long1 = Reply(b"150", b" " + b"x" * (total - 4 - (2 if tm == "c" else 1)), tm)
            behind = [Reply(b"226", b" " + bytes([97 + j]) * 2500, "c") for j in range(4)]
            multi = Reply(b"211", b" start", "c", [(b"y" * (total - 2), "c")], b"end", "c")
            for rs in ([long1] + behind, [long1, Reply(b"226", b" done", "c")], [multi] + behind):
                stream = b"".join(r.render() for r in rs)
                expect = " ".join(r.expected() for r in rs) + " | left=-"
                for sched in ([], [4096] * 8, [1000] * 30, [8192] * 4, [512] * 40):
                    cases.append(frame_case(len(rs), "eof", sched, b"", stream, expect))
                dist.add("burst-behind-a-long-line:%d" % total, 5)
    # 150 and 226 back to back, every cut, both terminator styles
    for a in ("c", "l"):
        for b in ("c", "l"):
            rs = [Reply(b"150", b" Opening", a), Reply(b"226", b" Transfer complete", b)]
            cases += wf_cases(rng, dist, rs, b"", 10 ** 9)
    return cases


# ---------------------------------------------------------------- C08: arbitrary and mutated streams
DIALOGUES = [b"220 ready\r\n", b"220-hello\r\n more\r\n220 ready\r\n331 need pass\r\n230 ok\r\n",
             b"211-Features:\r\n EPSV\r\n MDTM\r\n211 End\r\n", b"150 ok\r\n226 done\r\n", b"227 ok (127,0,0,1,4,5)\r\n",
             b"421 bye\r\n", b"200 ok\n200 ok\n", b"213-status\r\n213-\r\n213 \r\n"]


def gen_c08(rng, tier, dist):
    thorough = tier == "thorough"
    cases = [frame_case(1, "eof", [], b"", b"211-feat\r\n abc\r\n"),
             frame_case(1, "err", [3], b"", b"211-feat\r\n abc\r\n"),
             frame_case(1, "eof", [], b"", b""), frame_case(1, "eof", [], b"", b"22"),
             frame_case(1, "eof", [], b"", b"220 x\r"), frame_case(2, "eof", [1] * 10, b"", b"220 x\r220 y\r"),
             frame_case(1, "eof", [], b"", b"x" * 8192), frame_case(1, "eof", [], b"", b"x" * 8191 + b"\r\n"),
             frame_case(1, "eof", [], b"", b"220 " + b"x" * 8186 + b"\r\n"), frame_case(1, "eof", [], b"", b"220 " + b"x" * 8187 + b"\r\n"),
             frame_case(1, "eof", [100] * 100, b"", b"220-" + b"x" * 9000), frame_case(1, "eof", [], b"", b"220-\r\n" + b"y" * 8192 + b"\r\n220 \r\n"),
             frame_case(1, "eof", [], b"", b"99999 x\r\n"), frame_case(1, "eof", [], b"", b"65536\r\n"), frame_case(1, "eof", [], b"", b"-12 x\r\n")]
    # close / error at every position of well-formed dialogues, three schedules
    for d in DIALOGUES:
        nrep = d.count(b"\n") + 1
        for p in range(len(d) + 1):
            for ending in ("eof", "err"):
                for sched in ([], [1] * p, [3, 1, 2] * (p // 3 + 1)):
                    cases.append(frame_case(nrep, ending, sched, b"", d[:p]))
            dist.add("truncated-dialogue:every-position")
    # mutated dialogues
    nmut = 6000 if thorough else 1200
    for _ in range(nmut):
        d = bytearray(rng.choice(DIALOGUES) * rng.choice([1, 1, 2]))
        for _ in range(rng.choice([1, 1, 2, 3])):
            op = rng.random()
            p = rng.randrange(len(d) + 1)
            if op < 0.35 and d:
                d[min(p, len(d) - 1)] = rng.choice(b"\r\n -0123456789x\x00\xff")
            elif op < 0.6:
                d[p:p] = bytes([rng.choice(b"\r\n -09x\x00\xff")]) * rng.choice([1, 1, 2, 3])
            elif op < 0.8 and d:
                del d[min(p, len(d) - 1)]
            else:
                d[p:p] = rng.choice([b"\r\r\n", b"\n\r", b"\r", b"999-", b"1", b" " * 50, b"-" * 3])
        sched = [rng.choice([1, 2, 3, 7, 50, 512, 8192]) for _ in range(rng.randrange(0, 30))]
        cases.append(frame_case(rng.randrange(1, 8), rng.choice(["eof", "err"]), sched, b"", bytes(d)))
        dist.add("mutated-dialogue")
    # arbitrary bytes, long unterminated lines around the cap
    for _ in range(1500 if thorough else 300):
        n = rng.choice([0, 1, 2, 3, 4, 5, 10, 50, 300])
        d = bytes(rng.choice(b"\r\n\r\n 0123456789-ab\x00\xff") for _ in range(n))
        sched = [rng.choice([1, 2, 5, 100]) for _ in range(rng.randrange(0, 20))]
        pre_n = rng.randrange(0, n + 1)
        cases.append(frame_case(rng.randrange(1, 5), rng.choice(["eof", "err"]), sched, d[:pre_n], d[pre_n:]))
        dist.add("arbitrary-bytes")
    for total in (8190, 8191, 8192, 8193, 8194, 9000, 16384, 20000):
        for tm in (b"\r\n", b"\n", b"\r", b""):
            for first in (b"220 ", b"220-"):
                body = first + b"z" * (total - len(first) - len(tm)) + tm
                for sched in ([], [1000] * 30, [8191, 1, 1, 1], [511] * 50):
                    cases.append(frame_case(2, rng.choice(["eof", "err"]), sched, b"", body + b"220 next\r\n"))
                    dist.add("around-the-8192-cap")
    # the data path under the sanitizers: the ASCII converters at their buffer sizes (8192), with a CR held back
    # from the block before, blocks that fill the receive buffer exactly, and the boundary neighbours
    HX = lambda b: (bytes(b).hex() if len(b) else "-")
    for first in (b"abc\r", b"\r", b"x" * 8191 + b"\r", b"ab"):
        for mid in (8191, 8192, 8193):
            for fill in (b"a", b"\r", b"\n", b"a\r"):
                body = (fill * mid)[:mid]
                data = first + body + b"END\r\n"
                cases.append("adown %d,%d,5 %s" % (len(first), mid, HX(data)))
                dist.add("data-path:ascii-download-block-at-buffer-size")
    # integers taken from server text never wrap: the decimal parsers at and far beyond their limits (every leading
    # digit of a 20-digit number, values whose wrapped image is larger than their prefix, longer numbers)
    for k, lim in (("u8", 2 ** 8), ("u16", 2 ** 16), ("u32", 2 ** 32), ("u64", 2 ** 64)):
        vals = [lim - 1, lim, lim + 1, lim + 4, 2 * lim, 10 * lim - 1, lim * lim, 3 * 10 ** 19, 36893488147419103231, 25 * 10 ** 18]
        vals += [d * 10 ** 19 + rng.randrange(10 ** 19) for d in range(1, 10)]
        vals += [rng.randrange(lim, 100 * lim) for _ in range(40)] + [rng.randrange(0, lim) for _ in range(10)]
        for v in vals:
            cases.append("%s %s" % (k, HX(str(v).encode())))
            dist.add("decimal:" + k)
    for n in (8191, 8192, 8193, 16384, 16385):
        for fill in (b"a", b"\n", b"\r", b"\r\n", b"a\n"):
            data = (fill * n)[:n]
            for isz in (8192,):
                for sizes in ("8192", "8191", "1,8192", "4096"):
                    cases.append("aup %d %s %s %s" % (isz, sizes, rng.choice(["-", "1", "8192", "100,8192"]), HX(data)))
                    dist.add("data-path:ascii-upload-at-buffer-size")
    return cases


def judge(prop, c, i, s):
    """the property's own verdict on one case: None, or (signature, what)"""
    if "livelock" in i:
        return ("recv/never-returns-after-eof", "the receive step keeps reading after the transport reported end of stream")
    if i.startswith("CRASH"):
        return ("runtime/crash-or-sanitizer-report", i[:300])
    if c.split()[0] in ("u8", "u16", "u32", "u64") and i != "none" and i != bytes.fromhex(c.split()[1]).decode().lstrip("0").rjust(1, "0"):
        return ("decimal/wrapped-or-wrong-value", "numeral %s parsed as %s" % (bytes.fromhex(c.split()[1]).decode(), i))
    if "exn:other" in i or "BUFFER-OVER-CAP" in i:
        return ("recv/foreign-exception-or-cap-exceeded", i[:200])
    if prop == "C01" and i != s:
        kind = "recv/wrong-framing"
        if " exn" in (" " + i):
            kind = "recv/throws-on-well-formed-stream"
        return (kind, "replies returned differ from the replies in the stream, or the rest was not kept")
    return None


def run(prop, tier, seed):
    rep = vlib.Report(prop, tier, seed)
    rng = random.Random(seed * 7919 + int(prop[1:]))
    check_into(rep, prop, tier, rng)
    return rep.finish()


def check_into(rep, prop, tier, rng):
    vlib.proof_step(rep, "Properties_" + prop)
    dist = leaf.Dist()
    cases = (gen_c01 if prop == "C01" else gen_c08)(rng, tier, dist)
    cases = leaf.corpus_files(prop) + cases
    variant = "asan" if prop == "C08" else "plain"
    work = os.path.join(vlib.BUILD, "work", prop)
    try:
        drv = vlib.ocaml_driver()
        exe = registry.build_leaf(variant)
    except vlib.HarnessBuildError as e:
        rep.broken("correspondence:%s:harness-does-not-build" % prop, str(e)[-1500:])
        rep.coverage.update(evaluations=0, distinct_nontrivial=0, samples=[], rule="harness did not build")
        return
    env = dict(os.environ, ASAN_OPTIONS="detect_leaks=0:abort_on_error=0", UBSAN_OPTIONS="print_stacktrace=1")
    impl = vlib.run_lines(exe, cases, work, tier + "-impl", env=env)
    ms = vlib.run_lines(drv, cases, work, tier + "-model")
    ncorr, examples, nontriv = 0, [], set()
    for c, i, l in zip(cases, impl, ms):
        m, _, s = l.partition("\t")
        if m.startswith("MODEL-ERROR") or (c.startswith("wfcheck") and m != "ok"):
            rep.broken("model-driver-or-generator", "%s -> %s" % (c[:300], m))
            continue
        if i.startswith("NOT-RUN"):
            continue            # the process had died on an earlier case of the shard: that case carries the report
        bad = judge(prop, c, i, s)
        if bad:
            rep.violation(bad[0], bad[1], dict(kind="frame", case=c, implementation=i, specification=s, model=m))
        if i != m:
            ncorr += 1
            if len(examples) < 5:
                examples.append(dict(case=c[:400], implementation=i[:300], model=m[:300]))
        f = c.split()
        if f[0] == "frame" and ("ok:" in m) and (f[3] != "-" or f[4] != "-"):
            nontriv.add(c)
    if ncorr:
        rep.broken("correspondence:%s:control_connection::recv-vs-extracted-model" % prop,
                   json.dumps(dict(disagreements=ncorr, first=examples)))
    idx = sorted(rng.sample(range(len(cases)), min(5, len(cases))))
    rep.coverage.update(
        evaluations=len(cases), distinct_nontrivial=len(nontriv), correspondence_disagreements=ncorr,
        distribution=dist.d, sanitizers=(variant == "asan"),
        rule="streams of generated well-formed replies (C01) / truncated, mutated and arbitrary byte streams (C08), each "
             "with all-at-once, one-byte, every-cut-position and random read schedules, EOF or I/O error at the end, "
             "and with part of the stream pre-buffered; run through the real control_connection::recv over an in-memory "
             "transport and through the extracted model; non-trivial = at least one reply is returned under a "
             "non-trivial schedule or pre-buffering (distinct case lines)",
        samples=[dict(case=cases[i][:300], implementation=impl[i][:200]) for i in idx])
    rep.assumptions = ["boost::asio::read_until over a capped dynamic string buffer behaves as modelled (validated by running it)",
                       "the in-memory transport stands for the socket: read sizes, EOF and errors are as scheduled"]
    return


def replay(prop, path):
    r = json.load(open(path))
    if "case" not in r:
        print("replay file names no concrete input:", json.dumps(r.get("no_longer_checks"))[:2000])
        return 1
    work = os.path.join(vlib.BUILD, "work", prop)
    exe = registry.build_leaf("asan" if prop == "C08" else "plain")
    drv = vlib.ocaml_driver()
    i = vlib.run_lines(exe, [r["case"]], work, "replay-impl")[0]
    m = vlib.run_lines(drv, [r["case"]], work, "replay-model")[0]
    print("case:           ", r["case"][:500])
    print("implementation: ", i[:500])
    print("model / spec:   ", m[:500])
    bad = judge(prop, r["case"], i, m.split("\t")[1] if "\t" in m else m)
    if bad:
        print("verdict:        ", bad[0], "-", bad[1][:200])
        print("VIOLATION property=%s replay=%s" % (prop, path))
        return 1
    return 0
