# app.py - C20: the interactive client (app/cmdline). Proof obligations of Properties_C20.v (model: coq/App.v on
# top of the protocol model) + correspondence of the extracted model with the REAL cmdline binary, built from
# /repo's tree and run as a subprocess with piped stdin in a scratch directory against the scripted peer + oracles
# written from the property text (exit status, offline answers without network activity, local files protected,
# refused download removes the created file, error drops the connection and the next open is clean).
import json, os, random, re, shutil, subprocess, sys, threading, time, queue
sys.path.insert(0, os.path.dirname(os.path.dirname(os.path.abspath(__file__))))
import vlib, protolib as P, scenarios as S, peer as peerlib
from props import registry

H = P.H
RUN_TIMEOUT = 20.0
NOT_OPEN = b"Connection is not open."
HELP_RE = rb"Commands:\n(?:  [^\n]*\n){27}"

NET_VERBS = ["user", "logout", "close", "cd", "cdup", "ls", "put", "get", "rename", "pwd", "mkdir", "rmdir", "del", "stat",
             "syst", "type", "binary", "ascii", "size", "noop", "rhelp"]
ALL_VERBS = NET_VERBS + ["open", "mode", "active", "passive", "help", "exit"]
SPACE = b" \t\n\v\f\r"


def build_cmdline(variant="plain"):
    d = os.path.join(vlib.REPO, "app", "cmdline", "src")
    srcs = sorted(os.path.join(d, f) for f in os.listdir(d) if f.endswith(".cpp"))
    return vlib.build_harness("cmdline", [], vlib.repo_lib_sources() + srcs, variant)


def quote(arg):
    """an argument as std::quoted reads it back"""
    if arg == b"" or any(c in SPACE for c in arg) or arg.startswith(b'"'):
        return b'"' + arg.replace(b"\\", b"\\\\").replace(b'"', b'\\"') + b'"'
    return arg


def vcase(rng, v):
    r = rng.random()
    if r < 0.7:
        return v
    if r < 0.85:
        return v.upper()
    return "".join(c.upper() if rng.random() < 0.5 else c for c in v)


def rand_arg(rng, dist=None):
    k = rng.choice(["word", "word", "path", "spaces", "quote", "long", "overlong", "empty", "backslash", "high"])
    if dist is not None:
        dist.add("arg-kind:" + k)
    if k == "word":
        return rng.choice([b"a", b"file.txt", b"x1", b"README", b"data.bin", b"%s%d%%"])
    if k == "path":
        return rng.choice([b"/pub/a.txt", b"dir/sub/f", b"../up", b"a/", b"/", b"nodir/x.bin"])
    if k == "spaces":
        return rng.choice([b"my file", b" lead", b"trail ", b"a\tb"])
    if k == "quote":
        return rng.choice([b'say "hi"', b'"q', b'a"b', b"it's"])
    if k == "long":
        return b"L" * rng.choice([200, 255])
    if k == "overlong":
        return b"a" * rng.choice([256, 300, 5000])
    if k == "empty":
        return b""
    if k == "backslash":
        return rng.choice([b"c:\\dir\\f.txt", b"a\\b", b"\\"])
    return bytes([0xC3, 0xA9, 0xFF, 0x80]) + b"x"


# ---------------------------------------------------------------------------------------------- scenario builder
class AB:
    """input script + peer script + the reference expectations the oracles use"""

    def __init__(self, rng, dist):
        self.rng, self.dist = rng, dist
        self.b = S.Builder(rng)
        self.lines = []
        self.files = {}
        self.connected = False
        self.mode = "P"
        self.maybe = set()
        self.exact = []           # reference stdout (pieces) while it can be predicted exactly; None once it cannot
        self.exp = dict(untouched=[], absent=[], present={}, marks=[], no_network=True, tails=[], uploads=[])

    # reference stdout bookkeeping
    def say(self, *pieces):
        if self.exact is not None:
            self.exact += list(pieces)

    def unknown(self):
        self.exact = None

    def line(self, l, answer=None):
        """one main-prompt line; answer: the exact output it must produce (None = not predicted)"""
        self.lines.append(l)
        self.say(b"ftp> ")
        if answer is None:
            self.unknown()
        else:
            self.say(answer)

    def local_file(self, name, content):
        self.files[name] = content
        self.exp["untouched"].append(name)

    def local_link(self, name, target):
        """a symbolic link whose target does not exist: std::filesystem::exists follows it and says 'no', yet the name is
        taken - opening it for writing would create the target, removing it would remove the link"""
        self.links = getattr(self, "links", {})
        self.links[name] = target
        self.exp["untouched"].append(name)

    def local_dir(self, name, inner):
        """an existing local directory with files in it: for std::filesystem::exists it is there like a file"""
        self.dirs = getattr(self, "dirs", {})
        self.dirs[name] = dict(inner)
        for f in inner:
            self.exp["untouched"].append(name + b"/" + f)

    # ---- offline commands
    def offline(self, verb=None, args=None):
        rng = self.rng
        verb = verb or rng.choice(NET_VERBS)
        if args is None:
            args = [rand_arg(rng, self.dist) for _ in range(rng.choice([0, 0, 1, 1, 2, 3]))]
        l = b" ".join([vcase(rng, verb).encode()] + [quote(a) for a in args])
        self.dist.add("offline-verb:" + verb)
        self.line(l, NOT_OPEN + b"\n")

    def local_cmd(self, verb):
        if verb == "mode":
            ans = b"Using passive mode for data connection.\n" if self.mode == "P" else b"Using active mode for data connection.\n"
        elif verb == "active":
            self.mode, self.b.mode, ans = "A", "A", b"Active mode on.\n"
        elif verb == "passive":
            self.mode, self.b.mode, ans = "P", "P", b"Passive mode on.\n"
        elif verb == "help":
            ans = ("HELP",)
        elif verb == "type":
            # the type in use: the one the library reports (changed only by an acknowledged 'ascii' / 'binary')
            if self.connected:
                ans = b"Using binary transfer type.\n" if self.b.type == "I" else b"Using ascii transfer type.\n"
            else:
                ans = NOT_OPEN + b"\n"
        else:
            raise ValueError(verb)
        self.dist.add("local-verb:" + verb)
        self.line(vcase(self.rng, verb).encode(), ans)

    def junk(self):
        rng = self.rng
        k = rng.choice(["empty", "spaces", "unknown", "unknown-args", "prefix", "binaryjunk"])
        self.dist.add("junk-line:" + k)
        if k == "empty":
            self.line(b"", b"")
        else:
            l = {"spaces": b"   ", "unknown": b"bogus", "unknown-args": b"frobnicate a b", "prefix": b"lsx",
                 "binaryjunk": bytes([1, 2, 200, 250]) + b"zz"}[k]
            self.line(l, b"Invalid command.\n")

    def usage(self, verb, nargs, msg):
        args = [quote(rand_arg(self.rng)) for _ in range(nargs)]
        self.dist.add("usage-error:" + verb)
        self.line(b" ".join([verb.encode()] + args), (msg + "\n").encode() if self.connected else NOT_OPEN + b"\n")

    # ---- sessions
    def open(self, greeting=(220,), user=b"alice", pw=b"secret", plan=None, form="hostport", **sess_kw):
        self.exp["no_network"] = False
        b = self.b
        if form == "port21":
            # nothing listens on port 21 of the loopback addresses: the connect is refused
            si = b.new_session(P.reaction([]), reachable=False)
            b.connected = False
            self.line(b"open {H%d}" % si)
            self.connected = False
            return si
        ci = b.connect(login=None, greeting=greeting, **sess_kw)
        si = b.exp[ci]["session"]
        self.exp["marks"] += [(si, r[2]) for r in b.exp[ci]["replies"]]
        self.line(b"open {H%d} {P%d}" % (si, si))
        self.connected = greeting[-1] != 421
        if all(c < 400 for c in greeting):
            self.lines += [user, pw]
            ci = b.login(user, pw, plan)
            self.exp["marks"] += [(si, r[2]) for r in b.exp[ci]["replies"]]
        return si

    def user(self, name=b"carol", pw=b"s3cret pw", plan=None, prompt_name=False):
        """the 'user' command on an open session: the password (and, without an argument, the name) is asked for on its own line"""
        if prompt_name:
            self.line(b"user")
            extra = [name, pw]
        else:
            self.line(b"user " + quote(name))
            extra = [pw]
        if not self.connected:
            return
        self.lines += extra
        ci = self.b.login(name, pw, plan)
        self.exp["marks"] += [(self.cur_si(), r[2]) for r in self.b.exp[ci]["replies"]]

    def cur_si(self):
        return len(self.b.sessions) - 1

    def net_simple(self, verb, arg_form="given", code=None, multi=False, close_after=False, reset_after=False, extra=None):
        """cd/cdup/pwd/mkdir/rmdir/del/stat/syst/noop/rhelp/size/user-less commands mapping to one FTP command"""
        ftp = {"cd": b"CWD", "cdup": b"CDUP", "pwd": b"PWD", "mkdir": b"MKD", "rmdir": b"RMD", "del": b"DELE", "stat": b"STAT",
               "syst": b"SYST", "noop": b"NOOP", "rhelp": b"HELP", "size": b"SIZE"}[verb]
        takes = {"cd": 1, "mkdir": 1, "rmdir": 1, "del": 1, "size": 1, "stat": "opt", "rhelp": "opt"}.get(verb, 0)
        rng = self.rng
        arg = None
        l = [vcase(rng, verb).encode()]
        extra_lines = []
        if takes == 1:
            arg = rand_arg(rng, self.dist)
            while b"\r" in arg or b"\n" in arg:
                arg = rand_arg(rng)
            if arg_form == "prompt":
                extra_lines = [arg]          # asked for on its own line: taken verbatim
            else:
                l.append(quote(arg))
        elif takes == "opt":
            if rng.random() < 0.5:
                arg = rand_arg(rng, self.dist)
                l.append(quote(arg))
        self.dist.add("net-verb:" + verb)
        self.line(b" ".join(l))
        self.lines += extra_lines
        if not self.connected:
            return
        if verb == "size" and code is None:
            code = rng.choice([213, 213, 550])
        ci = self.b.simple(ftp, arg, code=code, multi=multi, close_after=close_after, reset_after=reset_after, extra=extra)
        if verb == "size" and code == 213:
            # a size reply the client can parse
            rp = self.b.cur[-1]["now"][0]
            n = rng.choice([0, 7, 123456789, 2 ** 63])
            self.b.mark += 1
            txt = ("213 %d" % n).encode()
            forced = getattr(self, "force_size", None)
            if forced:
                txt = forced.pop(0)
                self.dist.add("size-reply:malformed-fixed-list")
            elif rng.random() < 0.5:
                # ... or one it cannot: blanks, padding, signs, overflow, nothing at all - the command goes on, the client too
                txt = rng.choice([b"213  ", b"213    ", b"213 \t", b"213  ", b"213 \t ", b"213   ", b"213", b"213 ", b"213  42", b"213 42 ", b"213 -1", b"213 +5", b"213 4 2",
                                  b"213 18446744073709551616", b"213 99999999999999999999999", b"213 0x10", b"213 1e3", b"213 12abc"])
                self.dist.add("size-reply:malformed")
            self.b.cur[-1]["now"][0] = ("R", 213, txt)
            self.b.exp[ci]["replies"] = [("R", 213, txt)]
        self.exp["marks"] += [(self.cur_si(), r[2]) for r in self.b.exp[ci]["replies"]]
        if code == 421 or close_after or reset_after:
            self.connected = self.b.connected if code == 421 else self.connected

    def set_type(self, t, code=200):
        self.line(b"ascii" if t == "A" else b"binary")
        if t == "A":
            self.exp["ascii_used"] = True
        if self.connected:
            self.b.set_type(t, code)

    def rename(self, c1=350, c2=250):
        a, b2 = b"old name", rand_arg(self.rng, self.dist)
        while b2 == b"":
            b2 = rand_arg(self.rng)
        self.line(b"rename " + quote(a) + b" " + quote(b2))
        if self.connected:
            self.b.rename(a, b2, c1, c2)

    def close(self, code=221):
        self.line(b"close")
        if self.connected:
            self.b.disconnect(True, code)
            self.connected = False

    def exit(self, code=221):
        self.lines.append(b"exit")
        self.say(b"ftp> ")
        if self.connected:
            self.b.disconnect(True, code)
            self.unknown()
            self.connected = False
        self.ended = True

    ended = False

    def ls(self, path=None, **kw):
        l = b"ls" + (b" " + quote(path) if path is not None else b"")
        self.line(l)
        if self.connected:
            ci = self.b.transfer("F", path, payload_segs=kw.pop("payload_segs", [b"-rw-r--r-- 1 f\r\ndrwxr-xr-x 2 d\r\n"]), **kw)
            if self.b.exp[ci].get("throws"):
                self.connected = self.b.connected = False

    def get(self, remote, local=None, payload=b"", **kw):
        """returns the local name the handler derives"""
        l = b"get " + quote(remote) + (b" " + quote(local) if local is not None else b"")
        self.line(l)
        name = local if local is not None else re.split(rb"[\\/]", remote)[-1]
        if not self.connected:
            return name
        creatable = 0 < len(name) <= 255 and b"/" not in name and name not in (b".", b"..") and name not in self.files \
            and name not in getattr(self, "dirs", {}) and name not in getattr(self, "links", {}) \
            and name not in self.exp["present"] and name not in self.maybe
        # (a refused or failed-completion download removes the file again: the name stays free)
        if creatable:
            segs = [payload[i:i + 4000] for i in range(0, len(payload), 4000)]
            ci = self.b.transfer("D", remote, payload_segs=segs, cb=[], **kw)
            e = self.b.exp[ci]
            if kw.get("refuse_at") == "cmd" and self.b.mode == "P" and self.b.cur and self.b.cur[-1].get("data") and self.rng.random() < 0.5:
                # the server drops its end of the data connection (abortively) before it refuses RETR: still a refusal
                self.b.cur[-1]["data"]["reset_first"] = True
                self.dist.add("get:refused-with-the-data-connection-reset-first")
            if e.get("refused"):
                if name not in self.exp["absent"]:
                    self.exp["absent"].append(name)
            elif not e.get("throws") and e.get("moves_data") and kw.get("done_code", 226) < 400:
                self.exp["present"][name] = payload
                if name in self.exp["absent"]:
                    self.exp["absent"].remove(name)
                self.files_created = getattr(self, "files_created", []) + [name]
            elif e.get("throws"):
                self.maybe.add(name)          # an ftp error: the file stays (the property does not say with what content)
            if e.get("throws"):
                self.connected = False
                self.b.connected = False
        return name

    def put(self, local, remote=None, **kw):
        l = b"put " + quote(local) + (b" " + quote(remote) if remote is not None else b"")
        self.line(l)
        if not self.connected:
            return
        if local in self.files:
            rname = remote if remote is not None else re.split(rb"[\\/]", local)[-1]
            ci = self.b.transfer("U", rname, chunks=[self.files[local]], cb=[], **kw)
            e = self.b.exp[ci]
            if e.get("moves_data"):
                self.exp["uploads"].append((self.cur_si(), len(self.b.cur) - 1, self.files[local]))
            if e.get("throws"):
                self.connected = False
                self.b.connected = False

    def scenario(self, family):
        return dict(family=family, sessions=self.b.sessions, files=dict(self.files), lines=list(self.lines),
                    exp=self.exp, exact=self.exact, bexp=self.b.exp, ended_by_exit=self.ended,
                    dirs=dict(getattr(self, "dirs", {})), links=dict(getattr(self, "links", {})))


# ---------------------------------------------------------------------------------------------- families
def fam_offline(rng, n, dist):
    out = []
    for _ in range(n):
        a = AB(rng, dist)
        for k in range(rng.choice([1, 2, 3])):
            a.local_file(b"keep%d.txt" % k, os.urandom(rng.choice([0, 5, 3000])))
        if rng.random() < 0.3:
            a.local_file(b"a", b"precious")
            a.local_file(b"file.txt", b"precious too")
        for _ in range(rng.choice([3, 8, 20])):
            r = rng.random()
            if r < 0.6:
                a.offline()
            elif r < 0.75:
                a.local_cmd(rng.choice(["mode", "active", "passive", "help", "type", "type"]))
            elif r < 0.9:
                a.junk()
            elif r < 0.95:
                a.line(b"open localhost 99999", b"Invalid port number.\n")
            else:
                a.line(b"open a b c", b"usage: open hostname [ port ]\n")
        if rng.random() < 0.6:
            a.exit()
        out.append(a.scenario("offline"))
    return out


USAGE = {"cd": (2, "usage: cd remote-directory"), "ls": (2, "usage: ls [ remote-directory ]"),
         "mkdir": (2, "usage: mkdir directory-name"), "rmdir": (3, "usage: rmdir directory-name"),
         "del": (2, "usage: del remote-file"), "stat": (2, "usage: stat [ remote-file ]"),
         "rhelp": (2, "usage: rhelp [ remote-command ]"), "size": (2, "usage: size remote-file"),
         "rename": (1, "usage: rename from-remote-path to-remote-path"), "user": (2, "usage: user username"),
         "put": (3, "usage: put local-file [ remote-file ]"), "get": (3, "usage: get remote-file [ local-file ]")}


def session_body(a, rng, dist, nops, faults=False):
    """a mix of network commands on an open session"""
    for _ in range(nops):
        if not a.connected:
            break
        r = rng.random()
        if r < 0.35:
            verb = rng.choice(["cd", "cdup", "pwd", "mkdir", "rmdir", "del", "stat", "syst", "noop", "rhelp", "size", "size"])
            code = rng.choice([None, None, 200, 250, 257, 500, 550, 421 if faults else 502])
            if verb == "size" and rng.random() < 0.7:
                code = None                  # (213 with a size the client can or cannot parse, or 550)
            a.net_simple(verb, arg_form=rng.choice(["given", "given", "prompt"]), code=code, multi=rng.random() < 0.2)
        elif r < 0.45:
            v = rng.choice(sorted(USAGE))
            a.usage(v, *USAGE[v])
        elif r < 0.5:
            a.local_cmd(rng.choice(["mode", "active", "passive", "help", "type", "type"]))
        elif r < 0.53:
            a.junk()
        elif r < 0.55:
            a.user(rng.choice([b"carol", b"anonymous", b"x y"]), rng.choice([b"s3cret pw", b"", b"pass\"word"]),
                   plan=dict(user=rng.choice([331, 331, 230, 530])), prompt_name=rng.random() < 0.4)
            dist.add("net-verb:user")
        elif r < 0.6:
            a.set_type(rng.choice("AI"), rng.choice([200, 200, 504]))
        elif r < 0.65:
            a.rename(rng.choice([350, 350, 550]), rng.choice([250, 553]))
        elif r < 0.75:
            a.ls(rng.choice([None, b"/pub", b"my dir"]), **xfer_kw(rng, dist, faults))
        elif r < 0.9:
            name = b"dl%d.bin" % len(a.lines)
            a.get(rng.choice([b"/pub/", b"dir\\", b""]) + name if rng.random() < 0.6 else b"remote thing",
                  None if rng.random() < 0.6 else name, payload=S_payload(rng), **xfer_kw(rng, dist, faults))
        else:
            if a.files and rng.random() < 0.8:
                a.put(rng.choice(sorted(a.files)), rng.choice([None, b"up.bin", b"dir/up name"]), **xfer_kw(rng, dist, faults))
            else:
                a.line(b"put missing.txt", b"Cannot open file 'missing.txt'.\n")


def S_payload(rng):
    n = rng.choice([0, 1, 10, 1000, 8192, 20000])
    return bytes(rng.getrandbits(8) for _ in range(n)) if n <= 1000 else os.urandom(n)


def xfer_kw(rng, dist, faults):
    r = rng.random()
    if r < 0.6:
        k = dict()
        dist.add("transfer:" + "complete")
    elif r < 0.72:
        k = dict(refuse_at="setup", refuse_code=rng.choice([500, 502, 421 if False else 425]))
        dist.add("transfer:" + "refused-at-setup")
    elif r < 0.9:
        k = dict(refuse_at="cmd", refuse_code=rng.choice([550, 450, 553, 425]))
        dist.add("transfer:" + "refused-at-command")
    elif faults:
        k = dict(listen="dead")
        dist.add("transfer:" + "data-port-dead")
    else:
        k = dict(done_code=rng.choice([226, 451, 426]))
        dist.add("transfer:" + "completion-code-varied")
    return k


def fam_session(rng, n, dist):
    out = []
    for _ in range(n):
        a = AB(rng, dist)
        for k in range(rng.choice([0, 1, 2])):
            a.local_file(b"keep%d.txt" % k, S_payload(rng))
        if rng.random() < 0.3:
            a.offline()
        g = rng.choice([(220,), (220,), (120, 220), (421,), (530,)])
        plan = rng.choice([None, None, dict(user=230), dict(**{"pass": 530}), dict(user=530), dict(type=500)])
        a.open(g, plan=plan)
        session_body(a, rng, dist, rng.choice([2, 5, 10]))
        r = rng.random()
        if r < 0.3 and a.connected:
            a.close()
            a.offline()
        if rng.random() < 0.7:
            a.exit(rng.choice([221, 221, 500]))
        out.append(a.scenario("session"))
    # always there (not left to the draw): every malformed 213 answer to SIZE, three sessions
    texts = [b"213  ", b"213    ", b"213 \t", b"213 \t ", b"213", b"213 ", b"213  42", b"213 42 ", b"213 -1", b"213 +5", b"213 4 2",
             b"213 18446744073709551616", b"213 99999999999999999999999", b"213 0x10", b"213 1e3", b"213 12abc", b"213 \t\t", b"213 7"]
    for k in range(3):
        a = AB(rng, dist)
        a.open((220,))
        a.force_size = list(texts[k::3])
        while a.force_size and a.connected:
            a.net_simple("size", code=213)
        a.net_simple("pwd")
        a.exit(221)
        out.append(a.scenario("session"))
    return out


def fam_faults(rng, n, dist):
    """the server misbehaves at some point; afterwards the client must be disconnected, survive offline commands
    and a following open must start a clean session"""
    out = []
    for _ in range(n):
        a = AB(rng, dist)
        a.local_file(b"keep.txt", b"do not touch")
        a.open((220,))
        session_body(a, rng, dist, rng.choice([0, 1, 3]), faults=True)
        if a.connected and rng.random() < 0.6:
            # a get that is turned down locally (existing target / uncreatable name) shortly before the server misbehaves:
            # the error handling that follows must not touch the files named then
            a.get(b"/pub/report.bin", rng.choice([b"keep.txt", b"keep.txt", b"nodir/sub/x.bin"]))
            dist.add("fault:preceded-by-locally-refused-get")
        if a.connected:
            k = rng.choice(["close-after-reply", "reset-after-reply", "421", "garbage", "eof-instead-of-reply", "dead-data-port",
                            "refused-open", "close-eof", "close-garbage", "close-after-peer-gone", "close-after-peer-reset",
                            # what ends the session arrives together with further complete lines nobody will read
                            "421+leftover", "garbage+leftover", "421+leftover", "garbage+leftover"])
            if k == "dead-data-port" and a.mode == "A":
                k = "eof-instead-of-reply"          # (only a passive data connection can find nobody listening)
            dist.add("fault:" + k)
            if k == "close-after-reply":
                a.net_simple("noop", code=200, close_after=True)
                a.net_simple("pwd")               # fails: the peer is gone
                a.b.cur.pop(); a.b.calls.pop(); a.b.exp.pop(); a.exp["marks"].pop()
                a.connected = a.b.connected = False
            elif k == "reset-after-reply":
                a.net_simple("noop", code=200, reset_after=True)
                a.net_simple("syst")
                a.b.cur.pop(); a.b.calls.pop(); a.b.exp.pop(); a.exp["marks"].pop()
                a.connected = a.b.connected = False
            elif k == "421":
                a.net_simple("cdup", code=421)
                a.connected = a.b.connected = False
            elif k == "421+leftover":
                a.net_simple("cdup", code=421, extra=[rng.choice([200, 220, 230]), 331])
                a.connected = a.b.connected = False
            elif k == "garbage+leftover":
                a.line(b"pwd")
                a.b.cur.append(P.reaction([("G", b"not a reply at all\r\n"), a.b.m(rng.choice([200, 220]), "LEFTOVER"), a.b.m(230, "LEFTOVER")],
                                          close_after=True))
                a.connected = a.b.connected = False
            elif k == "garbage":
                a.line(b"pwd")
                a.b.cur.append(P.reaction([("G", b"not a reply at all\r\n")], close_after=True))
                a.connected = a.b.connected = False
            elif k == "eof-instead-of-reply":
                a.line(b"syst")
                a.b.cur.append(P.reaction([], close_after=True))
                a.connected = a.b.connected = False
            elif k == "dead-data-port":
                a.ls(None, listen="dead")
                a.connected = a.b.connected = False
            elif k in ("close-eof", "close-garbage"):
                # the user closes the session and the QUIT exchange fails: the connection is released all the same
                a.line(b"close")
                a.b.cur.append(P.reaction([] if k == "close-eof" else [("G", b"\x16\x03\x01 garbage\r\n")], close_after=True))
                a.connected = a.b.connected = False
            elif k in ("close-after-peer-gone", "close-after-peer-reset"):
                a.net_simple("noop", code=200, close_after=True, reset_after=(k == "close-after-peer-reset"))
                a.line(b"close")                  # the peer has gone silently: QUIT cannot be exchanged
                a.connected = a.b.connected = False
            else:
                a.close()
                a.open(form="port21")
        # now disconnected: offline answers, then a clean new session
        mark_tail = len(a.lines)
        noff = rng.choice([1, 2, 4])
        for _ in range(noff):
            a.offline()
        a.exp["tails"].append((mark_tail, noff))
        if rng.random() < 0.8:
            a.exp["clean_from"] = len(a.exp["marks"])
            a.open((220,), user=b"bob", pw=b"pw2")
            a.exp["clean_cmds"] = [c + b"\r\n" for c in a.b.exp[-1]["cmds"]]
            a.exp["clean_session"] = a.cur_si()
            session_body(a, rng, dist, rng.choice([1, 3]))
        if rng.random() < 0.6:
            a.exit()
        out.append(a.scenario("faults"))
    return out


def fam_files(rng, n, dist):
    """get against existing / uncreatable / refused / completed targets"""
    out = []
    for _ in range(n):
        a = AB(rng, dist)
        a.local_file(b"precious.txt", b"precious\ncontent\n")
        pct = rng.choice([b"100%", b"a%20b.txt", b"%1%", b"50%.txt", b"%s%d%n"])
        a.local_file(pct, b"percent")
        a.local_file(b"other.bin", S_payload(rng))
        a.local_dir(b"downloads", {b"report.txt": b"local report\n", b"r.bin": b"local r\n"})
        a.local_link(b"latest.bin", b"no-such-target.bin")
        a.open((220,))
        if rng.random() < 0.4:
            a.local_cmd("active")          # the same cases over active-mode data connections (refusals arrive while listening)
            dist.add("get-cases:in-active-mode")
        for _ in range(rng.choice([2, 4, 7])):
            if not a.connected:
                break
            k = rng.choice(["existing", "existing-derived", "overlong", "overlong-derived", "nodir", "empty-name", "refused-setup",
                            "refused-cmd", "complete", "complete-derived", "len255", "again", "percent-uncreatable",
                            "existing-dir", "existing-dir", "dangling-link", "dangling-link"])
            dist.add("get-case:" + k)
            i = len(a.lines)
            if k == "existing":
                a.get(b"/pub/whatever", rng.choice([b"precious.txt", pct]))
            elif k == "dangling-link":
                # the name is a symbolic link to nowhere: it is there (the link must survive, nothing may be created
                # through it) whatever the server would answer
                if rng.random() < 0.5:
                    a.get(b"/pub/whatever", b"latest.bin")
                else:
                    a.get(b"/pub/latest.bin")
            elif k == "existing-dir":
                # the local name is an existing directory that holds a file named like the remote one: it "already
                # exists"; nothing in it may be written, truncated or removed - whether the server would serve or refuse
                r = rng.random()
                if r < 0.4:
                    a.get(rng.choice([b"/pub/report.txt", b"r.bin"]), b"downloads")
                elif r < 0.7:
                    a.get(b"downloads")                                   # derived local name = the directory's
                else:
                    a.get(rng.choice([b"/pub/report.txt", b"/pub/downloads"]), b"downloads")
            elif k == "percent-uncreatable":
                a.get(b"/pub/whatever", rng.choice([b"nodir/%1%", b"nodir/100%.bin", b"%" * 300]))
            elif k == "existing-derived":
                a.get(rng.choice([b"/pub/precious.txt", b"dir\\other.bin", b"other.bin"]))
            elif k == "overlong":
                a.get(b"r.bin", b"a" * rng.choice([256, 300, 4096, 5000]))
            elif k == "overlong-derived":
                a.get(b"/pub/" + b"b" * 300)
            elif k == "nodir":
                a.get(b"r.bin", b"nodir/sub/x.bin")
            elif k == "empty-name":
                a.get(b"/pub/dir/")
            elif k == "refused-setup":
                a.get(b"/pub/r%d" % i, b"new%d.bin" % i, refuse_at="setup", refuse_code=rng.choice([500, 425]))
            elif k == "refused-cmd":
                a.get(b"/pub/r%d" % i, b"new%d.bin" % i, refuse_at="cmd", refuse_code=rng.choice([550, 450]))
            elif k == "complete":
                a.get(b"/pub/r%d" % i, b"new%d.bin" % i, payload=S_payload(rng))
            elif k == "complete-derived":
                a.get(b"/pub/got%d.bin" % i, payload=S_payload(rng))
            elif k == "len255":
                a.get(b"/pub/x", b"z" * 255, payload=b"edge")
            elif k == "again":
                created = getattr(a, "files_created", [])
                if created:
                    nm = created[-1]
                    a.files[nm] = a.exp["present"][nm]     # now it exists: a second get must refuse
                    a.get(b"/pub/again", nm)
                    del a.files[nm]
                else:
                    a.get(b"/pub/whatever", b"precious.txt")
        if rng.random() < 0.7:
            a.exit()
        out.append(a.scenario("files"))
    return out


FAMILIES = dict(offline=fam_offline, session=fam_session, faults=fam_faults, files=fam_files)


# ---------------------------------------------------------------------------------------------- running
def subst_line(l, endpoints):
    for si, (h, p) in endpoints.items():
        l = l.replace(b"{H%d}" % si, h.encode()).replace(b"{P%d}" % si, str(p).encode())
    return l


def run_real(scn, exe, workdir):
    shutil.rmtree(workdir, ignore_errors=True)
    os.makedirs(workdir)
    wd = workdir.encode()
    for n, c in scn["files"].items():
        with open(os.path.join(wd, n), "wb") as f:
            f.write(c)
    for ln, target in scn.get("links", {}).items():
        os.symlink(target, os.path.join(wd, ln))
    for dn, inner in scn.get("dirs", {}).items():
        os.makedirs(os.path.join(wd, dn))
        for n, c in inner.items():
            with open(os.path.join(wd, dn, n), "wb") as f:
                f.write(c)
    pc = peerlib.PeerCase(scn["sessions"], "12")
    endpoints = {k: pc.endpoint(k) for k in range(len(scn["sessions"]))}
    lines = [subst_line(l, endpoints) for l in scn["lines"]]
    inp = b"".join(l + b"\n" for l in lines)
    t0 = time.time()
    status = "ok"
    # the client's output goes to files with a size limit: a client that prints without end (a prompt in a loop) is stopped
    # by the kernel (SIGXFSZ) instead of filling the memory of this process
    outdir = workdir + ".io"
    shutil.rmtree(outdir, ignore_errors=True)
    os.makedirs(outdir)
    so_path, se_path, si_path = (os.path.join(outdir, n) for n in ("stdout", "stderr", "stdin"))
    with open(si_path, "wb") as f:
        f.write(inp)

    def limits():
        import resource
        resource.setrlimit(resource.RLIMIT_FSIZE, (16 << 20, 16 << 20))

    try:
        with open(so_path, "wb") as fo, open(se_path, "wb") as fe, open(si_path, "rb") as fi:
            try:
                p = subprocess.run([exe], stdin=fi, cwd=workdir, stdout=fo, stderr=fe, timeout=RUN_TIMEOUT, preexec_fn=limits)
                rc = p.returncode
            except subprocess.TimeoutExpired:
                status, rc = "blocked", None
        with open(so_path, "rb") as f:
            out = f.read(17 << 20)
        with open(se_path, "rb") as f:
            err = f.read(1 << 20)
    finally:
        shutil.rmtree(outdir, ignore_errors=True)
    pc.finish(0.5)
    files = {}
    for n in os.listdir(wd):
        pth = os.path.join(wd, n)
        if os.path.islink(pth):
            files[n] = b"\x00link:" + os.readlink(pth)
        elif os.path.isfile(pth):
            with open(pth, "rb") as f:
                files[n] = f.read()
        else:
            files[n] = None
            for sub in os.listdir(pth):
                sp = os.path.join(pth, sub)
                if os.path.isfile(sp):
                    with open(sp, "rb") as f:
                        files[n + b"/" + sub] = f.read()
    shutil.rmtree(workdir, ignore_errors=True)
    return dict(status=status, rc=rc, stdout=out, stderr=err, files=files, peer=pc.log, lines=lines, wall=time.time() - t0)


def model_line(scn, lines):
    out = ["app", str(len(scn["sessions"]))]
    for s in scn["sessions"]:
        out += [P.b01(s["reachable"]), P.b01(s["ip6"]), P.b01(s["tls_close_clean"])]
        out += P.ser_reaction(s["greeting"], P.MODEL_PORT)
        out.append(str(len(s["reactions"])))
        for ri, r in enumerate(s["reactions"]):
            out += P.ser_reaction(r, P.MODEL_PORT + ri)
    # the model's file system is flat: a directory and a dangling symbolic link are names that are taken
    dirs, links = scn.get("dirs", {}), scn.get("links", {})
    out.append(str(len(scn["files"]) + len(dirs) + len(links)))
    for n in sorted(scn["files"]):
        out += [H(n), H(scn["files"][n])]
    for n in sorted(dirs) + sorted(links):
        out += [H(n), H(b"")]
    out.append(str(len(lines)))
    out += [H(l) for l in lines]
    return " ".join(out)


def run_all(scns, exe, drv, work, tag, nworkers=None):
    results = [None] * len(scns)
    q = queue.Queue()
    for i in range(len(scns)):
        q.put(i)

    def worker(wi):
        while True:
            try:
                i = q.get_nowait()
            except queue.Empty:
                return
            results[i] = run_real(scns[i], exe, os.path.join(work, "run-%s-%d" % (tag, wi)))

    ths = [threading.Thread(target=worker, args=(k,), daemon=True) for k in range(nworkers or min(vlib.NCPU, 12))]
    for t in ths:
        t.start()
    for t in ths:
        t.join()
    for i, res in enumerate(results):
        if res["status"] != "ok":            # once more, alone, before it counts as not terminating
            results[i] = run_real(scns[i], exe, os.path.join(work, "run-%s-serial" % tag))
    mlines = [model_line(s, r["lines"]) for s, r in zip(scns, results)]
    mout = vlib.run_lines(drv, mlines, work, tag + "-model")
    for res, mo in zip(results, mout):
        res["model_raw"] = mo.split("\t")[0]
        res["model"] = parse_model(res["model_raw"])
    return results


def parse_model(m):
    mm = re.match(r"status=(\w+) open=(\d) left=(\d+) out=(\S*) fs=(\S*) wire=(\S*)$", m)
    if not mm:
        return dict(error=m[:500])
    unhex = lambda x: b"" if x in ("-", "") else bytes.fromhex(x)
    fs = {}
    for t in [t for t in mm.group(5).split(",") if t]:
        n, c = t.split("=")
        fs[unhex(n)] = unhex(c)
    items = []
    for t in [t for t in mm.group(4).split(",") if t]:
        items.append((t[0], unhex(t[2:]) if len(t) > 1 else b""))
    return dict(status=(0 if mm.group(1) == "0" else "hung"), open=int(mm.group(2)), left=int(mm.group(3)), out=items, fs=fs,
                wire=[unhex(t) for t in mm.group(6).split(",") if t])


def port_subs(scn, res):
    subs = []
    for si, s in enumerate(scn["sessions"]):
        log = res["peer"][si]
        ports = list(log.get("announced_ports", []))
        for ri, r in enumerate(s["reactions"]):
            if r.get("listen") and ports:
                actual = ports.pop(0)
                subs.append((b"(|||%d|)" % actual, b"(|||%d|)" % (P.MODEL_PORT + ri)))
    return subs


def canon_stdout(scn, res):
    out = res["stdout"]
    for a, b in port_subs(scn, res):
        out = out.replace(a, b)
    return out


def out_regex(items):
    rx = []
    for k, v in items:
        if k == "P":
            rx.append(re.escape(v))
        elif k == "L":
            rx.append(HELP_RE if v == b"help" else re.escape(v) + rb"\n")
        elif k == "R":
            rx.append(re.escape(v))
        elif k == "E":
            # what() of an ftp_exception: system-dependent text - but never one of the application's own messages
            rx.append(rb"(?!usage: |Invalid |Connection is not open|Already connected|File '|Cannot create file|Cannot open file)(?s:.*?)\n")
        elif k == "B":
            rx.append(rb"Transmitting data\.\.\.\.*")
        elif k == "N":
            rx.append(rb"\n")
    return re.compile(b"".join(rx))


def show_items(items, limit=40):
    return " ".join("%s:%s" % (k, v[:40].decode("latin-1")) for k, v in items[:limit])


def correspondence(scn, res):
    """disagreements between the real run and the model: (projection, implementation, model)"""
    m = res["model"]
    if "error" in m:
        return [("model-output", "", m["error"])]
    dis = []
    if m["status"] == "hung":
        # a peer that stays silent: the client blocks in a library call for ever
        if res["status"] == "ok":
            return [("termination", "exit status %s" % res["rc"], "blocks for ever in a library call")]
        return []
    if res["status"] != "ok":
        return [("termination", "still running after %.0fs" % RUN_TIMEOUT, "exit status 0")]
    if res["rc"] != m["status"]:
        dis.append(("exit-status", str(res["rc"]) + " stderr=" + res["stderr"][-300:].decode("latin-1"), str(m["status"])))
    so = canon_stdout(scn, res)
    if not out_regex(m["out"]).fullmatch(so):
        # locate the first item that does not match
        k = len(m["out"])
        while k > 0 and not out_regex(m["out"][:k]).match(so):
            k -= 1
        pre = out_regex(m["out"][:k]).match(so)
        at = pre.end() if pre else 0
        dis.append(("stdout(item %d)" % k, so[at:at + 200].decode("latin-1"), show_items(m["out"][k:k + 4])))
    rf = {n: c for n, c in res["files"].items()}
    # the model's file system is flat: a scripted directory is a name that exists; the files inside it are outside the
    # model (the oracle checks that they are untouched) - anything ELSE that appears inside stays in the comparison
    for ln, target in scn.get("links", {}).items():
        if rf.get(ln) == b"\x00link:" + target:
            rf[ln] = b""
    for dn, inner in scn.get("dirs", {}).items():
        if dn in rf and rf[dn] is None:
            rf[dn] = b""
        for f, c in inner.items():
            if rf.get(dn + b"/" + f) == c:
                del rf[dn + b"/" + f]
    if rf != m["fs"]:
        names = sorted(set(rf) ^ set(m["fs"])) or sorted(n for n in rf if rf[n] != m["fs"].get(n))
        dis.append(("working-directory", "differs at %r: %r" % (names[:3], [(rf.get(n) or b"")[:20] if n in rf else None for n in names[:3]]),
                    repr([(m["fs"].get(n) or b"")[:20] if n in m["fs"] else None for n in names[:3]])))
    pw = []
    for log in res["peer"]:
        for l in log["lines"]:
            line = l["line"]
            pw.append(canon_line(line[:-2] if line.endswith(b"\r\n") else line))
    mw = [canon_line(l) for l in m["wire"]]
    if pw != mw:
        k = 0
        while k < min(len(pw), len(mw)) and pw[k] == mw[k]:
            k += 1
        dis.append(("command-lines-on-the-wire(index %d)" % k, repr(pw[k:k + 3]), repr(mw[k:k + 3])))
    return dis


EPRT_RE = re.compile(rb"EPRT \|([12])\|([0-9a-fA-F:.]+)\|(\d+)\|")


def canon_line(line):
    m = EPRT_RE.fullmatch(line)
    if m:
        return b"EPRT |%s|addr|port|" % m.group(1)
    return line


# ---------------------------------------------------------------------------------------------- oracles (property text)
def oracles(scn, res):
    v = []
    exp = scn["exp"]
    # ends only on exit / end of input, with success status
    silent = any(len(log["lines"]) > len(s["reactions"]) for log, s in zip(res["peer"], scn["sessions"]))
    if res["status"] != "ok" and silent:
        return v          # the peer left a command unanswered: blocking in the library call is the documented behaviour
    if res["status"] != "ok":
        v.append(("app/does-not-terminate", "the client was still running %.0fs after its input ended" % RUN_TIMEOUT))
        return v
    if res["rc"] != 0:
        what = "exit status %s" % res["rc"]
        if res["rc"] is not None and res["rc"] < 0:
            what = "killed by signal %d" % -res["rc"]
        last = b""
        v.append(("app/exit-status", "%s; stderr: %s" % (what, res["stderr"][-200:].decode("latin-1").strip())))
    so = res["stdout"]
    # the whole input was consumed unless 'exit' ended the run: one main prompt per line handled is implied by the
    # exact reference where there is one
    if scn["exact"] is not None and res["rc"] == 0:
        ref = b""
        rx = []
        for p in scn["exact"]:
            rx.append(HELP_RE if p == ("HELP",) else re.escape(p))
        if not scn["ended_by_exit"]:
            rx.append(re.escape(b"ftp> "))
        if not re.compile(b"".join(rx)).fullmatch(so):
            v.append(("app/offline-answers", "output differs from the reference (every connection-needing command answers "
                      "'Connection is not open.'): got %r" % so[-300:]))
    # ... without network activity
    if exp["no_network"]:
        conns = [log["index"] for log in res["peer"] if log.get("connected")]
        if conns:
            v.append(("app/offline-network-activity", "the peer saw connections %r although no open was given" % conns))
    # get never overwrites or deletes a local file that already existed
    orig = dict(scn["files"])
    for ln, target in scn.get("links", {}).items():
        orig[ln] = b"\x00link:" + target
    for dn, inner in scn.get("dirs", {}).items():
        for f, c in inner.items():
            orig[dn + b"/" + f] = c
    for n in exp["untouched"]:
        if res["files"].get(n) != orig[n]:
            v.append(("app/existing-file-touched", "local file %r %s" % (n, "was deleted" if n not in res["files"] else "was modified")))
    # ... and removes the file it created when the server refuses the download
    if res["rc"] == 0:
        for n in exp["absent"]:
            if n in res["files"]:
                v.append(("app/refused-download-leaves-file", "the server refused the download but %r was left behind" % n))
        for n, c in exp["present"].items():
            if n not in res["files"] or (res["files"][n] != c and not exp.get("ascii_used")):
                v.append(("app/download-content", "%r: %s" % (n, "missing" if n not in res["files"] else "content differs")))
        # nothing else appears in the working directory
        extra = [n for n in res["files"] if n not in orig and n not in scn.get("dirs", {}) and n not in exp["present"]]
        allowed = set(scn.get("may_create", []))
        stray = [n for n in extra if res["files"][n] not in (b"",) and n not in allowed]
        # (an empty file may remain from a download that failed with an error: the property does not speak of it)
    # after a library error the connection is dropped: the following commands answer offline ...
    if res["rc"] == 0:
        for start, k in exp["tails"]:
            tail = (b"ftp> " + NOT_OPEN + b"\n") * k
            if tail not in so:
                v.append(("app/error-does-not-drop-connection", "after the failed command the next %d connection-needing "
                          "commands were not all answered offline" % k))
        # ... and a following open starts a clean session: its replies, in the scripted order, and the commands the
        # peer saw in it are exactly those of a fresh login
        if "clean_session" in exp:
            si = exp["clean_session"]
            log = res["peer"][si]
            want = exp["clean_cmds"]
            got = [l["line"] for l in log["lines"][:len(want)]]
            if got != want:
                v.append(("app/open-after-error-not-clean", "the session opened after the error began with %r" % got))
            pos = 0
            for (msi, text) in exp["marks"][exp["clean_from"]:]:
                if msi != si:
                    continue
                mk = re.search(rb"\[m\d+\]", text)
                if not mk:
                    continue
                j = so.find(mk.group(0), pos)
                if j < 0:
                    break           # later commands may legitimately not have run (refusals end transfers early)
                pos = j
    # put sends the local file's bytes
    for si, ri, content in exp["uploads"]:
        recs = [d for d in res["peer"][si].get("data", []) if d.get("ri") == ri]
        if recs and res["rc"] == 0 and not exp.get("ascii_used"):
            if recs[0]["bytes"] != content:
                v.append(("app/upload-content", "the peer received %d bytes for a local file of %d" % (len(recs[0]["bytes"]), len(content))))
    return v


# ---------------------------------------------------------------------------------------------- the check
def generate(rng, tier, dist):
    n = dict(offline=40, session=60, faults=50, files=50) if tier == "quick" else dict(offline=200, session=400, faults=300, files=300)
    scns = []
    for name, k in n.items():
        scns += FAMILIES[name](rng, k, dist)
    return scns


def dump_scn(scn):
    from props import proto
    return proto.dump_scn.__globals__["dump_scn"].__call__(dict(cfg=None, sessions=scn["sessions"], calls=[], xfer_map={}, cfg_type_at={})) \
        if False else _enc(dict(family=scn["family"], sessions=scn["sessions"], files=[[n, c] for n, c in sorted(scn["files"].items())],
                                lines=scn["lines"], exp=scn["exp"], exact=scn["exact"], ended_by_exit=scn["ended_by_exit"]))


def _enc(o):
    if isinstance(o, (bytes, bytearray)):
        return {"hex": bytes(o).hex()}
    if isinstance(o, tuple):
        return {"tuple": [_enc(x) for x in o]}
    if isinstance(o, list):
        return [_enc(x) for x in o]
    if isinstance(o, dict):
        return {(k.decode("latin-1") if isinstance(k, bytes) else str(k)): _enc(v) for k, v in o.items()}
    return o


def _dec(o):
    if isinstance(o, dict):
        if set(o) == {"hex"}:
            return bytes.fromhex(o["hex"])
        if set(o) == {"tuple"}:
            return tuple(_dec(x) for x in o["tuple"])
        return {k: _dec(v) for k, v in o.items()}
    if isinstance(o, list):
        return [_dec(x) for x in o]
    return o


def load_scn(d):
    s = _dec(d)
    s["files"] = {n: c for n, c in s["files"]}
    s["exp"]["present"] = {k.encode("latin-1"): v for k, v in s["exp"]["present"].items()}
    return s


def run(prop, tier, seed):
    rep = vlib.Report(prop, tier, seed)
    rng = random.Random(seed * 7919 + 20)
    from props import leaf
    dist = leaf.Dist()
    vlib.proof_step(rep, "Properties_C20")
    try:
        drv = vlib.ocaml_driver()
        exe = build_cmdline("plain")
    except vlib.HarnessBuildError as e:
        rep.broken("correspondence:C20:cmdline-does-not-build", str(e)[-1500:])
        rep.coverage.update(evaluations=0, distinct_nontrivial=0, samples=[], rule="the cmdline binary did not build")
        return rep.finish()
    scns = generate(rng, tier, dist)
    work = os.path.join(vlib.BUILD, "work", "C20")
    results = run_all(scns, exe, drv, work, tier)
    bad = [i for i in range(len(scns)) if correspondence(scns[i], results[i]) or oracles(scns[i], results[i])]
    if bad:        # only what reproduces when run (almost) alone is reported; bounded
        bad = sorted(bad, key=lambda i: (results[i]["status"] != "ok", len(scns[i]["lines"])))[:24]
        again = run_all([scns[i] for i in bad], exe, drv, work, tier + "-again", nworkers=2)
        for i, r in zip(bad, again):
            if not (correspondence(scns[i], r) or oracles(scns[i], r)):
                rep.notes.append("scenario %d disagreed in the parallel run and agreed when re-run alone (load): not reported" % i)
            results[i] = r
    ndis, examples, nontriv = 0, [], 0
    for i, (scn, res) in enumerate(zip(scns, results)):
        for log in res["peer"]:
            for err in log.get("errors", []):
                rep.notes.append("peer error in scenario %d: %s" % (i, err))
        for sig, what in oracles(scn, res):
            rep.violation(sig, what, dict(kind="app", scenario=dump_scn(scn), stdout_tail=res["stdout"][-400:].decode("latin-1"),
                                          stderr=res["stderr"][-400:].decode("latin-1"), rc=res["rc"]))
        dis = correspondence(scn, res)
        if dis:
            ndis += 1
            if len(examples) < 4:
                examples.append(dict(scenario=i, family=scn["family"], lines=[l[:60].decode("latin-1") for l in res["lines"]][:30],
                                     first=[dict(projection=d[0], implementation=d[1][:300], model=d[2][:300]) for d in dis[:3]]))
        if len(scn["lines"]) >= 3 and res["status"] == "ok":
            nontriv += 1
    if ndis:
        rep.broken("correspondence:C20:cmdline-binary-vs-extracted-App-model",
                   json.dumps(dict(scenarios_disagreeing=ndis, first=examples), default=str)[:6000])
    rep.coverage.update(
        evaluations=len(scns), distinct_nontrivial=nontriv, correspondence_disagreements=ndis, distribution=dist.d,
        input_lines=sum(len(s["lines"]) for s in scns),
        rule="seeded-random input scripts over the 27 verbs (case variants; missing, surplus, over-long, quoted, path-like "
             "arguments; junk lines) with scripted peers (refusals at every step, 421, close/reset, garbage, dead data port) and "
             "pre-existing local files; each script is piped into the real cmdline binary (built from /repo's tree) in a scratch "
             "directory and run through the extracted App model; compared on exit status, stdout (ftp_exception texts opaque), "
             "final working directory and the command lines the peer saw; oracles: exit status, offline answers exact + no "
             "connection seen, pre-existing files byte-identical, refused get leaves nothing, offline tail after an error, clean "
             "session after reopen; non-trivial = script of at least three lines that terminated",
        samples=[dict(family=scns[i]["family"], lines=[l[:40].decode("latin-1") for l in scns[i]["lines"]][:8],
                      stdout=results[i]["stdout"][:200].decode("latin-1")) for i in range(0, len(scns), max(1, len(scns) // 3))][:3])
    rep.assumptions = ["kernel TCP and the local file system of the scratch directory behave as modelled (regular files, names up to 255 bytes)",
                       "the scripted peer realises the script", "input lines contain no NUL byte; stdin is a pipe (no terminal handling)"]
    return rep.finish()


def replay(prop, path):
    r = json.load(open(path))
    if "scenario" not in r:
        print("replay file names no concrete input:", json.dumps(r.get("no_longer_checks"))[:3000])
        return 1
    scn = load_scn(r["scenario"])
    exe = build_cmdline("plain")
    drv = vlib.ocaml_driver()
    res = run_all([scn], exe, drv, os.path.join(vlib.BUILD, "work", "C20"), "replay")[0]
    print("recorded: %s - %s" % (r.get("signature"), r.get("what")))
    print("input lines:")
    for l in res["lines"]:
        print("   %r" % (l[:100] + (b"..." if len(l) > 100 else b"")))
    print("exit status:", res["rc"], "status:", res["status"])
    print("stdout:", res["stdout"][-600:])
    print("stderr:", res["stderr"][-300:])
    print("model :", show_items(res["model"].get("out", [])[-12:]))
    vs = oracles(scn, res)
    for sig, what in vs:
        print("oracle:", sig, "-", what)
    if vs:
        print("VIOLATION property=%s replay=%s" % (prop, path))
        return 1
    return 0
