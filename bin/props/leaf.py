# leaf.py - properties decided on pure functions / converters / private helpers:
#   proof (Properties_<id>.vo) + correspondence of the extracted model with the implementation
#   (harness/leaf_driver.cpp built from /repo's tree) + property oracle (extracted specification).
import itertools, json, os, random, sys
import vlib
from props import registry

H = lambda b: (bytes(b).hex() if len(b) else "-")
S = lambda s: H(s.encode("latin-1"))


def classify(kind, impl, spec):
    if impl.startswith("exn:") or impl.startswith("CRASH") or impl.startswith("NOT-RUN"):
        return kind + "/throws-or-crashes"
    i0, s0 = impl.split(" ")[0], spec.split(" ")[0]
    if i0 == "none" and s0 != "none":
        return kind + "/rejects-valid"
    if i0 != "none" and s0 == "none":
        return kind + "/accepts-invalid"
    return kind + "/wrong-value"


class Dist:
    def __init__(self):
        self.d = {}

    def add(self, k, n=1):
        self.d[k] = self.d.get(k, 0) + n


# ------------------------------------------------------------------------------------------- C15
class C15:
    module = "Properties_C15"
    trivial_prefixes = ()

    @staticmethod
    def corpus():
        return ["cls_default", "cls 65535", "cls 399", "cls 400", "cls 299", "cls 300", "cls 0",
                "agg", "agg 550 - 226 %s" % S("226 Transfer complete."), "agg 150 - 150 -",
                "agg 226 %s" % S("226 ok"), "agg 150 %s 226 %s" % (S("150 a"), S("226 b")),
                "agg 150 %s 550 %s 226 %s" % (S("150 a"), S("550 b"), S("226 c")),
                "agg 65535 - 200 %s" % S("x"), "agg 200 %s 65535 -" % S("x")]

    @staticmethod
    def generate(rng, tier, dist):
        cases = ["cls %d" % c for c in range(65536)]
        dist.add("cls:all-65536-codes", 65536)
        codes = [150, 226, 350, 399, 400, 550, 65535]
        texts = ["", "a", "x\r\ny"]
        alpha = [(c, t) for c in codes for t in texts]
        maxlen = 3 if tier == "thorough" else 2
        for n in range(0, maxlen + 1):
            for seq in itertools.product(alpha, repeat=n):
                cases.append("agg " + " ".join("%d %s" % (c, S(t)) for c, t in seq))
                dist.add("agg:exhaustive-len-%d" % n)
        # every three-digit code as the member that decides: after a positive member, before one, and alone (no code has a
        # meaning of its own for the aggregate)
        for c in range(0, 1000):
            cases.append("agg 229 %s %d %s" % (S("229 x"), c, S("t")))
            cases.append("agg %d %s 226 %s" % (c, S("t"), S("226 x")))
            cases.append("agg %d %s" % (c, S("t")))
        dist.add("agg:every-code-0..999-in-3-positions", 3000)
        pool_c = [100, 120, 150, 199, 200, 226, 230, 299, 300, 331, 350, 399, 400, 421, 426, 450, 499, 500, 550,
                  599, 600, 999, 1000, 65534, 65535, 0]
        pool_t = ["", "", "226 ok", "150-a\r\n150 b", "\r\n", "\r", "\n", "x", "550 no", "\x00\xff"]
        nrand = 20000 if tier == "thorough" else 3000
        for _ in range(nrand):
            n = rng.choice([1, 2, 2, 3, 3, 4, 5, 6, 8, 12, 20])
            seq = [(rng.choice(pool_c), rng.choice(pool_t)) for _ in range(n)]
            if rng.random() < 0.3:   # all-positive sequences are otherwise rare
                seq = [(rng.choice([c for c in pool_c if c < 400]), t) for _, t in seq]
            cases.append("agg " + " ".join("%d %s" % (c, S(t)) for c, t in seq))
            dist.add("agg:random-len-%d" % n)
        # aggregates as values: one that held an old value (empty, positive, negative) is assigned / constructed from a new one
        vals = {"empty": [], "pos": [(331, "331 ok"), (230, "230 in")], "neg": [(331, "331 ok"), (530, "530 no")], "one-pos": [(200, "")],
                "one-neg": [(550, "x")], "codeless": [(65535, "")]}
        for how in ("copy=", "move=", "copy", "move", "list="):
            for on, ov in vals.items():
                for nn, nv in vals.items():
                    ser = lambda v: " ".join("%d %s" % (c, S(t)) for c, t in v)
                    cases.append(("aggval %s %s | %s" % (how, ser(ov), ser(nv))).replace("  ", " "))
                    dist.add("aggval:%s" % how)
        # long aggregates: counters, flags and sizes of every width (255 / 256 / 257 .. 4097 members), all
        # negative, all without a code, alternating, one non-positive member at the very end / the very beginning
        # (the extracted model joins texts with list append: quadratic - a few thousand members is what it evaluates in seconds)
        lens = [255, 256, 257, 511, 512, 513, 1024] + ([2047, 2048, 4096, 4097] if tier == "thorough" else [])
        for n in lens:
            shapes = {"all-negative": [(550, "")] * n, "all-codeless": [(65535, "")] * n,
                      "alternating": [(550, "") if k % 2 else (226, "") for k in range(2 * n)],
                      "negative-last": [(226, "")] * (n - 1) + [(550, "x")], "negative-first": [(421, "x")] + [(200, "")] * (n - 1),
                      "all-positive": [(200, "")] * n}
            for name, seq in shapes.items():
                cases.append("agg " + " ".join("%d %s" % (c, S(t)) for c, t in seq))
                dist.add("agg:long-%s" % name)
        return cases

    @staticmethod
    def nontrivial(case, model):
        # a class query is non-trivial when the code carries a class; an aggregate when it has >= 2 members
        f = case.split()
        if f[0] == "cls":
            return model != "000"
        return f[0] == "agg" and len(f) >= 5

    exhaustive_note = "all 65536 reply codes; all reply sequences up to length 2 (quick) / 3 (thorough) over 7 codes x 3 texts"


# ------------------------------------------------------------------------------------------- C16
M64 = 2 ** 64 - 1
STEM = "20240102123456"


class C16:
    module = "Properties_C16"

    @staticmethod
    def corpus():
        c = []
        for t in ["213 20240101120000X5", "213 20240101120000.", "213 20240101120000Z", "213 20240101120000.5",
                  "213 20240101120000", "213 2024010112000", "213 20240101120000.4294967295",
                  "213 20240101120000.4294967296", "213 20240101120000..5", "213 20240101120000.5x",
                  "213 99991231235960.000", "213 0000000000000a", "213 +0240101120000", "213 2024 101120000"]:
            c.append("mdtm 213 " + S(t))
        for t in ["213 0", "213 18446744073709551615", "213 18446744073709551616", "213 ", "213", "", "2131234",
                  "213 12 34", "213 12abc", "213 -1", "213 +1", "213 00000000000000000000000000001",
                  "213 99999999999999999999", "213  1", "213 1 "]:
            c.append("size 213 " + S(t))
        c += ["size 212 " + S("212 5"), "size 550 " + S("550 5"), "mdtm 200 " + S("200 " + STEM),
              "list -", "list " + S("a"), "list " + S("a\n"), "list " + S("a\r\n"), "list " + S("\n"),
              "list " + S("a\r\n\r\nb"), "list " + S("a\r"), "list " + S("a\r\r\n"), "list " + S("\r"),
              "list " + S("a\n\n"), "list " + S("\r\n\r\n")]
        return c

    @staticmethod
    def generate(rng, tier, dist):
        cases = []
        thorough = tier == "thorough"
        # --- SIZE: digit strings around the 8/16/32/64-bit limits
        lim = []
        for b in (8, 16, 32, 64):
            for d in (-2, -1, 0, 1, 2):
                lim.append(2 ** b + d)
        lim += [0, 1, 9, 10, 10 ** 19, 10 ** 19 - 1, 10 ** 20, M64 * 10, M64 * 10 + 5, 2 ** 63, 2 ** 65, 10 ** 30,
                (M64 // 10) * 10, (M64 // 10) * 10 + 9, (M64 // 10 + 1) * 10]
        lim += [2 ** 64 + d for d in range(-40, 41)] + [2 ** 32 + d for d in range(-12, 13)]
        lim += [M64 * 10 + d for d in range(0, 10)] + [(M64 // 10) * 100 + d for d in (0, 5, 6, 99)]
        lim += [20000000000000000000, 30000000000000000000, 99999999999999999999, 18446744073709552000, 18446744073709560000]
        for v in lim:
            for pre in ("", "0", "000"):
                for code in (213, 212, 200, 550):
                    cases.append("size %d %s" % (code, S("213 " + pre + str(v))))
                    dist.add("size:limits")
        alpha = "019. a-"
        maxlen = 6 if thorough else 4
        for n in range(0, maxlen + 1):
            for t in itertools.product(alpha, repeat=n):
                cases.append("size 213 " + S("213 " + "".join(t)))
                dist.add("size:alphabet-len-%d" % n)
        for n in range(0, 5):      # texts shorter than 5 characters / other 4-char prefixes
            for t in itertools.product("21 3", repeat=n):
                cases.append("size 213 " + S("".join(t)))
                dist.add("size:short")
        for _ in range(6000 if thorough else 1000):
            n = rng.choice([1, 2, 3, 5, 10, 18, 19, 20, 21, 25])
            t = "".join(rng.choice("0123456789") for _ in range(n))
            if n >= 20 and rng.random() < 0.7:     # just above 2^64: the overflow checks of the digit loop
                t = "1844674407370955" + t[16:]
            if rng.random() < 0.2:
                p = rng.randrange(len(t) + 1)
                t = t[:p] + rng.choice(" .-+ax\x00\xff") + t[p:]
            pre = rng.choice(["213 ", "213 ", "213 ", "213-", "2130", "xxxx"])
            cases.append("size %d %s" % (rng.choice([213, 213, 213, 214, 65535]), S(pre + t)))
            dist.add("size:random")
        # --- MDTM
        maxlen = 5 if thorough else 3
        for n in range(0, maxlen + 1):
            for t in itertools.product("05. a-", repeat=n):
                cases.append("mdtm 213 " + S("213 " + STEM + "".join(t)))
                dist.add("mdtm:stem+suffix-len-%d" % n)
        for pos in range(14):      # one stem character replaced
            for ch in " .-+a:/\x00":
                t = STEM[:pos] + ch + STEM[pos + 1:]
                for suf in ("", ".5", "5"):
                    cases.append("mdtm 213 " + S("213 " + t + suf))
                    dist.add("mdtm:mutated-stem")
        for n in range(0, 14):     # short stems
            for suf in ("", ".", ".5"):
                cases.append("mdtm 213 " + S("213 " + STEM[:n] + suf))
                dist.add("mdtm:short-stem")
        for v in [0, 1, 2 ** 32 - 1, 2 ** 32, 2 ** 32 + 1, 2 ** 64 - 1, 2 ** 64, 10 ** 25] + [2 ** 64 + d for d in range(1, 40)] + [2 ** 32 * 10 + d for d in range(10)]:
            for pre in ("", "00"):
                cases.append("mdtm 213 " + S("213 " + STEM + "." + pre + str(v)))
                dist.add("mdtm:fraction-limits")
        for _ in range(4000 if thorough else 800):
            stem = "".join(rng.choice("0123456789") for _ in range(14))
            if rng.random() < 0.5:
                stem = rng.choice(["9999", "0000", "2024", "1000"]) + rng.choice(["12", "13", "00", "99"]) + stem[6:]
            suf = rng.choice(["", "", ".0", ".123", ".999999", "." + str(rng.randrange(2 ** 33)), "x", ".x", " ", "."])
            code = rng.choice([213, 213, 213, 213, 212, 250, 550])
            pre = rng.choice(["213 ", "213 ", "213 ", "213-", "    "])
            cases.append("mdtm %d %s" % (code, S(pre + stem + suf)))
            dist.add("mdtm:random")
        # --- every byte value at every position of a well-formed payload (the neighbours of the digits in the code table,
        #     '/' and ':' .. '?', signs, blanks, NUL, high bytes: none of them is a digit), substituted and inserted
        for base, kind in (("213 1234567890", "size"), ("213 " + STEM + ".789", "mdtm"), ("213 " + STEM, "mdtm"), ("213 7", "size")):
            raw = base.encode("latin-1")
            for pos in range(4, len(raw) + 1):
                for b in range(256):
                    if pos < len(raw):
                        cases.append("%s 213 %s" % (kind, H(raw[:pos] + bytes([b]) + raw[pos + 1:])))
                    if thorough or b in (0x2f, 0x3a, 0x3b, 0x3f, 0x20, 0x2b, 0x2d, 0, 0xff, 0xb0, 0x40, 0x60):
                        cases.append("%s 213 %s" % (kind, H(raw[:pos] + bytes([b]) + raw[pos:])))
                dist.add("%s:every-byte-value-at-position" % kind)
        for b in range(256):
            for k in ("u8", "u16", "u32", "u64"):
                cases.append("%s %s" % (k, H(bytes([b]))))
                cases.append("%s %s" % (k, H(b"1" + bytes([b]))))
                cases.append("%s %s" % (k, H(bytes([b]) + b"1")))
            dist.add("uN:every-byte-value")
        # --- LIST: all texts over {CR, LF, x}
        maxlen = 10 if thorough else 7
        for n in range(0, maxlen + 1):
            for t in itertools.product("\r\nx", repeat=n):
                cases.append("list " + S("".join(t)))
            dist.add("list:exhaustive-len-%d" % n, 3 ** n)
        for _ in range(2000 if thorough else 300):
            n = rng.randrange(0, 200)
            t = "".join(rng.choice(["\r\n", "\n", "\r", "a", "file name", "\x00", "\xff", " "]) for _ in range(n))
            cases.append("list " + S(t))
            dist.add("list:random")
        # --- number parsers and split (shared helpers the 213 parsers rest on)
        for v in lim:
            for k in ("u8", "u16", "u32", "u64"):
                cases.append("%s %s" % (k, S(str(v))))
                dist.add("uN:limits")
        for t in ["", "-", "+1", " 1", "1 ", "0x10", "１", "1\x00", "\xb2"]:
            for k in ("u8", "u16", "u32", "u64"):
                cases.append("%s %s" % (k, H(t.encode("utf-8", "replace")) if t else "%s -" % k) if False else "%s %s" % (k, H(t.encode("utf-8"))))
                dist.add("uN:malformed")
        return cases

    @staticmethod
    def nontrivial(case, model):
        k = case.split()[0]
        if k in ("size", "mdtm"):
            return not model.startswith("none")
        if k == "list":
            return not model.startswith("0 ")
        return model != "none"

    exhaustive_note = ("all payloads '213 '+s for s over {0,1,9,'.',' ',a,-} up to length 4 (quick) / 6 (thorough); all "
                       "time-val stems + suffix over {0,5,'.',' ',a,-} up to length 3/5; all listing texts over "
                       "{CR,LF,x} up to length 7/10")


# ------------------------------------------------------------------------------------------- C06
class C06:
    module = "Properties_C06"

    @staticmethod
    def corpus():
        c = []
        for t in ["227 Entering Passive Mode (127,0,0,1,200,10).", "227 ok (127,0,0,1,256,0)", "227 ok (127,0,0,1,255,65535)",
                  "227 ok (127,0,0,1,0,256)", "227 ok (1,2,3,4,5,6,)", "227 ok (1,2,3,4,5)", "227 ok (1,2,3,4,5,6,7)",
                  "227 ok 1,2,3,4,5,6", "227 ok (1,2,3,4,5,6", "227 ok 1,2,3,4,5,6)", "227 ok )1,2,3,4,5,6(", "227 ()",
                  "227 (,,,,,)", "227 (1,2,3,4,,6)", "227 (a,b,c,d,1,2)", "227 (1,2,3,4,+5,6)", "227 (1,2,3,4,5,6) (x)",
                  "227 (x) (1,2,3,4,5,6)", "227 ((1,2,3,4,5,6))", "227 (1,2,3,4,00005,006)", "227 (999,2,3,4,5,6)",
                  "227 (1,2,3,4,5,18446744073709551616)", "227 (1,2,3,4,5,65536)", "227 (1,2,3,4, 5,6)",
                  "227 (::1,0,0,1,4,5)", "227 (::ffff:1,2,3,4,4,5)", "227 (0x7f,0,0,1,4,5)", "227 (127,0,0,1 ,4,5)", "227 (1,2,3,,4,5)",
                  "227 (256,0,0,1,4,5)", "227 (1,2,3,300,4,5)", "227 (001,02,3,4,5,6)", "227 (1,2,3,4,5,6,,)", "227 (,1,2,3,4,5,6)",
                  "227 (1,2,3,4%,4,5)", "227 (%1%,0,0,1,4,1)", "227 (1,2,3,4,5,6,)x)"]:
            c.append("pasv " + S(t))
        for t in ["229 Entering Extended Passive Mode (|||6446|)", "229 ok (|||6446)", "229 ok (1234567|)", "229 ok (|||65535|)",
                  "229 ok (|||65536|)", "229 ok (|||0|)", "229 ok (!!!21!)", "229 ok (~~~21~)", "229 ok (   21 )",
                  "229 ok (\x7f\x7f\x7f21\x7f)", "229 ok (|||21!)", "229 ok (||!21|)", "229 ok (||||)", "229 ok (|||)",
                  "229 ok (|||||)", "229 ok |||21|", "229 ok (|||21|", "229 ok ()", "229 (x) (|||21|)", "229 (|||21|) (x)",
                  "229 ok (|||+21|)", "229 ok (||| 21|)", "229 ok (|||021|)", "229 ok (111211)", "229 ok (|1|::1|21|)"]:
            c.append("epsv " + S(t))
        c += ["portcmd 4 127 0 0 1 51210", "portcmd 6 %s 51210" % S("::1"), "eprtcmd 4 127 0 0 1 51210",
              "eprtcmd 6 %s 51210" % S("::1"), "portcmd 4 255 255 255 255 65535", "portcmd 4 0 0 0 0 0"]
        return c

    @staticmethod
    def generate(rng, tier, dist):
        thorough = tier == "thorough"
        cases = []
        # all 65536 (p1,p2) pairs through the 227 parser; all ports through both formatters and back
        for p1 in range(256):
            for p2 in range(256):
                cases.append("pasv " + S("227 ok (10,1,2,3,%d,%d)" % (p1, p2)))
        dist.add("pasv:all-65536-port-pairs", 65536)
        for p in range(65536):
            cases.append("port_rt 192 168 %d %d %d" % (p % 256, (p // 7) % 256, p))
            cases.append("epsv " + S("229 ok (|||%d|)" % p))
        dist.add("port_rt:all-65536-ports", 65536)
        dist.add("epsv:all-65536-ports", 65536)
        step = 1 if thorough else 7
        for p in range(0, 65536, step):
            cases.append("eprt_rt %d" % p)
            cases.append("portcmd 4 10 0 %d %d %d" % (p % 251, p % 256, p))
            dist.add("eprt_rt/portcmd:ports")
        # field values around the limits
        vals = [0, 1, 9, 10, 99, 100, 199, 254, 255, 256, 257, 300, 999, 1000, 65279, 65535, 65536, 65537, 2 ** 32, 2 ** 64 - 1, 2 ** 64]
        for a in vals:
            for b in vals:
                cases.append("pasv " + S("227 ok (1,2,3,4,%d,%d)" % (a, b)))
                dist.add("pasv:field-limits")
            for k in range(4):
                h = ["1", "2", "3", "4"]
                h[k] = str(a)
                cases.append("pasv " + S("227 ok (%s,5,6)" % ",".join(h)))
                dist.add("pasv:host-field-limits")
            for lead in ("", "0", "00"):
                cases.append("epsv " + S("229 ok (|||%s%d|)" % (lead, a)))
                cases.append("pasv " + S("227 ok (%s%d,2,3,%d,1,2)" % (lead, a, a)))
                dist.add("epsv/pasv:limits-leading-zeros")
        # delimiters 0..255 for 229
        for d in range(256):
            if d in (40, 41):
                continue
            ch = chr(d)
            for t in ["229 ok (%s%s%s21%s)" % (ch, ch, ch, ch), "229 ok (%s%s%s21|)" % (ch, ch, ch), "229 ok (|%s|21|)" % ch]:
                cases.append("epsv " + H(t.encode("latin-1")))
                dist.add("epsv:all-delimiter-bytes")
        # all malformed parenthesised parts over a small alphabet
        maxlen = 7 if thorough else 5
        for n in range(0, maxlen + 1):
            alpha = "1,(|):" if n <= 5 else "1,(|)"
            for t in itertools.product(alpha, repeat=n):
                u = "".join(t)
                cases.append("pasv " + S("227 " + u))
                cases.append("epsv " + S("229 " + u))
            dist.add("pasv/epsv:alphabet-len-%d" % n, 2 * len(alpha) ** n)
        # surrounding texts, structured mutations
        for _ in range(20000 if thorough else 3000):
            f = [str(rng.choice([0, 1, 12, 127, 255, 256, rng.randrange(0, 300), rng.randrange(0, 70000)])) for _ in range(6)]
            inner = ",".join(f)
            r = rng.random()
            if r < 0.15:
                k = rng.randrange(len(inner) + 1)
                inner = inner[:k] + rng.choice(",,() x.-+\x00:%") + inner[k:]
            elif r < 0.25:
                f.pop(rng.randrange(6)); inner = ",".join(f)
            elif r < 0.3:
                inner += "," + str(rng.randrange(300))
            pre = rng.choice(["227 Entering Passive Mode ", "227 ", "", "227 =", "227 ok ) ", "227 ok , "])
            suf = rng.choice(["", ".", " ok", " ( ", "\r\n", ","])
            cases.append("pasv " + H((pre + "(" + inner + ")" + suf).encode("latin-1")))
            dist.add("pasv:random-structured")
            d = rng.choice("|||||!~#/,1a ")
            port = str(rng.choice([0, 21, 1023, 6446, 65535, 65536, rng.randrange(0, 70000)]))
            inner = d * 3 + port + d
            r = rng.random()
            if r < 0.2:
                k = rng.randrange(len(inner) + 1)
                inner = inner[:k] + rng.choice("|!() x0") + inner[k:]
            elif r < 0.3:
                k = rng.randrange(len(inner))
                inner = inner[:k] + inner[k + 1:]
            cases.append("epsv " + H((pre.replace("227", "229") + "(" + inner + ")" + suf).encode("latin-1")))
            dist.add("epsv:random-structured")
        for t in ["::1", "fe80::1", "2001:db8::1", "::"]:
            for p in (0, 1, 255, 256, 51210, 65535):
                cases.append("portcmd 6 %s %d" % (S(t), p))
                cases.append("eprtcmd 6 %s %d" % (S(t), p))
                dist.add("port/eprt:ipv6")
        for _ in range(3000 if thorough else 500):
            a, b, c, d = [rng.choice([0, 1, 9, 10, 99, 100, 127, 255, rng.randrange(256)]) for _ in range(4)]
            p = rng.choice([0, 255, 256, 65535, rng.randrange(65536)])
            cases.append("portcmd 4 %d %d %d %d %d" % (a, b, c, d, p))
            cases.append("eprtcmd 4 %d %d %d %d %d" % (a, b, c, d, p))
            dist.add("port/eprt:ipv4-random")
        # the same formatters while the process-wide C++ locale groups digits (1,000): ports and address fields of every width
        for p in [0, 9, 99, 999, 1000, 1001, 9999, 10000, 12345, 51210, 65535] + [rng.randrange(65536) for _ in range(300 if thorough else 60)]:
            a, b, c, d = [rng.choice([0, 1, 10, 100, 127, 255]) for _ in range(4)]
            cases.append("portcmd@grp 4 %d %d %d %d %d" % (a, b, c, d, p))
            cases.append("eprtcmd@grp 4 %d %d %d %d %d" % (a, b, c, d, p))
            cases.append("eprtcmd@grp 6 %s %d" % (S("::1"), p))
            dist.add("port/eprt:under-a-digit-grouping-locale", 3)
        return cases

    @staticmethod
    def nontrivial(case, model):
        return not model.startswith("none") and not model.startswith("exn")

    exhaustive_note = ("all 65536 (p1,p2) pairs through the 227 parser; all 65536 ports through PORT and back through the 227 "
                       "parser, and through the 229 parser; all 254 delimiter bytes; all texts over {1 , ( | )} up to "
                       "length 5 (quick) / 7 (thorough) after the code")


# ------------------------------------------------------------------------------------------- C05
def partitions(n):
    """all compositions of n (ordered partitions) as lists of block sizes"""
    if n == 0:
        yield []
        return
    for first in range(1, n + 1):
        for rest in partitions(n - first):
            yield [first] + rest


class C05:
    module = "Properties_C05"

    @staticmethod
    def corpus():
        c = []
        for t, parts in [("\r\r\r", "1,2"), ("a\r\rb", "2,2"), ("a\r\r\nb", "2,3"), ("\r", "1"), ("a\r", "2"), ("\r\n", "1,1"),
                         ("\r\n", "2"), ("a\r\nb\rc\nd", "9"), ("a\r\nb\rc\nd", "1,1,1,1,1,1,1,1,1"), ("", "-")]:
            c.append("adown %s %s" % (parts, S(t)))
        for t in ["a\rb", "a\nb", "a\r\nb", "\r\r\n", "\n\r", "\r\n\r\n", "x" * 20 + "\r", "\r", "\n", ""]:
            for isz in (1, 2, 8192):
                for sizes in ("1", "2", "3", "8192", "1,2"):
                    c.append("aup %d %s - %s" % (isz, sizes, S(t)))
        return c

    @staticmethod
    def generate(rng, tier, dist):
        thorough = tier == "thorough"
        cases = []
        maxlen = 8 if thorough else 6
        strings = []
        for n in range(0, maxlen + 1):
            for t in itertools.product("\r\nx", repeat=n):
                strings.append("".join(t))
        for t in strings:
            h = S(t)
            for isz in (1, 2, 3, 8192):
                for sizes in ("1", "2", "3", "5", "1,2,3"):
                    for sched in ("-", "1", "2,1"):
                        cases.append("aup %d %s %s %s" % (isz, sizes, sched, h))
        dist.add("aup:all-strings-over-CR-LF-x-upto-%d x isize{1,2,3,8192} x caller{1,2,3,5,[1,2,3]} x sched{full,1,[2,1]}" % maxlen,
                 len(strings) * 60)
        pmax = 7 if thorough else 6
        for t in strings:
            if len(t) > pmax:
                continue
            for part in partitions(len(t)):
                cases.append("adown %s %s" % (",".join(map(str, part)) or "-", S(t)))
                dist.add("adown:all-partitions")
        for t in strings:
            if len(t) > pmax:
                for part in ("1", "2", "3", "1,2", "2,1", "3,1,2", str(len(t))):
                    k = [int(x) for x in part.split(",")]
                    full = []
                    while sum(full) < len(t):
                        full.append(k[len(full) % len(k)])
                    cases.append("adown %s %s" % (",".join(map(str, full)), S(t)))
                    dist.add("adown:cyclic-partitions-long")
        # every byte value in every context: alone, after CR, before LF, between CR and LF, after LF, doubled - "all other
        # bytes unchanged" is a claim about 254 byte values, not about 'x'
        for v in range(256):
            ch = bytes([v])
            for t in (ch, b"\r" + ch, ch + b"\n", b"\r" + ch + b"\n", b"\n" + ch + b"\r", ch + ch, b"a" + ch + b"\r\n" + ch):
                h = H(t)
                cases.append("aup 8192 8192 - %s" % h)
                cases.append("aup 1 1 1 %s" % h)
                cases.append("adown %s %s" % (str(len(t)), h))
                cases.append("adown %s %s" % (",".join("1" * len(t)), h))
        dist.add("aup/adown:every-byte-value-in-7-contexts", 256 * 7 * 4)
        # random long strings (block boundaries at 8192 matter for the real buffers)
        for _ in range(300 if thorough else 60):
            n = rng.choice([100, 1000, 8190, 8191, 8192, 8193, 16384, 20000])
            t = "".join(rng.choice(["\r", "\n", "\r\n", "a", "bc", "\x00", "\xff"]) for _ in range(n))[:n + 1]
            isz = rng.choice([1, 7, 512, 8191, 8192])
            sizes = rng.choice(["8192", "8192", "1", "100,8192", "4096", "8191"])
            sched = rng.choice(["-", "1", "100", "8191,1", "3,5,7"])
            if isz == 1 or sizes == "1" or sched == "1":
                t = t[:3000]
            cases.append("aup %d %s %s %s" % (isz, sizes, sched, H(t.encode("latin-1"))))
            parts = []
            while sum(parts) < len(t):
                parts.append(rng.choice([1, 2, 100, 1460, 8192]))
            cases.append("adown %s %s" % (",".join(map(str, parts)), H(t.encode("latin-1"))))
            dist.add("aup/adown:random-long")
        return cases

    @staticmethod
    def nontrivial(case, model):
        # the conversion changed something or had to carry state over a boundary
        f = case.split()
        return f[-1] != "-" and (("0d" in f[-1]) or ("0a" in f[-1]))

    exhaustive_note = ("upload: all strings over {CR,LF,x} up to length 6 (quick) / 8 (thorough) x internal sizes {1,2,3,8192} x "
                       "caller sizes {1,2,3,5,[1,2,3]} x source schedules {full,1-byte,[2,1]}; download: all strings up to "
                       "length 6/7 x ALL partitions into write calls")


# ------------------------------------------------------------------------------------------- C19
VERBS = "open mode active passive user logout close cd cdup ls put get rename pwd mkdir rmdir del stat syst type binary ascii size noop rhelp help exit".split()


def quote_arg(a):
    out = bytearray(b'"')
    for ch in a:
        if ch in (0x22, 0x5c):
            out.append(0x5c)
        out.append(ch)
    out.append(0x22)
    return bytes(out)


class C19:
    module = "Properties_C19"

    @staticmethod
    def corpus():
        c = []
        for t in ['"ls"', '"OPEN" host 21', '"c\\d" dir', '"get"a b', 'get "abc', 'get "a\\', 'get "a"b', 'get a"b"', "get 'a b'",
                  "", " ", "\t\n", "ls", " ls ", "LS", "lS\t-l", "ls\x0b-l", "ls\x0c", "ls\x00", "ls\xa0x", "l\x00s", "lsx", "l",
                  "open\rhost", "exit now", "get \"\" \"\"", "get \"a b\" c", "GET \"q\\\"x\\\\\"", "ſtat", "İ", "help\x85x", "cd ..", "put \"\\", "put \""]:
            c.append("parse " + H(t.encode("utf-8") if any(ord(ch) > 255 for ch in t) else t.encode("latin-1")))
        return c

    @staticmethod
    def generate(rng, tier, dist):
        thorough = tier == "thorough"
        cases = []
        # all 2^n case variants of every verb (bare, and followed by an argument)
        for v in VERBS:
            for mask in range(2 ** len(v)):
                sp = "".join(ch.upper() if (mask >> i) & 1 else ch for i, ch in enumerate(v))
                cases.append("parse_rt %s %s" % (S(sp), v))
                if thorough or mask % 5 == 0:
                    cases.append("parse_rt %s %s %s" % (H(sp.encode() + b' "x y"'), v, S("x y")))
            dist.add("all-case-variants", 2 ** len(v))
        # near misses: prefixes, one byte inserted / replaced / wrapped around, for all 256 byte values
        for v in VERBS:
            vb = v.encode()
            for k in range(len(vb)):
                cases.append("parse " + H(vb[:k]))
            for b in range(256):
                bb = bytes([b])
                near = [vb + bb, bb + vb, bb + vb + bb]
                if thorough:
                    near += [vb[:k] + bb + vb[k:] for k in range(1, len(vb))] + [vb[:k] + bb + vb[k + 1:] for k in range(len(vb))]
                else:
                    k = b % len(vb)
                    near += [vb[:k] + bb + vb[k:], vb[:k] + bb + vb[k + 1:]]
                for t in near:
                    cases.append("parse " + H(t))
            dist.add("near-miss-verbs")
        # all lines up to length 2 over all bytes (thorough) / over a 40-byte alphabet (quick)
        alpha = list(range(256)) if thorough else sorted(set(b' \t\n\r\x0b\x0c"\\lsLScdxX-\x00\xff\x80aAzZ09'))
        for a in alpha:
            cases.append("parse " + H(bytes([a])))
            for b in alpha:
                cases.append("parse " + H(bytes([a, b])))
        dist.add("all-lines-up-to-length-2-over-%d-bytes" % len(alpha), len(alpha) ** 2 + len(alpha))
        # quoting round trips: arbitrary argument lists
        awkward = b' "\\\t\n\x00\xffab'
        for _ in range(20000 if thorough else 4000):
            v = rng.choice(VERBS)
            sp = "".join(rng.choice([ch, ch.upper()]) for ch in v)
            n = rng.choice([0, 1, 1, 2, 3, 5])
            args = []
            for _ in range(n):
                ln = rng.choice([0, 1, 2, 3, 5, 10, 40])
                if rng.random() < 0.5:
                    args.append(bytes(rng.choice(awkward) for _ in range(ln)))
                else:
                    args.append(bytes(rng.randrange(256) for _ in range(ln)))
            line = sp.encode() + b"".join(b" " + quote_arg(a) for a in args)
            cases.append("parse_rt %s %s %s" % (H(line), v, " ".join(H(a) for a in args)))
            dist.add("quoting-roundtrip-%d-args" % n)
        # random lines over the full byte range, and structured lines with raw (unquoted / half-quoted) arguments
        for _ in range(20000 if thorough else 4000):
            r = rng.random()
            if r < 0.4:
                t = bytes(rng.randrange(256) for _ in range(rng.choice([1, 2, 3, 5, 8, 20, 100])))
            else:
                v = rng.choice(VERBS).encode()
                if rng.random() < 0.3:
                    v = v.upper()
                parts = [v]
                for _ in range(rng.randrange(0, 4)):
                    parts.append(rng.choice([b" ", b"  ", b"\t", b"\x0b", b""]) +
                                 bytes(rng.choice(b'ab "\\\'\t\x00\xff') for _ in range(rng.randrange(0, 6))))
                t = rng.choice([b"", b" ", b"\t "]) + b"".join(parts)
            cases.append("parse " + H(t))
            dist.add("random-lines")
        return cases

    @staticmethod
    def nontrivial(case, model):
        return model != "invalid"

    exhaustive_note = ("all 2^n case variants of all 27 verbs; near-miss verbs with each of the 256 byte values appended, prepended, "
                       "wrapped (and inserted/replaced at every position in thorough); all lines up to length 2 over all 256 "
                       "bytes (thorough)")


# ------------------------------------------------------------------------------------------- C14 (notification round)
class C14:
    module = "Properties_C14"

    @staticmethod
    def case(live, react):
        l = ",".join(map(str, live)) if live else "-"
        r = ";".join("%d:%s" % (o, ".".join(map(str, g))) for o, g in sorted(react.items()) if g) or "-"
        return "obsround %s %s" % (l, r)

    @staticmethod
    def corpus():
        c = C14.case
        return [c([], {}), c([1], {}), c([1, 2, 3], {}), c([1, 2, 3], {2: [2]}), c([1, 2, 3], {1: [3]}), c([1, 2, 3], {3: [1]}),
                c([1, 2, 3], {1: [1, 2, 3]}), c([1, 2, 1, 3], {2: [1]}), c([1, 1], {1: [1]}), c([1, 2, 3, 4], {2: [3], 3: [4]}),
                c([5, 4, 3, 2, 1], {5: [4], 3: [3, 2]}), c([1, 2], {1: [9]})]

    @staticmethod
    def generate(rng, tier, dist):
        """every registration list over {1,2,3} up to length 4 with every single reaction 'o unregisters g', then random
        reaction tables"""
        cases = []
        ids = [1, 2, 3]
        maxlen = 4 if tier == "thorough" else 3
        for n in range(0, maxlen + 1):
            for live in itertools.product(ids, repeat=n):
                cases.append(C14.case(list(live), {}))
                for o in ids:
                    for g in ids:
                        cases.append(C14.case(list(live), {o: [g]}))
                dist.add("obsround:all-lists-len-%d-single-reaction" % n, 1 + len(ids) ** 2)
        for _ in range(3000 if tier == "thorough" else 600):
            live = [rng.randrange(1, 6) for _ in range(rng.randrange(0, 7))]
            react = {o: [rng.randrange(1, 6) for _ in range(rng.randrange(0, 3))] for o in range(1, 6) if rng.random() < 0.5}
            cases.append(C14.case(live, react))
            dist.add("obsround:random-reaction-table")
        return cases

    @staticmethod
    def nontrivial(case, model):
        return case.split()[2] != "-"

    exhaustive_note = ("every registration list over three observers up to length 3 (quick) / 4 (thorough) x every single "
                       "reaction 'o unregisters g' (itself included), plus random reaction tables over five observers")


LEAF = {"C19": C19, "C15": C15, "C16": C16, "C06": C06, "C05": C05, "C14": C14}


def evaluate(prop, cases, tag):
    """returns (impl_lines, model_lines, spec_lines) or raises HarnessBuildError"""
    work = os.path.join(vlib.BUILD, "work", prop)
    drv = vlib.ocaml_driver()
    exe = registry.build_leaf()
    impl = vlib.run_lines(exe, cases, work, tag + "-impl")
    ms = vlib.run_lines(drv, cases, work, tag + "-model")
    model, spec = [], []
    for l in ms:
        a, _, b = l.partition("\t")
        model.append(a)
        spec.append(b)
    return impl, model, spec


def decide(prop, rep, cases, impl, model, spec, P):
    ncorr = 0
    corr_examples = []
    nontriv = set()
    for c, i, m, s in zip(cases, impl, model, spec):
        if m.startswith("MODEL-ERROR"):
            rep.broken("model-driver", "%s -> %s" % (c, m))
            continue
        if P.nontrivial(c, m):
            nontriv.add(c)
        i_cmp = i.split(" | ")[0] if (" | " in i and " | " not in s) else i
        if c.startswith("parse ") and not i.startswith(("exn", "CRASH", "NOT-RUN")):
            i_cmp = i.split(" ")[0]          # general lines: the reference decides the verb only
        if i_cmp != s:
            rep.violation(classify(c.split()[0], i, s),
                          "implementation disagrees with the specification of the theorem",
                          dict(kind="leaf", case=c, implementation=i, specification=s, model=m))
        if i != m:
            ncorr += 1
            if len(corr_examples) < 5:
                corr_examples.append(dict(case=c, implementation=i, model=m))
    if ncorr:
        rep.broken("correspondence:%s:leaf_driver-vs-extracted-model" % prop,
                   json.dumps(dict(disagreements=ncorr, first=corr_examples)))
    return len(nontriv), ncorr


def run(prop, tier, seed):
    rep = vlib.Report(prop, tier, seed)
    rng = random.Random(seed * 7919 + int(prop[1:]))
    check_into(rep, prop, tier, rng)
    return rep.finish()


def check_into(rep, prop, tier, rng, prove=True):
    P = LEAF[prop]
    if prove:
        vlib.proof_step(rep, P.module)
    dist = Dist()
    corpus = P.corpus() + corpus_files(prop)
    cases = corpus + P.generate(rng, tier, dist)
    try:
        impl, model, spec = evaluate(prop, cases, tier)
    except vlib.HarnessBuildError as e:
        rep.broken("correspondence:%s:harness-does-not-build" % prop, str(e)[-1500:])
        rep.coverage.update(evaluations=0, distinct_nontrivial=0, samples=[], rule="harness did not build")
        return
    nontriv, ncorr = decide(prop, rep, cases, impl, model, spec, P)
    if prop in ("C19", "C16", "C06"):
        # the same cases in a process whose environment names locales that are not installed (a locale forwarded into a
        # minimal container) and a locale with other case / digit rules: the result is a function of the input line alone
        sample = corpus + [cases[i] for i in sorted(rng.sample(range(len(cases)), min(2500, len(cases))))]
        base = dict(zip(cases, impl))
        for envname, extra in (("LC_ALL=en_US.UTF-8", {"LC_ALL": "en_US.UTF-8"}), ("LANG=tr_TR.ISO-8859-9", {"LANG": "tr_TR.ISO-8859-9", "LC_ALL": ""})):
            env = dict(os.environ)
            env.update(extra)
            if not env.get("LC_ALL"):
                env.pop("LC_ALL", None)
            try:
                other = vlib.run_lines(registry.build_leaf(), sample, os.path.join(vlib.BUILD, "work", prop), "env-impl", env=env)
            except Exception as e:       # noqa
                rep.broken("correspondence:%s:leaf-driver-under-%s" % (prop, envname), str(e)[-500:])
                continue
            bad = [(c, o) for c, o in zip(sample, other) if base.get(c) != o]
            dist.add("environment:%s" % envname, len(sample))
            if bad:
                c, o = bad[0]
                rep.violation("environment/result-depends-on-the-process-environment",
                              "under %s the implementation answers %r where it answers %r otherwise (%d of %d cases differ)" % (
                                  envname, o[:120], base.get(c, "")[:120], len(bad), len(sample)),
                              dict(kind="leaf", case=c, environment=envname, implementation=o, specification=base.get(c)))
    idx = sorted(rng.sample(range(len(cases)), min(6, len(cases))))
    rep.coverage.update(
        evaluations=len(cases), distinct_nontrivial=nontriv, correspondence_disagreements=ncorr,
        corpus_cases=len(corpus), distribution=dist.d, exhaustive=True, exhaustive_over=P.exhaustive_note,
        rule="corpus (boundary and formerly failing inputs) first, then enumerated and seeded-random cases; every "
             "case is run through the implementation (leaf_driver built from /repo's working tree), the extracted "
             "Coq model and the extracted specification; a case is non-trivial when the model yields a value / a "
             "class / at least two members (counted over distinct case lines)",
        samples=[dict(case=cases[i], implementation=impl[i], model=model[i], spec=spec[i]) for i in idx])
    rep.assumptions = ["the hand-written Gallina model corresponds to the C++ code only as far as the executed cases show",
                       "std::string / std::to_string / std::getline semantics as modelled"]


def corpus_files(prop):
    d = os.path.join(vlib.VERIF, "corpus", prop)
    out = []
    if os.path.isdir(d):
        for f in sorted(os.listdir(d)):
            if f.endswith(".txt"):
                out += [l.strip() for l in open(os.path.join(d, f)) if l.strip() and not l.startswith("#")]
    return out


def replay(prop, path):
    r = json.load(open(path))
    cases = [r["case"]] if "case" in r else r.get("cases", [])
    if not cases:
        print("replay file names no concrete input:", json.dumps(r.get("no_longer_checks"))[:2000])
        return 1
    impl, model, spec = evaluate(prop, cases, "replay")
    if r.get("environment"):
        # a case that fails only in a particular process environment: the reference is the answer in the default one
        env = dict(os.environ)
        k, _, v = r["environment"].partition("=")
        env[k] = v
        if k == "LANG":
            env.pop("LC_ALL", None)
        spec = impl
        impl = vlib.run_lines(registry.build_leaf(), cases, os.path.join(vlib.BUILD, "work", prop), "replay-env", env=env)
        print("environment:    ", r["environment"])
    rc = 0
    for c, i, m, s in zip(cases, impl, model, spec):
        print("case:           ", c)
        print("implementation: ", i)
        print("model:          ", m)
        print("specification:  ", s)
        if i != s:
            print("VIOLATION property=%s replay=%s" % (prop, path))
            rc = 1
    return rc
