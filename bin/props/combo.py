# combo.py - properties decided partly on a leaf codec and partly on the protocol model (one report, one evidence file)
import random
import vlib
from props import leaf, proto


def run(prop, tier, seed):
    rep = vlib.Report(prop, tier, seed)
    rng = random.Random(seed * 7919 + int(prop[1:]))
    if prop in ("C08", "C01"):
        from props import framing
        framing.check_into(rep, prop, tier, rng)
    else:
        leaf.check_into(rep, prop, tier, rng)
    # C06: the dispatch half has its own theorem file; C05: the end-to-end half re-uses Properties_C05 (already checked)
    module = "Properties_%s_dispatch" % prop if prop == "C06" else "-none-"
    proto.check_into(rep, prop, tier, rng, module=module, merge=True)
    return rep.finish()


def replay(prop, path):
    import json
    r = json.load(open(path))
    if r.get("kind") == "proto":
        return proto.replay(prop, path)
    if prop in ("C08", "C01"):
        from props import framing
        return framing.replay(prop, path)
    return leaf.replay(prop, path)
