#!/usr/bin/env python3
# check.py - entry point:  check.py --setup | check.py <id> quick|thorough | check.py <id> --replay <file>
import importlib, os, sys
sys.path.insert(0, os.path.dirname(os.path.abspath(__file__)))
import vlib


def setup():
    print("building Coq development ..."); sys.stdout.flush()
    vlib.coq_setup()
    print("building extracted OCaml driver ..."); sys.stdout.flush()
    vlib.ocaml_driver()
    print("building C++ harness from %s ..." % vlib.REPO); sys.stdout.flush()
    from props import registry
    for name, fn in registry.HARNESS_BUILDERS.items():
        try:
            fn()
            print("  built", name)
        except vlib.HarnessBuildError as e:
            print("  harness %s does not build against the current tree: %s" % (name, str(e)[:300]))
    print("setup done")
    return 0


def main():
    os.chdir(vlib.VERIF)
    if len(sys.argv) >= 2 and sys.argv[1] == "--setup":
        return setup()
    if len(sys.argv) < 3:
        print(__doc__ or "usage: check.py <id> quick|thorough|--replay <file>")
        return 2
    prop = sys.argv[1]
    from props import registry
    mod = importlib.import_module("props." + registry.MODULES[prop])
    if sys.argv[2] == "--replay":
        return mod.replay(prop, sys.argv[3])
    tier = sys.argv[2]
    tier = os.environ.get("VERIF_TIER", tier) if tier not in ("quick", "thorough") else tier
    return mod.run(prop, tier, vlib.seed_from_env())


if __name__ == "__main__":
    sys.exit(main())
