# protolib.py - runs protocol scenarios: the real ftp::client (harness/client_driver.cpp built from /repo's
# tree) against the scripted peer (peer.py), then the Coq model (extracted, ocaml/driver_proto.ml) on the same
# history and script with the nondeterministic choices observed in the run (block sizes) fed in; canonicalises
# both sides into comparable per-call records.
import hashlib, json, os, queue, random, re, subprocess, sys, threading, time
import vlib, peer as peerlib

H = lambda b: (bytes(b).hex() if len(b) else "-")
CALL_TIMEOUT = 6.0


# ---------------------------------------------------------------------------------------------- scenario building
def R(code, text=None):
    if text is None:
        text = b"%d ok" % code
    if isinstance(text, str):
        text = text.encode("latin-1")
    return ("R", code, text)


def reaction(now=(), **kw):
    r = dict(now=list(now), on_close=[], drop_pending=False, close_after=False, starttls=False, tls_ok=True,
             listen=None, parse_active=False, data=None, abort_data=False, wait_data_done=False, pace=None)
    r.update(kw)
    return r


def session(greeting, reactions, **kw):
    s = dict(reachable=True, ip6=False, tls_close_clean=True, greeting=greeting, reactions=list(reactions))
    s.update(kw)
    return s


def cfg(mode="P", rfc=True, type="I", tls=False, resume=False, tlsver="12", verify="trusted"):
    return dict(mode=mode, rfc=rfc, type=type, tls=tls, resume=resume, tlsver=tlsver, verify=verify)


# calls: tuples, first element = kind (see ocaml/driver_proto.ml)
def c_connect(si, login=None):
    return ("C", si, login)          # host/port filled in from the peer's endpoint of session si


MODEL_PORT = 20000     # outside the ephemeral range, so that substitutions cannot chain


# ---------------------------------------------------------------------------------------------- serialisation
def b01(x):
    return "1" if x else "0"


def ser_cb(cb):
    if cb is None:
        return ["0"]
    return ["1", str(len(cb))] + [b01(x) for x in cb]


def full_blocks(chunks):
    """the chunks are what a std::istream read in 8192-byte blocks yields: full blocks, then a shorter non-empty rest"""
    return all(len(x) == 8192 for x in chunks[:-1]) and (not chunks or 0 < len(chunks[-1]) <= 8192)


def ser_call(c, endpoints, for_model, idx=None):
    k = c[0]
    if k == "W":
        # the driver sleeps c[1] milliseconds; for the model: a call that changes nothing
        return ["M", c[2]] if for_model else ["W", str(c[1])]
    if k == "Z":
        # interval signals on / off in the driver process; for the model: a call that changes nothing
        return ["M", c[2]] if for_model else ["Z", ("2" if c[1] == 2 else b01(c[1]))]
    if not for_model and idx is not None and idx % 3 == 1:
        # every third call that can: through the public stream adapters (ftp::istream_adapter over a std::istream holding
        # the whole source, ftp::ostream_adapter over a std::ostream) instead of the driver's own stream classes
        if k == "D" and c[3] is None:
            return ["Da"] + ser_call(c, endpoints, for_model)[1:]
        if k == "U" and full_blocks(c[3]):
            return ["Ua"] + ser_call(c, endpoints, for_model)[1:]
    if k == "C":
        if c[1] == "unresolvable":
            # a host name that cannot be resolved (not in the model: the scenario ends the comparison here, see skip_corr_from)
            host, port = "no such host.invalid", 21
            c = (c[0], 9, c[2])
        else:
            host, port = endpoints[c[1]]
        if for_model:
            port = 2100 + c[1]
            host = "peer%d" % c[1]
        elif host == "127.0.0.1" and (idx or 0) % 2 == 0:
            host = "localhost"          # connecting by name or by address literal makes no difference to what is sent
        out = ["C", H(host.encode()), str(port)]
        if c[2] is None:
            out.append("0")
        else:
            out += ["1", H(c[2][0]), H(c[2][1])]
        return out
    if k == "L":
        return ["L", H(c[1]), H(c[2])]
    if k == "O":
        return ["O"]
    if k == "S":
        verb = c[1]
        out = ["S", H(verb if for_model else verb)]
        arg = c[2]
        if for_model and arg is not None and len(arg) > (1 << 20):
            arg = arg[:1000]          # (megabyte arguments belong to calls outside the model: see skip_corr_from)
        out += ["0"] if arg is None else ["1", H(arg)]
        return out
    if k == "T":
        return ["T", c[1]]
    if k == "N":
        return ["N", H(c[1]), H(c[2])]
    if k == "D":
        out = ["D", H(c[1])] + ser_cb(c[2])
        out += ["0"] if c[3] is None else ["1", str(c[3])]
        return out
    if k == "U":
        return ["U", c[1], H(c[2]), str(len(c[3]))] + [H(x) for x in c[3]] + ser_cb(c[4])
    if k == "F":
        return ["F"] + (["0"] if c[1] is None else ["1", H(c[1])]) + [b01(c[2])]
    if k == "X":
        return ["X", b01(c[1])]
    if k in ("+", "-"):
        return [k, str(c[1])]
    if k == "R":
        # observer c[1] unregisters observer c[2] from inside its next callback. The builder only arms an observer that is
        # registered BEFORE the target, right before a call whose first action is an event: iterating std::list, the
        # target is then erased before it is reached - the same as remove_observer(c[2]) before that call (the model's view)
        return ["-", str(c[2])] if for_model else ["R", str(c[1]), str(c[2])]
    if k == "M":
        return ["M", c[1]]
    if k == "Y":
        return ["Y", b01(c[1])]
    raise ValueError(k)


def driver_line(scn, endpoints):
    c = scn["cfg"]
    out = [c["mode"], b01(c["rfc"]), c["type"], b01(c["tls"]), b01(c["resume"]), c["tlsver"][:2], c["verify"], str(len(scn["calls"]))]
    for idx, call in enumerate(scn["calls"]):
        out += ser_call(call, endpoints, False, idx)
    return " ".join(out)


def model_text(text, listen_port_model):
    p = listen_port_model
    t = text.replace(b"{P}", str(p).encode()).replace(b"{p1}", str(p // 256).encode()).replace(b"{p2}", str(p % 256).encode())
    return t.replace(b"{h}", b"127,0,0,1")


def ser_item(it, mp):
    if it[0] == "G":
        return ["G"]
    return ["R", str(it[1]), H(model_text(it[2], mp))]


def ser_reaction(r, mp, segs_override=None, mode="P"):
    out = [str(len(r["now"]))]
    for it in r["now"]:
        out += ser_item(it, mp)
    out.append(str(len(r["on_close"])))
    for it in r["on_close"]:
        out += ser_item(it, mp)
    out += [b01(r["drop_pending"]), b01(r["close_after"]), b01(r.get("model_tls_ok", r["tls_ok"]))]
    d = r.get("data")
    if r.get("listen"):
        reach, tls_ok, segs, end, shut = (r["listen"] == "open"), True, [], "X", True
    elif d:
        reach = d.get("reachable", True)
        tls_ok = d.get("model_tls_ok", d.get("tls_ok", True))
        segs = segs_override if segs_override is not None else d.get("segs", [])
        # without TLS a bare close is the end of file; a reset is an error on any connection
        end = "E" if (d.get("end", "E") == "E" or (d.get("end") == "X" and not d.get("tls"))) else "X"
        shut = d.get("shutdown_ok", True)
    else:
        reach, tls_ok, segs, end, shut = False, False, [], "X", False
    out += [b01(reach), b01(tls_ok), str(len(segs))] + [H(x) for x in segs] + [end, b01(shut)]
    return out


def model_line(scn, segs_by_reaction):
    c = scn["cfg"]
    out = ["proto", c["mode"], b01(c["rfc"]), c["type"], b01(c["tls"]), b01(c["resume"]), str(len(scn["sessions"]))]
    for si, s in enumerate(scn["sessions"]):
        out += [b01(s["reachable"]), b01(s["ip6"]), b01(s["tls_close_clean"])]
        out += ser_reaction(s["greeting"], MODEL_PORT)
        out.append(str(len(s["reactions"])))
        for ri, r in enumerate(s["reactions"]):
            out += ser_reaction(r, MODEL_PORT + ri, segs_by_reaction.get((si, ri)))
    out.append(str(len(scn["calls"])))
    for call in scn["calls"]:
        out += ser_call(call, None if True else None, True) if call[0] != "C" else ser_call(call, {call[1]: ("x", 0)}, True)
    return " ".join(out)


# ---------------------------------------------------------------------------------------------- the driver process
class Driver:
    def __init__(self, exe, env=None):
        self.exe, self.env = exe, env
        self.p = None
        self.q = None

    def start(self):
        self.p = subprocess.Popen([self.exe, peerlib.CERTDIR], stdin=subprocess.PIPE, stdout=subprocess.PIPE,
                                  stderr=subprocess.PIPE, env=self.env)
        self.q = queue.Queue()
        t = threading.Thread(target=self._reader, args=(self.p, self.q), daemon=True)
        t.start()

    @staticmethod
    def _reader(p, q):
        for line in p.stdout:
            q.put(line.decode("latin-1").rstrip("\n"))
        q.put(None)

    def run_case(self, line, ncalls, timeout=None):
        """returns (call_lines, status): status in ok | blocked | crashed"""
        timeout = timeout or CALL_TIMEOUT
        if self.p is None or self.p.poll() is not None:
            self.start()
        self.p.stdin.write((line + "\n").encode())
        self.p.stdin.flush()
        calls, status, destroyed = [], "ok", None
        while True:
            try:
                l = self.q.get(timeout=timeout)
            except queue.Empty:
                status = "blocked"
                self.kill()
                break
            if l is None:
                status = "crashed"
                err = b""
                try:
                    err = self.p.stderr.read() or b""
                except Exception:
                    pass
                self.last_stderr = err.decode("latin-1")[-3000:]
                self.p = None
                break
            if l == "done":
                break
            if l.startswith("call "):
                calls.append(l)
            elif l.startswith("destroyed"):
                destroyed = l
            elif l.startswith("driver-error"):
                calls.append(l)
        return calls, status, destroyed

    def kill(self):
        if self.p is not None:
            try:
                self.p.kill()
                self.p.wait(timeout=2)
            except Exception:
                pass
        self.p = None

    last_stderr = ""


CALL_RE = re.compile(r"call (\d+) out=(\S+) open=(\d) type=(\w) fds=(-?\d+) ev=(.*)$")


def parse_call_line(l):
    m = CALL_RE.match(l)
    if not m:
        return dict(raw=l, out="driver-error", open=None, type=None, fds=None, ev=[])
    ev = [t for t in m.group(6).split(",") if t]
    return dict(out=m.group(2), open=int(m.group(3)), type=m.group(4), fds=int(m.group(5)), ev=ev)


def parse_model(m):
    recs = []
    for part in m.split(" ; "):
        mm = re.match(r"out=(\S+) open=(\d) type=(\w) held=(\d+) ev=(.*)$", part)
        if not mm:
            recs.append(dict(raw=part, out="model-error", open=None, type=None, held=None, ev=[]))
            continue
        recs.append(dict(out=mm.group(1), open=int(mm.group(2)), type=mm.group(3), held=int(mm.group(4)),
                         ev=[t for t in mm.group(5).split(",") if t]))
    return recs


# ---------------------------------------------------------------------------------------------- running scenarios
def observed_segs(scn, impl_calls):
    """block sizes of each download as the real run saw them -> re-cut the scripted payload for the model.
    keyed by (session index, reaction index) of the transfer reaction; relies on scn['xfer_map'][call index]"""
    out = {}
    for ci, key in scn.get("xfer_map", {}).items():
        if ci >= len(impl_calls):
            continue
        si, ri = key
        r = scn["sessions"][si]["reactions"][ri]
        d = r.get("data")
        if not d or d["dir"] != "send":
            continue
        payload = b"".join(d.get("segs", []))
        ev = impl_calls[ci]["ev"]
        sizes = [int(t[1:]) for t in ev if re.fullmatch(r"n\d+", t)]
        if not sizes and scn["cfg_type_at"].get(ci, scn["cfg"]["type"]) == "I":
            sizes = [sw_len_hash(t)[0] for t in ev if t.startswith("sw:") or t.startswith("sw#")]
        if not sizes:
            continue
        segs, pos = [], 0
        for n in sizes:
            if n <= 0:
                continue
            segs.append(payload[pos:pos + n])
            pos += n
        if pos < len(payload):
            # what the client never read (cancelled / failed transfers) does not matter to the model
            rest = payload[pos:]
            segs.append(rest if len(rest) <= 65536 or not scn["exp"][ci].get("cancelled") else rest[:1])
        out[(si, ri)] = [s for s in segs if s]
    return out


def run_scenarios(scenarios, exe, drv, workdir, tag, nworkers=None, env=None):
    """runs every scenario; returns a list of result dicts (impl calls, peer logs, model records)"""
    nworkers = nworkers or min(vlib.NCPU, 12)
    results = [None] * len(scenarios)
    idxq = queue.Queue()
    for i in range(len(scenarios)):
        idxq.put(i)

    def worker():
        d = Driver(exe, env)
        while True:
            try:
                i = idxq.get_nowait()
            except queue.Empty:
                break
            scn = scenarios[i]
            pc = peerlib.PeerCase(scn["sessions"], scn["cfg"]["tlsver"])
            endpoints = {k: pc.endpoint(k) for k in range(len(scn["sessions"]))}
            t0 = time.time()
            lines, status, destroyed = d.run_case(driver_line(scn, endpoints), len(scn["calls"]), timeout=scn.get("call_timeout"))
            pc.finish(0.5 if status == "ok" else 0.2)
            calls = [parse_call_line(l) for l in lines]
            if status == "blocked":
                calls.append(dict(out="blocked", open=None, type=None, fds=None, ev=[]))
            elif status == "crashed":
                calls.append(dict(out="CRASH", open=None, type=None, fds=None, ev=[], stderr=d.last_stderr))
            results[i] = dict(calls=calls, status=status, destroyed=destroyed, peer=pc.log, wall=time.time() - t0)
        d.kill()

    ths = [threading.Thread(target=worker, daemon=True) for _ in range(nworkers)]
    for t in ths:
        t.start()
    for t in ths:
        t.join()
    # a call that did not come back is re-run once, alone and with a long timeout, before it counts as blocked
    d = Driver(exe, env)
    reruns = 0
    for i, res in enumerate(results):
        if res["status"] == "ok":
            continue
        reruns += 1
        if reruns > 8:          # many calls do not come back: the first eight are enough to tell, the run must stay bounded
            continue
        scn = scenarios[i]
        pc = peerlib.PeerCase(scn["sessions"], scn["cfg"]["tlsver"])
        endpoints = {k: pc.endpoint(k) for k in range(len(scn["sessions"]))}
        t0 = time.time()
        lines, status, destroyed = d.run_case(driver_line(scn, endpoints), len(scn["calls"]), timeout=max(15.0, scn.get("call_timeout") or 0))
        pc.finish(0.5)
        calls = [parse_call_line(l) for l in lines]
        if status == "blocked":
            calls.append(dict(out="blocked", open=None, type=None, fds=None, ev=[]))
        elif status == "crashed":
            calls.append(dict(out="CRASH", open=None, type=None, fds=None, ev=[], stderr=d.last_stderr))
        results[i] = dict(calls=calls, status=status, destroyed=destroyed, peer=pc.log, wall=time.time() - t0,
                          rerun_of=res["status"])
    d.kill()
    # the model, with the observed block sizes
    mlines = []
    for scn, res in zip(scenarios, results):
        mlines.append(model_line(scn, observed_segs(scn, res["calls"])))
    mout = vlib.run_lines(drv, mlines, workdir, tag + "-model")
    for res, ml, mo in zip(results, mlines, mout):
        res["model_line"] = ml
        res["model_raw"] = mo.split("\t")[0]
        res["model"] = parse_model(res["model_raw"])
    return results


# ---------------------------------------------------------------------------------------------- canonical projections
def shorten(tok):
    """long hex payloads are compared by length + digest"""
    if len(tok) > 200:
        i = tok.rfind(":")
        return tok[:i + 1] + "#%d:%s" % ((len(tok) - i - 1) // 2, hashlib.sha1(tok[i + 1:].encode()).hexdigest()[:12])
    return tok


def norm_out(o):
    if o.startswith("throw:ftp_exception"):
        return "throw"
    return o


def proj_obs(ev):
    return [shorten(t) for t in ev if t.startswith("O")]


HM, HB = (1 << 61) - 1, 1000003


def poly_hash(b):
    h = 0
    for c in b:
        h = (h * HB + c) % HM
    return h


def sw_len_hash(t):
    """(length, hash) of a sink-write token in either form"""
    if t.startswith("sw#"):
        n, h = t[3:].split(":")
        return int(n), int(h)
    b = b"" if t == "sw:-" else bytes.fromhex(t[3:])
    return len(b), poly_hash(b)


def sink_bytes_known(ev):
    """the bytes handed to the sink when every write was short enough to be logged verbatim, else None"""
    out = b""
    for t in ev:
        if t.startswith("sw#"):
            return None
        if t.startswith("sw:"):
            out += b"" if t == "sw:-" else bytes.fromhex(t[3:])
    return out


def proj_io(ev):
    """callback / sink tokens; consecutive sink writes merged (their split is the network's, not the client's)"""
    out = []
    for t in ev:
        if re.fullmatch(r"p[01]|b|e|sf|n\d+", t):
            out.append(t)
        elif t.startswith("sw:") or t.startswith("sw#"):
            n, h = sw_len_hash(t)
            if out and isinstance(out[-1], tuple):
                n0, h0 = out[-1]
                out[-1] = (n0 + n, (h0 * pow(HB, n, HM) + h) % HM)
            else:
                out.append((n, h))
    return ["SW#%d:%d" % t if isinstance(t, tuple) else t for t in out if t != (0, 0)]


def model_wire(ev):
    return [(t[1] == "1", bytes.fromhex(t.split(":")[2]) if t.split(":")[2] != "-" else b"") for t in ev if re.match(r"W[01]:", t)]
