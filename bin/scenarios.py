# scenarios.py - builds protocol scenarios (history of API calls + the peer's script) together with the
# REFERENCE expectation for each call, written from the RFC tables of DESIGN.md Appendix E and independent of the
# Coq model: the command lines the call must put on the wire, the replies it must return (identified by unique
# marks in their texts), whether data may move, ...  The property oracles compare the real client with these.
import random
from protolib import R, reaction, session, cfg

NEG_CODES = [425, 426, 450, 451, 452, 500, 501, 502, 503, 504, 530, 550, 551, 552, 553]
POS_COMPLETION = [200, 202, 211, 212, 213, 214, 215, 220, 221, 225, 226, 230, 250, 257]


def _upto_empty(chunks):
    """what a source hands out before its first empty read: the upload ends there (data_connection::send never asks
    again), whatever the source would return later"""
    out = []
    for c in chunks:
        if not c:
            break
        out.append(c)
    return out


class Builder:
    """one client object's history against one or more scripted sessions"""

    def __init__(self, rng, mode="P", rfc=True, type="I", tls=False, resume=False, tlsver="12", verify="trusted", ip6=False):
        self.rng = rng
        if ip6 and mode == "P" and not rfc:
            rfc = True               # PASV cannot name an IPv6 endpoint: use EPSV on IPv6 control connections
        self.cfg = cfg(mode, rfc, type, tls, resume, tlsver, verify)
        self.mode, self.rfc, self.type, self.tls = mode, rfc, type, tls
        self.ip6 = ip6
        self.sessions = []
        self.calls = []
        self.exp = []            # per call expectation
        self.xfer_map = {}
        self.cfg_type_at = {}
        self.mark = 0
        self.cur = None          # reactions of the current session
        self.connected = False
        self.secured = False
        self.observers = []

    # ---- helpers
    def m(self, code, words="ok", multi=False):
        """a reply with a unique mark in its text"""
        self.mark += 1
        tagtxt = "[m%d]" % self.mark
        if multi:
            # body lines of the RFC 959 multi-line form: indented text, a blank line, digits that are not the end line,
            # the same code with a hyphen, another code with a space
            body = self.rng.choice([[" continued"], [""], [" continued", "", " more"], ["%d-still going" % code],
                                    ["%d is another code" % (code + 1 if code < 599 else 100)], ["  %d indented" % code],
                                    ["12", "", ""], ["-"],
                                    # the reply's own code followed by something that is neither a hyphen nor a space
                                    ["%d0 bytes transferred" % code], ["%d" % code], ["%d\tx" % code, "%dx" % code], ["%d%d y" % (code, code)]])
            text = "\r\n".join(["%d-%s %s" % (code, words, tagtxt)] + body + ["%d end" % code])
        else:
            text = "%d %s %s" % (code, words, tagtxt)
        return R(code, text)

    def add_call(self, call, **exp):
        e = dict(cmds=[], replies=[], throws=False, moves_data=False, open_after=self.connected, type_after=self.type,
                 secured=self.secured, kind=call[0])
        e.update(exp)
        self.calls.append(call)
        self.exp.append(e)
        return len(self.calls) - 1

    def new_session(self, greeting, **kw):
        self.cur = []
        s = session(greeting, [], ip6=self.ip6, **kw)
        s["reactions"] = self.cur
        s["addr_off"] = self.rng.choice([0, 1, 1, 5])
        self.sessions.append(s)
        return len(self.sessions) - 1

    def scenario(self, **extra):
        d = dict(cfg=self.cfg, sessions=self.sessions, calls=self.calls, exp=self.exp, xfer_map=self.xfer_map,
                 cfg_type_at=self.cfg_type_at)
        d.update(extra)
        return d

    # ---- a process that is interrupted by signals all the time (driver only: the model sees a call that changes nothing)
    def wait(self, ms):
        self.add_call(("W", ms, self.mode), kind="M")

    def signals(self, on):
        self.add_call(("Z", on, self.mode), kind="M")

    # ---- observers
    def add_observer(self, o):
        self.observers.append(o)
        self.add_call(("+", o))

    def remove_observer(self, o):
        self.observers = [x for x in self.observers if x != o]
        self.add_call(("-", o))

    def remove_from_callback(self, a, o):
        """observer a (registered once, before o) unregisters o from inside its next callback; to be followed at once by
        a call that starts with an event"""
        assert self.observers.count(a) == 1 and self.observers.count(o) == 1 and self.observers.index(a) < self.observers.index(o)
        self.observers = [x for x in self.observers if x != o]
        self.add_call(("R", a, o), kind="-")

    # ---- connect / login
    def login_steps(self, user, pw, plan):
        """plan: dict of reply codes for the login steps: user, pass, pbsz, prot, type. returns (cmds, replies, reactions)"""
        cmds, reps, reacts = [], [], []

        def step(line, code, words="ok"):
            rp = self.m(code, words)
            cmds.append(line)
            reps.append(rp)
            reacts.append(reaction([rp]))
            return code

        c = step(b"USER " + user, plan.get("user", 331))
        if c == 331:
            c = step(b"PASS " + pw, plan.get("pass", 230))
        if c >= 400:
            return cmds, reps, reacts
        if self.tls:
            c = step(b"PBSZ 0", plan.get("pbsz", 200))
            if c >= 400:
                return cmds, reps, reacts
            c = step(b"PROT P", plan.get("prot", 200))
            if c >= 400:
                return cmds, reps, reacts
        step(b"TYPE " + (b"A" if self.type == "A" else b"I"), plan.get("type", 200))
        return cmds, reps, reacts

    def connect(self, login=None, greeting=(220,), auth=234, plan=None, tls_ok=True, **sess_kw):
        plan = plan or {}
        greps = [self.m(c, "service") for c in greeting]
        g = reaction(greps, close_after=(greeting[-1] == 421))
        stay_plain = sess_kw.pop("stay_plain", False)
        tls_reset = sess_kw.pop("tls_reset", False)
        si = self.new_session(g, **sess_kw)
        cmds, reps = [], list(greps)
        ok = greeting[-1] < 400 and not (len(greeting) == 1 and False)
        throws = False
        secured = False
        if ok and self.tls:
            a = self.m(auth, "auth")
            cmds.append(b"AUTH TLS")
            reps.append(a)
            client_rejects = (self.cfg["verify"] == "unknown")
            rx = reaction([a], starttls=(auth < 400), tls_ok=tls_ok, stay_plain_after_bad_tls=stay_plain)
            if tls_reset:
                rx["tls_reset"] = True
            if client_rejects:
                rx["model_tls_ok"] = False          # the peer does its part; the client refuses the certificate
            self.cur.append(rx)
            if auth >= 400:
                ok = False
            elif not tls_ok or client_rejects:
                ok, throws = False, True
            else:
                secured = True
        if ok and login is not None:
            c2, r2, re2 = self.login_steps(login[0], login[1], plan)
            cmds += c2
            reps += r2
            self.cur += re2
        self.connected = greeting[-1] != 421        # (a 421 - as the greeting too - ends the session: the client closes)
        self.secured = secured
        return self.add_call(("C", si, login), cmds=cmds, replies=reps, throws=throws, open_after=self.connected,
                             secured_after=secured, session=si)

    def login(self, user, pw, plan=None):
        cmds, reps, reacts = self.login_steps(user, pw, plan or {})
        self.cur += reacts
        return self.add_call(("L", user, pw), cmds=cmds, replies=reps)

    def simple(self, verb, arg, code=None, multi=False, extra=None, close_after=False, reset_after=False):
        """extra: replies written together with the answer although nothing asked for them (left unread);
        close_after: the peer closes the control connection after answering; code 421 ends the session"""
        code = code if code is not None else self.rng.choice([200, 250, 257, 213, 211, 214, 215, 350, 331, 450, 500, 502, 550])
        rp = self.m(code, verb.decode().lower(), multi)
        now = [rp] + [self.m(c, "unsolicited") for c in (extra or [])]
        self.cur.append(reaction(now, close_after=(close_after or code == 421 or reset_after), reset_after=reset_after))
        line = verb + (b" " + arg if arg is not None else b"")
        if code == 421:
            self.connected = False
            self.secured = False
        return self.add_call(("S", verb, arg), cmds=[line], replies=[rp], open_after=self.connected,
                             may_throw=(code == 421 and self.tls))

    def failing(self, call, **kw):
        """a call that must end in ftp_exception (dead peer, closed socket)"""
        return self.add_call(call, throws=True, cmds=kw.pop("cmds", []), **kw)

    def set_type(self, t, code=200):
        rp = self.m(code, "type")
        self.cur.append(reaction([rp]))
        if code < 400:
            self.type = t
        return self.add_call(("T", t), cmds=[b"TYPE " + t.encode()], replies=[rp], type_after=self.type)

    def rename(self, a, b, c1=350, c2=250):
        r1 = self.m(c1, "rnfr")
        self.cur.append(reaction([r1]))
        cmds, reps = [b"RNFR " + a], [r1]
        if c1 == 350:
            r2 = self.m(c2, "rnto")
            self.cur.append(reaction([r2]))
            cmds.append(b"RNTO " + b)
            reps.append(r2)
        return self.add_call(("N", a, b), cmds=cmds, replies=reps)

    def logout(self, codes=(220,)):
        reps = [self.m(c, "rein") for c in codes]
        # "120, then 220": written as two separate pieces (two TLS records on a secured session)
        pace = [len(reps[0][2]) + 2] if len(reps) > 1 else None
        self.cur.append(reaction(reps, stoptls=(self.secured and codes[-1] < 400), pace=pace))
        was_sec = self.secured
        if codes[-1] < 400:
            self.secured = False
        return self.add_call(("O",), cmds=[b"REIN"], replies=reps, returns_last_only=True, secured=was_sec)

    def disconnect(self, graceful=True, code=None):
        cmds, reps = [], []
        if code is None:
            # the reply to QUIT is a reply like any other - refused, not understood, or merely positive: the connection is
            # released whatever it says
            code = self.rng.choice([221, 221, 221, 221, 500, 530, 502, 200, 451])
        if graceful:
            rp = self.m(code, "bye")
            self.cur.append(reaction([rp]))
            cmds, reps = [b"QUIT"], [rp]
        sec = self.secured
        self.connected = False
        self.secured = False
        return self.add_call(("X", graceful), cmds=cmds, replies=reps, open_after=False, secured=sec)

    # ---- transfers
    def setup_cmd(self):
        if self.mode == "P":
            return b"EPSV" if self.rfc else b"PASV"
        if self.rfc:
            return b"EPRT |2|::1|50000|" if self.ip6 else b"EPRT |1|127.0.0.1|50000|"
        return b"PORT 127,0,0,1,195,80"

    def setup_reaction(self, code, listen="open"):
        """reaction to EPSV / PASV / EPRT / PORT"""
        if self.mode == "P":
            if code >= 400:
                return reaction([self.m(code, "no passive")])
            self.mark += 1
            if self.rfc:
                text = "%d Entering Extended Passive Mode (|||{P}|) [m%d]" % (code, self.mark)
            else:
                text = "%d Entering Passive Mode ({h},{p1},{p2}). [m%d]" % (code, self.mark)
                # PASV names an address of its own: a data listener at another address than the control connection's
                # (multi-homed server, separate data node) - the client goes where the reply says
                off = (self.mark % 4) if (self.mark % 3 == 0 and not self.ip6) else 0
                return reaction([R(code, text)], listen=listen, listen_addr_off=off)
            return reaction([R(code, text)], listen=listen)
        return reaction([self.m(code, "port")], parse_active=True)

    def transfer(self, kind, path, payload_segs=(), chunks=(), cb=None, setup_code=None, cmd_code=150, done_code=226,
                 refuse_at=None, refuse_code=550, names=False, upverb="S", fail_at=None, end="E", data_tls_ok=True,
                 completion="now", listen="open", abor=None, finish_first=False, data_fault=None, pre_words=None, done_words=None):
        """kind: 'D' download, 'U' upload, 'F' listing.
        refuse_at: None | 'setup' | 'cmd'.  abor: None | dict(first=426|226|..., second=226) when the callback cancels."""
        verb = {"D": b"RETR", "F": (b"NLST" if names else b"LIST"),
                "U": {"S": b"STOR", "U": b"STOU", "A": b"APPE"}[upverb]}[kind]
        line = verb + (b" " + path if path is not None else b"")
        setup = self.setup_cmd()
        if setup_code is None:
            setup_code = {b"EPSV": 229, b"PASV": 227}.get(setup, 200)
        if self.mode == "A" and not self.rfc and self.ip6:
            # PORT cannot carry an IPv6 address: the call must fail before anything is sent
            return self.add_call(("D", path, cb, fail_at) if kind == "D" else (("U", upverb, path, list(chunks), cb) if kind == "U" else ("F", path, names)),
                                 cmds=[], replies=[], throws=True, refused=False)
        cmds, reps = [], []
        moves = False
        ci = len(self.calls)
        if refuse_at == "setup":
            sr = self.setup_reaction(refuse_code)
            self.cur.append(sr)
            cmds.append(setup)
            reps.append(sr["now"][0])
        else:
            sr = self.setup_reaction(setup_code, listen)
            self.cur.append(sr)
            cmds.append(setup)
            reps.append(sr["now"][0])
            if listen == "dead" and self.mode == "P":
                pass                    # nobody listens at the announced port: the call fails at the data connect
            elif refuse_at == "cmd":
                rp = self.m(refuse_code, "refused")
                self.cur.append(reaction([rp], data=dict(dir="hold", mode=("active" if self.mode == "A" else "passive"),
                                                         reachable=False) if self.mode == "P" else None))
                cmds.append(line)
                reps.append(rp)
            else:
                total = sum(len(x) for x in payload_segs)
                # servers announce the size in the preliminary reply; the number need not be what is then sent
                words = self.rng.choice(["opening", "opening", "Opening BINARY mode data connection for f (%d bytes)." % total,
                                         "Opening BINARY mode data connection (%d bytes)" % (total // 2),
                                         "Opening data connection (0 bytes)", "Opening (%d bytes)" % (total + 100),
                                         "about to open (bytes) (12 bytes)"]) if kind != "U" else "opening"
                pre = self.m(cmd_code, pre_words if pre_words is not None else words)
                done = self.m(done_code, done_words if done_words is not None else "complete")
                ddir = "recv" if kind == "U" else "send"
                data = dict(dir=ddir, mode=("active" if self.mode == "A" else "passive"), tls=self.tls, tls_ok=data_tls_ok,
                            segs=list(payload_segs), end=end, reachable=True)
                cancelled = abor is not None
                if data_fault == "rogue-cert":
                    data["cert"] = "rogue"           # the peer does its part; a verifying client must refuse the chain
                    if self.cfg["verify"] != "none":
                        data["model_tls_ok"] = False
                elif data_fault == "handshake":
                    data["tls_ok"] = False
                elif data_fault == "no-close-notify" and kind == "U":
                    # the server takes the client's close-notify as the end of the file and closes without one of its own:
                    # the TLS shutdown of the data connection does not complete (stream truncated) - reported, like a
                    # download cut the same way
                    data["answer_close_notify"] = False
                    data["shutdown_ok"] = False
                elif data_fault == "reset-before-handshake":
                    # the server opens / accepts the data connection, resets it, and still answers the command positively:
                    # the client finds a dead connection when it comes to its TLS handshake
                    data["tls_ok"] = False
                    data["reset_first"] = True
                elif data_fault == "truncate":
                    data["end"] = "X"
                elif data_fault == "unreachable-passive":
                    pass
                if cancelled:
                    if finish_first:
                        # the peer had completed the transfer before it read ABOR
                        rx = reaction([pre, done], data=data)
                    else:
                        rx = reaction([pre], data=data)
                elif kind == "U" or completion == "on_close":
                    rx = reaction([pre], on_close=[done], data=data)
                else:
                    if completion == "after_data":
                        data["completion_after_data"] = True
                    rx = reaction([pre, done], data=data)
                self.cur.append(rx)
                self.xfer_map[ci] = (len(self.sessions) - 1, len(self.cur) - 1)
                cmds.append(line)
                reps.append(pre)
                moves = True
                if cancelled:
                    a1 = self.m(abor.get("first", 426), "abor")
                    now = [a1]
                    if abor.get("second") is not None:
                        now.append(self.m(abor["second"], "abor done"))
                    self.cur.append(reaction(now, abort_data=not finish_first, drop_pending=True, wait_data_done=finish_first))
                    cmds.append(b"ABOR")
                    if finish_first:
                        reps.append(done)
                    reps += now
                else:
                    reps.append(done)
        if kind == "D":
            call = ("D", path, cb, fail_at)
        elif kind == "U":
            call = ("U", upverb, path, list(chunks), cb)
        else:
            call = ("F", path, names)
        self.cfg_type_at[ci] = self.type
        faulty = (data_fault in ("handshake", "reset-before-handshake") and self.tls and refuse_at is None) or \
                 (data_fault == "rogue-cert" and self.tls and refuse_at is None and self.cfg["verify"] != "none") or \
                 (data_fault == "truncate" and self.tls and refuse_at is None and kind != "U") or \
                 (data_fault == "no-close-notify" and self.tls and refuse_at is None and kind == "U") or \
                 (listen == "dead" and self.mode == "P" and refuse_at != "setup")
        if listen == "dead" and self.mode == "P" and refuse_at != "setup":
            cmds = cmds[:1]            # the data connection cannot be opened: the transfer command is never sent
        return self.add_call(call, cmds=cmds, replies=reps, moves_data=moves and not faulty, refused=(refuse_at is not None),
                             payload=b"".join(payload_segs), source=b"".join(_upto_empty(chunks)), cancelled=(abor is not None),
                             throws=faulty)
