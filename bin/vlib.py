# vlib.py - shared machinery of the checks: builds (Coq, extracted OCaml driver, C++ harness from
# /repo's current working tree), case running, verdict/evidence/replay writing, known findings.
import hashlib, json, os, random, re, shutil, subprocess, sys, time
from concurrent.futures import ThreadPoolExecutor

VERIF = os.path.dirname(os.path.dirname(os.path.abspath(__file__)))
REPO = os.environ.get("VERIF_REPO", "/repo")
BUILD = os.path.join(VERIF, "build")
COQ = os.path.join(VERIF, "coq")
OCAML = os.path.join(VERIF, "ocaml")
HARNESS = os.path.join(VERIF, "harness")
NCPU = os.cpu_count() or 4

TRUSTED_BASE = [
    "Coq 8.16.1 kernel (coqc; full .vo build, no -vos/-vok; no native_compute; vm_compute in Examples, refutation witnesses and finite sweeps)",
    "axioms: none declared by the development; Print Assumptions output of every property theorem is recorded below",
    "extraction: Coq.extraction.ExtrOcamlBasic only (its Extract Inductive for bool, option, unit, list, prod, sumbool, sumor); no Extract Constant; N/positive/nat stay extracted inductives",
    "OCaml 4.13.1 and the I/O glue ocaml/glue.ml, ocaml/driver*.ml",
    "the correspondence check: generators and comparison in bin/, the C++ drivers in harness/ (g++ 12, -fno-access-control), canonicalisation of outputs",
    "modelled, not verified: libstdc++ (std::string, std::getline, operator>>, std::quoted, std::to_string), boost::asio::read_until, boost::iequals, make_address/inet_pton, the kernel's TCP and OpenSSL",
]


def sh(cmd, timeout=1200, cwd=None, env=None, input=None):
    p = subprocess.run(cmd, shell=isinstance(cmd, str), cwd=cwd, env=env, input=input,
                       stdout=subprocess.PIPE, stderr=subprocess.STDOUT, timeout=timeout, text=True)
    return p.returncode, p.stdout


def sha(*parts):
    h = hashlib.sha256()
    for p in parts:
        h.update(p if isinstance(p, bytes) else p.encode())
        h.update(b"\0")
    return h.hexdigest()


# ---------------------------------------------------------------- Coq
def coq_makefile():
    mk = os.path.join(COQ, "Makefile")
    proj = os.path.join(COQ, "_CoqProject")
    if not os.path.exists(mk) or os.path.getmtime(mk) < os.path.getmtime(proj):
        rc, out = sh("coq_makefile -f _CoqProject -o Makefile", cwd=COQ)
        if rc != 0:
            raise RuntimeError("coq_makefile failed:\n" + out)


FORBIDDEN = re.compile(r"\b(Admitted|admit|Axiom|Parameter|Conjecture|Hypothesis|Variable)\b|Unset Guard|bypass_check|type-in-type|impredicative-set|Admit Obligations")


def coq_scan_forbidden():
    """Admitted/admit/Axiom/... anywhere in the development (Variables/Hypotheses inside Sections
    are allowed and reported separately)."""
    bad = []
    for fn in sorted(os.listdir(COQ)):
        if not fn.endswith(".v"):
            continue
        depth = 0
        txt = open(os.path.join(COQ, fn)).read()
        txt = re.sub(r"\(\*.*?\*\)", lambda m: "\n" * m.group(0).count("\n"), txt, flags=re.S)
        for ln, line in enumerate(txt.split("\n"), 1):
            if re.match(r"\s*Section\b", line):
                depth += 1
            if re.match(r"\s*End\b", line) and depth > 0:
                depth -= 1
            m = FORBIDDEN.search(line)
            if m:
                w = m.group(0)
                if w in ("Variable", "Hypothesis") and depth > 0:
                    continue
                bad.append("%s:%d: %s" % (fn, ln, line.strip()))
    return bad


def coq_prove(prop_module):
    """Build Properties_<id>.vo (and what it depends on) with a full .vo build; return
    dict(ok, theorems, assumptions{name: text}, log)."""
    coq_makefile()
    vo = prop_module + ".vo"
    t0 = time.time()
    # force the property file itself to be re-checked so that Print Assumptions output is produced
    try:
        os.remove(os.path.join(COQ, vo))
    except FileNotFoundError:
        pass
    rc, out = sh("timeout 900 make -j%d %s" % (NCPU, vo), cwd=COQ, timeout=1000)
    src = open(os.path.join(COQ, prop_module + ".v")).read()
    src_nc = re.sub(r"\(\*.*?\*\)", "", src, flags=re.S)
    theorems = re.findall(r"^\s*Theorem\s+(\w+)", src_nc, flags=re.M)
    assumptions = {}
    # Print Assumptions blocks appear in order in the output
    blocks = re.split(r"(?=Closed under the global context|Axioms:)", out)
    printed = [b.strip() for b in blocks if b.startswith("Closed under") or b.startswith("Axioms:")]
    asked = re.findall(r"Print Assumptions\s+(\w+)", src_nc)
    for name, txt in zip(asked, printed):
        assumptions[name] = txt.split("\n\n")[0][:2000]
    ok = (rc == 0)
    forbidden = coq_scan_forbidden()
    return dict(ok=ok and not forbidden, rc=rc, theorems=theorems, assumptions=assumptions,
                forbidden=forbidden, log=out[-6000:], wall=time.time() - t0,
                cmd="make -C coq %s  (coqc 8.16.1, full .vo)" % vo)


def coq_setup():
    coq_makefile()
    rc, out = sh("timeout 3000 make -j%d" % NCPU, cwd=COQ, timeout=3100)
    if rc != 0:
        raise RuntimeError("Coq build failed:\n" + out[-4000:])
    return out


# ---------------------------------------------------------------- OCaml driver (extracted model)
def ocaml_driver():
    """(Re)extract the model when a .vo it depends on is newer, compile ocaml/driver."""
    coq_makefile()
    rc, out = sh("timeout 900 make -j%d Extract.vo" % NCPU, cwd=COQ, timeout=1000)
    if rc != 0:
        raise RuntimeError("extraction failed:\n" + out[-4000:])
    exe = os.path.join(BUILD, "ocaml", "driver")
    os.makedirs(os.path.dirname(exe), exist_ok=True)
    srcs = ["model.mli", "model.ml", "glue.ml", "driver_proto.ml", "driver_ext.ml", "driver.ml"]
    for f in ("model.ml", "model.mli"):
        shutil.copy(os.path.join(COQ, f), os.path.join(BUILD, "ocaml", f))
    for f in srcs[2:]:
        shutil.copy(os.path.join(OCAML, f), os.path.join(BUILD, "ocaml", f))
    key = sha(*[open(os.path.join(BUILD, "ocaml", f), "rb").read() for f in srcs])
    stamp = exe + ".key"
    if os.path.exists(exe) and os.path.exists(stamp) and open(stamp).read() == key:
        return exe
    rc, out = sh("ocamlfind ocamlopt -w -a -O2 %s -o driver" % " ".join(srcs), cwd=os.path.join(BUILD, "ocaml"))
    if rc != 0:
        raise RuntimeError("ocaml driver build failed:\n" + out[-4000:])
    open(stamp, "w").write(key)
    return exe


# ---------------------------------------------------------------- C++ harness from /repo's tree
class HarnessBuildError(Exception):
    pass


def _headers_digest():
    h = hashlib.sha256()
    roots = [os.path.join(REPO, "include"), os.path.join(REPO, "app", "cmdline", "src"), HARNESS]
    for root in roots:
        for d, _, files in sorted(os.walk(root)):
            for f in sorted(files):
                if f.endswith((".hpp", ".h")):
                    p = os.path.join(d, f)
                    h.update(p.encode())
                    h.update(open(p, "rb").read())
    return h.hexdigest()


BASE_FLAGS = "-std=c++17 -w -fno-access-control -DFTP_STATIC_DEFINE"
OPT = {"plain": "-O1", "asan": "-O1 -g -fsanitize=address,undefined -fno-sanitize-recover=all -fno-omit-frame-pointer"}


def repo_lib_sources():
    d = os.path.join(REPO, "src")
    return sorted(os.path.join(d, f) for f in os.listdir(d) if f.endswith(".cpp"))


def build_harness(name, harness_sources, repo_sources=None, variant="plain", extra_flags=""):
    """Compile harness_sources (under harness/) + repo_sources (default: the whole library) from the
    current working tree into build/bin/<name>-<variant>. Objects are cached by content hash."""
    if repo_sources is None:
        repo_sources = repo_lib_sources()
    incs = "-I%s -I%s -I%s -I%s" % (os.path.join(REPO, "include"), os.path.join(HARNESS, "stub"), HARNESS,
                                    os.path.join(REPO, "app", "cmdline", "src"))
    flags = "%s %s %s %s" % (BASE_FLAGS, OPT[variant], incs, extra_flags)
    hd = _headers_digest()
    objdir = os.path.join(BUILD, "obj")
    os.makedirs(objdir, exist_ok=True)
    os.makedirs(os.path.join(BUILD, "bin"), exist_ok=True)
    jobs = []
    objs = []
    for s in [os.path.join(HARNESS, x) for x in harness_sources] + list(repo_sources):
        key = sha(hd, open(s, "rb").read(), flags, s)
        o = os.path.join(objdir, key[:32] + ".o")
        objs.append(o)
        if not os.path.exists(o):
            jobs.append((s, o))

    def cc(job):
        s, o = job
        rc, out = sh("g++ %s -c %s -o %s.tmp && mv %s.tmp %s" % (flags, s, o, o, o), timeout=900)
        return rc, out, s

    if jobs:
        with ThreadPoolExecutor(NCPU) as ex:
            for rc, out, s in ex.map(cc, jobs):
                if rc != 0:
                    raise HarnessBuildError("compiling %s failed:\n%s" % (s, out[-3000:]))
    exe = os.path.join(BUILD, "bin", "%s-%s" % (name, variant))
    lkey = sha(*objs, flags)
    stamp = exe + ".key"
    if not (os.path.exists(exe) and os.path.exists(stamp) and open(stamp).read() == lkey):
        san = "-fsanitize=address,undefined" if variant == "asan" else ""
        rc, out = sh("g++ %s %s -o %s -lssl -lcrypto -lpthread" % (san, " ".join(objs), exe), timeout=600)
        if rc != 0:
            raise HarnessBuildError("linking %s failed:\n%s" % (name, out[-3000:]))
        open(stamp, "w").write(lkey)
    return exe


def repo_state():
    rc, head = sh("git -C %s rev-parse HEAD" % REPO)
    rc2, diff = sh("git -C %s status --porcelain --untracked-files=no" % REPO)
    return dict(head=head.strip(), dirty=bool(diff.strip()))


# ---------------------------------------------------------------- running case files
def _big_stack():
    """the extracted model recurses over byte lists (not tail-recursive): megabyte payloads need a deep stack"""
    import resource
    try:
        soft, hard = resource.getrlimit(resource.RLIMIT_STACK)
        want = 4 << 30
        resource.setrlimit(resource.RLIMIT_STACK, (want if hard == resource.RLIM_INFINITY else min(want, hard), hard))
    except (ValueError, OSError):
        pass


def run_lines(exe, cases, workdir, tag, timeout=600, shards=None, env=None):
    """Run `exe <casefile>` on the cases (sharded over the cores); returns the output lines."""
    os.makedirs(workdir, exist_ok=True)
    n = len(cases)
    if n == 0:
        return []
    shards = shards or min(NCPU, max(1, n // 200))
    per = (n + shards - 1) // shards
    chunks = [cases[i:i + per] for i in range(0, n, per)]

    def one(ic):
        i, chunk = ic
        fn = os.path.join(workdir, "%s.%d.txt" % (tag, i))
        with open(fn, "w") as f:
            f.write("\n".join(chunk) + "\n")
        p = subprocess.run([exe, fn], stdout=subprocess.PIPE, stderr=subprocess.PIPE, timeout=timeout, env=env,
                           preexec_fn=_big_stack)
        out = p.stdout.decode("latin-1").split("\n")
        if out and out[-1] == "":
            out.pop()
        if p.returncode != 0 or len(out) != len(chunk):
            # the process died: attribute the crash to the first case without output
            k = len(out)
            err = p.stderr.decode("latin-1")[-1500:]
            out = out + ["CRASH rc=%d %s" % (p.returncode, " ".join(err.split())[:600])] + ["NOT-RUN"] * (len(chunk) - k - 1)
        return out

    res = []
    with ThreadPoolExecutor(NCPU) as ex:
        for out in ex.map(one, list(enumerate(chunks))):
            res.extend(out)
    return res


# ---------------------------------------------------------------- known findings
def load_known(prop):
    known, fixed = [], []
    fn = os.path.join(VERIF, "known_findings.txt")
    if os.path.exists(fn):
        for line in open(fn):
            line = line.strip()
            if not line or line.startswith("#"):
                continue
            m = re.match(r"known:\s+property=(\S+)\s+signature=(\S+)\s*(.*)", line)
            if m and m.group(1) == prop:
                known.append((m.group(2), m.group(3)))
            m = re.match(r"fixed:\s+property=(\S+)\s+(\S+)\s*(.*)", line)
            if m and m.group(1) == prop:
                fixed.append((m.group(2), m.group(3)))
    return known, fixed


# ---------------------------------------------------------------- verdict
class Report:
    def __init__(self, prop, tier, seed):
        self.prop, self.tier, self.seed = prop, tier, seed
        self.t0 = time.time()
        self.violations = []        # (signature, description, replay-dict)
        self.unproved = []          # names of theorems / correspondences that no longer check
        self.known_seen = {}
        self.coverage = {}
        self.assumptions = []
        self.notes = []

    def violation(self, signature, what, replay):
        self.violations.append((signature, what, replay))

    def broken(self, name, detail):
        self.unproved.append((name, detail))

    def finish(self):
        known, fixed = load_known(self.prop)
        os.makedirs(os.path.join(VERIF, "replay"), exist_ok=True)
        os.makedirs(os.path.join(VERIF, "evidence"), exist_ok=True)
        lines = []
        new = []
        for f in os.listdir(os.path.join(VERIF, "replay")):        # replays of earlier runs of this property
            if re.fullmatch(re.escape(self.prop) + r"-(\d+|unproved)\.json", f):
                os.remove(os.path.join(VERIF, "replay", f))
        for sig, what, replay in self.violations:
            hit = [k for k in known if k[0] == sig]
            if hit:
                self.known_seen.setdefault(sig, what)
            else:
                new.append((sig, what, replay))
        for sig, what in self.known_seen.items():
            lines.append("KNOWN-FINDING: property=%s %s (%s)" % (self.prop, sig, what))
        rc = 0
        nviol = 0
        if new:
            # report the smallest replay of each distinct signature (at most 5 lines)
            seen = {}
            for sig, what, replay in new:
                size = len(json.dumps(replay))
                if sig not in seen or size < seen[sig][0]:
                    seen[sig] = (size, what, replay)
            for i, (sig, (size, what, replay)) in enumerate(sorted(seen.items())[:5]):
                path = os.path.join("replay", "%s-%d.json" % (self.prop, i + 1))
                replay = dict(replay, property=self.prop, signature=sig, what=what, seed=self.seed, tier=self.tier)
                json.dump(replay, open(os.path.join(VERIF, path), "w"), indent=1)
                lines.append("VIOLATION property=%s replay=%s" % (self.prop, path))
                nviol += 1
            rc = 1
        elif self.unproved:
            path = os.path.join("replay", "%s-unproved.json" % self.prop)
            json.dump(dict(property=self.prop, seed=self.seed, tier=self.tier,
                           no_longer_checks=[dict(name=n, detail=d) for n, d in self.unproved],
                           note="a theorem or the model/implementation correspondence no longer checks, and the "
                                "search (corpus, boundary generators, neighbours of the diverging cases) found no "
                                "input on which the property's own oracle fails"),
                      open(os.path.join(VERIF, path), "w"), indent=1)
            lines.append("VIOLATION property=%s replay=%s no-failing-input-found" % (self.prop, path))
            nviol = 1
            rc = 1
        wall = time.time() - self.t0
        cov = dict(self.coverage)
        cov["known_findings_seen"] = sorted(self.known_seen)
        cov["fixed_findings_rechecked"] = [f[0] + " " + f[1] for f in fixed]
        ev = dict(property_id=self.prop, tier=self.tier, seed=self.seed, level="proof", coverage=cov,
                  assumptions=self.assumptions, wall_s=round(wall, 2), violations=nviol, notes=self.notes,
                  repo=repo_state())
        json.dump(ev, open(os.path.join(VERIF, "evidence", self.prop + ".json"), "w"), indent=1)
        for l in lines:
            print(l)
        print("%s %s: %s in %.1fs (evaluations=%s, obligations=%s/%s)" % (
            self.prop, self.tier, "FAIL" if rc else "ok", wall, cov.get("evaluations"),
            cov.get("discharged"), cov.get("obligations")))
        return rc


def proof_step(rep, module, expect_closed=True):
    """Run the proof obligations of a property; fills coverage keys; returns True when all hold."""
    pr = coq_prove(module)
    th = pr["theorems"]
    discharged = 0
    allowed = ("Closed under the global context",)
    ass = {}
    for name in th:
        a = pr["assumptions"].get(name)
        ass[name] = a
        if pr["ok"] and a is not None and (a.startswith(allowed) or not expect_closed):
            discharged += 1
    rep.coverage.update(obligations=len(th), discharged=discharged if pr["ok"] else 0,
                        checker_cmd=pr["cmd"], trusted_base=TRUSTED_BASE,
                        theorems=th, print_assumptions=ass, proof_wall_s=round(pr["wall"], 1))
    if not pr["ok"]:
        m = re.search(r'File "\./(\S+)", line (\d+)', pr["log"])
        where = ("%s line %s" % (m.group(1), m.group(2))) if m else module
        detail = pr["log"][-1500:] if not pr["forbidden"] else "forbidden constructs: " + "; ".join(pr["forbidden"])
        rep.broken("coq:" + where, detail)
        return False
    if discharged != len(th):
        missing = [n for n in th if not (ass.get(n) or "").startswith(allowed)]
        rep.broken("coq:assumptions:" + ",".join(missing), json.dumps({n: ass.get(n) for n in missing}))
        return False
    return True


def seed_from_env():
    try:
        return int(os.environ.get("VERIF_SEED", "1"))
    except ValueError:
        return 1
