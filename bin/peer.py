# peer.py - scripted FTP/FTPS peer (python3 stdlib only). It interprets the same script the Coq model
# is given (sessions -> greeting reaction + one reaction per received command line) and records what
# it sees: raw bytes ahead of its TLS engine, command lines, data connections and their fate.
import os, select, socket, ssl, struct, threading, time

CERTDIR = os.path.join(os.environ.get("VERIF_REPO", "/repo"), "test", "server", "certs")
IO_TIMEOUT = 6.0


def render_reply(item):
    """item: ('R', code, text bytes) | ('G', raw bytes)  -> wire bytes"""
    if item[0] == "G":
        return item[1]
    return item[2] + b"\r\n"


class Chan:
    """a TCP connection with optional TLS through memory BIOs, so that raw inbound bytes can be logged"""

    def __init__(self, sock, log):
        self.sock = sock
        self.log = log            # list to which ('raw', bytes) entries are appended
        self.tls = None
        self.inb = self.outb = None
        self.raw_in = bytearray()
        self.eof = False
        self.reset = False
        self.plain_buf = bytearray()
        sock.settimeout(IO_TIMEOUT)

    # ---- raw level
    def _flush_out(self):
        if self.outb is not None:
            data = self.outb.read()
            if data:
                self.sock.sendall(data)

    def _read_raw(self, timeout=IO_TIMEOUT):
        """one recv from the socket; returns False on EOF/reset/timeout"""
        try:
            self.sock.settimeout(timeout)
            data = self.sock.recv(65536)
        except socket.timeout:
            return False
        except (ConnectionResetError, BrokenPipeError, OSError):
            self.reset = True
            self.eof = True
            return False
        if not data:
            self.eof = True
            if self.inb is not None:
                self.inb.write_eof()
            return False
        self.raw_in += data
        if self.inb is not None:
            self.inb.write(data)
        else:
            self.plain_buf += data
        return True

    # ---- TLS
    def start_tls(self, ctx, do_handshake=True):
        self.inb, self.outb = ssl.MemoryBIO(), ssl.MemoryBIO()
        if self.plain_buf:            # bytes that arrived before the switch belong to the TLS stream
            self.inb.write(bytes(self.plain_buf))
            self.plain_buf.clear()
        self.tls = ctx.wrap_bio(self.inb, self.outb, server_side=True)
        deadline = time.time() + IO_TIMEOUT
        while True:
            try:
                self.tls.do_handshake()
                self._flush_out()
                return True
            except ssl.SSLWantReadError:
                self._flush_out()
                if time.time() > deadline or not self._read_raw(max(0.05, deadline - time.time())):
                    return False
            except ssl.SSLError:
                try:
                    self._flush_out()
                except OSError:
                    pass
                return False

    def recv_some(self, timeout=IO_TIMEOUT):
        """application bytes (b'' at end of stream). sets self.clean_eof when TLS close-notify was seen"""
        if self.tls is None:
            if self.plain_buf:
                d = bytes(self.plain_buf)
                self.plain_buf.clear()
                return d
            if self.eof or not self._read_raw(timeout):
                return b""
            d = bytes(self.plain_buf)
            self.plain_buf.clear()
            return d
        deadline = time.time() + timeout
        while True:
            try:
                d = self.tls.read(65536)
                if d == b"":
                    self.clean_eof = True
                return d
            except ssl.SSLWantReadError:
                self._flush_out()
                if self.eof or time.time() > deadline or not self._read_raw(max(0.05, deadline - time.time())):
                    return b""
            except ssl.SSLZeroReturnError:
                self.clean_eof = True
                return b""
            except ssl.SSLError:
                return b""

    clean_eof = False

    def sendall(self, data):
        try:
            if self.tls is None:
                self.sock.sendall(data)
            else:
                self.tls.write(data)
                self._flush_out()
            return True
        except (OSError, ssl.SSLError):
            return False

    def tls_shutdown(self, wait_peer=True):
        """send close-notify (and wait for the peer's)"""
        if self.tls is None:
            return
        deadline = time.time() + 2.0
        while True:
            try:
                self.tls.unwrap()
                self._flush_out()
                return
            except ssl.SSLWantReadError:
                try:
                    self._flush_out()
                except OSError:
                    return
                if not wait_peer or self.eof or time.time() > deadline or not self._read_raw(max(0.05, deadline - time.time())):
                    return
            except (ssl.SSLError, OSError):
                return

    def abort(self):
        """called from another thread: wake a blocked send/recv; the owning thread closes the descriptor"""
        try:
            self.sock.shutdown(socket.SHUT_RDWR)
        except OSError:
            pass

    def close(self, rst=False):
        try:
            if rst:
                import struct, fcntl, termios
                # an abortive close throws away what is still in the send queue: wait until the other side's kernel has
                # taken everything that was written (what a reset cuts off is then decided by the script, not by the load)
                t0 = time.time()
                while time.time() - t0 < 5.0:
                    try:
                        left = struct.unpack("i", fcntl.ioctl(self.sock.fileno(), termios.TIOCOUTQ, b"\0\0\0\0"))[0]
                    except OSError:
                        break
                    if left == 0:
                        break
                    time.sleep(0.002)
                self.sock.setsockopt(socket.SOL_SOCKET, socket.SO_LINGER, struct.pack("ii", 1, 0))
            self.sock.close()
        except OSError:
            pass


ROGUEDIR = os.path.join(os.path.dirname(os.path.dirname(os.path.abspath(__file__))), "harness", "rogue")


def make_rogue_ctx(tlsver):
    """a server context with a self-signed certificate no client CA knows, and an empty session cache"""
    ctx = ssl.SSLContext(ssl.PROTOCOL_TLS_SERVER)
    ctx.load_cert_chain(os.path.join(ROGUEDIR, "rogue.pem"), os.path.join(ROGUEDIR, "rogue.key"))
    if tlsver in ("12", "12n"):
        ctx.maximum_version = ssl.TLSVersion.TLSv1_2
    elif tlsver == "13":
        ctx.minimum_version = ssl.TLSVersion.TLSv1_3
    return ctx


def make_server_ctx(tlsver):
    ctx = ssl.SSLContext(ssl.PROTOCOL_TLS_SERVER)
    ctx.load_cert_chain(os.path.join(CERTDIR, "server_cert.pem"), os.path.join(CERTDIR, "server_cert.key"))
    if tlsver == "12n":
        # TLS 1.2 without RFC 5077 tickets: sessions are resumed by their id from the server's own cache
        ctx.maximum_version = ssl.TLSVersion.TLSv1_2
        ctx.options |= ssl.OP_NO_TICKET
    elif tlsver == "12":
        ctx.maximum_version = ssl.TLSVersion.TLSv1_2
    elif tlsver == "13":
        ctx.minimum_version = ssl.TLSVersion.TLSv1_3
    return ctx


class PeerCase:
    """the peer for one case: one listening socket per scripted session"""

    def __init__(self, sessions, tlsver="12"):
        self.sessions = sessions
        self.tlsver = tlsver
        self.log = []                 # session logs
        self.listeners = []
        self.threads = []
        self.stop = False
        for i, s in enumerate(sessions):
            fam = socket.AF_INET6 if s.get("ip6") else socket.AF_INET
            # (addr_off: most sessions are served at an address that is not the one the client's connection comes from)
            addr = "::1" if s.get("ip6") else "127.0.0.%d" % (1 + (i + s.get("addr_off", 0)) % 200)
            ls = socket.socket(fam, socket.SOCK_STREAM)
            ls.setsockopt(socket.SOL_SOCKET, socket.SO_REUSEADDR, 1)
            if s.get("ctl_rcvbuf"):
                ls.setsockopt(socket.SOL_SOCKET, socket.SO_RCVBUF, s["ctl_rcvbuf"])      # a server that takes its commands slowly
            ls.bind((addr, 0))
            port = ls.getsockname()[1]
            slog = dict(index=i, addr=addr, port=port, lines=[], raw_pre_tls=b"", raw_first_after_auth=None, data=[],
                        connected=False, ctl_eof=None, errors=[])
            self.log.append(slog)
            if s.get("reachable", True):
                ls.listen(4)
                t = threading.Thread(target=self._session, args=(ls, s, slog), daemon=True)
                t.start()
                self.threads.append(t)
                self.listeners.append(ls)
            else:
                ls.close()               # nobody listens: the connect is refused

    def endpoint(self, i):
        return self.log[i]["addr"], self.log[i]["port"]

    def finish(self, timeout=1.0):
        self.stop = True
        for ls in self.listeners:
            try:
                ls.close()
            except OSError:
                pass
        deadline = time.time() + timeout
        for t in self.threads:
            t.join(max(0.0, deadline - time.time()))

    # ------------------------------------------------------------------ one control connection
    def _session(self, ls, s, slog):
        try:
            ls.settimeout(IO_TIMEOUT)
            try:
                sock, _ = ls.accept()
            except (socket.timeout, OSError):
                return
            sock.setsockopt(socket.IPPROTO_TCP, socket.TCP_NODELAY, 1)
            sock.setsockopt(socket.SOL_SOCKET, socket.SO_OOBINLINE, 1)      # urgent data is data: it is seen like the rest
            slog["connected"] = True
            slog["client_addr"] = sock.getpeername()[0]
            ch = Chan(sock, slog)
            ctx = make_server_ctx(self.tlsver)     # own session cache per control connection
            st = dict(ch=ch, ctx=ctx, slog=slog, s=s, data_listener=None, active_ep=None, pending=[], dthread=None,
                      dstate=None, lock=threading.Lock())
            self._react(st, s["greeting"], None)
            if s["greeting"].get("close_after"):
                self._close_ctl(st)
                return
            reactions = list(s["reactions"])
            buf = bytearray()
            while not self.stop:
                # read one command line
                if s.get("ctl_read_delay_s"):
                    time.sleep(s["ctl_read_delay_s"])
                while b"\n" not in buf:
                    d = ch.recv_some(s.get("idle_timeout", IO_TIMEOUT))
                    if not d:
                        slog["ctl_eof"] = "reset" if ch.reset else ("clean" if ch.clean_eof or ch.tls is None else "truncated")
                        self._save_raw(st)
                        if ch.tls is not None and ch.clean_eof and s.get("tls_close_clean", True):
                            ch.tls_shutdown(wait_peer=False)       # answer the client's close-notify
                        self._drop_data(st)
                        ch.close()
                        return
                    buf += d
                k = buf.index(b"\n")
                line = bytes(buf[:k + 1])
                del buf[:k + 1]
                secured = ch.tls is not None
                slog["lines"].append(dict(line=line, secured=secured))
                if not reactions:
                    continue              # nothing scripted: stay silent
                r = reactions.pop(0)
                st["ri"] = st.get("ri", -1) + 1
                if r.get("tls_drop_first") and ch.tls is not None:
                    # a server that ends the TLS session on its own (close-notify, the TCP connection stays) and goes on
                    # in clear text: its answer - and whatever the client sends from now on - is outside TLS
                    ch.tls_shutdown(wait_peer=False)
                    ch.tls = None
                    ch.inb = ch.outb = None
                    ch.plain_buf = bytearray()
                    buf.clear()
                    slog["stayed_plain_from"] = len(slog["lines"])
                self._react(st, r, line)
                if r.get("starttls"):
                    slog["raw_mark"] = len(ch.raw_in)
                    if r.get("tls_reset"):
                        # the connection is reset right behind the positive answer: the client finds it dead when it comes
                        # to switch the socket over to TLS
                        slog["ctl_handshake"] = False
                        self._save_raw(st)
                        self._drop_data(st)
                        try:
                            ch.sock.setsockopt(socket.SOL_SOCKET, socket.SO_LINGER, struct.pack("ii", 1, 0))
                            ch.sock.close()
                        except OSError:
                            pass
                        return
                    ok = ch.start_tls(ctx) if r.get("tls_ok", True) else self._bad_handshake(ch)
                    slog["raw_first_after_auth"] = bytes(ch.raw_in[slog["raw_mark"]:slog["raw_mark"] + 8])
                    slog["ctl_handshake"] = ok
                    if not ok and r.get("stay_plain_after_bad_tls"):
                        # a peer that goes on as a plain FTP server: whatever the client still sends is logged as received in clear
                        ch.plain_buf.clear()
                        buf.clear()
                        slog["stayed_plain_from"] = len(slog["lines"])
                        continue
                    if not ok:
                        self._drop_data(st)
                        ch.close()
                        return
                if r.get("stoptls") and ch.tls is not None:
                    # REIN: back to clear text - exchange close-notify, keep the TCP connection
                    ch.tls_shutdown(wait_peer=True)
                    rest = b""
                    try:
                        rest = ch.inb.read()          # clear-text bytes that followed the client's close-notify
                    except Exception:
                        pass
                    ch.tls = None
                    ch.inb = ch.outb = None
                    ch.plain_buf = bytearray(rest)
                if (r.get("reset_after") or r.get("close_after")) and r.get("data") and r["data"].get("dir") in ("send", "recv"):
                    # the reaction that starts a transfer also ends the control connection: the data connection is a
                    # separate stream, let it run to its end first (otherwise tearing it down races with the payload)
                    t0 = time.time()
                    while time.time() - t0 < 2.0:
                        d = st.get("dstate")
                        if d and (d.get("done") or d.get("sent_all")):
                            break
                        time.sleep(0.002)
                if r.get("reset_after"):
                    self._save_raw(st)
                    self._drop_data(st)
                    time.sleep(0.02)
                    ch.close(rst=True)        # abortive close: the client's next read or write fails with ECONNRESET
                    slog["ctl_eof"] = "peer-reset"
                    return
                if r.get("close_after"):
                    self._close_ctl(st)
                    return
        except Exception as e:           # the peer must never take the harness down
            slog["errors"].append(repr(e))

    def _bad_handshake(self, ch):
        ch._read_raw(1.0)                 # take the ClientHello, answer with something that is no TLS record
        try:
            ch.sock.sendall(b"500 no TLS here\r\n")
        except OSError:
            pass
        return False

    def _save_raw(self, st):
        ch = st["ch"]
        st["slog"]["raw_in"] = bytes(ch.raw_in[:65536])
        # everything that follows the positive answer to AUTH TLS must be a sequence of TLS records
        mark = st["slog"].get("raw_mark")
        if mark is not None and st["slog"].get("ctl_handshake"):
            raw = bytes(ch.raw_in[mark:])
            k, n = 0, 0
            bad = None
            while k + 5 <= len(raw):
                typ, ver, ln = raw[k], raw[k + 1:k + 3], int.from_bytes(raw[k + 3:k + 5], "big")
                if typ not in (20, 21, 22, 23) or ver[0] != 3 or ver[1] > 4 or ln > 16384 + 2048:
                    bad = dict(offset=k, records_before=n, bytes=raw[k:k + 16])
                    break
                k += 5 + ln
                n += 1
            st["slog"]["tls_records"] = n
            st["slog"]["non_tls_bytes"] = bad

    def _close_ctl(self, st):
        self._save_raw(st)
        ch, s, slog = st["ch"], st["s"], st["slog"]
        if ch.tls is not None and s.get("tls_close_clean", True):
            ch.tls_shutdown(wait_peer=True)
        self._drop_data(st)
        # let the client find the connection closed; keep what it still sent for the log
        try:
            ch.sock.shutdown(socket.SHUT_WR)
        except OSError:
            pass
        t0 = time.time()
        while time.time() - t0 < 1.0 and not ch.eof:
            if not ch._read_raw(0.3):
                break
        slog["after_close_raw"] = bytes(ch.raw_in[-64:])
        ch.close()

    def _drop_data(self, st):
        with st["lock"]:
            d = st.get("dstate")
            if d and d.get("chan") is not None:
                d["aborted"] = True
                d["chan"].abort()
            if st["data_listener"] is not None:
                try:
                    st["data_listener"].close()
                except OSError:
                    pass
                st["data_listener"] = None

    # ------------------------------------------------------------------ reacting to one command
    def _subst(self, text, st):
        if b"{" not in text:
            return text
        port = st.get("listen_port", 0)
        a = st.get("listen_addr") or st["slog"]["addr"]
        text = text.replace(b"{P}", str(port).encode())
        text = text.replace(b"{p1}", str(port // 256).encode()).replace(b"{p2}", str(port % 256).encode())
        if ":" not in a:
            text = text.replace(b"{h}", a.replace(".", ",").encode())
        return text

    def _write_items(self, st, items, pace=None):
        out = b"".join(render_reply(self._subst_item(it, st)) for it in items)
        if not out:
            return
        if pace:        # cut the control bytes into separately sent pieces
            pos = 0
            for n in pace:
                if pos >= len(out):
                    break
                st["ch"].sendall(out[pos:pos + n])
                pos += n
                time.sleep(0.002)
            if pos < len(out):
                st["ch"].sendall(out[pos:])
        else:
            st["ch"].sendall(out)

    def _subst_item(self, it, st):
        if it[0] == "R":
            return ("R", it[1], self._subst(it[2], st))
        return it

    def _react(self, st, r, line):
        slog = st["slog"]
        if line is not None and not r.get("abort_data") and not r.get("wait_data_done") and not r.get("during_transfer"):
            # the client is sequential: a new command (other than ABOR) means the previous transfer call has returned,
            # i.e. the client has closed its data connection; let the data thread finish (and write what it held back)
            d = st.get("dstate")
            t0 = time.time()
            while d and not d.get("done") and time.time() - t0 < 3.0:
                time.sleep(0.001)
        if r.get("abort_data"):          # ABOR: stop a transfer in progress before answering
            d0 = st.get("dstate")
            if d0 is not None and d0["spec"].get("dir") == "recv":
                # had the client ended the upload's data connection (end of file) BEFORE it sent ABOR? A real server would
                # have completed the transfer by then and would answer ABOR with a single reply
                time.sleep(0.03)
                d0["rec"]["ended_before_abor"] = bool(d0.get("done")) and not d0.get("aborted")
            with st["lock"]:
                d = st.get("dstate")
                if d and not d.get("done"):
                    d["aborted"] = True
                    if d.get("chan") is not None:
                        d["chan"].abort()
        if r.get("drop_pending"):
            st["pending"] = []
        if r.get("wait_data_done"):      # the transfer had completed from the peer's side before this command is answered
            t0 = time.time()
            while time.time() - t0 < IO_TIMEOUT:
                d = st.get("dstate")
                if not d or d.get("done") or d.get("sent_all"):
                    break
                time.sleep(0.002)
        if r.get("listen"):
            self._open_listener(st, r)
        if line is not None and r.get("parse_active"):
            st["active_ep"] = self._parse_active(line, slog)
        st["pending"] = st["pending"] + list(r.get("on_close", []))
        data = r.get("data")
        early, late = r.get("now", []), []
        if data and data.get("completion_after_data"):
            early, late = r["now"][:1], r["now"][1:]
        if data and data.get("reset_first") and st["data_listener"] is not None:
            # a server that tears its side of the (passive) data connection down BEFORE it answers the command - an abortive
            # close, the client finds the connection reset when it comes to close its own end
            try:
                st["data_listener"].settimeout(2.0)
                ds, _ = st["data_listener"].accept()
                ds.setsockopt(socket.SOL_SOCKET, socket.SO_LINGER, struct.pack("ii", 1, 0))
                ds.close()
                slog["data"].append(dict(kind="hold", ri=st.get("ri", -1), bytes=b"", arrived=True, tls=None, reused=None,
                                         eof="reset-by-peer-before-reply", first_raw=b""))
            except (socket.timeout, OSError) as e:
                slog["errors"].append("reset_first: %r" % (e,))
            time.sleep(0.05)             # let the RST reach the client before the reply does
            data = None
        elif data and data.get("reset_first") and st["active_ep"] is not None and data.get("mode") == "active":
            # the same in the active modes: the server opens the data connection and resets it at once, then answers
            try:
                ep = st["active_ep"]
                ds = socket.socket(socket.AF_INET6 if ":" in ep[0] else socket.AF_INET, socket.SOCK_STREAM)
                ds.settimeout(2.0)
                ds.bind((slog["addr"], 0))
                ds.connect(ep)
                ds.setsockopt(socket.SOL_SOCKET, socket.SO_LINGER, struct.pack("ii", 1, 0))
                ds.close()
                slog["data"].append(dict(kind="hold", ri=st.get("ri", -1), bytes=b"", arrived=True, tls=None, reused=None,
                                         eof="reset-by-peer-before-reply", first_raw=b"", connected_to=ep))
            except (socket.timeout, OSError) as e:
                slog["errors"].append("reset_first: %r" % (e,))
            time.sleep(0.05)
            data = None
        self._write_items(st, early, r.get("pace"))
        if data:
            d = dict(spec=data, done=False, aborted=False, chan=None, late=late, rec=dict(kind=data["dir"], ri=st.get("ri", -1), bytes=b"",
                     arrived=False, tls=None, reused=None, eof=None, first_raw=b""))
            slog["data"].append(d["rec"])
            d["listener"] = st["data_listener"]
            st["dstate"] = d
            t = threading.Thread(target=self._data, args=(st, d), daemon=True)
            st["dthread"] = t
            t.start()

    def _open_listener(self, st, r):
        if st["data_listener"] is not None:
            try:
                st["data_listener"].close()
            except OSError:
                pass
        a = st["slog"]["addr"]
        if r.get("listen_addr_off") and ":" not in a:
            q = a.split(".")
            a = "127.0.0.%d" % (1 + (int(q[3]) - 1 + 7 * r["listen_addr_off"]) % 200)      # another loopback address
        st["listen_addr"] = a
        fam = socket.AF_INET6 if ":" in a else socket.AF_INET
        ls = socket.socket(fam, socket.SOCK_STREAM)
        ls.bind((a, 0))
        st["listen_port"] = ls.getsockname()[1]
        st["slog"].setdefault("announced_ports", []).append(st["listen_port"])
        st["slog"].setdefault("announced_addrs", []).append(a)
        if r.get("listen") == "dead":
            ls.close()                   # announce a port nobody listens on
            st["data_listener"] = None
        else:
            ls.listen(1)
            st["data_listener"] = ls

    def _parse_active(self, line, slog):
        t = line.strip()
        try:
            if t.upper().startswith(b"EPRT"):
                d = t[5:6]
                f = t[5:].split(d)
                ep = (f[2].decode(), int(f[3]))
            else:
                f = t[5:].split(b",")
                ep = (".".join(x.decode() for x in f[:4]), int(f[4]) * 256 + int(f[5]))
            slog.setdefault("advertised", []).append(ep)
            return ep
        except Exception as e:
            slog["errors"].append("cannot parse active endpoint %r: %r" % (line, e))
            return None

    # ------------------------------------------------------------------ the data connection of one transfer
    def _data(self, st, d):
        try:
            self._data_inner(st, d)
        finally:
            d["done"] = True

    def _data_inner(self, st, d):
        spec, rec, slog = d["spec"], d["rec"], st["slog"]
        try:
            sock = None
            if st["active_ep"] is not None and spec.get("mode") == "active":
                if not spec.get("reachable", True):
                    d["done"] = True
                    return
                ep = st["active_ep"]
                fam = socket.AF_INET6 if ":" in ep[0] else socket.AF_INET
                sock = socket.socket(fam, socket.SOCK_STREAM)
                sock.settimeout(IO_TIMEOUT)
                if spec.get("rcvbuf"):
                    sock.setsockopt(socket.SOL_SOCKET, socket.SO_RCVBUF, spec["rcvbuf"])     # back-pressure on the sender
                try:
                    sock.bind((slog["addr"], 0))
                    sock.connect(ep)
                except OSError as e:
                    rec["connect_error"] = repr(e)
                    d["done"] = True
                    return
                # the advertised port must be a socket of the client that accepts exactly this connection
                rec["connected_to"] = ep
            else:
                ls = d.get("listener")
                if ls is None:
                    d["done"] = True
                    return
                ls.settimeout(IO_TIMEOUT)
                if spec.get("rcvbuf"):
                    ls.setsockopt(socket.SOL_SOCKET, socket.SO_RCVBUF, spec["rcvbuf"])
                try:
                    sock, peer = ls.accept()
                except (socket.timeout, OSError):
                    d["done"] = True
                    return
                rec["arrived_at"] = ls.getsockname()[1]
                rec["from_addr"] = peer[0]
            sock.setsockopt(socket.IPPROTO_TCP, socket.TCP_NODELAY, 1)
            rec["arrived"] = True
            ch = Chan(sock, rec)
            with st["lock"]:
                d["chan"] = ch
                if d["aborted"]:
                    ch.close()
                    return
            if spec.get("tls"):
                if spec.get("cert") == "rogue":
                    # another endpoint answers on the data port: no resumption, a certificate of an unknown issuer
                    ok = ch.start_tls(make_rogue_ctx(self.tlsver))
                    rec["rogue_handshake_completed"] = ok
                elif spec.get("tls_ok", True):
                    ok = ch.start_tls(st["ctx"])
                else:
                    ok = self._bad_handshake(ch)
                rec["first_raw"] = bytes(ch.raw_in[:6])
                rec["tls"] = ok
                if ok:
                    rec["reused"] = ch.tls.session_reused
                if not ok:
                    ch.close()
                    d["done"] = True
                    return
            if spec["dir"] == "send":
                ok = True
                for seg in spec.get("segs", []):
                    if d["aborted"]:
                        break
                    if not ch.sendall(seg):
                        ok = False
                        break
                    if spec.get("pace_s"):
                        time.sleep(spec["pace_s"])
                rec["sent_all"] = ok and not d["aborted"]
                d["sent_all"] = rec["sent_all"]
                if d["aborted"]:
                    ch.close()
                    rec["eof"] = "aborted"
                if not d["aborted"]:
                    if spec.get("end", "E") == "E":
                        if ch.tls is not None:
                            ch.tls_shutdown(wait_peer=False)
                        try:
                            sock.shutdown(socket.SHUT_WR)
                        except OSError:
                            pass
                        if d["late"]:
                            self._write_items(st, d["late"])
                            d["late"] = []
                        # wait for the client to close its side
                        t0 = time.time()
                        while time.time() - t0 < IO_TIMEOUT and not ch.eof and not d["aborted"]:
                            if not ch._read_raw(0.2) and ch.eof:
                                break
                        rec["eof"] = "reset" if ch.reset else "eof"
                        ch.close()
                    else:
                        # bare close / reset: no TLS close-notify
                        ch.close(rst=(spec.get("end") == "R"))
                        rec["eof"] = "closed-by-peer"
            elif spec["dir"] == "recv":
                got = bytearray()
                if spec.get("read_delay_s"):
                    time.sleep(spec["read_delay_s"])      # a server that starts reading late: data queues up at the sender
                while True:
                    if spec.get("read_pace_s"):
                        time.sleep(spec["read_pace_s"])
                    x = ch.recv_some()
                    if not x:
                        break
                    got += x
                rec["bytes"] = bytes(got)
                rec["eof"] = "reset" if ch.reset else ("clean" if (ch.tls is None or ch.clean_eof) else "truncated")
                rec["eof_time"] = time.time()
                if ch.tls is not None and ch.clean_eof and spec.get("answer_close_notify", True):
                    ch.tls_shutdown(wait_peer=False)
                # (otherwise: a server that takes the client's close-notify as the end of the file and just closes -
                # the client's TLS shutdown ends in a plain end of stream, which is no error)
                ch.close()
            else:
                # accept and hold: closed when the client closes
                t_eof = None
                while True:
                    ch._read_raw(0.5)
                    if d["aborted"] or ch.reset:
                        break
                    if ch.eof:
                        # (park: a server that keeps its end of the unused data connection open for a while after the
                        # client has closed its own - the client must not wait for it)
                        if not spec.get("park"):
                            break
                        t_eof = t_eof or time.time()
                        if time.time() - t_eof > spec.get("park_s", 8.0) or self.stop:
                            break
                        time.sleep(0.05)
                rec["eof"] = "reset" if ch.reset else "eof"
                ch.close()
            # the client has closed the data connection: write what was held back (before the control thread, which
            # waits for "done", answers the next command)
            with st["lock"]:
                pend, st["pending"] = st["pending"], []
            if pend and not d["aborted"]:
                rec["pending_written_at"] = time.time()
                self._write_items(st, pend)
            elif pend and d["aborted"]:
                self._write_items(st, pend)
            d["done"] = True
            if d.get("listener") is not None:
                try:
                    d["listener"].close()
                except OSError:
                    pass
                with st["lock"]:
                    if st["data_listener"] is d["listener"]:
                        st["data_listener"] = None
        except Exception as e:
            slog["errors"].append("data: " + repr(e))
            d["done"] = True
