(* driver_ext.ml - further case kinds (added as the model grows) *)
open Model
open Glue

let comma = n_of_int 44 and lpar = n_of_int 40 and rpar = n_of_int 41 and dot = n_of_int 46
let rec index_first c i = function [] -> -1 | x :: l -> if x = c then i else index_first c (i+1) l
let index_last c l =
  let rec go i best = function [] -> best | x :: l -> go (i+1) (if x = c then i else best) l in go 0 (-1) l
let rec drop n l = if n <= 0 then l else match l with [] -> [] | _ :: l' -> drop (n-1) l'
let rec take n l = if n <= 0 then [] else match l with [] -> [] | x :: l' -> x :: take (n-1) l'
let field_le t bound =
  if t <> [] && all_digits t && N.leb (dec_value t) (n_of_int bound) then Some (dec_value t) else None

(* specification of the 227 parser, as characterised by C06_pasv_iff: between the first "(" and the last ")" exactly six
   pieces at the commas (nothing dropped), each a decimal number <= 255; address = the four numbers, port = 256*p1 + p2 *)
let spec_pasv (s : n list) : string =
  let b = index_first lpar 0 s and e = index_last rpar s in
  if b < 0 || e < 0 || b >= e then "none" else
  let inner = take (e - b - 1) (drop (b + 1) s) in
  match pieces comma inner with
  | [t0; t1; t2; t3; t4; t5] ->
    (match List.map (fun t -> field_le t 255) [t0; t1; t2; t3; t4; t5] with
     | [Some a; Some b; Some c; Some d; Some hi; Some lo] ->
       hex_of_bytes (dotted a b c d) ^ " " ^ string_of_n (N.add (N.mul hi (n_of_int 256)) lo)
     | _ -> "none")
  | _ -> "none"

(* specification of the 229 parser, as characterised by C06_epsv_iff *)
let spec_epsv (s : n list) : string =
  let b = index_first lpar 0 s and e = index_last rpar s in
  if b < 0 || e < 0 || b >= e then "none" else
  let inner = take (e - b - 1) (drop (b + 1) s) in
  match inner with
  | d :: d2 :: d3 :: rest when d = d2 && d = d3 && rest <> [] ->
    let dv = int_of_n d in
    let lastc = List.nth rest (List.length rest - 1) in
    let digits = take (List.length rest - 1) rest in
    if dv < 33 || dv > 126 || lastc <> d then "none" else
    (match field_le digits 65535 with Some p -> string_of_n p | None -> "none")
  | _ -> "none"

let ip_of f = match f with
  | "4" :: a :: b :: c :: d :: rest -> (V4 (n_of_string a, n_of_string b, n_of_string c, n_of_string d), rest)
  | "6" :: t :: rest -> (V6 (bytes_of_hex t), rest)
  | _ -> failwith "ip"
let str s = List.init (String.length s) (fun i -> n_of_int (Char.code s.[i]))


let ints_of s = if s = "-" then [] else List.map int_of_string (String.split_on_char ',' s)
let cyc l i = List.nth l (i mod List.length l)
let rec concat_all = function [] -> [] | x :: l -> x @ concat_all l

(* chunks a source with the given short-read schedule hands to an internal buffer of the given size *)
let chunks_of (isize : int) (sched : int list) (src : n list) : n list list =
  let rec go i rem = match rem with
    | [] -> []
    | _ -> let k = min isize (if sched = [] then isize else cyc sched i) in
      let k = max 1 k in take k rem :: go (i + 1) (drop k rem) in
  go 0 src

let run_ascii (f : string list) : (string * string) option =
  match f with
  | ["aup"; isz; sizes; sched; t] ->
    let src = bytes_of_hex t in
    let isz = int_of_string isz and sizes = ints_of sizes and sched = ints_of sched in
    let cks = chunks_of isz sched src in
    let need = 2 * List.length src + 2 in
    let memo = List.map (fun k -> (k, nat_of_int k)) (List.sort_uniq compare sizes) in
    let szl = List.init need (fun i -> List.assoc (cyc sizes i) memo) in
    let ((os, stopped), _) = drain szl (istart cks) in
    let m = hex_of_bytes (concat_all os) ^ " | " ^ (if stopped then "eof" else "NOT-STOPPED") ^ " " ^
            String.concat "," (List.map hex_of_bytes os) in
    Some (m, hex_of_bytes (to_crlf src))
  | ["adown"; parts; t] ->
    let src = bytes_of_hex t in
    let parts = ints_of parts in
    let rec cut ps rem = match ps with
      | [] -> if rem = [] then [] else [rem]
      | p :: ps' -> take p rem :: cut ps' (drop p rem) in
    let blocks = cut parts src in
    let ev = owrites false blocks in
    let show = function SinkWrite b -> "W:" ^ hex_of_bytes b | SinkFlush -> "F" in
    Some (hex_of_bytes (sink_content ev) ^ " | " ^ String.concat "," (List.map show ev),
          hex_of_bytes (from_crlf src))
  | _ -> None

let run_frame_inner nrecv ending sched pre t : string =
    let cfg = fixed_cfg (nat_of_int 8192) in
    let tr = { unread = bytes_of_hex t; sched = List.map nat_of_int (ints_of sched);
               tend = (if ending = "err" then EndErr else EndEof) } in
    let s0 = { buffer = bytes_of_hex pre; tr = tr } in
    (* [nrecv] is a number of receive steps, or a history such as RSRRS (R = receive step, S = a command is sent) *)
    let ops = if nrecv <> "" && String.for_all (fun ch -> ch >= '0' && ch <= '9') nrecv
              then List.init (int_of_string nrecv) (fun _ -> CRecv)
              else List.map (fun ch -> if ch = 'S' then CSend else CRecv) (List.init (String.length nrecv) (String.get nrecv)) in
    let (rs, s1) = run_ops ops cfg s0 in
    let show = function
      | Ok r -> "ok:" ^ string_of_n r.code ^ ":" ^ hex_of_bytes r.text
      | Exn -> "exn" | OutOfFuel -> "livelock" in
    let res = String.concat " " (List.map show rs) in
    if List.exists (fun r -> r = OutOfFuel) rs then res
    else res ^ " | left=" ^ hex_of_bytes (s1.buffer @ s1.tr.unread)

let run_frame (f : string list) : (string * string) option =
  match f with
  | ["frame"; nrecv; ending; sched; pre; t] ->
    let m = run_frame_inner nrecv ending sched pre t in Some (m, m)
  | ["frame"; nrecv; ending; sched; pre; t; expect] ->
    (match run_frame_inner nrecv ending sched pre t with m -> Some (m, String.concat " " (String.split_on_char '_' expect)))
  | ["wfcheck"; structure; stream; expect] ->
    let term_of = function "c" -> TCRLF | _ -> TLF in
    let parse_line x = match String.split_on_char '.' x with
      | [t; tm] -> { ltext = bytes_of_hex t; lterm = term_of tm } | _ -> failwith "line" in
    let parse_reply x = match String.split_on_char ':' x with
      | ["S"; d; r; tm] -> WSingle (bytes_of_hex d, bytes_of_hex r, term_of tm)
      | ["M"; d; r0; t0; cs; rz; tz] ->
        let conts = if cs = "-" then [] else List.map parse_line (String.split_on_char ',' cs) in
        WMulti (bytes_of_hex d, bytes_of_hex r0, term_of t0, conts, bytes_of_hex rz, term_of tz)
      | _ -> failwith "reply" in
    let rs = List.map parse_reply (String.split_on_char ';' structure) in
    let m8192 = nat_of_int 8192 in
    let wf = List.for_all (fun r -> wf_reply m8192 r) rs in
    let st = hex_of_bytes (render rs) in
    let ex = String.concat "_" (List.map (fun r -> let e = expected r in "ok:" ^ string_of_n e.code ^ ":" ^ hex_of_bytes e.text) rs) in
    let verdict = if not wf then "generator-produced-ill-formed-reply"
      else if st <> stream then "render-mismatch"
      else if ex <> expect then "expected-mismatch " ^ ex else "ok" in
    Some (verdict, "ok")
  | _ -> None

let verbs_list = ["open";"mode";"active";"passive";"user";"logout";"close";"cd";"cdup";"ls";"put";"get";"rename";"pwd";
                  "mkdir";"rmdir";"del";"stat";"syst";"type";"binary";"ascii";"size";"noop";"rhelp";"help";"exit"]
let string_of_bytes (l : n list) = String.init (List.length l) (fun i -> Char.chr (int_of_n (List.nth l i)))
let is_c_space ch = ch = ' ' || (Char.code ch >= 9 && Char.code ch <= 13)
let run_parse (f : string list) : (string * string) option =
  match f with
  | "parse" :: t :: _ | "parse_rt" :: t :: _ ->
    let line = bytes_of_hex t in
    let m = match parse_command line with
      | None -> "invalid"
      | Some (c, args) ->
        String.concat " " (string_of_bytes (verb_name c) :: string_of_int (List.length args) :: List.map hex_of_bytes args) in
    (* reference for the verb: first whitespace-delimited token, ASCII case folded, looked up in the documented list *)
    let str = string_of_bytes line in
    let n = String.length str in
    let i = ref 0 in
    while !i < n && is_c_space str.[!i] do incr i done;
    let j = ref !i in
    while !j < n && not (is_c_space str.[!j]) do incr j done;
    let tok = String.lowercase_ascii (String.sub str !i (!j - !i)) in
    let verb_spec = if List.mem tok verbs_list then tok else "invalid" in
    let spec = match f with
      | "parse_rt" :: _ :: verb :: args -> String.concat " " (verb :: string_of_int (List.length args) :: args)
      | _ -> verb_spec in
    Some (m, spec)
  | _ -> None

let rec run (f : string list) : string * string =
  match f with
  | k :: rest when String.length k > 4 && String.sub k (String.length k - 4) 4 = "@grp" ->
    (* the same case under a digit-grouping global locale: protocol syntax does not depend on it *)
    run (String.sub k 0 (String.length k - 4) :: rest)
  | _ ->
  match f with "proto" :: _ -> Driver_proto.run f | "app" :: _ -> Driver_proto.run_app f | _ ->
  match run_parse f with Some r -> r | None ->
  match run_ascii f with Some r -> r | None ->
  match run_frame f with Some r -> r | None ->
  match f with
  | ["pasv"; t] ->
    let s = bytes_of_hex t in
    let m = match try_parse_pasv_reply s with
      | None -> "none" | Some (ip, p) -> hex_of_bytes ip ^ " " ^ string_of_n p in
    (m, spec_pasv s)
  | ["epsv"; t] ->
    let s = bytes_of_hex t in
    ((match try_parse_epsv_reply s with None -> "none" | Some p -> string_of_n p), spec_epsv s)
  | "portcmd" :: rest ->
    let (ip, r) = ip_of rest in
    let p = n_of_string (List.hd r) in
    let m = match make_port_command ip p with None -> "exn:ftp_exception" | Some c -> hex_of_bytes c in
    (* spec: RFC 959 h1,h2,h3,h4,p1,p2 for IPv4; an error for anything else *)
    let s = match rest with
      | "4" :: a :: b :: c :: d :: [pp] ->
        let pi = int_of_string pp in
        hex_of_bytes (str (Printf.sprintf "PORT %s,%s,%s,%s,%d,%d" a b c d (pi / 256) (pi mod 256)))
      | _ -> "exn:ftp_exception" in
    (m, s)
  | "eprtcmd" :: rest ->
    let (ip, r) = ip_of rest in
    let p = n_of_string (List.hd r) in
    let m = hex_of_bytes (make_eprt_command ip p) in
    let s = match rest with
      | "4" :: a :: b :: c :: d :: [pp] -> hex_of_bytes (str (Printf.sprintf "EPRT |1|%s.%s.%s.%s|%s|" a b c d pp))
      | "6" :: t :: [pp] -> hex_of_bytes (str "EPRT |2|" @ bytes_of_hex t @ str ("|" ^ pp ^ "|"))
      | _ -> "?" in
    (m, s)
  | ["port_rt"; a; b; c; d; pp] ->
    (* format with PORT, read back with the 227 parser *)
    let ip = V4 (n_of_string a, n_of_string b, n_of_string c, n_of_string d) in
    let m = match make_port_command ip (n_of_string pp) with
      | None -> "exn:ftp_exception"
      | Some c ->
        let args = drop 5 c in
        (match try_parse_pasv_reply (str "227 ok (" @ args @ str ").") with
         | None -> "none" | Some (ip, p) -> hex_of_bytes ip ^ " " ^ string_of_n p) in
    (m, hex_of_bytes (str (Printf.sprintf "%s.%s.%s.%s" a b c d)) ^ " " ^ pp)
  | ["eprt_rt"; pp] ->
    let c = make_eprt_command (V4 (n_of_int 127, N0, N0, n_of_int 1)) (n_of_string pp) in
    (* take the port field and read it back through the 229 parser *)
    let fieldsl = pieces (n_of_int 124) c in
    let portf = List.nth fieldsl 3 in
    let m = match try_parse_epsv_reply (str "229 ok (|||" @ portf @ str "|)") with
      | None -> "none" | Some p -> string_of_n p in
    (m, pp)
  | ["obsround"; live; react] ->
    (* one notification round: registered observers (in order, duplicates allowed), and for each observer the ones it
       unregisters when it is told *)
    let ids s = if s = "-" then [] else List.map int_of_string (String.split_on_char ',' s) in
    let table = if react = "-" then [] else
        List.map (fun e -> match String.split_on_char ':' e with
            | [o; l] -> (int_of_string o, List.map int_of_string (String.split_on_char '.' l))
            | _ -> failwith "react") (String.split_on_char ';' react) in
    let react_fn o = let o = int_of_nat o in
      List.map nat_of_int (try List.assoc o table with Not_found -> []) in
    let (told, left) = notify_round react_fn (List.map nat_of_int (ids live)) in
    let show l = if l = [] then "-" else String.concat "," (List.map (fun x -> string_of_int (int_of_nat x)) l) in
    let m = "told=" ^ show told ^ " live=" ^ show left in
    (m, m)
  | _ -> ("MODEL-ERROR unknown case kind: " ^ String.concat " " f, "MODEL-ERROR")
