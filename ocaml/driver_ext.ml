(* driver_ext.ml - further case kinds (added as the model grows) *)
open Model
open Glue
let run (f : string list) : string * string =
  ("MODEL-ERROR unknown case kind: " ^ String.concat " " f, "MODEL-ERROR")
