(* driver_proto.ml - runs the protocol model (Client.v) on a history + script; prints the per-call
   outcomes and the trace in a compact token format that bin/props/proto.py also produces from the
   observations of the real client and of the scripted peer. *)
open Model
open Glue

exception Parse of string

let toks : string array ref = ref [||]
let pos = ref 0
let next () = if !pos >= Array.length !toks then raise (Parse "eof") else (let t = !toks.(!pos) in incr pos; t)
let nint () = int_of_string (next ())
let nbool () = match next () with "1" -> true | "0" -> false | t -> raise (Parse ("bool " ^ t))
let nhex () = bytes_of_hex (next ())
let nlist f = let n = nint () in List.init n (fun _ -> f ())

let p_ritem () = match next () with
  | "G" -> RGarbage
  | "R" -> let c = next () in let t = nhex () in RReply { code = n_of_string c; text = t }
  | t -> raise (Parse ("ritem " ^ t))
let p_dplan () =
  let reach = nbool () in let tls = nbool () in let segs = nlist nhex in
  let e = (match next () with "E" -> DEof | _ -> DErr) in let sh = nbool () in
  { dp_reachable = reach; dp_tls_ok = tls; dp_segs = segs; dp_end = e; dp_shutdown_ok = sh }
let p_reaction () =
  let now = nlist p_ritem in let onc = nlist p_ritem in let drop = nbool () in let cl = nbool () in
  let tls = nbool () in let d = p_dplan () in
  { r_now = now; r_on_close = onc; r_drop_pending = drop; r_close_after = cl; r_tls_ok = tls; r_data = d }
let p_session () =
  let reach = nbool () in let ip6 = nbool () in let clean = nbool () in let g = p_reaction () in
  let rs = nlist p_reaction in
  { s_reachable = reach; s_ip6 = ip6; s_tls_close_clean = clean; s_greeting = g; s_reactions = rs }
let p_cb () = if nbool () then Some (nlist nbool) else None
let p_opt f = if nbool () then Some (f ()) else None
let p_call () = match next () with
  | "C" -> let h = nhex () in let p = n_of_string (next ()) in
    let l = p_opt (fun () -> let u = nhex () in let pw = nhex () in (u, pw)) in AConnect (h, p, l)
  | "L" -> let u = nhex () in let pw = nhex () in ALogin (u, pw)
  | "O" -> ALogout
  | "S" -> let v = nhex () in let a = p_opt nhex in ASimple (v, a)
  | "T" -> ASetType (match next () with "A" -> TAscii | _ -> TBinary)
  | "N" -> let a = nhex () in let b = nhex () in ARename (a, b)
  | "D" -> let path = nhex () in let cb = p_cb () in let f = p_opt (fun () -> nat_of_int (nint ())) in ADownload (path, cb, f)
  | "U" -> let v = (match next () with "U" -> UStou | "A" -> UAppe | _ -> UStor) in
    let path = nhex () in let chunks = nlist nhex in let cb = p_cb () in AUpload (v, path, chunks, cb)
  | "F" -> let path = p_opt nhex in let names = nbool () in AList (path, names)
  | "X" -> ADisconnect (nbool ())
  | "+" -> AAddObserver (nat_of_int (nint ()))
  | "-" -> ARemoveObserver (nat_of_int (nint ()))
  | "M" -> ASetMode (match next () with "A" -> Active | _ -> Passive)
  | "Y" -> ASetRfc2428 (nbool ())
  | t -> raise (Parse ("call " ^ t))

let sn n = string_of_int (int_of_nat n)
let show_reply r = string_of_n r.code ^ ":" ^ hex_of_bytes r.text
let show_io = function
  | IoPoll a -> "p" ^ b2s a | IoBegin -> "b" | IoNotify n -> "n" ^ sn n | IoEnd -> "e"
  | IoSinkWrite b -> "sw:" ^ hex_of_bytes b | IoSinkFlush -> "sf"
  | IoSrcRead (a, g) -> "sr" ^ sn a ^ ":" ^ string_of_int (List.length g)
  | IoNetRead b -> "nr" ^ string_of_int (List.length b)
  | IoNetWrite b -> "nw:" ^ hex_of_bytes b
let show_event = function
  | EWire (s, ord, l) -> "W" ^ b2s s ^ ":" ^ sn ord ^ ":" ^ hex_of_bytes l
  | EWireLost l -> "WL:" ^ hex_of_bytes l
  | ERecv (t, r) -> "R" ^ sn t ^ ":" ^ show_reply r
  | EObs (o, OConnected (h, p)) -> "O" ^ sn o ^ ":c:" ^ hex_of_bytes h ^ ":" ^ string_of_n p
  | EObs (o, ORequest l) -> "O" ^ sn o ^ ":q:" ^ hex_of_bytes l
  | EObs (o, OReply r) -> "O" ^ sn o ^ ":r:" ^ show_reply r
  | EObs (o, OFileList t) -> "O" ^ sn o ^ ":l:" ^ hex_of_bytes t
  | EIo e -> show_io e
  | ECtl (CConnect (_, _, ok)) -> "cc" ^ b2s ok
  | ECtl (CSetSsl on) -> "cs" ^ b2s on
  | ECtl (CHandshake (ok, s)) -> "ch" ^ b2s ok ^ ":" ^ sn s
  | ECtl (CTlsShutdown ok) -> "ct" ^ b2s ok
  | ECtl CTcpShutdown -> "cx"
  | ECtl CClose -> "cz"
  | EData DNewObj -> "dn"
  | EData DListen -> "dl"
  | EData (DConnectTo (ip, port, ok)) ->
    "dc:" ^ (match ip with None -> "peer" | Some i -> hex_of_bytes i) ^ ":" ^ string_of_n port ^ ":" ^ b2s ok
  | EData DAcceptOk -> "da"
  | EData (DHandshake (off, ok)) -> "dh:" ^ (match off with None -> "-" | Some s -> sn s) ^ ":" ^ b2s ok
  | EData (DTlsShutdown ok) -> "dt" ^ b2s ok
  | EData DTcpShutdown -> "dx"
  | EData DClose -> "dz"
  | EData DAccClose -> "dq"
  | ESetType t -> "ty" ^ (match t with TBinary -> "I" | TAscii -> "A")
let show_replies l = if l = [] then "-" else String.concat "|" (List.map show_reply l)
let show_outcome = function
  | OReturn (RvReplies l) -> "ret:replies:" ^ show_replies l
  | OReturn (RvReply r) -> "ret:reply:" ^ show_reply r
  | OReturn (RvOptReply None) -> "ret:opt:-"
  | OReturn (RvOptReply (Some r)) -> "ret:opt:" ^ show_reply r
  | OReturn (RvList (l, t)) -> "ret:list:" ^ show_replies l ^ ":" ^ hex_of_bytes t
  | OReturn RvUnit -> "ret:unit"
  | OThrow -> "throw"
  | OBlocked -> "blocked"

let rec drop n l = if n <= 0 then l else match l with [] -> [] | _ :: t -> drop (n - 1) t

let run (f : string list) : string * string =
  toks := Array.of_list f; pos := 1;
  let cfg =
    let m = (match next () with "A" -> Active | _ -> Passive) in
    let rfc = nbool () in let ty = (match next () with "A" -> TAscii | _ -> TBinary) in
    let tls = nbool () in let res = nbool () in
    { c_mode = m; c_rfc2428 = rfc; c_type = ty; c_tls = tls; c_resume = res } in
  let script = nlist p_session in
  let calls = nlist p_call in
  (* run call by call so that the trace can be cut per call *)
  let w = ref (init_world cfg script) in
  let buf = Buffer.create 1024 in
  let stop = ref false in
  List.iter (fun a ->
    if not !stop then begin
      let before = List.length !w.w_trace in
      let (o, w1) = step !w a in
      let evs = drop before w1.w_trace in
      if Buffer.length buf > 0 then Buffer.add_string buf " ; ";
      Buffer.add_string buf (Printf.sprintf "out=%s open=%s type=%s held=%d ev=%s"
        (show_outcome o) (b2s w1.w_open) (match w1.w_cfg.c_type with TBinary -> "I" | TAscii -> "A")
        (int_of_nat (held w1)) (String.concat "," (List.map show_event evs)));
      w := w1;
      if o = OBlocked then stop := true
    end) calls;
  let m = Buffer.contents buf in
  (m, m)


(* the interactive client (App.v): sessions, local files, input lines *)
let show_item = function
  | OPrompt p -> "P:" ^ hex_of_bytes p
  | OLine l -> "L:" ^ hex_of_bytes l
  | ORaw t -> "R:" ^ hex_of_bytes t
  | OFtpError -> "E"
  | OProgressBegin -> "B"
  | OProgressEnd -> "N"

let run_app (f : string list) : string * string =
  toks := Array.of_list f; pos := 1;
  let script = nlist p_session in
  let files = nlist (fun () -> let n = nhex () in let c = nhex () in (n, c)) in
  let input = nlist nhex in
  let (st, a) = run_main (app_init script files input) in
  let wire = List.filter_map (function EWire (_, _, l) -> Some (hex_of_bytes l) | _ -> None) a.a_w.w_trace in
  let fs = List.sort compare (List.map (fun (n, c) -> hex_of_bytes n ^ "=" ^ hex_of_bytes c) a.a_fs) in
  let m = Printf.sprintf "status=%s open=%s left=%d out=%s fs=%s wire=%s"
    (match st with ExitSuccess -> "0" | Hung -> "hung") (b2s a.a_w.w_open) (List.length a.a_in)
    (String.concat "," (List.map show_item a.a_out)) (String.concat "," fs) (String.concat "," wire) in
  (m, m)
