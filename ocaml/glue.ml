(* glue.ml - I/O helpers for the extracted model (trusted glue: hex, N <-> int/decimal). *)
open Model

let rec pos_of_int n =
  if n <= 1 then XH else if n land 1 = 1 then XI (pos_of_int (n lsr 1)) else XO (pos_of_int (n lsr 1))
let n_of_int n = if n = 0 then N0 else Npos (pos_of_int n)
let rec int_of_pos = function XH -> 1 | XO p -> 2 * int_of_pos p | XI p -> 2 * int_of_pos p + 1
let int_of_n = function N0 -> 0 | Npos p -> int_of_pos p

let rec nat_of_int n = if n <= 0 then O else S (nat_of_int (n - 1))
let rec int_of_nat = function O -> 0 | S n -> 1 + int_of_nat n

(* decimal rendering of an N of any size: digit-string doubling *)
let dec_double_add (s : Bytes.t) (len : int ref) (bit : int) =
  let carry = ref bit in
  for i = 0 to !len - 1 do
    let d = (Char.code (Bytes.get s i) - 48) * 2 + !carry in
    Bytes.set s i (Char.chr (48 + d mod 10)); carry := d / 10
  done;
  if !carry > 0 then begin Bytes.set s !len (Char.chr (48 + !carry)); incr len end

let string_of_n (n : n) : string =
  match n with
  | N0 -> "0"
  | Npos p ->
    let rec bits p acc = match p with XH -> 1 :: acc | XO q -> bits q (0 :: acc) | XI q -> bits q (1 :: acc) in
    let bl = bits p [] in
    let s = Bytes.make (List.length bl + 2) '0' in
    let len = ref 1 in
    List.iter (fun b -> dec_double_add s len b) bl;
    String.init !len (fun i -> Bytes.get s (!len - 1 - i))

(* decimal string (any size) -> N *)
let n_of_string (str : string) : n =
  let r = ref N0 in
  String.iter (fun c ->
    r := N.add (N.mul !r (n_of_int 10)) (n_of_int (Char.code c - 48))) str;
  !r

let hexd = "0123456789abcdef"
let hex_of_bytes (l : n list) : string =
  match l with
  | [] -> "-"
  | _ ->
    let b = Buffer.create 64 in
    List.iter (fun x -> let v = int_of_n x in
                Buffer.add_char b hexd.[(v lsr 4) land 15]; Buffer.add_char b hexd.[v land 15]) l;
    Buffer.contents b
let hv c = match c with
  | '0'..'9' -> Char.code c - 48 | 'a'..'f' -> Char.code c - 87 | 'A'..'F' -> Char.code c - 55
  | _ -> failwith "hex"
let bytes_of_hex (s : string) : n list =
  if s = "-" then [] else
  let n = String.length s / 2 in
  List.init n (fun i -> n_of_int (hv s.[2*i] * 16 + hv s.[2*i+1]))

let b2s b = if b then "1" else "0"
let split_ws (s : string) : string list =
  List.filter (fun x -> x <> "") (String.split_on_char ' ' s)
