(* driver.ml - runs the extracted model and the extracted specification on case files.
   usage: driver <cases.txt>      one case per line; prints "<model_out>\t<spec_out>" per case.
   The formats are mirrored by harness/leaf_driver.cpp. *)
open Model
open Glue

let mk_reply code hex = { code = n_of_string code; text = bytes_of_hex hex }

let rec take_pairs = function
  | c :: t :: rest -> mk_reply c t :: take_pairs rest
  | _ -> []

let opt_n = function None -> "none" | Some v -> string_of_n v

let run (f : string list) : string * string =
  match f with
  | ["cls"; c] ->
    let r = mk_reply c "-" in
    let m = b2s (is_positive r) ^ b2s (is_negative r) ^ b2s (is_intermediate r) in
    (* spec: the partition by code, written directly *)
    let ci = int_of_string c in
    let s = if ci = 65535 then "000"
      else b2s (ci < 400) ^ b2s (ci >= 400) ^ b2s (ci >= 300 && ci < 400) in
    (m, s)
  | ["cls_default"] ->
    let r = default_reply in
    (b2s (is_positive r) ^ b2s (is_negative r) ^ b2s (is_intermediate r), "000")
  | "aggval" :: _how :: rest ->
    (* an aggregate is a value: after copy / move construction or assignment it is the aggregate of the NEW members *)
    let rec after_bar = function [] -> [] | "|" :: t -> t | _ :: t -> after_bar t in
    let l = take_pairs (after_bar rest) in
    let rs = append_all l in
    let show pos txt mem =
      b2s pos ^ " " ^ hex_of_bytes txt ^ " " ^
      String.concat "," (List.map (fun r -> string_of_n r.code ^ ":" ^ hex_of_bytes r.text) mem) in
    (show rs.agg_positive rs.agg_text rs.members, show (spec_positive l) (spec_text l) l)
  | "agg" :: rest ->
    let l = take_pairs rest in
    let rs = append_all l in
    let show pos txt mem =
      b2s pos ^ " " ^ hex_of_bytes txt ^ " " ^
      String.concat "," (List.map (fun r -> string_of_n r.code ^ ":" ^ hex_of_bytes r.text) mem) in
    (show rs.agg_positive rs.agg_text rs.members, show (spec_positive l) (spec_text l) l)
  | ["size"; c; t] ->
    let r = mk_reply c t in
    let m = opt_n (parse_size r) in
    let tail = (let rec sk n l = if n = 0 then l else match l with [] -> [] | _ :: l' -> sk (n-1) l' in sk 4 r.text) in
    let s = if int_of_string c = 213 && tail <> [] && all_digits tail
               && N.leb (dec_value tail) (n_of_string "18446744073709551615")
            then string_of_n (dec_value tail) else "none" in
    (m ^ " " ^ c ^ " " ^ t, s ^ " " ^ c ^ " " ^ t)
  | ["mdtm"; c; t] ->
    let r = mk_reply c t in
    let show = function
      | None -> "none"
      | Some d -> String.concat " " (List.map string_of_n
                    [d.year; d.month; d.day; d.hour; d.minute; d.second; d.fractions]) in
    let m = show (parse_datetime r) in
    let rec sk n l = if n = 0 then l else match l with [] -> [] | _ :: l' -> sk (n-1) l' in
    let rec tk n l = if n = 0 then [] else match l with [] -> [] | x :: l' -> x :: tk (n-1) l' in
    let tv = sk 4 r.text in
    let fr = sk 15 tv in
    let s = if int_of_string c = 213 && is_time_val tv && N.leb (dec_value fr) (n_of_string "4294967295")
      then String.concat " " (List.map string_of_n
             [dec_value (tk 4 tv); dec_value (tk 2 (sk 4 tv)); dec_value (tk 2 (sk 6 tv));
              dec_value (tk 2 (sk 8 tv)); dec_value (tk 2 (sk 10 tv)); dec_value (tk 2 (sk 12 tv));
              dec_value fr])
      else "none" in
    (m ^ " " ^ c ^ " " ^ t, s ^ " " ^ c ^ " " ^ t)
  | ["list"; t] ->
    let s = bytes_of_hex t in
    let show l = string_of_int (List.length l) ^ " " ^ String.concat "," (List.map hex_of_bytes l) ^ " " ^ t in
    (show (parse_file_list s), show (spec_file_list s))
  | ["u64"; t] | ["u32"; t] | ["u16"; t] | ["u8"; t] ->
    let s = bytes_of_hex t in
    let (fn, bound) = match List.hd f with
      | "u64" -> (try_parse_uint64, "18446744073709551615")
      | "u32" -> (try_parse_uint32, "4294967295")
      | "u16" -> (try_parse_uint16, "65535")
      | _ -> (try_parse_uint8, "255") in
    let spec = if s <> [] && all_digits s && N.leb (dec_value s) (n_of_string bound)
      then string_of_n (dec_value s) else "none" in
    (opt_n (fn s), spec)
  | ["split"; t; d] ->
    let s = bytes_of_hex t and del = n_of_int (int_of_string d) in
    let show l = string_of_int (List.length l) ^ " " ^ String.concat "," (List.map hex_of_bytes l) in
    (show (split_string s del), show (drop_last_empty (pieces del s)))
  | ["tostr"; v] ->
    (hex_of_bytes (to_string (n_of_string v)),
     hex_of_bytes (List.init (String.length v) (fun i -> n_of_int (Char.code v.[i]))))
  | _ -> Driver_ext.run f

let () =
  let ic = open_in Sys.argv.(1) in
  (try
    while true do
      let line = input_line ic in
      let (m, s) = (try run (split_ws line) with e -> ("MODEL-ERROR " ^ Printexc.to_string e, "MODEL-ERROR")) in
      print_string m; print_char '\t'; print_string s; print_char '\n'
    done
  with End_of_file -> ());
  close_in ic
