// leaf_driver.cpp - runs the implementation's pure functions / converters / private static helpers
// on a case file; one output line per case, same formats as ocaml/driver.ml.
// Built with -fno-access-control against /repo's current sources.
#include <ftp/ftp.hpp>
#include <ftp/detail/utils.hpp>
#include <ftp/detail/ascii_istream.hpp>
#include <ftp/detail/ascii_ostream.hpp>
#include <ftp/detail/binary_istream.hpp>
#include <ftp/detail/binary_ostream.hpp>
#include <ftp/stream/input_stream.hpp>
#include <ftp/stream/output_stream.hpp>
#include <iostream>
#include <fstream>
#include "hexio.hpp"
#include "leaf_ext.hpp"

using namespace ftp;
using namespace ftp::detail;

static std::string bits(const reply & r)
{
    std::string s;
    s += r.is_positive() ? '1' : '0';
    s += r.is_negative() ? '1' : '0';
    s += r.is_intermediate() ? '1' : '0';
    return s;
}

// the same questions asked through the object's own (derived) type: a member added to a derived class hides the base one
template <class T> static std::string bits_of(const T & r)
{
    std::string s;
    s += r.is_positive() ? '1' : '0';
    s += r.is_negative() ? '1' : '0';
    s += r.is_intermediate() ? '1' : '0';
    return s;
}

template <class T> static std::string derived_vs_base(const T & d, const reply & b, const char *what)
{
    if (bits_of(d) != bits(b) || d.get_code() != b.get_code() || d.get_status_string() != b.get_status_string())
        return std::string(" DERIVED-MISMATCH(") + what + ") " + bits_of(d) + " vs " + bits(b);
    return "";
}

static std::string show_reply(const reply & r)
{
    return std::to_string(r.get_code()) + ":" + hex(r.get_status_string());
}

static std::string run(const std::vector<std::string> & f)
{
    const std::string & k = f.at(0);
    if (k == "cls")
    {
        reply r((std::uint16_t)std::stoul(f.at(1)), "");
        file_size_reply fs(r);
        file_modified_time_reply fm(r);
        return bits(r) + derived_vs_base(fs, r, "file_size_reply") + derived_vs_base(fm, r, "file_modified_time_reply");
    }
    if (k == "cls_default")
    {
        return bits(reply());
    }
    if (k == "aggval")
    {
        // aggval <how> <pairs of the old value> | <pairs of the new value>: an aggregate that held the old value receives the
        // new one by copy / move assignment or is constructed from it; what it then reports must be the new value's
        std::string how = f.at(1);
        replies oldv, newv;
        size_t i = 2;
        for (; i < f.size() && f[i] != "|"; i += 2) oldv.append(reply((std::uint16_t)std::stoul(f[i]), unhex(f[i + 1])));
        for (i++; i + 1 < f.size(); i += 2) newv.append(reply((std::uint16_t)std::stoul(f[i]), unhex(f[i + 1])));
        replies rs = oldv;
        if (how == "copy=") rs = newv;
        else if (how == "move=") rs = std::move(newv);
        else if (how == "copy") { replies t(newv); rs = oldv; return [&] { replies u(newv); std::string o = u.is_positive() ? "1" : "0"; o += " " + hex(u.get_status_string()) + " "; bool fst = true; for (const reply & r : u) { if (!fst) o += ","; fst = false; o += show_reply(r); } return o; }(); }
        else if (how == "move") { replies u(std::move(newv)); std::string o = u.is_positive() ? "1" : "0"; o += " " + hex(u.get_status_string()) + " "; bool fst = true; for (const reply & r : u) { if (!fst) o += ","; fst = false; o += show_reply(r); } return o; }
        else if (how == "list=") { file_list_reply fl(oldv, "old"); file_list_reply nl(newv, "new"); fl = std::move(nl); std::string o = fl.is_positive() ? "1" : "0"; o += " " + hex(fl.get_status_string()) + " "; bool fst = true; for (const reply & r : fl) { if (!fst) o += ","; fst = false; o += show_reply(r); } return o; }
        std::string out = rs.is_positive() ? "1" : "0";
        out += " " + hex(rs.get_status_string()) + " ";
        bool first = true;
        for (const reply & r : rs) { if (!first) out += ","; first = false; out += show_reply(r); }
        return out;
    }
    if (k == "agg")
    {
        replies rs;
        for (size_t i = 1; i + 1 < f.size(); i += 2)
            rs.append(reply((std::uint16_t)std::stoul(f[i]), unhex(f[i + 1])));
        std::string out = rs.is_positive() ? "1" : "0";
        out += " " + hex(rs.get_status_string()) + " ";
        bool first = true;
        std::string via_iter;
        for (const reply & r : rs) { if (!first) via_iter += ","; first = false; via_iter += show_reply(r); }
        std::string via_vec; first = true;
        for (const reply & r : rs.get_replies()) { if (!first) via_vec += ","; first = false; via_vec += show_reply(r); }
        if (via_iter != via_vec) return "ITER-MISMATCH " + via_iter + " vs " + via_vec;
        // the aggregate a listing returns: the same members, asked through its own type and through its base
        file_list_reply fl(rs, "a\r\nb");
        const replies & base = fl;
        std::string via_fl; first = true;
        for (const reply & r : fl) { if (!first) via_fl += ","; first = false; via_fl += show_reply(r); }
        if (fl.is_positive() != rs.is_positive() || base.is_positive() != rs.is_positive() ||
            fl.get_status_string() != rs.get_status_string() || base.get_status_string() != rs.get_status_string() || via_fl != via_iter)
            return "DERIVED-MISMATCH(file_list_reply) " + std::string(fl.is_positive() ? "1" : "0") + (base.is_positive() ? "1" : "0") +
                   (rs.is_positive() ? "1" : "0") + " " + via_fl;
        return out + via_iter;
    }
    if (k == "size")
    {
        reply r((std::uint16_t)std::stoul(f.at(1)), unhex(f.at(2)));
        file_size_reply s(r);
        std::string out = s.get_size() ? std::to_string(*s.get_size()) : "none";
        return out + " " + std::to_string(s.get_code()) + " " + hex(s.get_status_string()) + derived_vs_base(s, r, "file_size_reply");
    }
    if (k == "mdtm")
    {
        reply r((std::uint16_t)std::stoul(f.at(1)), unhex(f.at(2)));
        file_modified_time_reply m(r);
        std::string out;
        if (m.get_datetime())
        {
            const datetime & d = *m.get_datetime();
            out = std::to_string(d.year) + " " + std::to_string(d.month) + " " + std::to_string(d.day) + " " +
                  std::to_string(d.hour) + " " + std::to_string(d.minute) + " " + std::to_string(d.second) + " " +
                  std::to_string(d.fractions);
        }
        else out = "none";
        return out + " " + std::to_string(m.get_code()) + " " + hex(m.get_status_string()) + derived_vs_base(m, r, "file_modified_time_reply");
    }
    if (k == "list")
    {
        std::string s = unhex(f.at(1));
        replies rs;
        rs.append(reply(226, "226 ok"));
        file_list_reply l(rs, s);
        std::string out = std::to_string(l.get_file_list().size()) + " ";
        bool first = true;
        for (const std::string & x : l.get_file_list()) { if (!first) out += ","; first = false; out += hex(x); }
        if (l.get_status_string() != "226 ok" || !l.is_positive()) return "REPLIES-ALTERED";
        return out + " " + hex(l.get_file_list_str());
    }
    if (k == "u64") { std::uint64_t v; return utils::try_parse_uint64(unhex(f.at(1)), v) ? std::to_string(v) : "none"; }
    if (k == "u32") { std::uint32_t v; return utils::try_parse_uint32(unhex(f.at(1)), v) ? std::to_string(v) : "none"; }
    if (k == "u16") { std::uint16_t v; return utils::try_parse_uint16(unhex(f.at(1)), v) ? std::to_string(v) : "none"; }
    if (k == "u8")  { std::uint8_t v;  return utils::try_parse_uint8(unhex(f.at(1)), v) ? std::to_string(v) : "none"; }
    if (k == "split")
    {
        std::vector<std::string> v = utils::split_string(unhex(f.at(1)), (char)std::stoi(f.at(2)));
        std::string out = std::to_string(v.size()) + " ";
        bool first = true;
        for (const std::string & x : v) { if (!first) out += ","; first = false; out += hex(x); }
        return out;
    }
    if (k == "tostr")
    {
        return hex(std::to_string(std::stoull(f.at(1))));
    }
    return leaf_ext_run(f);
}

int main(int argc, char **argv)
{
    std::ifstream in(argv[1]);
    std::string line;
    while (std::getline(in, line))
    {
        std::string out;
        try
        {
            out = run(fields(line));
        }
        catch (const ftp::ftp_exception & e) { out = "exn:ftp_exception"; }
        catch (const std::exception & e) { out = "exn:other:" + demangle(typeid(e).name()); }
        catch (...) { out = "exn:other:unknown"; }
        std::cout << out << "\n";
    }
    return 0;
}
