/* stub for the CMake-generated (git-ignored) include/ftp/export.hpp; used only when /repo/include has none */
#ifndef FTP_EXPORT_H
#define FTP_EXPORT_H
#define FTP_EXPORT
#define FTP_NO_EXPORT
#define FTP_DEPRECATED
#define FTP_DEPRECATED_EXPORT
#endif
