// hexio.hpp - shared helpers of the harness drivers (hex fields, tokenising)
#pragma once
#include <string>
#include <vector>
#include <sstream>
#include <cstdint>
#include <stdexcept>
#include <typeinfo>
#include <cxxabi.h>

inline int hv(char c)
{
    if (c >= '0' && c <= '9') return c - '0';
    if (c >= 'a' && c <= 'f') return c - 'a' + 10;
    if (c >= 'A' && c <= 'F') return c - 'A' + 10;
    throw std::runtime_error("bad hex");
}
inline std::string unhex(const std::string & s)
{
    if (s == "-") return "";
    std::string r;
    for (size_t i = 0; i + 1 < s.size(); i += 2) r.push_back((char)(hv(s[i]) * 16 + hv(s[i + 1])));
    return r;
}
inline std::string hex(std::string_view s)
{
    if (s.empty()) return "-";
    static const char *d = "0123456789abcdef";
    std::string r;
    for (unsigned char c : s) { r.push_back(d[c >> 4]); r.push_back(d[c & 15]); }
    return r;
}
inline std::vector<std::string> fields(const std::string & line)
{
    std::vector<std::string> f; std::istringstream iss(line); std::string t;
    while (iss >> t) f.push_back(t);
    return f;
}
inline std::string demangle(const char *n)
{
    int st = 0; char *d = abi::__cxa_demangle(n, nullptr, nullptr, &st);
    std::string r = (st == 0 && d) ? d : n; free(d); return r;
}
