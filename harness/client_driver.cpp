// client_driver.cpp - drives the real ftp::client through its public API over loopback against the
// scripted peer of bin/peer.py. Interactive: reads one case per line from stdin, prints one line per
// API call ("call <i> <outcome> open=<b> type=<t> fds=<n> ev=<tokens>") and "done" at the end of a case.
// Token formats mirror ocaml/driver_proto.ml.
#include <ftp/ftp.hpp>
#include <ftp/stream/input_stream.hpp>
#include <ftp/stream/output_stream.hpp>
#include <csignal>
#include <sys/time.h>
#include <ftp/stream/istream_adapter.hpp>
#include <ftp/stream/ostream_adapter.hpp>
#include <streambuf>
#include <ostream>
#include <dirent.h>
#include <unistd.h>
#include <iostream>
#include <sstream>
#include <memory>
#include <map>
#include <functional>
#include <openssl/ssl.h>
#include <cstring>
#include <algorithm>
#include <optional>
#include "hexio.hpp"

using namespace ftp;

static std::string g_log;     // event tokens of the running call, in order

static void logtok(const std::string & t)
{
    if (!g_log.empty()) g_log += ",";
    g_log += t;
}

static int count_fds()
{
    int n = 0;
    DIR *d = opendir("/proc/self/fd");
    if (!d) return -1;
    while (readdir(d)) n++;
    closedir(d);
    return n;
}

// long payloads are logged as length + polynomial hash (H(a++b) = H(a)*B^|b| + H(b) mod 2^61-1), so that
// consecutive writes can be merged on the Python side without shipping the bytes
static std::string payload_token(const char *tag, std::string_view b)
{
    if (b.size() <= 64) return std::string(tag) + ":" + hex(b);
    const unsigned long long M = (1ULL << 61) - 1, B = 1000003ULL;
    unsigned long long h = 0;
    for (unsigned char c : b) h = (unsigned long long)(((unsigned __int128)h * B + c) % M);
    return std::string(tag) + "#" + std::to_string(b.size()) + ":" + std::to_string(h);
}

struct rec_observer : observer
{
    int id;
    // armed by the call kind "R": run once, from inside the next callback, before the event is logged
    // (an observer that reacts to an event by unregistering ANOTHER observer)
    std::function<void()> armed;
    explicit rec_observer(int i) : id(i) {}
    void fire() { if (armed) { auto f = std::move(armed); armed = nullptr; f(); } }
    void on_connected(std::string_view hostname, std::uint16_t port) override
    { fire(); logtok("O" + std::to_string(id) + ":c:" + hex(hostname) + ":" + std::to_string(port)); }
    void on_request(std::string_view command) override
    { fire(); logtok("O" + std::to_string(id) + ":q:" + hex(command)); }
    void on_reply(const reply & r) override
    { fire(); logtok("O" + std::to_string(id) + ":r:" + std::to_string(r.get_code()) + ":" + hex(r.get_status_string())); }
    void on_file_list(std::string_view file_list) override
    { fire(); logtok("O" + std::to_string(id) + ":l:" + hex(file_list)); }
};

struct rec_callback : transfer_callback
{
    std::vector<bool> answers; size_t i = 0;
    void begin() override { logtok("b"); }
    void notify(std::size_t n) override { logtok("n" + std::to_string(n)); }
    void end() override { logtok("e"); }
    bool is_cancelled() override
    {
        bool a = i < answers.size() ? answers[i] : false;
        i++;
        logtok(a ? "p1" : "p0");
        return a;
    }
};

struct rec_sink : output_stream
{
    long fail_at = -1; long writes = 0;
    void write(char *buf, std::size_t size) override
    {
        logtok(payload_token("sw", std::string_view(buf, size)));
        if (fail_at >= 0 && writes == fail_at) throw ftp_exception("Cannot write stream.");
        writes++;
    }
    void flush() override { logtok("sf"); }
};

// std::ostream whose buffer logs what ftp::ostream_adapter hands to it: writes as "sw" tokens, flush as "sf"
struct logging_streambuf : std::streambuf
{
    std::streamsize xsputn(const char *s, std::streamsize n) override
    {
        logtok(payload_token("sw", std::string_view(s, (size_t)n)));
        return n;
    }
    int_type overflow(int_type ch) override
    {
        if (ch != traits_type::eof()) { char c = (char)ch; logtok(payload_token("sw", std::string_view(&c, 1))); }
        return ch;
    }
    int sync() override { logtok("sf"); return 0; }
};

static void on_alarm(int) {}

// a std::istream whose buffer produces its data on demand, a few bytes per refill (a generator, a decompressor, a pipe):
// in_avail() is 0 between refills - which says nothing about the end of the data
struct ondemand_streambuf : std::streambuf
{
    std::string data; size_t pos = 0; size_t refill; char buf[8192];
    ondemand_streambuf(std::string d, size_t r) : data(std::move(d)), refill(r) {}
    int_type underflow() override
    {
        if (pos >= data.size()) return traits_type::eof();
        size_t n = std::min(std::min(refill, sizeof buf), data.size() - pos);
        memcpy(buf, data.data() + pos, n);
        pos += n;
        setg(buf, buf, buf + n);
        return traits_type::to_int_type(buf[0]);
    }
};

// source that returns the scripted chunks (never more than asked), then 0 for ever
struct chunk_source : input_stream
{
    std::vector<std::string> chunks; size_t i = 0; size_t off = 0;
    std::size_t read(char *buf, std::size_t size) override
    {
        if (i >= chunks.size()) { logtok("sr" + std::to_string(size) + ":0"); return 0; }
        size_t k = std::min(size, chunks[i].size() - off);
        memcpy(buf, chunks[i].data() + off, k);
        off += k;
        if (off >= chunks[i].size()) { i++; off = 0; }
        logtok("sr" + std::to_string(size) + ":" + std::to_string(k));
        return k;
    }
};

struct toks
{
    std::vector<std::string> t; size_t p = 0;
    std::string next() { return t.at(p++); }
    long nint() { return std::stol(next()); }
    bool nbool() { return next() == "1"; }
    std::string nhex() { return unhex(next()); }
    bool more() const { return p < t.size(); }
};

static std::string show_reply(const reply & r) { return std::to_string(r.get_code()) + ":" + hex(r.get_status_string()); }
static std::string show_replies(const replies & rs)
{
    std::string out;
    bool all_positive = !rs.get_replies().empty();
    std::string joined;
    for (const reply & r : rs.get_replies())
    {
        if (!out.empty()) { out += "|"; joined += "\r\n"; }
        out += show_reply(r);
        joined += r.get_status_string();
        all_positive = all_positive && r.is_positive();
    }
    // what the aggregate says about itself must be what its members say (positive iff all are, texts joined by CR LF)
    if (rs.is_positive() != all_positive || rs.get_status_string() != joined)
        out += "|AGGREGATE-MISMATCH:is_positive=" + std::string(rs.is_positive() ? "1" : "0");
    return out.empty() ? "-" : out;
}

static std::vector<bool> read_cb(toks & tk, bool & has)
{
    std::vector<bool> a;
    has = tk.nbool();
    if (has) { long n = tk.nint(); for (long i = 0; i < n; i++) a.push_back(tk.nbool()); }
    return a;
}

static void run_case(toks & tk, const std::string & certdir)
{
    // config
    transfer_mode mode = tk.next() == "A" ? transfer_mode::active : transfer_mode::passive;
    bool rfc = tk.nbool();
    transfer_type type = tk.next() == "A" ? transfer_type::ascii : transfer_type::binary;
    bool tls = tk.nbool();
    bool resume = tk.nbool();
    std::string tlsver = tk.next();       // "12" | "13" | "any"
    std::string verify = tk.next();       // "trusted" | "unknown" | "none"
    int pre_fds0 = count_fds();
    ssl::context_ptr ctx;
    if (tls)
    {
        // every method a client may create its context with: the *_client ones and the generic ones (chosen by the
        // configuration, so that a scenario always gets the same one)
        int pick = (mode == transfer_mode::active ? 8 : 0) + (rfc ? 4 : 0) + (type == transfer_type::ascii ? 2 : 0) + (resume ? 1 : 0);
        ssl::context::method method;
        switch (pick % 6)
        {
        case 0: method = ssl::context::tls_client; break;
        case 1: method = ssl::context::tls; break;
        case 2: method = ssl::context::sslv23_client; break;
        case 3: method = ssl::context::sslv23; break;
        case 4: method = tlsver == "13" ? ssl::context::tlsv13_client : tlsver == "12" ? ssl::context::tlsv12_client : ssl::context::tls_client; break;
        default: method = tlsver == "13" ? ssl::context::tlsv13 : tlsver == "12" ? ssl::context::tlsv12 : ssl::context::tls; break;
        }
        ctx = ssl::create_context(method, resume);
        if (tlsver == "12") SSL_CTX_set_max_proto_version(ctx->native_handle(), TLS1_2_VERSION);
        if (tlsver == "13") SSL_CTX_set_min_proto_version(ctx->native_handle(), TLS1_3_VERSION);
        if (verify == "trusted")
        {
            ctx->load_verify_file(certdir + "/root_ca_cert.pem");
            ctx->load_verify_file(certdir + "/ca_cert.pem");
            ctx->set_verify_mode(ssl::verify_peer);
        }
        else if (verify == "unknown")
        {
            ctx->set_verify_mode(ssl::verify_peer);   // no CA loaded: every chain is unknown
        }
        else ctx->set_verify_mode(ssl::verify_none);
    }
    int pre_fds = -1;
    int base_fds = count_fds();
    std::map<int, std::shared_ptr<rec_observer>> observers;
    {
        client cl(mode, type, std::move(ctx), rfc);
        base_fds = count_fds();          // io_context internals (epoll, eventfd, timerfd) are the client's baseline
        long ncalls = tk.nint();
        for (long ci = 0; ci < ncalls; ci++)
        {
            g_log.clear();
            std::string out;
            std::string k = tk.next();
            // parse the arguments first (so that an exception cannot leave tokens behind)
            std::string a1, a2, a3; bool has_login = false, has_arg = false, names = false, graceful = false, has_cb = false;
            long port = 0, fail_at = -1, obs = 0;
            std::vector<bool> cb_answers; std::vector<std::string> chunks; std::string upv;
            if (k == "C") { a1 = tk.nhex(); port = tk.nint(); has_login = tk.nbool(); if (has_login) { a2 = tk.nhex(); a3 = tk.nhex(); } }
            else if (k == "L") { a1 = tk.nhex(); a2 = tk.nhex(); }
            else if (k == "S") { a1 = tk.nhex(); has_arg = tk.nbool(); if (has_arg) a2 = tk.nhex(); }
            else if (k == "T") { a1 = tk.next(); }
            else if (k == "N") { a1 = tk.nhex(); a2 = tk.nhex(); }
            else if (k == "D" || k == "Da") { a1 = tk.nhex(); cb_answers = read_cb(tk, has_cb); if (tk.nbool()) fail_at = tk.nint(); }
            else if (k == "Z") { std::string zv = tk.next(); has_arg = zv != "0"; port = (zv == "2") ? 1 : 0; }
            else if (k == "W") { port = tk.nint(); }
            else if (k == "U" || k == "Ua") { upv = tk.next(); a1 = tk.nhex(); long n = tk.nint(); for (long i = 0; i < n; i++) chunks.push_back(tk.nhex()); cb_answers = read_cb(tk, has_cb); }
            else if (k == "F") { has_arg = tk.nbool(); if (has_arg) a1 = tk.nhex(); names = tk.nbool(); }
            else if (k == "X") { graceful = tk.nbool(); }
            else if (k == "+" || k == "-") { obs = tk.nint(); }
            else if (k == "R") { obs = tk.nint(); port = tk.nint(); }
            else if (k == "M") { a1 = tk.next(); }
            else if (k == "Y") { has_arg = tk.nbool(); }
            try
            {
                if (k == "C")
                {
                    replies rs = has_login ? cl.connect(a1, (std::uint16_t)port, std::string_view(a2), a3)
                                           : cl.connect(a1, (std::uint16_t)port);
                    out = "ret:replies:" + show_replies(rs);
                }
                else if (k == "L") out = "ret:replies:" + show_replies(cl.login(a1, a2));
                else if (k == "O") out = "ret:reply:" + show_reply(cl.logout());
                else if (k == "S")
                {
                    std::optional<std::string_view> arg; if (has_arg) arg = a2;
                    reply r;
                    if (a1 == "CWD") r = cl.change_current_directory(a2);
                    else if (a1 == "CDUP") r = cl.change_current_directory_up();
                    else if (a1 == "PWD") r = cl.get_current_directory();
                    else if (a1 == "DELE") r = cl.remove_file(a2);
                    else if (a1 == "MKD") r = cl.create_directory(a2);
                    else if (a1 == "RMD") r = cl.remove_directory(a2);
                    else if (a1 == "SIZE") r = cl.get_file_size(a2);
                    else if (a1 == "MDTM") r = cl.get_file_modified_time(a2);
                    else if (a1 == "STAT") r = cl.get_status(arg);
                    else if (a1 == "SYST") r = cl.get_system_type();
                    else if (a1 == "HELP") r = cl.get_help(arg);
                    else if (a1 == "SITE" && a2 == "HELP" ) r = cl.get_site_commands();
                    else if (a1 == "SITE") r = cl.send_site_command(a2);
                    else if (a1 == "NOOP") r = cl.send_noop();
                    else throw std::runtime_error("driver: unknown simple command " + a1);
                    out = "ret:reply:" + show_reply(r);
                }
                else if (k == "T") out = "ret:reply:" + show_reply(cl.set_transfer_type(a1 == "A" ? transfer_type::ascii : transfer_type::binary));
                else if (k == "N") out = "ret:replies:" + show_replies(cl.rename(a1, a2));
                else if (k == "Z")
                {
                    // a process that receives signals all the time (an interval timer with a restarting handler), from now
                    // on / no longer: system calls of the transfers that follow are interrupted again and again
                    struct sigaction sa; memset(&sa, 0, sizeof sa);
                    // (mode 2: a handler installed WITHOUT SA_RESTART, every 40 ms: blocked system calls fail with EINTR)
                    sa.sa_handler = on_alarm; sa.sa_flags = port ? 0 : SA_RESTART; sigemptyset(&sa.sa_mask);
                    sigaction(SIGALRM, &sa, nullptr);
                    struct itimerval it; memset(&it, 0, sizeof it);
                    if (has_arg) { it.it_interval.tv_usec = port ? 40000 : 700; it.it_value.tv_usec = port ? 40000 : 700; }
                    setitimer(ITIMER_REAL, &it, nullptr);
                    out = "ret:unit";
                }
                else if (k == "W")
                {
                    // the application does nothing for a while (what the peer does meanwhile reaches the socket)
                    usleep((useconds_t)port * 1000);
                    out = "ret:unit";
                }
                else if (k == "Da")
                {
                    // through the public adapter over a std::ostream
                    logging_streambuf lb; std::ostream os(&lb);
                    rec_callback cb; cb.answers = cb_answers;
                    ostream_adapter sink(os);
                    replies rs = (ci % 2 == 0) ? cl.download_file(sink, a1, has_cb ? &cb : nullptr)
                                               : cl.download_file(ostream_adapter(os), a1, has_cb ? &cb : nullptr);
                    out = "ret:replies:" + show_replies(rs);
                }
                else if (k == "Ua")
                {
                    // through the public adapter over a std::istream holding the whole source
                    std::string all; for (const std::string & c : chunks) all += c;
                    // (every other such call: the stream produces its data on demand, 1 / 3000 / 8192 bytes per refill)
                    static const size_t refills[] = {3000, 1, 8192, 777};
                    std::istringstream iss0(all);
                    ondemand_streambuf ob(all, refills[(ci / 2) % 4]);
                    std::istream iss1(&ob);
                    std::istream & iss = (all.size() % 2 == 0 && ci % 4 < 2) ? static_cast<std::istream &>(iss0) : iss1;
                    rec_callback cb; cb.answers = cb_answers;
                    istream_adapter src(iss);
                    replies rs;
                    if (ci % 2 == 0)
                        rs = upv == "A" ? cl.append_file(src, a1, has_cb ? &cb : nullptr)
                                        : cl.upload_file(src, a1, upv == "U", has_cb ? &cb : nullptr);
                    else
                        rs = upv == "A" ? cl.append_file(istream_adapter(iss), a1, has_cb ? &cb : nullptr)
                                        : cl.upload_file(istream_adapter(iss), a1, upv == "U", has_cb ? &cb : nullptr);
                    out = "ret:replies:" + show_replies(rs);
                }
                else if (k == "D")
                {
                    rec_sink sink; sink.fail_at = fail_at;
                    rec_callback cb; cb.answers = cb_answers;
                    // every public overload is exercised: the one taking the stream by reference and, on every other call,
                    // the one taking a temporary
                    replies rs = (ci % 2 == 0) ? cl.download_file(sink, a1, has_cb ? &cb : nullptr)
                                               : cl.download_file(std::move(sink), a1, has_cb ? &cb : nullptr);
                    out = "ret:replies:" + show_replies(rs);
                }
                else if (k == "U")
                {
                    chunk_source src; src.chunks = chunks;
                    rec_callback cb; cb.answers = cb_answers;
                    replies rs;
                    if (ci % 2 == 0)
                        rs = upv == "A" ? cl.append_file(src, a1, has_cb ? &cb : nullptr)
                                        : cl.upload_file(src, a1, upv == "U", has_cb ? &cb : nullptr);
                    else
                        rs = upv == "A" ? cl.append_file(std::move(src), a1, has_cb ? &cb : nullptr)
                                        : cl.upload_file(std::move(src), a1, upv == "U", has_cb ? &cb : nullptr);
                    out = "ret:replies:" + show_replies(rs);
                }
                else if (k == "F")
                {
                    std::optional<std::string_view> arg; if (has_arg) arg = a1;
                    file_list_reply fl = cl.get_file_list(arg, names);
                    out = "ret:list:" + show_replies(fl) + ":" + hex(fl.get_file_list_str());
                }
                else if (k == "X")
                {
                    std::optional<reply> r = cl.disconnect(graceful);
                    out = r ? "ret:opt:" + show_reply(*r) : "ret:opt:-";
                }
                else if (k == "+")
                {
                    if (!observers.count((int)obs)) observers[(int)obs] = std::make_shared<rec_observer>((int)obs);
                    cl.add_observer(observers[(int)obs]);
                    out = "ret:unit";
                }
                else if (k == "-")
                {
                    if (!observers.count((int)obs)) observers[(int)obs] = std::make_shared<rec_observer>((int)obs);
                    cl.remove_observer(observers[(int)obs]);
                    out = "ret:unit";
                }
                else if (k == "R")
                {
                    // observer <obs> will, from inside its next callback, unregister observer <port>
                    if (!observers.count((int)obs)) observers[(int)obs] = std::make_shared<rec_observer>((int)obs);
                    if (!observers.count((int)port)) observers[(int)port] = std::make_shared<rec_observer>((int)port);
                    std::shared_ptr<rec_observer> target = observers[(int)port];
                    client *pc = &cl;
                    observers[(int)obs]->armed = [pc, target]() { pc->remove_observer(target); };
                    out = "ret:unit";
                }
                else if (k == "M") { cl.set_transfer_mode(a1 == "A" ? transfer_mode::active : transfer_mode::passive); out = "ret:unit"; }
                else if (k == "Y") { cl.set_rfc2428_support(has_arg); out = "ret:unit"; }
                else out = "driver-error:unknown-call:" + k;
            }
            catch (const ftp_exception & e) { out = std::string("throw:ftp_exception:") + hex(e.what()); }
            catch (const std::exception & e) { out = "throw:other:" + demangle(typeid(e).name()) + ":" + hex(e.what()); }
            catch (...) { out = "throw:other:unknown"; }
            std::cout << "call " << ci << " out=" << out << " open=" << (cl.is_connected() ? 1 : 0)
                      << " type=" << (cl.get_transfer_type() == transfer_type::ascii ? "A" : "I")
                      << " fds=" << (count_fds() - base_fds) << " ev=" << g_log << std::endl;
        }
    }
    (void)pre_fds; (void)base_fds;
    std::cout << "destroyed fds=" << (count_fds() - pre_fds0) << std::endl;
}

int main(int argc, char **argv)
{
    std::string certdir = argc > 1 ? argv[1] : "/repo/test/server/certs";
    std::string line;
    while (std::getline(std::cin, line))
    {
        toks tk; tk.t = fields(line);
        if (tk.t.empty()) continue;
        try { run_case(tk, certdir); }
        catch (const std::exception & e) { std::cout << "driver-error " << e.what() << std::endl; }
        std::cout << "done" << std::endl;
    }
    return 0;
}
