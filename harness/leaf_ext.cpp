#include "leaf_ext.hpp"
std::string leaf_ext_run(const std::vector<std::string> & f)
{
    return "IMPL-ERROR unknown case kind " + f.at(0);
}
