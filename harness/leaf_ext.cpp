// leaf_ext.cpp - further case kinds of the leaf driver
#include <ftp/ftp.hpp>
#include <ftp/detail/utils.hpp>
#include <boost/asio/ip/address.hpp>
#include <boost/asio/ip/tcp.hpp>
#include "leaf_ext.hpp"
#include "hexio.hpp"

using namespace ftp;
using namespace ftp::detail;

static boost::asio::ip::address ip_of(const std::vector<std::string> & f, size_t & i)
{
    if (f.at(i) == "4")
    {
        std::string t = f.at(i + 1) + "." + f.at(i + 2) + "." + f.at(i + 3) + "." + f.at(i + 4);
        i += 5;
        return boost::asio::ip::make_address(t);
    }
    std::string t = unhex(f.at(i + 1));
    i += 2;
    return boost::asio::ip::make_address(t);
}

std::string leaf_ext_run(const std::vector<std::string> & f)
{
    const std::string & k = f.at(0);
    if (k == "pasv")
    {
        reply r(227, unhex(f.at(1)));
        std::string ip; std::uint16_t port = 0;
        if (!client::try_parse_pasv_reply(r, ip, port)) return "none";
        return hex(ip) + " " + std::to_string(port);
    }
    if (k == "epsv")
    {
        reply r(229, unhex(f.at(1)));
        std::uint16_t port = 0;
        if (!client::try_parse_epsv_reply(r, port)) return "none";
        return std::to_string(port);
    }
    if (k == "portcmd" || k == "eprtcmd")
    {
        size_t i = 1;
        boost::asio::ip::address a = ip_of(f, i);
        boost::asio::ip::tcp::endpoint ep(a, (unsigned short)std::stoul(f.at(i)));
        return hex(k == "portcmd" ? client::make_port_command(ep) : client::make_eprt_command(ep));
    }
    if (k == "port_rt")
    {
        size_t i = 0;
        std::vector<std::string> g = {"4", f.at(1), f.at(2), f.at(3), f.at(4)};
        boost::asio::ip::address a = ip_of(g, i);
        boost::asio::ip::tcp::endpoint ep(a, (unsigned short)std::stoul(f.at(5)));
        std::string cmd = client::make_port_command(ep);
        reply r(227, "227 ok (" + cmd.substr(5) + ").");
        std::string ip; std::uint16_t port = 0;
        if (!client::try_parse_pasv_reply(r, ip, port)) return "none";
        return hex(ip) + " " + std::to_string(port);
    }
    if (k == "eprt_rt")
    {
        boost::asio::ip::tcp::endpoint ep(boost::asio::ip::make_address("127.0.0.1"), (unsigned short)std::stoul(f.at(1)));
        std::string cmd = client::make_eprt_command(ep);
        std::vector<std::string> parts = utils::split_string(cmd, '|');
        reply r(229, "229 ok (|||" + parts.at(3) + "|)");
        std::uint16_t port = 0;
        if (!client::try_parse_epsv_reply(r, port)) return "none";
        return std::to_string(port);
    }
    return "IMPL-ERROR unknown case kind " + k;
}
