// leaf_ext.cpp - further case kinds of the leaf driver
#include <ftp/ftp.hpp>
#include <ftp/detail/utils.hpp>
#include <boost/asio/ip/address.hpp>
#include <boost/asio/ip/tcp.hpp>
#include <ftp/detail/ascii_istream.hpp>
#include <ftp/detail/ascii_ostream.hpp>
#include <ftp/detail/control_connection.hpp>
#include <ftp/detail/socket_base.hpp>
#include <ftp/detail/net_context.hpp>
#include "command_parser.hpp"
#include "cmdline_exception.hpp"
#include "leaf_ext.hpp"
#include "hexio.hpp"
#include <cstring>
#include <locale>
#include <map>
#include <sstream>
#include <memory>
#include <algorithm>

using namespace ftp;
using namespace ftp::detail;

static boost::asio::ip::address ip_of(const std::vector<std::string> & f, size_t & i)
{
    if (f.at(i) == "4")
    {
        std::string t = f.at(i + 1) + "." + f.at(i + 2) + "." + f.at(i + 3) + "." + f.at(i + 4);
        i += 5;
        return boost::asio::ip::make_address(t);
    }
    std::string t = unhex(f.at(i + 1));
    i += 2;
    return boost::asio::ip::make_address(t);
}

static std::vector<size_t> ints_of(const std::string & s);
static std::vector<size_t> ints_of(const std::string & s)
{
    std::vector<size_t> v;
    if (s == "-") return v;
    std::istringstream iss(s); std::string t;
    while (std::getline(iss, t, ',')) v.push_back(std::stoul(t));
    return v;
}

// source with a short-read schedule and sticky end-of-file
struct sched_source : ftp::input_stream
{
    std::string data; size_t pos = 0; std::vector<size_t> sched; size_t calls = 0;
    std::size_t read(char *buf, std::size_t size) override
    {
        size_t k = size;
        if (!sched.empty()) k = std::min(k, std::max<size_t>(1, sched[calls % sched.size()]));
        calls++;
        k = std::min(k, data.size() - pos);
        memcpy(buf, data.data() + pos, k);
        pos += k;
        return k;
    }
};

struct rec_sink : ftp::output_stream
{
    std::string content; std::string events;
    void write(char *buf, std::size_t size) override
    {
        content.append(buf, size);
        if (!events.empty()) events += ",";
        events += "W:" + hex(std::string_view(buf, size));
    }
    void flush() override { if (!events.empty()) events += ","; events += "F"; }
};

// ---- in-memory transport under control_connection: the real boost::asio::read_until, the real
// match_eol and the real control_connection::recv run on top of it
struct livelock_detected {};

struct fake_stream
{
    std::string data; size_t pos = 0; std::vector<size_t> sched; size_t calls = 0;
    bool end_is_error = false; size_t reads_after_end = 0;
    bool closed = false;             // control_connection::disconnect() closed the socket: reads fail, unread data is gone
    std::string written;
    template <typename MutableBufferSequence>
    std::size_t read_some(const MutableBufferSequence & buffers, boost::system::error_code & ec)
    {
        size_t room = boost::asio::buffer_size(buffers);
        if (closed)
        {
            if (++reads_after_end > 1000) throw livelock_detected();
            ec = boost::system::error_code(boost::asio::error::bad_descriptor);
            return 0;
        }
        if (pos >= data.size())
        {
            if (++reads_after_end > 1000) throw livelock_detected();
            ec = end_is_error ? boost::system::error_code(boost::asio::error::connection_reset)
                              : boost::system::error_code(boost::asio::error::eof);
            return 0;
        }
        size_t k = room;
        if (calls < sched.size()) k = std::min(k, std::max<size_t>(1, sched[calls]));
        calls++;
        k = std::min(k, data.size() - pos);
        size_t n = boost::asio::buffer_copy(buffers, boost::asio::buffer(data.data() + pos, k));
        pos += n;
        ec = boost::system::error_code();
        return n;
    }
};

struct fake_socket : socket_base
{
    fake_stream st;
    boost::asio::io_context ioc;
    boost::asio::ip::tcp::socket dummy{ioc};
    void connect(const boost::asio::ip::tcp::resolver::results_type &, boost::system::error_code & ec) override { ec = {}; }
    void connect(const boost::asio::ip::tcp::endpoint &, boost::system::error_code & ec) override { ec = {}; }
    bool is_connected() const override { return !st.closed; }
    bool has_ssl_support() const override { return false; }
    void ssl_handshake(boost::asio::ssl::stream_base::handshake_type, boost::system::error_code & ec) override { ec = {}; }
    void ssl_shutdown(boost::system::error_code & ec) override { ec = {}; }
    SSL_SESSION * get_ssl_session() override { return nullptr; }
    std::size_t write(const char *buf, std::size_t size, boost::system::error_code & ec) override { st.written.append(buf, size); ec = {}; return size; }
    std::size_t write(std::string_view buf, boost::system::error_code & ec) override { st.written.append(buf); ec = {}; return buf.size(); }
    std::size_t read_some(char *buf, std::size_t max_size, boost::system::error_code & ec) override
    { return st.read_some(boost::asio::buffer(buf, max_size), ec); }
    std::size_t read_line(std::string & buf, std::size_t max_size, boost::system::error_code & ec) override
    { return socket_base::read_line<fake_stream>(st, buf, max_size, ec); }
    void shutdown(boost::asio::ip::tcp::socket::shutdown_type, boost::system::error_code & ec) override { ec = {}; }
    void close(boost::system::error_code & ec) override { st.closed = true; ec = {}; }
    boost::asio::ip::tcp::endpoint local_endpoint(boost::system::error_code & ec) const override { ec = {}; return {}; }
    boost::asio::ip::tcp::endpoint remote_endpoint(boost::system::error_code & ec) const override { ec = {}; return {}; }
    boost::asio::ip::tcp::socket::executor_type get_executor() override { return dummy.get_executor(); }
    boost::asio::ip::tcp::socket & get_socket() override { return dummy; }
    boost::asio::ip::tcp::socket detach() override { return boost::asio::ip::tcp::socket(ioc); }
};

static std::string run_frame(const std::vector<std::string> & f)
{
    // frame <nrecv> <eof|err> <sched|-> <prebuffer hex> <stream hex>
    // <nrecv>: a number of receive steps, or a history such as RSRRS (R = receive step, S = send a command)
    std::string ops = f.at(1);
    if (ops.find_first_not_of("0123456789") == std::string::npos) ops = std::string(std::stoul(ops), 'R');
    net_context ctx;
    control_connection cc(ctx);
    auto fs = std::make_unique<fake_socket>();
    fake_socket *raw = fs.get();
    raw->st.end_is_error = (f.at(2) == "err");
    raw->st.sched = ints_of(f.at(3));
    cc.buffer_ = unhex(f.at(4));
    raw->st.data = unhex(f.at(5));
    cc.socket_ = std::move(fs);
    std::string out;
    for (char op : ops)
    {
        if (op == 'S')
        {
            try { cc.send("NOOP"); }
            catch (const ftp_exception &) { if (!out.empty()) out += " "; out += "exn"; break; }
            continue;
        }
        if (!out.empty()) out += " ";
        try
        {
            reply r = cc.recv();
            out += "ok:" + std::to_string(r.get_code()) + ":" + hex(r.get_status_string());
        }
        catch (const ftp_exception &) { out += "exn"; break; }
        catch (const livelock_detected &) { out += "livelock"; break; }
        if (cc.buffer_.size() > 8192) { out += " BUFFER-OVER-CAP"; break; }
    }
    std::string left = cc.buffer_ + (raw->st.closed ? std::string() : raw->st.data.substr(std::min(raw->st.pos, raw->st.data.size())));
    if (out.size() >= 8 && out.compare(out.size() - 8, 8, "livelock") == 0) return out;
    return out + " | left=" + hex(left);
}

// ---- one notification round of ftp::client with observers that unregister observers when they are told
struct round_observer : ftp::observer
{
    int id; ftp::client *cl; std::vector<int> *told;
    std::vector<std::shared_ptr<round_observer>> gone;     // whom this observer unregisters when it is told
    void on_connected(std::string_view, std::uint16_t) override {}
    void on_request(std::string_view) override
    {
        told->push_back(id);
        for (auto & o : gone) cl->remove_observer(o);
    }
    void on_reply(const ftp::reply &) override {}
    void on_file_list(std::string_view) override {}
};

static std::string run_obsround(const std::vector<std::string> & f)
{
    // obsround <registered ids, in order | -> <o:a.b;o2:c | ->
    std::vector<size_t> live = ints_of(f.at(1));
    std::map<int, std::vector<int>> react;
    if (f.at(2) != "-")
    {
        std::stringstream ss(f.at(2)); std::string e;
        while (std::getline(ss, e, ';'))
        {
            size_t c = e.find(':');
            int o = std::stoi(e.substr(0, c));
            std::stringstream ls(e.substr(c + 1)); std::string x;
            while (std::getline(ls, x, '.')) react[o].push_back(std::stoi(x));
        }
    }
    ftp::client cl;
    std::vector<int> told;
    std::map<int, std::shared_ptr<round_observer>> obs;
    auto get = [&](int id) {
        if (!obs.count(id)) { auto o = std::make_shared<round_observer>(); o->id = id; o->cl = &cl; o->told = &told; obs[id] = o; }
        return obs[id];
    };
    for (size_t id : live) get((int)id);
    for (auto & kv : react) for (int g : kv.second) get(kv.first)->gone.push_back(get(g));
    for (size_t id : live) cl.add_observer(get((int)id));
    cl.notify_request("X");
    auto show = [](const std::vector<int> & v) { std::string s; for (int x : v) { if (!s.empty()) s += ","; s += std::to_string(x); } return s.empty() ? std::string("-") : s; };
    std::vector<int> left;
    for (auto & o : cl.observers_) left.push_back(static_cast<round_observer *>(o.get())->id);
    std::string out = "told=" + show(told) + " live=" + show(left);
    for (auto & kv : obs) kv.second->gone.clear();       // break the reference cycles
    return out;
}

std::string leaf_ext_run(const std::vector<std::string> & f)
{
    const std::string & k = f.at(0);
    if (k == "frame") return run_frame(f);
    if (k == "obsround") return run_obsround(f);
    if (k == "wfcheck") return "ok";
    if (k == "parse" || k == "parse_rt")
    {
        static const char *names[] = {"open", "mode", "active", "passive", "user", "cd", "cdup", "ls", "put", "get", "rename",
                                      "pwd", "mkdir", "rmdir", "del", "stat", "syst", "type", "binary", "ascii", "size",
                                      "noop", "rhelp", "logout", "close", "help", "exit"};
        std::string line = unhex(f.at(1));
        try
        {
            auto res = parse_command(line);
            int idx = (int)res.first;
            std::string out = (idx >= 0 && idx < 27) ? names[idx] : ("ENUM-OUT-OF-RANGE-" + std::to_string(idx));
            out += " " + std::to_string(res.second.size());
            for (const std::string & a : res.second) out += " " + hex(a);
            return out;
        }
        catch (const cmdline_exception & e)
        {
            return std::string(e.what()) == "Invalid command." ? "invalid" : std::string("invalid-with-other-message");
        }
    }
    if (k == "aup")
    {
        size_t isz = std::stoul(f.at(1));
        std::vector<size_t> sizes = ints_of(f.at(2));
        sched_source src; src.sched = ints_of(f.at(3)); src.data = unhex(f.at(4));
        ascii_istream conv(src, isz);
        std::string all, per;
        size_t limit = 2 * src.data.size() + 2;
        bool stopped = false;
        for (size_t i = 0; i < limit; i++)
        {
            size_t n = sizes[i % sizes.size()];
            std::vector<char> buf(n + 16, '\x5a');
            size_t got = conv.read(buf.data(), n);
            if (got > n) return "OVERRUN";
            for (size_t j = n; j < n + 16; j++) if (buf[j] != '\x5a') return "OVERRUN-WRITE";
            if (got == 0) { stopped = true; break; }
            all.append(buf.data(), got);
            if (!per.empty()) per += ",";
            per += hex(std::string_view(buf.data(), got));
        }
        return hex(all) + " | " + (stopped ? "eof" : "NOT-STOPPED") + " " + per;
    }
    if (k == "adown")
    {
        std::vector<size_t> parts = ints_of(f.at(1));
        std::string data = unhex(f.at(2));
        rec_sink sink;
        ascii_ostream conv(sink);
        size_t pos = 0;
        for (size_t p : parts)
        {
            size_t n = std::min(p, data.size() - pos);
            std::string blk = data.substr(pos, n);
            conv.write(blk.data(), blk.size());
            pos += n;
        }
        if (pos < data.size()) { std::string blk = data.substr(pos); conv.write(blk.data(), blk.size()); }
        conv.flush();
        return hex(sink.content) + " | " + sink.events;
    }
    if (k == "pasv")
    {
        reply r(227, unhex(f.at(1)));
        std::string ip; std::uint16_t port = 0;
        if (!client::try_parse_pasv_reply(r, ip, port)) return "none";
        return hex(ip) + " " + std::to_string(port);
    }
    if (k == "epsv")
    {
        reply r(229, unhex(f.at(1)));
        std::uint16_t port = 0;
        if (!client::try_parse_epsv_reply(r, port)) return "none";
        return std::to_string(port);
    }
    if (k == "portcmd" || k == "eprtcmd" || k == "portcmd@grp" || k == "eprtcmd@grp")
    {
        size_t i = 1;
        boost::asio::ip::address a = ip_of(f, i);
        boost::asio::ip::tcp::endpoint ep(a, (unsigned short)std::stoul(f.at(i)));
        // "@grp": the host application has installed a global C++ locale that groups digits (as en_US does): what goes on
        // the wire is protocol syntax and must not change with it
        struct grouping : std::numpunct<char>
        {
            char do_thousands_sep() const override { return ','; }
            std::string do_grouping() const override { return "\3"; }
        };
        bool grp = k.size() > 4 && k.compare(k.size() - 4, 4, "@grp") == 0;
        std::locale before;
        if (grp) before = std::locale::global(std::locale(std::locale::classic(), new grouping));
        std::string out;
        try { out = hex(k[0] == 'p' ? client::make_port_command(ep) : client::make_eprt_command(ep)); }
        catch (...) { if (grp) std::locale::global(before); throw; }
        if (grp) std::locale::global(before);
        return out;
    }
    if (k == "port_rt")
    {
        size_t i = 0;
        std::vector<std::string> g = {"4", f.at(1), f.at(2), f.at(3), f.at(4)};
        boost::asio::ip::address a = ip_of(g, i);
        boost::asio::ip::tcp::endpoint ep(a, (unsigned short)std::stoul(f.at(5)));
        std::string cmd = client::make_port_command(ep);
        reply r(227, "227 ok (" + cmd.substr(5) + ").");
        std::string ip; std::uint16_t port = 0;
        if (!client::try_parse_pasv_reply(r, ip, port)) return "none";
        return hex(ip) + " " + std::to_string(port);
    }
    if (k == "eprt_rt")
    {
        boost::asio::ip::tcp::endpoint ep(boost::asio::ip::make_address("127.0.0.1"), (unsigned short)std::stoul(f.at(1)));
        std::string cmd = client::make_eprt_command(ep);
        std::vector<std::string> parts = ftp::detail::utils::split_string(cmd, '|');
        reply r(229, "229 ok (|||" + parts.at(3) + "|)");
        std::uint16_t port = 0;
        if (!client::try_parse_epsv_reply(r, port)) return "none";
        return std::to_string(port);
    }
    return "IMPL-ERROR unknown case kind " + k;
}
