// leaf_ext.cpp - further case kinds of the leaf driver
#include <ftp/ftp.hpp>
#include <ftp/detail/utils.hpp>
#include <boost/asio/ip/address.hpp>
#include <boost/asio/ip/tcp.hpp>
#include <ftp/detail/ascii_istream.hpp>
#include <ftp/detail/ascii_ostream.hpp>
#include "leaf_ext.hpp"
#include "hexio.hpp"
#include <cstring>
#include <algorithm>

using namespace ftp;
using namespace ftp::detail;

static boost::asio::ip::address ip_of(const std::vector<std::string> & f, size_t & i)
{
    if (f.at(i) == "4")
    {
        std::string t = f.at(i + 1) + "." + f.at(i + 2) + "." + f.at(i + 3) + "." + f.at(i + 4);
        i += 5;
        return boost::asio::ip::make_address(t);
    }
    std::string t = unhex(f.at(i + 1));
    i += 2;
    return boost::asio::ip::make_address(t);
}

static std::vector<size_t> ints_of(const std::string & s)
{
    std::vector<size_t> v;
    if (s == "-") return v;
    std::istringstream iss(s); std::string t;
    while (std::getline(iss, t, ',')) v.push_back(std::stoul(t));
    return v;
}

// source with a short-read schedule and sticky end-of-file
struct sched_source : ftp::input_stream
{
    std::string data; size_t pos = 0; std::vector<size_t> sched; size_t calls = 0;
    std::size_t read(char *buf, std::size_t size) override
    {
        size_t k = size;
        if (!sched.empty()) k = std::min(k, std::max<size_t>(1, sched[calls % sched.size()]));
        calls++;
        k = std::min(k, data.size() - pos);
        memcpy(buf, data.data() + pos, k);
        pos += k;
        return k;
    }
};

struct rec_sink : ftp::output_stream
{
    std::string content; std::string events;
    void write(char *buf, std::size_t size) override
    {
        content.append(buf, size);
        if (!events.empty()) events += ",";
        events += "W:" + hex(std::string_view(buf, size));
    }
    void flush() override { if (!events.empty()) events += ","; events += "F"; }
};

std::string leaf_ext_run(const std::vector<std::string> & f)
{
    const std::string & k = f.at(0);
    if (k == "aup")
    {
        size_t isz = std::stoul(f.at(1));
        std::vector<size_t> sizes = ints_of(f.at(2));
        sched_source src; src.sched = ints_of(f.at(3)); src.data = unhex(f.at(4));
        ascii_istream conv(src, isz);
        std::string all, per;
        size_t limit = 2 * src.data.size() + 2;
        bool stopped = false;
        for (size_t i = 0; i < limit; i++)
        {
            size_t n = sizes[i % sizes.size()];
            std::vector<char> buf(n + 16, '\x5a');
            size_t got = conv.read(buf.data(), n);
            if (got > n) return "OVERRUN";
            for (size_t j = n; j < n + 16; j++) if (buf[j] != '\x5a') return "OVERRUN-WRITE";
            if (got == 0) { stopped = true; break; }
            all.append(buf.data(), got);
            if (!per.empty()) per += ",";
            per += hex(std::string_view(buf.data(), got));
        }
        return hex(all) + " | " + (stopped ? "eof" : "NOT-STOPPED") + " " + per;
    }
    if (k == "adown")
    {
        std::vector<size_t> parts = ints_of(f.at(1));
        std::string data = unhex(f.at(2));
        rec_sink sink;
        ascii_ostream conv(sink);
        size_t pos = 0;
        for (size_t p : parts)
        {
            size_t n = std::min(p, data.size() - pos);
            std::string blk = data.substr(pos, n);
            conv.write(blk.data(), blk.size());
            pos += n;
        }
        if (pos < data.size()) { std::string blk = data.substr(pos); conv.write(blk.data(), blk.size()); }
        conv.flush();
        return hex(sink.content) + " | " + sink.events;
    }
    if (k == "pasv")
    {
        reply r(227, unhex(f.at(1)));
        std::string ip; std::uint16_t port = 0;
        if (!client::try_parse_pasv_reply(r, ip, port)) return "none";
        return hex(ip) + " " + std::to_string(port);
    }
    if (k == "epsv")
    {
        reply r(229, unhex(f.at(1)));
        std::uint16_t port = 0;
        if (!client::try_parse_epsv_reply(r, port)) return "none";
        return std::to_string(port);
    }
    if (k == "portcmd" || k == "eprtcmd")
    {
        size_t i = 1;
        boost::asio::ip::address a = ip_of(f, i);
        boost::asio::ip::tcp::endpoint ep(a, (unsigned short)std::stoul(f.at(i)));
        return hex(k == "portcmd" ? client::make_port_command(ep) : client::make_eprt_command(ep));
    }
    if (k == "port_rt")
    {
        size_t i = 0;
        std::vector<std::string> g = {"4", f.at(1), f.at(2), f.at(3), f.at(4)};
        boost::asio::ip::address a = ip_of(g, i);
        boost::asio::ip::tcp::endpoint ep(a, (unsigned short)std::stoul(f.at(5)));
        std::string cmd = client::make_port_command(ep);
        reply r(227, "227 ok (" + cmd.substr(5) + ").");
        std::string ip; std::uint16_t port = 0;
        if (!client::try_parse_pasv_reply(r, ip, port)) return "none";
        return hex(ip) + " " + std::to_string(port);
    }
    if (k == "eprt_rt")
    {
        boost::asio::ip::tcp::endpoint ep(boost::asio::ip::make_address("127.0.0.1"), (unsigned short)std::stoul(f.at(1)));
        std::string cmd = client::make_eprt_command(ep);
        std::vector<std::string> parts = utils::split_string(cmd, '|');
        reply r(229, "229 ok (|||" + parts.at(3) + "|)");
        std::uint16_t port = 0;
        if (!client::try_parse_epsv_reply(r, port)) return "none";
        return std::to_string(port);
    }
    return "IMPL-ERROR unknown case kind " + k;
}
