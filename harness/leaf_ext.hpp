// leaf_ext.hpp - further case kinds of the leaf driver (added as the model grows)
#pragma once
#include <string>
#include <vector>
std::string leaf_ext_run(const std::vector<std::string> & f);
