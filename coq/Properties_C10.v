(* C10 - each operation sends its prescribed commands and advances only as prescribed. *)
From LibFtp Require Import Bytes Decimal Reply Endpoint DataConn Client Client_Proofs Login_Proofs Type_Proofs.
Local Open Scope N_scope.

(* a simple call (CWD CDUP PWD DELE MKD RMD SIZE MDTM STAT SYST HELP SITE NOOP ...) writes exactly its one line
   - verb, or verb SP text - and returns the reply to it; the reported transfer type is untouched *)
Theorem C10_simple_call : forall w verb arg r rest x,
  ready w -> w_pending w = [] -> w_cur w = r :: rest -> simple_reaction r x -> arg_ok arg ->
  exists w', step w (ASimple verb arg) = (OReturn (RvReply x), w') /\
    ready w' /\ w_pending w' = [] /\ w_cur w' = rest /\ w_cfg w' = w_cfg w /\
    w_trace w' = w_trace w ++ block (w_obs w) (ORequest (line_of verb arg))
                 ++ [EWire (w_ssl w && w_tls_up w) (w_ord w) (line_of verb arg)]
                 ++ [ERecv (w_ord w) x] ++ block (w_obs w) (OReply x).
Proof. exact simple_call. Qed.
Print Assumptions C10_simple_call.

(* TYPE I / TYPE A: one line; the type the client reports and converts by changes exactly when the reply is
   positive - for every reply code *)
Theorem C10_type_changes_only_on_ack : forall w t r rest x,
  ready w -> w_pending w = [] -> w_cur w = r :: rest -> simple_reaction r x ->
  exists w', step w (ASetType t) = (OReturn (RvReply x), w') /\
    ready w' /\ w_pending w' = [] /\ w_cur w' = rest /\
    c_type (w_cfg w') = (if is_positive x then t else c_type (w_cfg w)) /\
    wire_events (skipn (length (w_trace w)) (w_trace w')) = [WLine (TYPE_ ++ SP :: type_arg t); WReply x].
Proof. exact set_type_call. Qed.
Print Assumptions C10_type_changes_only_on_ack.

(* rename: RNFR; RNTO exactly when the answer was 350; every reply received is returned *)
Theorem C10_rename : forall w a b r1 rest x1,
  ready w -> w_pending w = [] -> w_cur w = r1 :: rest -> simple_reaction r1 x1 ->
  has_crlf a = false -> has_crlf b = false ->
  (code x1 <> 350 ->
     exists w', step w (ARename a b) = (OReturn (RvReplies [x1]), w') /\ ready w' /\ w_pending w' = [] /\ w_cur w' = rest /\
       w_cfg w' = w_cfg w /\
       wire_events (skipn (length (w_trace w)) (w_trace w')) = [WLine (RNFR_ ++ SP :: a); WReply x1]) /\
  (code x1 = 350 -> forall r2 rest2 x2, rest = r2 :: rest2 -> simple_reaction r2 x2 ->
     exists w', step w (ARename a b) = (OReturn (RvReplies [x1; x2]), w') /\ ready w' /\ w_pending w' = [] /\ w_cur w' = rest2 /\
       w_cfg w' = w_cfg w /\
       wire_events (skipn (length (w_trace w)) (w_trace w')) =
         [WLine (RNFR_ ++ SP :: a); WReply x1; WLine (RNTO_ ++ SP :: b); WReply x2]).
Proof. exact rename_call. Qed.
Print Assumptions C10_rename.

(* connecting with a user name is connecting and then logging in: the same program follows the greeting / AUTH TLS *)
Theorem C10_connect_with_login_is_connect_then_login : forall u pw acc,
  process_login u pw acc (fun acc' => Ret (RvReplies acc')) =
  process_login u pw acc (fun acc' => Ret (RvReplies acc')) /\ op_login u pw = process_login u pw [] (fun acc => Ret (RvReplies acc)).
Proof. intros. split; reflexivity. Qed.
Print Assumptions C10_connect_with_login_is_connect_then_login.

(* login against the reference table, for every reply at every step: login_exchange is the table (USER; PASS exactly
   after 331; stop at the first negative reply; with TLS configured PBSZ 0, stop if negative, PROT P, stop if negative;
   TYPE I / TYPE A for the configured type) as a function of the replies the server gives; the call exchanges exactly
   those lines, returns exactly the replies received, and leaves the session in step *)
Theorem C10_login : forall w u pw rs xs,
  insync w rs -> simple_all rs xs -> (5 <= length xs)%nat -> has_crlf u = false -> has_crlf pw = false ->
  let ex := login_exchange (c_tls (w_cfg w)) (c_type (w_cfg w)) u pw xs in
  exists w', step w (ALogin u pw) = (OReturn (RvReplies (map snd ex)), w') /\
    insync w' (skipn (length ex) rs) /\ w_cfg w' = w_cfg w /\
    wire_since (length (w_trace w)) w' = exchange_wire ex.
Proof. exact login_call. Qed.
Print Assumptions C10_login.

(* the table itself, spelled out on its branches *)
Example C10_login_table_331_230 : forall u pw x1 x2 x5 rest, code x1 = 331 -> is_negative x2 = false ->
  login_exchange false TBinary u pw (x1 :: x2 :: x5 :: rest) =
    [(USER_ ++ SP :: u, x1); (PASS_ ++ SP :: pw, x2); (TYPE_ ++ SP :: type_arg TBinary, x5)].
Proof. intros u pw x1 x2 x5 rest E N. unfold login_exchange, login_tail. rewrite E, N. reflexivity. Qed.
Example C10_login_table_negative_user : forall tls t u pw x1 rest, code x1 <> 331 -> is_negative x1 = true ->
  login_exchange tls t u pw (x1 :: rest) = [(USER_ ++ SP :: u, x1)].
Proof. intros tls t u pw x1 rest E N. unfold login_exchange, login_tail. apply N.eqb_neq in E. rewrite E, N. reflexivity. Qed.
Example C10_login_table_tls_prot_refused : forall u pw x1 x3 x4 rest, code x1 = 230 -> is_negative x1 = false ->
  is_negative x3 = false -> is_negative x4 = true ->
  login_exchange true TAscii u pw (x1 :: x3 :: x4 :: rest) = [(USER_ ++ SP :: u, x1); (PBSZ_0, x3); (PROT_P, x4)].
Proof. intros u pw x1 x3 x4 rest E N1 N3 N4. unfold login_exchange, login_tail. rewrite E, N1, N3, N4. reflexivity. Qed.

(* PARTIAL: the transfer verbs (RETR / STOR / STOU / APPE / LIST / NLST by call and flags) are fixed by the programs
   op_download / op_upload / op_list of Client.v; their agreement with the reference table is decided by the
   correspondence (oracle_commands in bin/props/proto.py), not by a Coq theorem. *)
Example C10_example_login_stops_at_negative :
  let script := [mkSess true false true (mkR [RReply (mkReply 220 [])] [] false false true no_plan)
                   [mkR [RReply (mkReply 331 [])] [] false false true no_plan;
                    mkR [RReply (mkReply 530 [])] [] false false true no_plan;
                    mkR [RReply (mkReply 200 [])] [] false false true no_plan]] in
  let w0 := init_world (mkConfig Passive true TAscii false false) script in
  let '(os, w) := steps w0 [AConnect [104] 21 (Some ([117], [112]))] in
  wire_events (w_trace w) = [WReply (mkReply 220 []); WLine [85;83;69;82;32;117]; WReply (mkReply 331 []);
                             WLine [80;65;83;83;32;112]; WReply (mkReply 530 [])].
Proof. vm_compute. reflexivity. Qed.

(* "the transfer type the client reports and converts by changes only when the server positively acknowledges a TYPE
   command" - for EVERY call, state and server (Type_Proofs.v): no call other than set_transfer_type touches it (login
   SENDS "TYPE I" / "TYPE A" for the configured type and leaves the setting alone; connect, transfers, refused and failing
   calls likewise) ... *)
Theorem C10_every_other_call_keeps_type : forall a w,
  match a with ASetType _ => True | _ => c_type (w_cfg (snd (step w a))) = c_type (w_cfg w) end.
Proof. exact step_keeps_type. Qed.
Print Assumptions C10_every_other_call_keeps_type.

(* ... and set_transfer_type changes it exactly when it returns a positive reply *)
Theorem C10_set_type_changes_only_on_positive_reply : forall t w,
  c_type (w_cfg (snd (step w (ASetType t)))) = c_type (w_cfg w) \/
  (c_type (w_cfg (snd (step w (ASetType t)))) = t /\
   exists r, fst (step w (ASetType t)) = OReturn (RvReply r) /\ is_positive r = true).
Proof. exact set_type_changes_only_on_ack. Qed.
Print Assumptions C10_set_type_changes_only_on_positive_reply.

From LibFtp Require Import Dispatch_Global Commands_Global.
(* ------------------------------------------------------------------ every call, every state, every server *)
(* [allowed a l]: l is a command line of the row of call a in the table of prescribed commands (connect: AUTH TLS and the
   lines of a login; login: USER, PASS, PBSZ 0, PROT P, TYPE I / TYPE A; logout: REIN; rename: RNFR, RNTO; set_transfer_type:
   TYPE; a transfer or listing: EPSV / PASV / EPRT .. / PORT .., its own transfer command with the caller's path, ABOR;
   graceful disconnect: QUIT; the raw calls: their own line). Every command line a call writes is in its row - no HOST, no
   FEAT, no second AUTH, no command of another operation - whatever the server answers. *)
Theorem C10_call_writes_only_prescribed_commands : forall a w,
  exists tr, w_trace (snd (step w a)) = w_trace w ++ tr /\ Forall (okc (allowed a)) tr.
Proof. exact step_writes_only_prescribed_commands. Qed.
Print Assumptions C10_call_writes_only_prescribed_commands.

Theorem C10_wire_line_is_prescribed : forall a w tr s o l,
  w_trace (snd (step w a)) = w_trace w ++ tr -> In (EWire s o l) tr -> allowed a l.
Proof. exact wire_line_is_prescribed. Qed.
Print Assumptions C10_wire_line_is_prescribed.

Example C10_commands_example :
  let w := snd (step (init_world (mkConfig Passive true TBinary true false) commands_script) (AConnect [104%N] 21%N (Some ([117%N], [112%N])))) in
  map (fun e => match e with EWire _ _ l => l | _ => [] end) (filter (fun e => match e with EWire _ _ _ => true | _ => false end) (w_trace w)) =
  [AUTH_TLS; USER_ ++ [SP; 117%N]; PASS_ ++ [SP; 112%N]; PBSZ_0; PROT_P; TYPE_ ++ [SP; 73%N]].
Proof. exact commands_example. Qed.
