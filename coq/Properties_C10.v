(* C10 - each operation sends its prescribed commands and advances only as prescribed. *)
From LibFtp Require Import Bytes Decimal Reply Endpoint DataConn Client Client_Proofs.
Local Open Scope N_scope.

(* a simple call (CWD CDUP PWD DELE MKD RMD SIZE MDTM STAT SYST HELP SITE NOOP ...) writes exactly its one line
   - verb, or verb SP text - and returns the reply to it; the reported transfer type is untouched *)
Theorem C10_simple_call : forall w verb arg r rest x,
  ready w -> w_pending w = [] -> w_cur w = r :: rest -> simple_reaction r x -> arg_ok arg ->
  exists w', step w (ASimple verb arg) = (OReturn (RvReply x), w') /\
    ready w' /\ w_pending w' = [] /\ w_cur w' = rest /\ w_cfg w' = w_cfg w /\
    w_trace w' = w_trace w ++ block (w_obs w) (ORequest (line_of verb arg))
                 ++ [EWire (w_ssl w && w_tls_up w) (w_ord w) (line_of verb arg)]
                 ++ [ERecv (w_ord w) x] ++ block (w_obs w) (OReply x).
Proof. exact simple_call. Qed.
Print Assumptions C10_simple_call.

(* TYPE I / TYPE A: one line; the type the client reports and converts by changes exactly when the reply is
   positive - for every reply code *)
Theorem C10_type_changes_only_on_ack : forall w t r rest x,
  ready w -> w_pending w = [] -> w_cur w = r :: rest -> simple_reaction r x ->
  exists w', step w (ASetType t) = (OReturn (RvReply x), w') /\
    ready w' /\ w_pending w' = [] /\ w_cur w' = rest /\
    c_type (w_cfg w') = (if is_positive x then t else c_type (w_cfg w)) /\
    wire_events (skipn (length (w_trace w)) (w_trace w')) = [WLine (TYPE_ ++ SP :: type_arg t); WReply x].
Proof. exact set_type_call. Qed.
Print Assumptions C10_type_changes_only_on_ack.

(* rename: RNFR; RNTO exactly when the answer was 350; every reply received is returned *)
Theorem C10_rename : forall w a b r1 rest x1,
  ready w -> w_pending w = [] -> w_cur w = r1 :: rest -> simple_reaction r1 x1 ->
  has_crlf a = false -> has_crlf b = false ->
  (code x1 <> 350 ->
     exists w', step w (ARename a b) = (OReturn (RvReplies [x1]), w') /\ ready w' /\ w_pending w' = [] /\ w_cur w' = rest /\
       wire_events (skipn (length (w_trace w)) (w_trace w')) = [WLine (RNFR_ ++ SP :: a); WReply x1]) /\
  (code x1 = 350 -> forall r2 rest2 x2, rest = r2 :: rest2 -> simple_reaction r2 x2 ->
     exists w', step w (ARename a b) = (OReturn (RvReplies [x1; x2]), w') /\ ready w' /\ w_pending w' = [] /\ w_cur w' = rest2 /\
       wire_events (skipn (length (w_trace w)) (w_trace w')) =
         [WLine (RNFR_ ++ SP :: a); WReply x1; WLine (RNTO_ ++ SP :: b); WReply x2]).
Proof. exact rename_call. Qed.
Print Assumptions C10_rename.

(* connecting with a user name is connecting and then logging in: the same program follows the greeting / AUTH TLS *)
Theorem C10_connect_with_login_is_connect_then_login : forall u pw acc,
  process_login u pw acc (fun acc' => Ret (RvReplies acc')) =
  process_login u pw acc (fun acc' => Ret (RvReplies acc')) /\ op_login u pw = process_login u pw [] (fun acc => Ret (RvReplies acc)).
Proof. intros. split; reflexivity. Qed.
Print Assumptions C10_connect_with_login_is_connect_then_login.

(* PARTIAL: the login sequence (USER, PASS iff 331, stop at the first negative reply, PBSZ 0 / PROT P with TLS, TYPE)
   and the transfer verbs are fixed by the programs process_login / create_data_connection in Client.v; their
   agreement with the reference table for every reply class at every step is decided by the correspondence
   (oracle_commands in bin/props/proto.py), not by a Coq theorem. *)
Example C10_example_login_stops_at_negative :
  let script := [mkSess true false true (mkR [RReply (mkReply 220 [])] [] false false true no_plan)
                   [mkR [RReply (mkReply 331 [])] [] false false true no_plan;
                    mkR [RReply (mkReply 530 [])] [] false false true no_plan;
                    mkR [RReply (mkReply 200 [])] [] false false true no_plan]] in
  let w0 := init_world (mkConfig Passive true TAscii false false) script in
  let '(os, w) := steps w0 [AConnect [104] 21 (Some ([117], [112]))] in
  wire_events (w_trace w) = [WReply (mkReply 220 []); WLine [85;83;69;82;32;117]; WReply (mkReply 331 []);
                             WLine [80;65;83;83;32;112]; WReply (mkReply 530 [])].
Proof. vm_compute. reflexivity. Qed.
