(* Framing.v - model of socket_base::match_eol + boost::asio::read_until over a dynamic string
   buffer with a size cap (include/ftp/detail/socket_base.hpp:98-141), control_connection::read_line
   (src/control_connection.cpp:276-295) and control_connection::recv (132-236; its 421 branch is [recv_step]).
   [strict_cr] = the code after "fix: do not split a CRLF line terminator that spans two reads";
   [eof_check] = the code after "fix: report an error when the control connection is closed inside
   a multi-line reply". Both false = the pinned code. *)
From LibFtp Require Export Bytes Decimal Reply.
Local Open Scope N_scope.

Record fcfg := mkCfg { strict_cr : bool; eof_check : bool; maxb : nat }.

(* ---- transport: what is still to arrive, how the network cuts it, how it ends ---- *)
Inductive ending := EndEof | EndErr.
Record transport := mkT { unread : bytes; sched : list nat; tend : ending }.

Inductive rd := RdData (d : bytes) | RdEof | RdErr.

(* read_some(max): at least one byte while data is left; the schedule decides how many (an
   exhausted schedule means "whatever is there") *)
Definition read_some (t : transport) (max : nat) : rd * transport :=
  match unread t with
  | [] => (match tend t with EndEof => RdEof | EndErr => RdErr end, t)
  | _ =>
      let want := match sched t with [] => max | k :: _ => Nat.min max (Nat.max 1 k) end in
      let k := Nat.max 1 want in
      (RdData (firstn k (unread t)), mkT (skipn k (unread t)) (tl (sched t)) (tend t))
  end.

(* ---- match_eol over the buffered bytes: Some n = full match ending at n, None = read on ---- *)
Fixpoint find_eol (strict : bool) (buf : bytes) (pos : nat) : option nat :=
  match buf with
  | [] => None
  | c :: rest =>
      if c =? LF then Some (S pos)
      else if c =? CR then
        match rest with
        | [] => if strict then None else Some (S pos)
        | d :: _ => if d =? LF then Some (S (S pos)) else Some (S pos)
        end
      else find_eol strict rest (S pos)
  end.

Inductive ru_result := RuLine (n : nat) | RuEof | RuErr | RuNotFound | RuOutOfFuel.

(* boost::asio::read_until: search, "buffer full => not_found", read some more *)
Fixpoint read_until (fuel : nat) (c : fcfg) (buf : bytes) (t : transport) : ru_result * bytes * transport :=
  match find_eol (strict_cr c) buf 0 with
  | Some n => (RuLine n, buf, t)
  | None =>
      if Nat.leb (maxb c) (length buf) then (RuNotFound, buf, t)
      else match read_some t (maxb c - length buf) with
           | (RdEof, t') => (RuEof, buf, t')
           | (RdErr, t') => (RuErr, buf, t')
           | (RdData d, t') =>
               match fuel with
               | O => (RuOutOfFuel, buf ++ d, t')
               | S f => read_until f c (buf ++ d) t'
               end
           end
  end.

Inductive res (A : Type) := Ok (a : A) | Exn | OutOfFuel.
Arguments Ok {A} a. Arguments Exn {A}. Arguments OutOfFuel {A}.

Record conn := mkConn { buffer : bytes; tr : transport }.

(* control_connection::read_line: eof is ignored (an empty line is returned), other errors throw *)
Definition read_line (c : fcfg) (s : conn) : res bytes * conn :=
  let '(r, buf, t) := read_until (S (length (unread (tr s)))) c (buffer s) (tr s) in
  match r with
  | RuLine n => (Ok (firstn n buf), mkConn (skipn n buf) t)
  | RuEof => (Ok [], mkConn buf t)
  | RuErr | RuNotFound => (Exn, mkConn buf t)
  | RuOutOfFuel => (OutOfFuel, mkConn buf t)
  end.

Definition try_parse_status_code (line : bytes) : option N :=
  if Nat.ltb (length line) 3 then None else try_parse_uint16 (firstn 3 line).

Definition is_last_line (line : bytes) (code : N) : bool :=
  if Nat.ltb (length line) 4 then false
  else if negb (nth 3 line 0 =? SP) then false
  else match try_parse_status_code line with
       | Some c => c =? code
       | None => false
       end.

(* the multi-line loop *)
Fixpoint recv_more (fuel : nat) (c : fcfg) (code : N) (acc : bytes) (s : conn) : res bytes * conn :=
  match fuel with
  | O => (OutOfFuel, s)
  | S f =>
      match read_line c s with
      | (Ok line, s') =>
          if eof_check c && (match line with [] => true | _ => false end) then (Exn, s')
          else if is_last_line line code then (Ok (acc ++ line), s')
          else recv_more f c code (acc ++ line) s'
      | (Exn, s') => (Exn, s')
      | (OutOfFuel, s') => (OutOfFuel, s')
      end
  end.

(* pop_back of one trailing LF, then of one trailing CR *)
Definition strip_eol (s : bytes) : bytes :=
  let s1 := if last s 0 =? LF then removelast s else s in
  if last s1 0 =? CR then removelast s1 else s1.

Definition recv_fuel (fuel : nat) (c : fcfg) (s : conn) : res reply * conn :=
  match read_line c s with
  | (Ok line, s1) =>
      match try_parse_status_code line with
      | None => (Exn, s1)
      | Some code =>
          if Nat.ltb 3 (length line) && (nth 3 line 0 =? DASH) then
            match recv_more fuel c code line s1 with
            | (Ok status, s2) => (Ok (mkReply code (strip_eol status)), s2)
            | (Exn, s2) => (Exn, s2)
            | (OutOfFuel, s2) => (OutOfFuel, s2)
            end
          else (Ok (mkReply code (strip_eol line)), s1)
      end
  | (Exn, s1) => (Exn, s1)
  | (OutOfFuel, s1) => (OutOfFuel, s1)
  end.

(* enough fuel for every run of the fixed code: one unit per byte that can still be consumed *)
Definition recv (c : fcfg) (s : conn) : res reply * conn :=
  recv_fuel (S (length (buffer s) + length (unread (tr s)))) c s.

Definition fixed_cfg (m : nat) : fcfg := mkCfg true true m.
Definition pinned_cfg (m : nat) : fcfg := mkCfg false false m.

(* the 421 rule of control_connection::recv: the reply is returned, the connection is closed and what was still
   unread is dropped (control_connection::disconnect); every later receive step fails *)
Definition closed_conn : conn := mkConn [] (mkT [] [] EndErr).
Definition recv_step (c : fcfg) (s : conn) : res reply * conn :=
  let '(r, s') := recv c s in
  match r with
  | Ok rep => if code rep =? 421 then (r, closed_conn) else (r, s')
  | _ => (r, s')
  end.

(* k successive receive steps *)
Fixpoint recv_n (k : nat) (c : fcfg) (s : conn) : list (res reply) * conn :=
  match k with
  | O => ([], s)
  | S k' => let '(r, s') := recv_step c s in
            match r with
            | Ok _ => let '(rs, s'') := recv_n k' c s' in (r :: rs, s'')
            | _ => ([r], s')
            end
  end.

(* a history of the control connection: receive steps with commands sent in between. control_connection::send
   (src/control_connection.cpp) writes the line to the socket; it reads nothing and leaves buffer_ alone, so bytes
   already taken from the network behind an earlier reply stay where they are *)
Inductive cop := CRecv | CSend.
Fixpoint run_ops (ops : list cop) (c : fcfg) (s : conn) : list (res reply) * conn :=
  match ops with
  | [] => ([], s)
  | CSend :: ops' => run_ops ops' c s
  | CRecv :: ops' => let '(r, s') := recv_step c s in
                     match r with
                     | Ok _ => let '(rs, s'') := run_ops ops' c s' in (r :: rs, s'')
                     | _ => ([r], s')
                     end
  end.
Fixpoint count_recv (ops : list cop) : nat :=
  match ops with [] => O | CRecv :: t => S (count_recv t) | CSend :: t => count_recv t end.
