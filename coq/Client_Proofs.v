(* Client_Proofs.v - generic lemmas about the interpreter [run], proved once by induction over programs. *)
From LibFtp Require Import Bytes Decimal Reply Endpoint DataConn Client.
Local Open Scope N_scope.

(* ------------------------------------------------------------------ the trace only grows *)
Definition ext (w w' : world) : Prop := exists tr, w_trace w' = w_trace w ++ tr.

Lemma ext_refl w : ext w w.
Proof. exists []. rewrite app_nil_r. reflexivity. Qed.

Lemma ext_trans a b c : ext a b -> ext b c -> ext a c.
Proof. intros (t1 & H1) (t2 & H2). exists (t1 ++ t2). rewrite H2, H1, app_assoc. reflexivity. Qed.

Lemma ext_same a b : w_trace b = w_trace a -> ext a b.
Proof. intro H. exists []. rewrite app_nil_r. exact H. Qed.

Lemma ext_emit w es : ext w (emit w es).
Proof. exists es. reflexivity. Qed.

Lemma ext_notify w e : ext w (notify w e).
Proof. apply ext_emit. Qed.

Lemma ext_peer_react w : ext w (peer_react w).
Proof. unfold peer_react. destruct (w_cur w); apply ext_same; reflexivity. Qed.

Lemma ext_release w : ext w (release_pending w).
Proof. apply ext_same. reflexivity. Qed.

Lemma ext_set_data a b d : ext a b -> ext a (set_data b d).
Proof. intro H. eapply ext_trans; [exact H|apply ext_same; reflexivity]. Qed.

Lemma ext_close_data w : ext w (close_data w).
Proof.
  unfold close_data. destruct (w_data w) as [d|]; [|apply ext_refl]. cbv zeta.
  apply ext_set_data.
  assert (A : ext w (if d_sock d then release_pending (emit w [EData DClose]) else w)).
  { destruct (d_sock d); [|apply ext_refl]. eapply ext_trans; [apply ext_emit|apply ext_release]. }
  destruct (d_acc d); [|exact A]. eapply ext_trans; [exact A|apply ext_emit].
Qed.

Ltac ext_calc :=
  first [ apply ext_same; reflexivity
        | unfold ext; eexists;
          cbn [w_trace set_data set_io set_cfg set_ctl set_queues set_obs emit set_trace notify release_pending];
          rewrite <- ?app_assoc; reflexivity ].

Lemma ext_do_send w line w' : do_send w line = Some w' -> ext w w'.
Proof.
  unfold do_send. destruct (negb (w_open (notify w (ORequest line)))); [discriminate|].
  destruct (w_ssl _ && negb (w_tls_up _)); [discriminate|].
  destruct (w_peer_closed _); intro H; inversion H; subst.
  - ext_calc.
  - eapply ext_trans; [|apply ext_peer_react]. ext_calc.
Qed.

Lemma ext_ctl_disconnect w : ext w (snd (ctl_disconnect w)).
Proof. unfold ctl_disconnect. cbn [snd]. ext_calc. Qed.

Lemma run_ext : forall p w, ext w (snd (run p w)).
Proof.
  induction p as [v| |a k IH|verb arg k IH|line k IH|a k IH|k IH|e k IH|k IH|t k IH|k IH|k IH|h pt k IH|on k IH|k IH|k IH|k IH
                 |k IH|ip port k IH|k IH|k IH|k IH|g k IH|k IH|k IH|k IH|k IH|body IH]; intro w; cbn [run].
  - apply ext_refl.
  - apply ext_refl.
  - destruct (has_crlf a); [apply ext_refl|apply IH].
  - destruct arg as [a|].
    + destruct (has_crlf a); [apply ext_refl|].
      destruct (do_send w (verb ++ SP :: a)) as [w'|] eqn:E; cbn [snd].
      * eapply ext_trans; [eapply ext_do_send; eauto|apply IH].
      * apply ext_notify.
    + destruct (do_send w verb) as [w'|] eqn:E; cbn [snd].
      * eapply ext_trans; [eapply ext_do_send; eauto|apply IH].
      * apply ext_notify.
  - destruct (do_send w line) as [w'|] eqn:E; cbn [snd].
    + eapply ext_trans; [eapply ext_do_send; eauto|apply IH].
    + apply ext_notify.
  - destruct (match a with AdvEprt => _ | AdvPort => _ end) as [line|]; [|apply ext_refl].
    destruct (do_send w line) as [w'|] eqn:E; cbn [snd].
    + eapply ext_trans; [eapply ext_do_send; eauto|apply IH].
    + apply ext_notify.
  - destruct (negb (w_open w)); [apply ext_refl|].
    destruct (w_backlog w) as [|[t [r|]] rest].
    + destruct (w_peer_closed w); apply ext_refl.
    + destruct (code r =? 421).
      * destruct (ctl_disconnect _) as [ok w2] eqn:D.
        assert (X : ext w w2).
        { eapply ext_trans; [|pose proof (ext_ctl_disconnect (emit (set_queues w rest (w_pending w)) [ERecv t r])) as Y;
                               rewrite D in Y; exact Y]. ext_calc. }
        destruct ok; cbn [snd]; [|exact X].
        eapply ext_trans; [exact X|]. eapply ext_trans; [apply ext_notify|apply IH].
      * eapply ext_trans; [|apply IH]. ext_calc.
    + cbn [snd]. ext_calc.
  - eapply ext_trans; [apply ext_notify|apply IH].
  - apply IH.
  - eapply ext_trans; [|apply IH]. ext_calc.
  - apply IH.
  - apply IH.
  - (* CtlConnect *)
    match goal with |- context [match w_script ?w0 with _ => _ end] => set (W0 := w0) end.
    assert (X0 : ext w W0).
    { unfold W0. destruct (w_open w); ext_calc. }
    destruct (w_script W0) as [|s rest]; cbn [snd].
    + eapply ext_trans; [exact X0|ext_calc].
    + destruct (negb (s_reachable s)); cbn [snd].
      * eapply ext_trans; [exact X0|]. unfold ext. eexists. cbn [w_trace emit set_trace]. reflexivity.
      * eapply ext_trans; [exact X0|]. eapply ext_trans; [|apply IH].
        unfold ext. eexists. cbn [w_trace emit set_trace]. reflexivity.
  - eapply ext_trans; [|apply IH]. ext_calc.
  - destruct (w_last_tls_ok w && negb (w_peer_closed w)); cbn [snd].
    + eapply ext_trans; [|apply IH]. unfold ext. eexists. cbn [w_trace emit set_trace set_ctl]. reflexivity.
    + ext_calc.
  - destruct (w_tls_up w && w_tls_clean w && negb (w_peer_closed w)); cbn [snd].
    + eapply ext_trans; [|apply IH]. ext_calc.
    + ext_calc.
  - destruct (ctl_disconnect w) as [ok w1] eqn:D.
    pose proof (ext_ctl_disconnect w) as X. rewrite D in X. cbn [snd] in X.
    destruct ok; cbn [snd]; [|exact X]. eapply ext_trans; [exact X|apply IH].
  - eapply ext_trans; [|apply IH]. ext_calc.
  - destruct (dp_reachable (w_plan w)); cbn [snd]; [|ext_calc]. eapply ext_trans; [|apply IH]. ext_calc.
  - eapply ext_trans; [|apply IH]. ext_calc.
  - destruct (dp_reachable (w_plan w)); cbn [snd]; [|apply ext_refl]. eapply ext_trans; [|apply IH]. ext_calc.
  - destruct (dp_tls_ok (w_plan w)); cbn [snd]; [|ext_calc]. eapply ext_trans; [|apply IH]. ext_calc.
  - destruct (w_data w) as [d|]; [|apply IH].
    destruct (d_ssl d && negb (dp_shutdown_ok (w_plan w))); cbn [snd]; [ext_calc|].
    eapply ext_trans; [|apply IH]. eapply ext_trans; [|apply ext_close_data]. ext_calc.
  - destruct (data_recv _ _ _ _ _) as [[ev r] cb']. destruct r; cbn [snd];
      try (eapply ext_trans; [|apply IH]); ext_calc.
  - destruct (data_recv _ _ _ _ _) as [[ev r] cb']. destruct r; cbn [snd];
      try (eapply ext_trans; [|apply IH]); ext_calc.
  - destruct (data_send _ _ _ _) as [[ev r] cb']. destruct r; cbn [snd];
      try (eapply ext_trans; [|apply IH]); ext_calc.
  - destruct (io_cb (w_io w)) as [answers|]; [|apply IH].
    destruct (poll answers) as [a answers']. eapply ext_trans; [|apply IH]. ext_calc.
  - destruct (run body w) as [o w1] eqn:R. cbn [snd].
    pose proof (IH w) as X. rewrite R in X. cbn [snd] in X.
    eapply ext_trans; [exact X|]. apply ext_set_data. apply ext_close_data.
Qed.

(* ================================================================== the structure of what a program adds to the trace *)
Inductive action :=
| AcSend (line : bytes) (wire : option (bool * nat))    (* observers told of the request; then written, or the write failed *)
| AcSendLost (line : bytes)                              (* ... or written to a peer that is gone *)
| AcRecv (t : nat) (r : reply) (ctl : list event) (told : bool)   (* a reply read (421: connection closed), observers told *)
| AcNotify (e : obs_ev)                                  (* on_connected / on_file_list *)
| AcNeutral (es : list event).                           (* socket, data and callback events *)

Definition neutral (e : event) : bool :=
  match e with EObs _ _ | EWire _ _ _ | EWireLost _ | ERecv _ _ => false | _ => true end.

Definition block (obs : list nat) (e : obs_ev) : list event := map (fun o => EObs o e) obs.

Definition events_of (obs : list nat) (a : action) : list event :=
  match a with
  | AcSend line (Some (s, ord)) => block obs (ORequest line) ++ [EWire s ord line]
  | AcSend line None => block obs (ORequest line)
  | AcSendLost line => block obs (ORequest line) ++ [EWireLost line]
  | AcRecv t r ctl told => ERecv t r :: ctl ++ (if told then block obs (OReply r) else [])
  | AcNotify e => block obs e
  | AcNeutral es => es
  end.

Definition wf_action (a : action) : bool :=
  match a with
  | AcRecv _ _ ctl _ => forallb neutral ctl
  | AcNeutral es => forallb neutral es
  | _ => true
  end.

Definition action_line_ok (a : action) : bool :=
  match a with
  | AcSend line _ | AcSendLost line => negb (has_crlf line)
  | _ => true
  end.

Definition flat (obs : list nat) (acts : list action) : list event := concat (map (events_of obs) acts).

(* w' is w after the actions: same observers, trace extended by exactly their events *)
Definition acts_rel (w : world) (acts : list action) (w' : world) : Prop :=
  w_trace w' = w_trace w ++ flat (w_obs w) acts /\ w_obs w' = w_obs w /\
  forallb wf_action acts = true.

Lemma acts_nil w w' : w_trace w' = w_trace w -> w_obs w' = w_obs w -> acts_rel w [] w'.
Proof. intros H1 H2. unfold acts_rel, flat. cbn. rewrite app_nil_r. auto. Qed.

Lemma acts_trans w a1 w1 a2 w2 : acts_rel w a1 w1 -> acts_rel w1 a2 w2 -> acts_rel w (a1 ++ a2) w2.
Proof.
  intros (T1 & O1 & W1) (T2 & O2 & W2). unfold acts_rel, flat in *.
  rewrite map_app, concat_app, forallb_app, T2, T1, O1, O2, W1, W2, app_assoc. auto.
Qed.

Ltac acts_calc :=
  unfold acts_rel, flat, block, notify;
  cbn [w_trace w_obs emit set_trace set_data set_io set_cfg set_ctl set_queues set_obs release_pending
       map concat events_of forallb wf_action];
  rewrite ?app_nil_r, <- ?app_assoc; cbn [app];
  repeat split; rewrite ?andb_true_r; try reflexivity; try assumption.

Lemma acts_neutral w es : forallb neutral es = true -> acts_rel w [AcNeutral es] (emit w es).
Proof. intro H. acts_calc. Qed.

Lemma acts_notify w e : acts_rel w [AcNotify e] (notify w e).
Proof. acts_calc. Qed.

(* updates that touch neither the trace nor the observers *)
Ltac silent := apply acts_nil; reflexivity.

Lemma acts_peer_react w : acts_rel w [] (peer_react w).
Proof. unfold peer_react. destruct (w_cur w); silent. Qed.

Lemma acts_close_data w : exists es, acts_rel w [AcNeutral es] (close_data w).
Proof.
  unfold close_data. destruct (w_data w) as [d|].
  - destruct (d_sock d), (d_acc d); cbv zeta.
    + exists [EData DClose; EData DAccClose]. acts_calc.
    + exists [EData DClose]. acts_calc.
    + exists [EData DAccClose]. acts_calc.
    + exists []. acts_calc.
  - exists []. acts_calc.
Qed.

Lemma acts_ctl_disconnect w : exists es, acts_rel w [AcNeutral es] (snd (ctl_disconnect w)) /\ forallb neutral es = true.
Proof.
  unfold ctl_disconnect. cbn [snd].
  exists ((if w_ssl w then [ECtl (CTlsShutdown (negb (w_ssl w) || w_tls_up w && w_tls_clean w))] else []) ++
          [ECtl CTcpShutdown; ECtl CClose] ++ (if w_ssl w then [ECtl (CSetSsl false)] else [])).
  split.
  - unfold acts_rel, flat. cbn [w_trace w_obs set_queues set_ctl emit set_trace map concat events_of].
    rewrite app_nil_r. split; [reflexivity|]. split; [reflexivity|].
    cbn [forallb wf_action]. rewrite andb_true_r. destruct (w_ssl w); reflexivity.
  - destruct (w_ssl w); reflexivity.
Qed.

Lemma acts_do_send w line w' : do_send w line = Some w' ->
  exists a, acts_rel w [a] w' /\ (a = AcSendLost line \/ exists s ord, a = AcSend line (Some (s, ord))).
Proof.
  unfold do_send. destruct (negb (w_open (notify w (ORequest line)))); [discriminate|].
  destruct (w_ssl _ && negb (w_tls_up _)) eqn:E; [discriminate|].
  destruct (w_peer_closed _); intro H; inversion H; subst.
  - exists (AcSendLost line). split; [|auto]. acts_calc.
  - eexists. split; [|right; eexists; eexists; reflexivity].
    eapply (acts_trans _ [_] _ []); [|apply acts_peer_react]. acts_calc.
Qed.

(* programs whose command texts carry no CR / LF of their own *)
Inductive clean_prog : prog -> Prop :=
| cp_ret v : clean_prog (Ret v)
| cp_throw : clean_prog Throw
| cp_check a k : clean_prog k -> clean_prog (CheckArg a k)
| cp_send verb arg k : has_crlf verb = false -> clean_prog k -> clean_prog (Send verb arg k)
| cp_raw line k : has_crlf line = false -> clean_prog k -> clean_prog (SendRaw line k)
| cp_adv a k : clean_prog k -> clean_prog (SendAdv a k)
| cp_recv k : (forall r, clean_prog (k r)) -> clean_prog (Recv k)
| cp_notify e k : clean_prog k -> clean_prog (Notify e k)
| cp_getcfg k : (forall c, clean_prog (k c)) -> clean_prog (GetCfg k)
| cp_settype t k : clean_prog k -> clean_prog (SetTypeCfg t k)
| cp_isopen k : (forall b, clean_prog (k b)) -> clean_prog (IsOpen k)
| cp_isssl k : (forall b, clean_prog (k b)) -> clean_prog (IsSsl k)
| cp_connect h p k : clean_prog k -> clean_prog (CtlConnect h p k)
| cp_setssl on k : clean_prog k -> clean_prog (CtlSetSsl on k)
| cp_hs k : clean_prog k -> clean_prog (CtlHandshake k)
| cp_tlsshut k : clean_prog k -> clean_prog (CtlTlsShutdown k)
| cp_disc k : clean_prog k -> clean_prog (CtlDisconnect k)
| cp_dnew k : clean_prog k -> clean_prog (DNew k)
| cp_dconn ip port k : clean_prog k -> clean_prog (DConnect ip port k)
| cp_dlisten k : clean_prog k -> clean_prog (DListenP k)
| cp_daccept k : clean_prog k -> clean_prog (DAccept k)
| cp_dhs k : clean_prog k -> clean_prog (DHandshakeP k)
| cp_ddisc g k : clean_prog k -> clean_prog (DDisconnect g k)
| cp_pumpin k : (forall r, clean_prog (k r)) -> clean_prog (PumpIn k)
| cp_pumplist k : (forall t, clean_prog (k t)) -> clean_prog (PumpInList k)
| cp_pumpout k : (forall r, clean_prog (k r)) -> clean_prog (PumpOut k)
| cp_poll k : (forall b, clean_prog (k b)) -> clean_prog (Poll k)
| cp_scope body : clean_prog body -> clean_prog (Scope body).

Definition acts_ok (p : prog) (acts : list action) : Prop :=
  clean_prog p -> forallb action_line_ok acts = true.

(* compose a first step with the induction hypothesis for the continuation *)
Lemma then_k w a1 w1 k (p : prog) :
  acts_rel w a1 w1 -> (clean_prog p -> forallb action_line_ok a1 = true /\ clean_prog k) ->
  (exists a2, acts_rel w1 a2 (snd (run k w1)) /\ acts_ok k a2) ->
  exists acts, acts_rel w acts (snd (run k w1)) /\ acts_ok p acts.
Proof.
  intros R1 C1 (a2 & R2 & C2). exists (a1 ++ a2). split; [eapply acts_trans; eauto|].
  intro CP. destruct (C1 CP) as (L1 & CK). rewrite forallb_app, L1, (C2 CK). reflexivity.
Qed.

Lemma stop_here w a1 w1 (p : prog) :
  acts_rel w a1 w1 -> (clean_prog p -> forallb action_line_ok a1 = true) ->
  exists acts, acts_rel w acts w1 /\ acts_ok p acts.
Proof. intros R C. exists a1. split; auto. Qed.

Lemma has_crlf_app a b : has_crlf (a ++ b) = has_crlf a || has_crlf b.
Proof.
  unfold has_crlf. rewrite !mem_app.
  destruct (mem CR a), (mem LF a), (mem CR b), (mem LF b); reflexivity.
Qed.

Lemma neutral_io ev : forallb neutral (map EIo ev) = true.
Proof. induction ev as [|e ev IH]; [reflexivity|]. cbn. exact IH. Qed.

Lemma adv_clean (b6 : bool) (a : adv) line :
  match a with
  | AdvEprt => Some (make_eprt_command (if b6 then V6 [58; 58; 49] else V4 127 0 0 1) canon_port)
  | AdvPort => make_port_command (if b6 then V6 [58; 58; 49] else V4 127 0 0 1) canon_port
  end = Some line -> has_crlf line = false.
Proof. destruct b6, a; intro H; inversion H; subst; vm_compute; reflexivity. Qed.

Ltac inv_clean CP := inversion CP; subst; clear CP.
Ltac nil_ok := intros _; reflexivity.

Lemma run_actions : forall p w, exists acts, acts_rel w acts (snd (run p w)) /\ acts_ok p acts.
Proof.
  induction p as [v| |a k IH|verb arg k IH|line k IH|a k IH|k IH|e k IH|k IH|t k IH|k IH|k IH|h pt k IH|on k IH|k IH|k IH|k IH
                 |k IH|ip port k IH|k IH|k IH|k IH|g k IH|k IH|k IH|k IH|k IH|body IH]; intro w; cbn [run].
  - eapply stop_here; [silent|nil_ok].
  - eapply stop_here; [silent|nil_ok].
  - destruct (has_crlf a).
    + eapply stop_here; [silent|nil_ok].
    + eapply then_k; [silent| |apply IH]. intro CP; inv_clean CP. auto.
  - (* Send *)
    destruct arg as [a|].
    + destruct (has_crlf a) eqn:Ha; [eapply stop_here; [silent|nil_ok]|].
      destruct (do_send w (verb ++ SP :: a)) as [w'|] eqn:E; cbn [snd].
      * destruct (acts_do_send _ _ _ E) as (ac & R & Hac).
        eapply then_k; [exact R| |apply IH]. intro CP; inv_clean CP. split; [|assumption].
        assert (L : has_crlf (verb ++ SP :: a) = false).
        { rewrite has_crlf_app. match goal with H : has_crlf verb = false |- _ => rewrite H end.
          change (SP :: a) with ([SP] ++ a). rewrite has_crlf_app, Ha. reflexivity. }
        destruct Hac as [->|(s & o & ->)]; cbn; rewrite L; reflexivity.
      * eapply (stop_here w [AcSend (verb ++ SP :: a) None]); [acts_calc|].
        intro CP; inv_clean CP. cbn. rewrite has_crlf_app.
        match goal with H : has_crlf verb = false |- _ => rewrite H end.
        change (SP :: a) with ([SP] ++ a). rewrite has_crlf_app, Ha. reflexivity.
    + destruct (do_send w verb) as [w'|] eqn:E; cbn [snd].
      * destruct (acts_do_send _ _ _ E) as (ac & R & Hac).
        eapply then_k; [exact R| |apply IH]. intro CP; inv_clean CP. split; [|assumption].
        destruct Hac as [->|(s & o & ->)]; cbn;
          match goal with H : has_crlf verb = false |- _ => rewrite H end; reflexivity.
      * eapply (stop_here w [AcSend verb None]); [acts_calc|].
        intro CP; inv_clean CP. cbn. match goal with H : has_crlf verb = false |- _ => rewrite H end. reflexivity.
  - (* SendRaw *)
    destruct (do_send w line) as [w'|] eqn:E; cbn [snd].
    + destruct (acts_do_send _ _ _ E) as (ac & R & Hac).
      eapply then_k; [exact R| |apply IH]. intro CP; inv_clean CP. split; [|assumption].
      destruct Hac as [->|(s & o & ->)]; cbn;
        match goal with H : has_crlf line = false |- _ => rewrite H end; reflexivity.
    + eapply (stop_here w [AcSend line None]); [acts_calc|].
      intro CP; inv_clean CP. cbn. match goal with H : has_crlf line = false |- _ => rewrite H end. reflexivity.
  - (* SendAdv: the advertised endpoint is built from digits, dots, colons, commas and bars *)
    unfold local_ip.
    destruct (match a with AdvEprt => _ | AdvPort => _ end) as [line|] eqn:EA; [|eapply stop_here; [silent|nil_ok]].
    pose proof (adv_clean (w_cur6 w) a line EA) as L.
    destruct (do_send w line) as [w'|] eqn:E; cbn [snd].
    + destruct (acts_do_send _ _ _ E) as (ac & R & Hac).
      eapply then_k; [exact R| |apply IH]. intro CP; inv_clean CP. split; [|assumption].
      destruct Hac as [->|(s & o & ->)]; cbn; rewrite L; reflexivity.
    + eapply (stop_here w [AcSend line None]); [acts_calc|]. intros _. cbn. rewrite L. reflexivity.
  - (* Recv *)
    destruct (negb (w_open w)); [eapply stop_here; [silent|nil_ok]|].
    destruct (w_backlog w) as [|[t [r|]] rest].
    + destruct (w_peer_closed w); eapply stop_here; try silent; nil_ok.
    + destruct (code r =? 421).
      * set (w1 := emit (set_queues w rest (w_pending w)) [ERecv t r]).
        destruct (acts_ctl_disconnect w1) as (es & Rd & Nes).
        destruct (ctl_disconnect w1) as [ok w2] eqn:D. cbn [snd] in Rd.
        assert (T2 : w_trace w2 = w_trace w ++ ERecv t r :: es).
        { destruct Rd as (T & _). rewrite T. unfold w1, flat. cbn. rewrite app_nil_r, <- app_assoc. reflexivity. }
        assert (O2 : w_obs w2 = w_obs w) by (destruct Rd as (_ & O & _); rewrite O; reflexivity).
        destruct ok; cbn [snd].
        -- eapply (then_k w [AcRecv t r es true] (notify w2 (OReply r))); [| |apply IH].
           ++ unfold acts_rel, flat, notify, block. cbn [w_trace w_obs emit set_trace map concat events_of forallb wf_action].
              rewrite T2, O2, app_nil_r, Nes, <- app_assoc. cbn [app]. auto.
           ++ intro CP; inv_clean CP. auto.
        -- eapply (stop_here w [AcRecv t r es false] w2).
           ++ unfold acts_rel, flat. cbn [map concat events_of forallb wf_action].
              rewrite T2, O2, !app_nil_r, Nes. auto.
           ++ nil_ok.
      * eapply (then_k w [AcRecv t r [] true]); [| |apply IH].
        -- acts_calc.
        -- intro CP; inv_clean CP. auto.
    + cbn [snd]. eapply stop_here; [silent|nil_ok].
  - eapply then_k; [apply acts_notify| |apply IH]. intro CP; inv_clean CP. auto.
  - specialize (IH (w_cfg w) w). destruct IH as (a2 & R2 & C2). exists a2. split; [exact R2|].
    intro CP; inv_clean CP. auto.
  - eapply (then_k w [AcNeutral [ESetType t]]); [acts_calc| |apply IH]. intro CP; inv_clean CP. auto.
  - specialize (IH (w_open w) w). destruct IH as (a2 & R2 & C2). exists a2. split; [exact R2|].
    intro CP; inv_clean CP. auto.
  - specialize (IH (w_ssl w) w). destruct IH as (a2 & R2 & C2). exists a2. split; [exact R2|].
    intro CP; inv_clean CP. auto.
  - (* CtlConnect *)
    match goal with |- context [match w_script ?w0 with _ => _ end] => set (W0 := w0) end.
    assert (X0 : acts_rel w [AcNeutral (if w_open w then [ECtl CClose] else [])] W0).
    { unfold W0. destruct (w_open w); acts_calc. }
    destruct (w_script W0) as [|s rest]; cbn [snd].
    + eapply (stop_here w ([AcNeutral (if w_open w then [ECtl CClose] else [])] ++ [AcNeutral [ECtl (CConnect h pt false)]])); [|nil_ok].
      eapply acts_trans; [exact X0|]. acts_calc.
    + destruct (negb (s_reachable s)); cbn [snd].
      * eapply (stop_here w ([AcNeutral (if w_open w then [ECtl CClose] else [])] ++ [AcNeutral [ECtl (CConnect h pt false)]])); [|nil_ok].
        eapply acts_trans; [exact X0|]. unfold acts_rel, flat.
        cbn [w_trace w_obs emit set_trace map concat events_of forallb wf_action neutral]. rewrite app_nil_r. auto.
      * eapply (then_k w ([AcNeutral (if w_open w then [ECtl CClose] else [])] ++ [AcNeutral [ECtl (CConnect h pt true)]])); [| |apply IH].
        -- eapply acts_trans; [exact X0|]. unfold acts_rel, flat.
           cbn [w_trace w_obs emit set_trace map concat events_of forallb wf_action neutral]. rewrite app_nil_r. auto.
        -- intro CP; inv_clean CP. auto.
  - eapply (then_k w [AcNeutral [ECtl (CSetSsl on)]]); [acts_calc| |apply IH]. intro CP; inv_clean CP. auto.
  - (* CtlHandshake *)
    destruct (w_last_tls_ok w && negb (w_peer_closed w)); cbn [snd].
    + eapply (then_k w [AcNeutral [ECtl (CHandshake true (w_next_sess w))]]); [| |apply IH].
      * unfold acts_rel, flat. cbn [w_trace w_obs emit set_trace set_ctl map concat events_of forallb wf_action neutral].
        rewrite app_nil_r. auto.
      * intro CP; inv_clean CP. auto.
    + eapply (stop_here w [AcNeutral [ECtl (CHandshake false O)]]); [acts_calc|nil_ok].
  - destruct (w_tls_up w && w_tls_clean w && negb (w_peer_closed w)); cbn [snd].
    + eapply (then_k w [AcNeutral [ECtl (CTlsShutdown true)]]); [acts_calc| |apply IH]. intro CP; inv_clean CP. auto.
    + eapply (stop_here w [AcNeutral [ECtl (CTlsShutdown false)]]); [acts_calc|nil_ok].
  - destruct (acts_ctl_disconnect w) as (es & Rd & Nes).
    destruct (ctl_disconnect w) as [ok w1] eqn:D. cbn [snd] in Rd.
    destruct ok; cbn [snd].
    + eapply then_k; [exact Rd| |apply IH]. intro CP; inv_clean CP. auto.
    + eapply stop_here; [exact Rd|nil_ok].
  - eapply (then_k w [AcNeutral [EData DNewObj]]); [acts_calc| |apply IH]. intro CP; inv_clean CP. auto.
  - destruct (dp_reachable (w_plan w)); cbn [snd].
    + eapply (then_k w [AcNeutral [EData (DConnectTo ip port true)]]); [acts_calc| |apply IH]. intro CP; inv_clean CP. auto.
    + eapply (stop_here w [AcNeutral [EData (DConnectTo ip port false)]]); [acts_calc|nil_ok].
  - eapply (then_k w [AcNeutral [EData DListen]]); [acts_calc| |apply IH]. intro CP; inv_clean CP. auto.
  - destruct (dp_reachable (w_plan w)); cbn [snd].
    + eapply (then_k w [AcNeutral [EData DAcceptOk]]); [acts_calc| |apply IH]. intro CP; inv_clean CP. auto.
    + eapply stop_here; [silent|nil_ok].
  - destruct (dp_tls_ok (w_plan w)); cbn [snd].
    + eapply (then_k w [AcNeutral [EData (DHandshake _ true)]]); [acts_calc| |apply IH]. intro CP; inv_clean CP. auto.
    + eapply (stop_here w [AcNeutral [EData (DHandshake _ false)]]); [acts_calc|nil_ok].
  - (* DDisconnect *)
    destruct (w_data w) as [d|] eqn:Dd.
    + destruct (d_ssl d && negb (dp_shutdown_ok (w_plan w))); cbn [snd].
      * eapply (stop_here w [AcNeutral [EData (DTlsShutdown false)]]); [acts_calc|nil_ok].
      * match goal with |- context [close_data ?x] => set (w1 := x) end.
        destruct (acts_close_data w1) as (es & Rc).
        eapply (then_k w ([AcNeutral _] ++ [AcNeutral es])); [| |apply IH].
        -- eapply acts_trans; [|exact Rc]. unfold w1. apply acts_neutral.
           destruct (d_ssl d), g; reflexivity.
        -- intro CP; inv_clean CP. auto.
    + destruct (IH w) as (a2 & R2 & C2). exists a2. split; [exact R2|]. intro CP; inv_clean CP. auto.
  - (* PumpIn *)
    destruct (data_recv _ _ _ _ _) as [[ev r] cb'].
    match goal with |- context [set_io (emit w ?es) ?i] => set (w1 := set_io (emit w es) i) end.
    assert (X : acts_rel w [AcNeutral (map EIo ev)] w1).
    { unfold w1. unfold acts_rel, flat. cbn [w_trace w_obs set_io emit set_trace map concat events_of forallb wf_action].
      rewrite app_nil_r, neutral_io. auto. }
    destruct r; cbn [snd]; try (eapply then_k; [exact X| |apply IH]; intro CP; inv_clean CP; auto).
    eapply stop_here; [exact X|nil_ok].
  - (* PumpInList *)
    destruct (data_recv _ _ _ _ _) as [[ev r] cb'].
    assert (X : acts_rel w [AcNeutral (map EIo ev)] (emit w (map EIo ev))).
    { apply acts_neutral. apply neutral_io. }
    destruct r; cbn [snd]; try (eapply then_k; [exact X| |apply IH]; intro CP; inv_clean CP; auto).
    eapply stop_here; [exact X|nil_ok].
  - (* PumpOut *)
    destruct (data_send _ _ _ _) as [[ev r] cb'].
    match goal with |- context [set_io (emit w ?es) ?i] => set (w1 := set_io (emit w es) i) end.
    assert (X : acts_rel w [AcNeutral (map EIo ev)] w1).
    { unfold w1. unfold acts_rel, flat. cbn [w_trace w_obs set_io emit set_trace map concat events_of forallb wf_action].
      rewrite app_nil_r, neutral_io. auto. }
    destruct r; cbn [snd]; try (eapply then_k; [exact X| |apply IH]; intro CP; inv_clean CP; auto).
    eapply stop_here; [exact X|nil_ok].
  - (* Poll *)
    destruct (io_cb (w_io w)) as [answers|].
    + destruct (poll answers) as [a answers'].
      eapply (then_k w [AcNeutral [EIo (IoPoll a)]]); [acts_calc| |apply IH]. intro CP; inv_clean CP. auto.
    + destruct (IH false w) as (a2 & R2 & C2). exists a2. split; [exact R2|]. intro CP; inv_clean CP. auto.
  - (* Scope *)
    destruct (run body w) as [o w1] eqn:R. cbn [snd].
    destruct (IH w) as (a1 & R1 & C1). rewrite R in R1. cbn [snd] in R1.
    destruct (acts_close_data w1) as (es & Rc).
    exists (a1 ++ [AcNeutral es]). split.
    + eapply acts_trans; [exact R1|]. destruct Rc as (T & O & W). unfold acts_rel. cbn [w_trace w_obs set_data]. auto.
    + intro CP; inv_clean CP. rewrite forallb_app, C1 by assumption. reflexivity.
Qed.

(* ================================================================== C14: what observers see *)
Definition transcript_of (a : action) : list obs_ev :=
  match a with
  | AcSend line _ | AcSendLost line => [ORequest line]
  | AcRecv _ r _ told => if told then [OReply r] else []
  | AcNotify e => [e]
  | AcNeutral _ => []
  end.
Definition transcript (acts : list action) : list obs_ev := concat (map transcript_of acts).

Fixpoint seen_by (o : nat) (tr : list event) : list obs_ev :=
  match tr with
  | [] => []
  | EObs o' e :: tr' => if Nat.eqb o' o then e :: seen_by o tr' else seen_by o tr'
  | _ :: tr' => seen_by o tr'
  end.

Lemma seen_by_app o a b : seen_by o (a ++ b) = seen_by o a ++ seen_by o b.
Proof.
  induction a as [|e a IH]; [reflexivity|]. destruct e; cbn; try exact IH.
  destruct (Nat.eqb o0 o); cbn; rewrite IH; reflexivity.
Qed.

Lemma seen_by_block o obs e : seen_by o (block obs e) = repeat e (count_occ Nat.eq_dec obs o).
Proof.
  induction obs as [|x obs IH]; [reflexivity|]. cbn [block map seen_by count_occ].
  fold (block obs e). destruct (Nat.eq_dec x o) as [->|N].
  - rewrite Nat.eqb_refl. cbn. rewrite IH. reflexivity.
  - apply Nat.eqb_neq in N. rewrite N. exact IH.
Qed.

Lemma seen_by_neutral o es : forallb neutral es = true -> seen_by o es = [].
Proof.
  induction es as [|e es IH]; [reflexivity|]. cbn [forallb]. intro H. apply andb_true_iff in H as (H1 & H2).
  destruct e; cbn in *; try discriminate; auto.
Qed.

Lemma seen_by_action o obs a : wf_action a = true ->
  seen_by o (events_of obs a) = concat (map (fun e => repeat e (count_occ Nat.eq_dec obs o)) (transcript_of a)).
Proof.
  intro W. destruct a as [line [[s ord]|]|line|t r ctl told|e|es]; cbn [events_of transcript_of map concat].
  - rewrite seen_by_app, seen_by_block. cbn. rewrite !app_nil_r. reflexivity.
  - rewrite seen_by_block, app_nil_r. reflexivity.
  - rewrite seen_by_app, seen_by_block. cbn. rewrite !app_nil_r. reflexivity.
  - cbn [seen_by]. rewrite seen_by_app, (seen_by_neutral o ctl W). destruct told; cbn.
    + rewrite seen_by_block, app_nil_r. reflexivity.
    + reflexivity.
  - rewrite seen_by_block, app_nil_r. reflexivity.
  - apply seen_by_neutral. exact W.
Qed.

Lemma seen_by_flat o obs acts : forallb wf_action acts = true ->
  seen_by o (flat obs acts) = concat (map (fun e => repeat e (count_occ Nat.eq_dec obs o)) (transcript acts)).
Proof.
  unfold flat, transcript. induction acts as [|a acts IH]; [reflexivity|].
  cbn [forallb map concat]. intro H. apply andb_true_iff in H as (H1 & H2).
  rewrite seen_by_app, (seen_by_action o obs a H1), (IH H2), map_app, concat_app. reflexivity.
Qed.

(* the control-channel transcript as the wire saw it: lines written, replies read *)
Inductive wire_item := WLine (l : bytes) | WReply (r : reply).
Fixpoint wire_events (tr : list event) : list wire_item :=
  match tr with
  | [] => []
  | EWire _ _ l :: tr' => WLine l :: wire_events tr'
  | EWireLost l :: tr' => WLine l :: wire_events tr'
  | ERecv _ r :: tr' => WReply r :: wire_events tr'
  | _ :: tr' => wire_events tr'
  end.
Definition wire_of (a : action) : list wire_item :=
  match a with
  | AcSend line (Some _) | AcSendLost line => [WLine line]
  | AcRecv _ r _ _ => [WReply r]
  | _ => []
  end.

Lemma wire_events_app a b : wire_events (a ++ b) = wire_events a ++ wire_events b.
Proof. induction a as [|e a IH]; [reflexivity|]. destruct e; cbn; rewrite ?IH; reflexivity. Qed.

Lemma wire_events_quiet es : forallb (fun e => match e with EWire _ _ _ | EWireLost _ | ERecv _ _ => false | _ => true end) es = true ->
  wire_events es = [].
Proof.
  induction es as [|e es IH]; [reflexivity|]. cbn [forallb]. intro H. apply andb_true_iff in H as (H1 & H2).
  destruct e; cbn in *; try discriminate; auto.
Qed.

Lemma wire_events_block obs e : wire_events (block obs e) = [].
Proof. induction obs; [reflexivity|]. exact IHobs. Qed.

Lemma neutral_quiet es : forallb neutral es = true ->
  forallb (fun e => match e with EWire _ _ _ | EWireLost _ | ERecv _ _ => false | _ => true end) es = true.
Proof.
  induction es as [|e es IH]; [reflexivity|]. cbn [forallb]. intro H. apply andb_true_iff in H as (H1 & H2).
  rewrite (IH H2), andb_true_r. destruct e; cbn in *; auto.
Qed.

Lemma wire_events_flat obs acts : forallb wf_action acts = true ->
  wire_events (flat obs acts) = concat (map wire_of acts).
Proof.
  unfold flat. induction acts as [|a acts IH]; [reflexivity|].
  cbn [forallb map concat]. intro H. apply andb_true_iff in H as (H1 & H2).
  rewrite wire_events_app, (IH H2). f_equal.
  destruct a as [line [[s ord]|]|line|t r ctl told|e|es]; cbn [events_of wire_of].
  - rewrite wire_events_app, wire_events_block. reflexivity.
  - apply wire_events_block.
  - rewrite wire_events_app, wire_events_block. reflexivity.
  - cbn [wire_events]. rewrite wire_events_app, (wire_events_quiet ctl (neutral_quiet ctl H1)).
    destruct told; [rewrite wire_events_block|]; reflexivity.
  - apply wire_events_block.
  - apply wire_events_quiet, neutral_quiet. exact H1.
Qed.

Theorem observer_transcript p w :
  exists acts new,
    w_trace (snd (run p w)) = w_trace w ++ new /\ w_obs (snd (run p w)) = w_obs w /\
    (forall o, seen_by o new = concat (map (fun e => repeat e (count_occ Nat.eq_dec (w_obs w) o)) (transcript acts))) /\
    wire_events new = concat (map wire_of acts).
Proof.
  destruct (run_actions p w) as (acts & (T & O & W) & _).
  exists acts, (flat (w_obs w) acts). split; [exact T|]. split; [exact O|]. split.
  - intro o. apply seen_by_flat. exact W.
  - apply wire_events_flat. exact W.
Qed.

(* ================================================================== C09: command lines *)
Ltac cp :=
  repeat (first
    [ apply cp_ret | apply cp_throw | apply cp_check
    | apply cp_send; [first [assumption | vm_compute; reflexivity]|]
    | apply cp_raw; [vm_compute; reflexivity|]
    | apply cp_adv | apply cp_recv; intro | apply cp_notify | apply cp_getcfg; intro | apply cp_settype
    | apply cp_isopen; intro | apply cp_isssl; intro | apply cp_connect | apply cp_setssl | apply cp_hs
    | apply cp_tlsshut | apply cp_disc | apply cp_dnew | apply cp_dconn | apply cp_dlisten | apply cp_daccept
    | apply cp_dhs | apply cp_ddisc | apply cp_pumpin; intro | apply cp_pumplist; intro | apply cp_pumpout; intro
    | apply cp_poll; intro | apply cp_scope
    | match goal with
      | |- clean_prog (if ?b then _ else _) => destruct b
      | |- clean_prog (match ?x with _ => _ end) => destruct x
      | |- clean_prog (let _ := _ in _) => cbv zeta
      end ]).

Definition api_verb_clean (a : api) : Prop :=
  match a with ASimple verb _ => has_crlf verb = false | _ => True end.

Lemma process_login_clean u pw acc k : (forall l, clean_prog (k l)) -> clean_prog (process_login u pw acc k).
Proof. intro Hk. unfold process_login, process_command, process_raw. cp; apply Hk. Qed.

Lemma create_dc_clean verb arg acc k1 k2 : has_crlf verb = false ->
  (forall l, clean_prog (k1 l)) -> (forall l, clean_prog (k2 l)) ->
  clean_prog (create_data_connection verb arg acc k1 k2).
Proof.
  intros Hv H1 H2. unfold create_data_connection, process_command. cp; first [apply H1 | apply H2].
Qed.

Lemma finish_transfer_clean acc : clean_prog (finish_transfer acc).
Proof. unfold finish_transfer, process_abort, process_command. cp. Qed.

Theorem ops_clean a : api_verb_clean a -> clean_prog (prog_of a).
Proof.
  destruct a; cbn [prog_of api_verb_clean]; intro Hv.
  - unfold op_connect, process_raw. cp; try (apply process_login_clean; intro; cp).
  - unfold op_login. apply process_login_clean. intro; cp.
  - unfold op_logout, process_command. cp.
  - unfold op_simple, process_command. cp.
  - unfold op_set_type, process_command. cp.
  - unfold op_rename, process_command. cp.
  - unfold op_download. apply cp_check, cp_scope. apply create_dc_clean; [vm_compute; reflexivity| |]; intro; cp; try apply finish_transfer_clean.
  - unfold op_upload. apply cp_check, cp_scope.
    apply create_dc_clean; [destruct u; vm_compute; reflexivity| |]; intro; cp; try apply finish_transfer_clean.
  - unfold op_list. apply cp_check, cp_scope.
    apply create_dc_clean; [destruct names; vm_compute; reflexivity| |]; intro; cp.
  - unfold op_disconnect, process_command. cp.
  - cp. - cp. - cp. - cp.
Qed.

Lemma wire_lines_clean acts : forallb action_line_ok acts = true ->
  Forall (fun x => match x with WLine l => has_crlf l = false | WReply _ => True end) (concat (map wire_of acts)).
Proof.
  induction acts as [|a acts IH]; cbn [forallb map concat]; intro H; [constructor|].
  apply andb_true_iff in H as (H1 & H2). apply Forall_app. split; [|apply IH; exact H2].
  destruct a as [line [[s ord]|]|line|t r ctl told|e|es]; cbn in *; repeat constructor;
    apply negb_true_iff in H1; exact H1.
Qed.

(* every command line a call writes is free of CR and LF (one line per protocol step: the line, then CR LF) *)
Theorem one_line_per_step a w : api_verb_clean a ->
  exists new, w_trace (snd (run (prog_of a) w)) = w_trace w ++ new /\
    Forall (fun x => match x with WLine l => has_crlf l = false | WReply _ => True end) (wire_events new).
Proof.
  intro Hv. destruct (run_actions (prog_of a) w) as (acts & (T & O & W) & C).
  exists (flat (w_obs w) acts). split; [exact T|].
  rewrite wire_events_flat by exact W. apply wire_lines_clean. apply C. apply ops_clean. exact Hv.
Qed.

Definition api_texts (a : api) : list bytes :=
  match a with
  | AConnect _ _ (Some (u, p)) => [u; p]
  | ALogin u p => [u; p]
  | ASimple _ (Some x) => [x]
  | ARename a b => [a; b]
  | ADownload path _ _ => [path]
  | AUpload _ path _ _ => [path]
  | AList (Some p) _ => [p]
  | _ => []
  end.

(* caller text with CR or LF: the call fails before it touches the connection - no byte, no event *)
Theorem crlf_rejected_before_send a w : existsb has_crlf (api_texts a) = true ->
  step w a = (OThrow, set_io w (io_of a)).
Proof.
  destruct a as [h p [[u pw]|]|u pw| |verb [x|]|t|a b|path cb f|u path ch cb|[p|] names|g|o|o|m|b];
    cbn [api_texts existsb]; rewrite ?orb_false_r; intro H; try discriminate; unfold step.
  - cbn [prog_of op_connect run]. destruct (has_crlf u); [reflexivity|].
    cbn [orb] in H. cbn [run]. rewrite H. reflexivity.
  - cbn [prog_of op_login process_login run]. destruct (has_crlf pw) eqn:E; [reflexivity|].
    rewrite orb_false_r in H. unfold process_command. cbn [run]. rewrite H. reflexivity.
  - cbn [prog_of op_simple process_command run]. rewrite H. reflexivity.
  - cbn [prog_of op_rename run]. destruct (has_crlf b) eqn:E; [reflexivity|].
    rewrite orb_false_r in H. unfold process_command. cbn [run]. rewrite H. reflexivity.
  - cbn [prog_of op_download run]. rewrite H. reflexivity.
  - cbn [prog_of op_upload run]. rewrite H. reflexivity.
  - cbn [prog_of op_list run]. rewrite H. reflexivity.
Qed.

(* ================================================================== C17: sockets *)
(* programs that never touch a data connection *)
Inductive nodata : prog -> Prop :=
| nd_ret v : nodata (Ret v)
| nd_throw : nodata Throw
| nd_check a k : nodata k -> nodata (CheckArg a k)
| nd_send verb arg k : nodata k -> nodata (Send verb arg k)
| nd_raw line k : nodata k -> nodata (SendRaw line k)
| nd_recv k : (forall r, nodata (k r)) -> nodata (Recv k)
| nd_notify e k : nodata k -> nodata (Notify e k)
| nd_getcfg k : (forall c, nodata (k c)) -> nodata (GetCfg k)
| nd_settype t k : nodata k -> nodata (SetTypeCfg t k)
| nd_isopen k : (forall b, nodata (k b)) -> nodata (IsOpen k)
| nd_isssl k : (forall b, nodata (k b)) -> nodata (IsSsl k)
| nd_connect h p k : nodata k -> nodata (CtlConnect h p k)
| nd_setssl on k : nodata k -> nodata (CtlSetSsl on k)
| nd_hs k : nodata k -> nodata (CtlHandshake k)
| nd_tlsshut k : nodata k -> nodata (CtlTlsShutdown k)
| nd_disc k : nodata k -> nodata (CtlDisconnect k).

Lemma do_send_data w line w' : do_send w line = Some w' -> w_data w' = w_data w.
Proof.
  unfold do_send. destruct (negb _); [discriminate|]. destruct (_ && _); [discriminate|].
  destruct (w_peer_closed _); intro H; inversion H; subst; [reflexivity|].
  unfold peer_react. destruct (w_cur _); reflexivity.
Qed.

Lemma run_nodata p : nodata p -> forall w, w_data (snd (run p w)) = w_data w.
Proof.
  induction 1 as [v| |a k Hk IH|verb arg k Hk IH|line k Hk IH|k Hk IH|e k Hk IH|k Hk IH|t k Hk IH|k Hk IH|k Hk IH
                 |h pt k Hk IH|on k Hk IH|k Hk IH|k Hk IH|k Hk IH]; intro w; cbn [run].
  - reflexivity.
  - reflexivity.
  - destruct (has_crlf a); [reflexivity|apply IH].
  - destruct arg as [a|].
    + destruct (has_crlf a); [reflexivity|].
      destruct (do_send w _) as [w'|] eqn:E; cbn [snd]; [rewrite IH; eapply do_send_data; eauto|reflexivity].
    + destruct (do_send w _) as [w'|] eqn:E; cbn [snd]; [rewrite IH; eapply do_send_data; eauto|reflexivity].
  - destruct (do_send w _) as [w'|] eqn:E; cbn [snd]; [rewrite IH; eapply do_send_data; eauto|reflexivity].
  - destruct (negb (w_open w)); [reflexivity|].
    destruct (w_backlog w) as [|[t [r|]] rest]; [destruct (w_peer_closed w); reflexivity| |reflexivity].
    destruct (code r =? 421).
    + unfold ctl_disconnect. cbv zeta. destruct (negb _ || _); cbn [snd]; [rewrite IH|]; reflexivity.
    + rewrite IH. reflexivity.
  - rewrite IH. reflexivity.
  - apply IH.
  - rewrite IH. reflexivity.
  - apply IH.
  - apply IH.
  - destruct (w_script _) as [|s rest]; [destruct (w_open w); reflexivity|].
    destruct (negb (s_reachable s)); cbn [snd]; [destruct (w_open w); reflexivity|].
    rewrite IH. destruct (w_open w); reflexivity.
  - rewrite IH. reflexivity.
  - destruct (_ && _); cbn [snd]; [rewrite IH|]; reflexivity.
  - destruct (_ && _); cbn [snd]; [rewrite IH|]; reflexivity.
  - unfold ctl_disconnect. cbv zeta. destruct (negb _ || _); cbn [snd]; [rewrite IH|]; reflexivity.
Qed.

Ltac nd :=
  repeat (first
    [ apply nd_ret | apply nd_throw | apply nd_check | apply nd_send | apply nd_raw | apply nd_recv; intro
    | apply nd_notify | apply nd_getcfg; intro | apply nd_settype | apply nd_isopen; intro | apply nd_isssl; intro
    | apply nd_connect | apply nd_setssl | apply nd_hs | apply nd_tlsshut | apply nd_disc
    | match goal with
      | |- nodata (if ?b then _ else _) => destruct b
      | |- nodata (match ?x with _ => _ end) => destruct x
      | |- nodata (let _ := _ in _) => cbv zeta
      end ]).

Lemma process_login_nodata u pw acc k : (forall l, nodata (k l)) -> nodata (process_login u pw acc k).
Proof. intro Hk. unfold process_login, process_command, process_raw. nd; apply Hk. Qed.

(* after every API call - returned, thrown or blocked - no data socket and no listening socket is left:
   the client holds its control socket while it reports connected, and nothing else *)
Theorem step_releases_data a w : w_data w = None -> w_data (snd (step w a)) = None.
Proof.
  intro H.
  assert (N : forall p, nodata p -> w_data (snd (run p (set_io w (io_of a)))) = None).
  { intros p Hp. rewrite (run_nodata p Hp). exact H. }
  destruct a; unfold step; try exact H; cbn [prog_of].
  - apply N. unfold op_connect, process_raw. nd; try (apply process_login_nodata; intro; nd).
  - apply N. unfold op_login. apply process_login_nodata. intro; nd.
  - apply N. unfold op_logout, process_command. nd.
  - apply N. unfold op_simple, process_command. nd.
  - apply N. unfold op_set_type, process_command. nd.
  - apply N. unfold op_rename, process_command. nd.
  - cbn [op_download run]. destruct (has_crlf path); [exact H|].
    destruct (run _ _) as [o w1]. reflexivity.
  - cbn [op_upload run]. destruct (has_crlf path); [exact H|].
    destruct (run _ _) as [o w1]. reflexivity.
  - cbn [op_list run]. destruct (has_crlf _); [exact H|].
    destruct (run _ _) as [o w1]. reflexivity.
  - apply N. unfold op_disconnect, process_command. nd.
Qed.

Theorem socket_invariant : forall l w, w_data w = None ->
  w_data (snd (steps w l)) = None /\ held (snd (steps w l)) = (if w_open (snd (steps w l)) then 1 else 0)%nat.
Proof.
  assert (A : forall l w, w_data w = None -> w_data (snd (steps w l)) = None).
  { induction l as [|a l IH]; intros w H; [exact H|]. cbn [steps].
    pose proof (step_releases_data a w H) as S1. destruct (step w a) as [o w1]. cbn [snd] in S1.
    destruct o; try (specialize (IH w1 S1); destruct (steps w1 l) as [os w2]; exact IH). exact S1. }
  intros l w H. split; [apply A; exact H|]. unfold held. rewrite (A l w H). lia.
Qed.

(* ================================================================== one command, one reply *)
(* the control connection is usable and nothing is waiting to be read *)
Definition ready (w : world) : Prop :=
  w_open w = true /\ (w_ssl w && negb (w_tls_up w)) = false /\ w_peer_closed w = false /\ w_backlog w = [].

Definition simple_reaction (r : reaction) (x : reply) : Prop :=
  r_now r = [RReply x] /\ r_on_close r = [] /\ r_close_after r = false /\ code x <> 421.

(* the world after "send line; receive its reply x" *)
Definition after_command (w : world) (line : bytes) (x : reply) : world :=
  let w1 := peer_react (emit (notify w (ORequest line)) [EWire (w_ssl w && w_tls_up w) (w_ord w) line]) in
  notify (emit (set_queues w1 [] (w_pending w1)) [ERecv (w_ord w) x]) (OReply x).

Lemma do_send_ready w line : w_open w = true -> (w_ssl w && negb (w_tls_up w)) = false -> w_peer_closed w = false ->
  do_send w line = Some (peer_react (emit (notify w (ORequest line)) [EWire (w_ssl w && w_tls_up w) (w_ord w) line])).
Proof.
  intros Ho Hs Hp. unfold do_send.
  change (w_open (notify w (ORequest line))) with (w_open w).
  change (w_ssl (notify w (ORequest line))) with (w_ssl w).
  change (w_tls_up (notify w (ORequest line))) with (w_tls_up w).
  change (w_peer_closed (notify w (ORequest line))) with (w_peer_closed w).
  change (w_ord (notify w (ORequest line))) with (w_ord w).
  rewrite Ho, Hs, Hp. reflexivity.
Qed.

Lemma recv_reply k w t x rest : w_open w = true -> w_backlog w = (t, RReply x) :: rest -> code x <> 421 ->
  run (Recv k) w = run (k x) (notify (emit (set_queues w rest (w_pending w)) [ERecv t x]) (OReply x)).
Proof.
  intros Ho Hb H. apply N.eqb_neq in H. cbn [run]. rewrite Ho, Hb, H. reflexivity.
Qed.

Lemma peer_react_cons w r rest : w_cur w = r :: rest ->
  peer_react w =
  mkW (w_cfg w) (w_open w) (w_ssl w) (w_tls_up w) (w_sess_id w) (w_tls_clean w)
      (w_peer_closed w || r_close_after r) (w_backlog w ++ tag (w_ord w) (r_now r))
      ((if r_drop_pending r then [] else w_pending w) ++ tag (w_ord w) (r_on_close r))
      (w_script w) rest (w_cur6 w) (r_tls_ok r) (r_data r) (w_obs w) (w_data w) (w_io w)
      (S (w_ord w)) (w_next_sess w) (w_trace w).
Proof. intro H. unfold peer_react. rewrite H. reflexivity. Qed.

Lemma pc_step_line line k w r rest x :
  ready w -> w_cur w = r :: rest -> simple_reaction r x ->
  run (SendRaw line (Recv k)) w = run (k x) (after_command w line x).
Proof.
  intros (Ho & Hs & Hp & Hb) Hc (Rn & Rc & Ra & R421).
  change (run (SendRaw line (Recv k)) w) with
    (match do_send w line with Some w' => run (Recv k) w' | None => (OThrow, notify w (ORequest line)) end).
  rewrite (do_send_ready w line Ho Hs Hp).
  set (w0 := emit (notify w (ORequest line)) [EWire (w_ssl w && w_tls_up w) (w_ord w) line]).
  assert (Hc0 : w_cur w0 = r :: rest) by exact Hc.
  rewrite (recv_reply k (peer_react w0) (w_ord w) x []); [reflexivity| | |exact R421].
  - rewrite (peer_react_cons w0 r rest Hc0). exact Ho.
  - rewrite (peer_react_cons w0 r rest Hc0). cbn [w_backlog]. unfold w0. cbn [w_backlog emit set_trace notify w_ord].
    rewrite Hb, Rn. reflexivity.
Qed.

Lemma pc_step verb arg k w r rest x :
  ready w -> w_cur w = r :: rest -> simple_reaction r x ->
  match arg with Some a => has_crlf a = false | None => True end ->
  run (process_command verb arg k) w =
  run (k x) (after_command w (verb ++ match arg with Some a => SP :: a | None => [] end) x).
Proof.
  intros Hr Hc Hs Ha. unfold process_command. destruct arg as [a|].
  - cbn [run]. rewrite Ha.
    pose proof (pc_step_line (verb ++ SP :: a) k w r rest x Hr Hc Hs) as P. cbn [run] in P. exact P.
  - rewrite app_nil_r. pose proof (pc_step_line verb k w r rest x Hr Hc Hs) as P. cbn [run] in P. exact P.
Qed.

Lemma after_command_facts w line x r rest :
  ready w -> w_cur w = r :: rest -> simple_reaction r x -> w_pending w = [] ->
  let w' := after_command w line x in
  ready w' /\ w_cur w' = rest /\ w_pending w' = [] /\ w_cfg w' = w_cfg w /\ w_data w' = w_data w /\
  w_obs w' = w_obs w /\ w_ord w' = S (w_ord w) /\ w_ssl w' = w_ssl w /\ w_tls_up w' = w_tls_up w /\
  w_trace w' = w_trace w ++ block (w_obs w) (ORequest line) ++ [EWire (w_ssl w && w_tls_up w) (w_ord w) line]
                         ++ [ERecv (w_ord w) x] ++ block (w_obs w) (OReply x).
Proof.
  intros (Ho & Hs & Hp & Hb) Hc (Rn & Rc & Ra & R421) Hpe.
  destruct w as [f1 f2 f3 f4 f5 f6 f7 f8 f9 f10 f11 f12 f13 f14 f15 f16 f17 f18 f19 f20]. cbn in Ho, Hs, Hp, Hb, Hc, Hpe. subst.
  unfold after_command, peer_react, ready, block. cbn. rewrite Ra, Rc, <- !app_assoc.
  destruct (r_drop_pending r); cbn; repeat split; auto.
Qed.

(* ================================================================== C02 / C10 on the command-only operations *)
Definition arg_ok (arg : option bytes) : Prop := match arg with Some a => has_crlf a = false | None => True end.
Definition line_of (verb : bytes) (arg : option bytes) : bytes :=
  verb ++ match arg with Some a => SP :: a | None => [] end.

Lemma ready_set_io w i : ready w -> ready (set_io w i).
Proof. intro H. exact H. Qed.

(* a simple call sends exactly its one command line and returns exactly the reply generated for it; the session
   stays in step (nothing unread, nothing pending), the reported transfer type is unchanged *)
Theorem simple_call w verb arg r rest x :
  ready w -> w_pending w = [] -> w_cur w = r :: rest -> simple_reaction r x -> arg_ok arg ->
  exists w', step w (ASimple verb arg) = (OReturn (RvReply x), w') /\
    ready w' /\ w_pending w' = [] /\ w_cur w' = rest /\ w_cfg w' = w_cfg w /\
    w_trace w' = w_trace w ++ block (w_obs w) (ORequest (line_of verb arg))
                 ++ [EWire (w_ssl w && w_tls_up w) (w_ord w) (line_of verb arg)]
                 ++ [ERecv (w_ord w) x] ++ block (w_obs w) (OReply x).
Proof.
  intros Hr Hp Hc Hs Ha.
  change (step w (ASimple verb arg)) with (run (process_command verb arg (fun r => Ret (RvReply r))) (set_io w no_io)).
  rewrite (pc_step verb arg _ (set_io w no_io) r rest x (ready_set_io w no_io Hr) Hc Hs Ha).
  cbn [run]. eexists. split; [reflexivity|].
  destruct (after_command_facts (set_io w no_io) (line_of verb arg) x r rest (ready_set_io w no_io Hr) Hc Hs Hp)
    as (A & B & C & D & _ & _ & _ & _ & _ & T).
  unfold line_of in *. split; [exact A|]. split; [exact C|]. split; [exact B|]. split; [exact D|]. exact T.
Qed.

(* TYPE: the reported type changes exactly when the reply is positive *)
Lemma step_set_type_unfold w t :
  step w (ASetType t) = run (process_command TYPE_ (Some (type_arg t)) (fun r =>
    if is_positive r then SetTypeCfg t (Ret (RvReply r)) else Ret (RvReply r))) (set_io w no_io).
Proof. reflexivity. Qed.

Definition with_type (w : world) (t : ttype) : world :=
  let c := w_cfg w in emit (set_cfg w (mkConfig (c_mode c) (c_rfc2428 c) t (c_tls c) (c_resume c))) [ESetType t].

Lemma run_settype_ret t v w : run (SetTypeCfg t (Ret v)) w = (OReturn v, with_type w t).
Proof. reflexivity. Qed.
Lemma run_ret v w : run (Ret v) w = (OReturn v, w).
Proof. reflexivity. Qed.

Lemma with_type_facts w t :
  (ready w -> ready (with_type w t)) /\ w_pending (with_type w t) = w_pending w /\ w_cur (with_type w t) = w_cur w /\
  c_type (w_cfg (with_type w t)) = t /\ w_trace (with_type w t) = w_trace w ++ [ESetType t].
Proof.
  split; [|repeat split; reflexivity]. unfold ready. intros (A & B & C & D). repeat split; assumption.
Qed.

Theorem set_type_call w t r rest x :
  ready w -> w_pending w = [] -> w_cur w = r :: rest -> simple_reaction r x ->
  exists w', step w (ASetType t) = (OReturn (RvReply x), w') /\
    ready w' /\ w_pending w' = [] /\ w_cur w' = rest /\
    c_type (w_cfg w') = (if is_positive x then t else c_type (w_cfg w)) /\
    wire_events (skipn (length (w_trace w)) (w_trace w')) = [WLine (TYPE_ ++ SP :: type_arg t); WReply x].
Proof.
  intros Hr Hp Hc Hs. rewrite step_set_type_unfold.
  assert (Ha : arg_ok (Some (type_arg t))) by (destruct t; reflexivity).
  rewrite (pc_step TYPE_ (Some (type_arg t)) _ (set_io w no_io) r rest x (ready_set_io w no_io Hr) Hc Hs Ha).
  destruct (after_command_facts (set_io w no_io) (TYPE_ ++ SP :: type_arg t) x r rest (ready_set_io w no_io Hr) Hc Hs Hp)
    as (A & B & C & D & _ & _ & _ & _ & _ & T).
  set (w1 := after_command (set_io w no_io) (TYPE_ ++ SP :: type_arg t) x) in *. clearbody w1.
  change (w_trace (set_io w no_io)) with (w_trace w) in T. change (w_obs (set_io w no_io)) with (w_obs w) in T.
  change (w_cfg (set_io w no_io)) with (w_cfg w) in D.
  destruct (is_positive x) eqn:P.
  - rewrite run_settype_ret. exists (with_type w1 t). split; [reflexivity|].
    destruct (with_type_facts w1 t) as (F1 & F2 & F3 & F4 & F5).
    split; [apply F1; exact A|]. split; [rewrite F2; exact C|]. split; [rewrite F3; exact B|]. split; [exact F4|].
    rewrite F5, T, <- !app_assoc, skipn_app, skipn_all, Nat.sub_diag. cbn [skipn app].
    rewrite !wire_events_app, !wire_events_block. cbn [app wire_events]. rewrite wire_events_app, wire_events_block. reflexivity.
  - rewrite run_ret. exists w1. split; [reflexivity|]. split; [exact A|]. split; [exact C|]. split; [exact B|].
    split; [rewrite D; reflexivity|]. rewrite T, skipn_app, skipn_all, Nat.sub_diag. cbn [skipn app].
    rewrite !wire_events_app, !wire_events_block. cbn [app wire_events]. rewrite wire_events_block. reflexivity.
Qed.

Lemma run_scope b w : run (Scope b) w = (let '(o, w1) := run b w in (o, set_data (close_data w1) None)).
Proof. reflexivity. Qed.
Lemma run_checkarg a k w : run (CheckArg a k) w = if has_crlf a then (OThrow, w) else run k w.
Proof. reflexivity. Qed.
Lemma run_getcfg k w : run (GetCfg k) w = run (k (w_cfg w)) w.
Proof. reflexivity. Qed.

(* rename: RNTO is sent exactly when RNFR was answered 350; all replies returned; session in step *)
Lemma step_rename_unfold w a b :
  step w (ARename a b) = run (op_rename a b) (set_io w no_io).
Proof. reflexivity. Qed.

Theorem rename_call w a b r1 rest x1 :
  ready w -> w_pending w = [] -> w_cur w = r1 :: rest -> simple_reaction r1 x1 ->
  has_crlf a = false -> has_crlf b = false ->
  (code x1 <> 350 ->
     exists w', step w (ARename a b) = (OReturn (RvReplies [x1]), w') /\ ready w' /\ w_pending w' = [] /\ w_cur w' = rest /\
       w_cfg w' = w_cfg w /\
       wire_events (skipn (length (w_trace w)) (w_trace w')) = [WLine (RNFR_ ++ SP :: a); WReply x1]) /\
  (code x1 = 350 -> forall r2 rest2 x2, rest = r2 :: rest2 -> simple_reaction r2 x2 ->
     exists w', step w (ARename a b) = (OReturn (RvReplies [x1; x2]), w') /\ ready w' /\ w_pending w' = [] /\ w_cur w' = rest2 /\
       w_cfg w' = w_cfg w /\
       wire_events (skipn (length (w_trace w)) (w_trace w')) =
         [WLine (RNFR_ ++ SP :: a); WReply x1; WLine (RNTO_ ++ SP :: b); WReply x2]).
Proof.
  intros Hr Hp Hc Hs Ha Hb. rewrite step_rename_unfold. unfold op_rename.
  rewrite run_checkarg, Hb.
  rewrite (pc_step RNFR_ (Some a) _ (set_io w no_io) r1 rest x1 (ready_set_io w no_io Hr) Hc Hs Ha).
  destruct (after_command_facts (set_io w no_io) (RNFR_ ++ SP :: a) x1 r1 rest (ready_set_io w no_io Hr) Hc Hs Hp)
    as (A & B & C & D & _ & O1 & _ & _ & _ & T).
  set (w1 := after_command (set_io w no_io) (RNFR_ ++ SP :: a) x1) in *. clearbody w1.
  change (w_trace (set_io w no_io)) with (w_trace w) in T. change (w_obs (set_io w no_io)) with (w_obs w) in *.
  change (w_cfg (set_io w no_io)) with (w_cfg w) in D.
  split.
  - intro N. apply N.eqb_neq in N. rewrite N, run_ret. exists w1. split; [reflexivity|].
    split; [exact A|]. split; [exact C|]. split; [exact B|]. split; [exact D|].
    rewrite T, skipn_app, skipn_all, Nat.sub_diag. cbn [skipn app].
    rewrite !wire_events_app, !wire_events_block. cbn [app wire_events]. rewrite wire_events_block. reflexivity.
  - intros E r2 rest2 x2 -> Hs2. apply N.eqb_eq in E. rewrite E.
    rewrite (pc_step RNTO_ (Some b) _ w1 r2 rest2 x2 A B Hs2 Hb).
    destruct (after_command_facts w1 (RNTO_ ++ SP :: b) x2 r2 rest2 A B Hs2 C) as (A2 & B2 & C2 & D2 & _ & _ & _ & _ & _ & T2).
    rewrite run_ret. eexists. split; [reflexivity|]. split; [exact A2|]. split; [exact C2|]. split; [exact B2|].
    split; [rewrite D2; exact D|].
    rewrite T2, T, <- !app_assoc, skipn_app, skipn_all, Nat.sub_diag. cbn [skipn app].
    rewrite !wire_events_app, !wire_events_block. cbn [app wire_events].
    rewrite !wire_events_app, !wire_events_block. cbn [app wire_events]. rewrite wire_events_block. reflexivity.
Qed.

(* ================================================================== C07: refusal at the set-up command (passive modes) *)
Lemma step_download_unfold w path cb f :
  step w (ADownload path cb f) = run (op_download path) (set_io w (mkIo cb (mkSink f O) [])).
Proof. reflexivity. Qed.
Lemma step_upload_unfold w u path ch cb :
  step w (AUpload u path ch cb) = run (op_upload (upverb_bytes u) path) (set_io w (mkIo cb (mkSink None O) ch)).
Proof. reflexivity. Qed.

Definition io_events (tr : list event) : list io_event :=
  concat (map (fun e => match e with EIo x => [x] | _ => [] end) tr).
Definition data_events (tr : list event) : list data_ev :=
  concat (map (fun e => match e with EData x => [x] | _ => [] end) tr).

Lemma io_events_app a b : io_events (a ++ b) = io_events a ++ io_events b.
Proof. unfold io_events. rewrite map_app, concat_app. reflexivity. Qed.
Lemma data_events_app a b : data_events (a ++ b) = data_events a ++ data_events b.
Proof. unfold data_events. rewrite map_app, concat_app. reflexivity. Qed.
Lemma io_events_block obs e : io_events (block obs e) = [].
Proof. induction obs; [reflexivity|]. exact IHobs. Qed.
Lemma data_events_block obs e : data_events (block obs e) = [].
Proof. induction obs; [reflexivity|]. exact IHobs. Qed.

(* projections through the updates used below, proved on an abstract world *)
Lemma close_data_none w : w_data w = None -> close_data w = w.
Proof. intro H. unfold close_data. rewrite H. reflexivity. Qed.
Lemma ready_set_data w d : ready w -> ready (set_data w d).
Proof. intro H. exact H. Qed.

Lemma refused_tail (w w1 : world) (line : bytes) (x : reply) (rest : list reaction) s o :
  ready w1 -> w_cur w1 = rest -> w_pending w1 = [] -> w_data w1 = None ->
  w_trace w1 = w_trace w ++ block (w_obs w) (ORequest line) ++ [EWire s o line] ++ [ERecv o x] ++ block (w_obs w) (OReply x) ->
  let w' := set_data (close_data w1) None in
  ready w' /\ w_pending w' = [] /\ w_cur w' = rest /\ w_data w' = None /\ w_cfg w' = w_cfg w1 /\
  io_events (skipn (length (w_trace w)) (w_trace w')) = [] /\
  data_events (skipn (length (w_trace w)) (w_trace w')) = [] /\
  wire_events (skipn (length (w_trace w)) (w_trace w')) = [WLine line; WReply x].
Proof.
  intros A B C Dd T. rewrite (close_data_none w1 Dd). cbv zeta.
  split; [apply ready_set_data; exact A|]. split; [exact C|]. split; [exact B|]. split; [reflexivity|]. split; [reflexivity|].
  change (w_trace (set_data w1 None)) with (w_trace w1).
  rewrite T, skipn_app, skipn_all, Nat.sub_diag. cbn [skipn]. rewrite app_nil_l.
  rewrite !io_events_app, !data_events_app, !wire_events_app, !io_events_block, !data_events_block, !wire_events_block.
  repeat split; reflexivity.
Qed.

(* EPSV / PASV answered 4xx or 5xx: the operation stops there - the reply is returned (overall status negative),
   no sink write, no flush, no source read, no callback event, no data socket was ever opened, and the session is
   exactly as a simple command would have left it *)
Theorem refused_at_passive_setup w verb path io r rest x :
  ready w -> w_pending w = [] -> w_data w = None -> w_cur w = r :: rest -> simple_reaction r x ->
  c_mode (w_cfg w) = Passive -> is_negative x = true -> has_crlf path = false ->
  let setup := if c_rfc2428 (w_cfg w) then EPSV_ else PASV_ in
  exists w',
    run (CheckArg path (Scope (create_data_connection verb (Some path) []
            (fun acc => PumpIn (fun _ => finish_transfer acc)) (fun acc => Ret (RvReplies acc))))) (set_io w io)
      = (OReturn (RvReplies [x]), w') /\
    ready w' /\ w_pending w' = [] /\ w_cur w' = rest /\ w_data w' = None /\ w_cfg w' = w_cfg w /\
    io_events (skipn (length (w_trace w)) (w_trace w')) = [] /\
    data_events (skipn (length (w_trace w)) (w_trace w')) = [] /\
    wire_events (skipn (length (w_trace w)) (w_trace w')) = [WLine setup; WReply x].
Proof.
  intros Hr Hp Hd Hc Hs Hm Hn Hpath setup.
  rewrite run_checkarg, Hpath, run_scope. unfold create_data_connection. rewrite run_getcfg.
  change (w_cfg (set_io w io)) with (w_cfg w). rewrite Hm. unfold setup.
  assert (Hr' : ready (set_io w io)) by exact Hr.
  destruct (c_rfc2428 (w_cfg w)).
  - rewrite (pc_step EPSV_ None _ (set_io w io) r rest x Hr' Hc Hs I). rewrite Hn, run_ret.
    destruct (after_command_facts (set_io w io) (EPSV_ ++ []) x r rest Hr' Hc Hs Hp)
      as (A & B & C & Cf & Dd & _ & _ & _ & _ & T).
    rewrite app_nil_r in *. change (w_cfg (set_io w io)) with (w_cfg w) in Cf.
    generalize dependent (after_command (set_io w io) EPSV_ x). intros w1 A B C Cf Dd T.
    eexists. split; [reflexivity|].
    destruct (refused_tail w w1 EPSV_ x rest (w_ssl (set_io w io) && w_tls_up (set_io w io)) (w_ord (set_io w io)) A B C) as (F1 & F2 & F3 & F4 & F5 & F6 & F7 & F8);
      [rewrite Dd; exact Hd|exact T|].
    split; [exact F1|]. split; [exact F2|]. split; [exact F3|]. split; [exact F4|]. split; [rewrite F5; exact Cf|]. auto.
  - rewrite (pc_step PASV_ None _ (set_io w io) r rest x Hr' Hc Hs I). rewrite Hn, run_ret.
    destruct (after_command_facts (set_io w io) (PASV_ ++ []) x r rest Hr' Hc Hs Hp)
      as (A & B & C & Cf & Dd & _ & _ & _ & _ & T).
    rewrite app_nil_r in *. change (w_cfg (set_io w io)) with (w_cfg w) in Cf.
    generalize dependent (after_command (set_io w io) PASV_ x). intros w1 A B C Cf Dd T.
    eexists. split; [reflexivity|].
    destruct (refused_tail w w1 PASV_ x rest (w_ssl (set_io w io) && w_tls_up (set_io w io)) (w_ord (set_io w io)) A B C) as (F1 & F2 & F3 & F4 & F5 & F6 & F7 & F8);
      [rewrite Dd; exact Hd|exact T|].
    split; [exact F1|]. split; [exact F2|]. split; [exact F3|]. split; [exact F4|]. split; [rewrite F5; exact Cf|]. auto.
Qed.

(* ================================================================== C13 *)
Lemma step_disconnect_unfold w g : step w (ADisconnect g) = run (op_disconnect g) (set_io w no_io).
Proof. reflexivity. Qed.

Lemma ctl_disconnect_facts w :
  let w' := snd (ctl_disconnect w) in
  w_open w' = false /\ w_ssl w' = false /\ w_tls_up w' = false /\ w_backlog w' = [] /\ w_pending w' = [] /\
  w_data w' = w_data w /\ exists es, w_trace w' = w_trace w ++ es /\ wire_events es = [].
Proof.
  unfold ctl_disconnect. cbn [snd]. repeat split; try reflexivity.
  eexists. split; [reflexivity|]. destruct (w_ssl w); reflexivity.
Qed.

(* a non-graceful disconnect: from ANY state - failed handshake, dead peer, unread bytes, mid-session - whether it
   returns or reports an error, it writes no command and leaves the client disconnected, plain, holding no control
   socket (data sockets never outlive a call: C17) *)
Theorem disconnect_releases w : (w_tls_up w = true -> w_ssl w = true) ->
  let '(o, w') := step w (ADisconnect false) in
  w_open w' = false /\ w_ssl w' = false /\ w_tls_up w' = false /\ w_data w' = w_data w /\
  (o = OReturn (RvOptReply None) \/ o = OThrow) /\
  exists es, w_trace w' = w_trace w ++ es /\ wire_events es = [].
Proof.
  intro Wf. rewrite step_disconnect_unfold. unfold op_disconnect.
  change (run (IsOpen ?k) ?w0) with (run (k (w_open w0)) w0). cbv beta.
  change (w_open (set_io w no_io)) with (w_open w).
  destruct (w_open w) eqn:Ho.
  - change (run (CtlDisconnect ?k) ?w0) with (let '(ok, w1) := ctl_disconnect w0 in if ok then run k w1 else (OThrow, w1)).
    destruct (ctl_disconnect_facts (set_io w no_io)) as (A & B & C & _ & _ & D & es & T & W).
    destruct (ctl_disconnect (set_io w no_io)) as [ok w1]. cbn [snd] in *.
    destruct ok.
    + change (run (IsSsl ?k) ?w0) with (run (k (w_ssl w0)) w0). cbv beta. rewrite B. cbn [run].
      repeat split; auto. exists es. auto.
    + repeat split; auto. exists es. auto.
  - change (run (IsSsl ?k) ?w0) with (run (k (w_ssl w0)) w0). cbv beta.
    change (w_ssl (set_io w no_io)) with (w_ssl w).
    destruct (w_ssl w) eqn:Hs; cbn [run].
    + repeat split; auto. exists [ECtl (CSetSsl false)]. split; reflexivity.
    + cbn [w_open w_ssl w_tls_up w_data set_io w_trace]. rewrite Ho, Hs.
      assert (Hu : w_tls_up w = false).
      { destruct (w_tls_up w) eqn:U; [|reflexivity]. specialize (Wf eq_refl). congruence. }
      repeat split; auto; try (exists []; rewrite app_nil_r; split; reflexivity).
Qed.

(* a new connection starts clean, whatever the previous session left behind (unread replies, pending replies,
   an ssl_socket object, a TLS session): plain socket, and the only thing to read is the new peer's greeting *)
Theorem fresh_session h p k w s rest : w_script w = s :: rest -> s_reachable s = true ->
  exists w1, run (CtlConnect h p k) w = run k w1 /\
    w_open w1 = true /\ w_ssl w1 = false /\ w_tls_up w1 = false /\ w_sess_id w1 = O /\
    w_backlog w1 = tag (w_ord w) (r_now (s_greeting s)) /\ w_pending w1 = [] /\ w_cur w1 = s_reactions s.
Proof.
  intros Hs Hr. cbn [run].
  change (w_script (set_queues (set_ctl (if w_open w then emit w [ECtl CClose] else w) false false false 0) [] []))
    with (w_script (if w_open w then emit w [ECtl CClose] else w)).
  assert (E : w_script (if w_open w then emit w [ECtl CClose] else w) = s :: rest) by (destruct (w_open w); exact Hs).
  rewrite E, Hr. cbn [negb]. eexists. split; [reflexivity|].
  cbn [w_open w_ssl w_tls_up w_sess_id w_backlog w_pending w_cur emit set_trace].
  repeat split; try reflexivity. destruct (w_open w); reflexivity.
Qed.

(* 421: the reply is delivered (or the failure of the TLS shutdown reported) and the connection is closed *)
Theorem recv_421_closes k w t x rest : w_open w = true -> w_backlog w = (t, RReply x) :: rest -> code x = 421 ->
  exists w2, w_open w2 = false /\ w_ssl w2 = false /\ w_backlog w2 = [] /\
    (run (Recv k) w = run (k x) (notify w2 (OReply x)) \/ run (Recv k) w = (OThrow, w2)).
Proof.
  intros Ho Hb Hc. apply N.eqb_eq in Hc. cbn [run]. rewrite Ho, Hb, Hc. cbn [negb].
  destruct (ctl_disconnect_facts (emit (set_queues w rest (w_pending w)) [ERecv t x])) as (A & B & _ & D & _).
  destruct (ctl_disconnect _) as [ok w2]. cbn [snd] in *. exists w2. repeat split; auto.
  destruct ok; auto.
Qed.

(* ================================================================== the TLS configuration is fixed *)
Definition keeps (w w' : world) : Prop :=
  c_tls (w_cfg w') = c_tls (w_cfg w) /\ c_resume (w_cfg w') = c_resume (w_cfg w).

Lemma keeps_refl w : keeps w w.
Proof. split; reflexivity. Qed.
Lemma keeps_trans a b c : keeps a b -> keeps b c -> keeps a c.
Proof. intros (A1 & A2) (B1 & B2). split; congruence. Qed.
Lemma keeps_same a b : w_cfg b = w_cfg a -> keeps a b.
Proof. intro H. unfold keeps. rewrite H. auto. Qed.

Lemma keeps_do_send w line w' : do_send w line = Some w' -> keeps w w'.
Proof.
  unfold do_send. destruct (negb _); [discriminate|]. destruct (_ && _); [discriminate|].
  destruct (w_peer_closed _); intro H; inversion H; subst; apply keeps_same; [reflexivity|].
  unfold peer_react. destruct (w_cur _); reflexivity.
Qed.

Lemma keeps_close_data w : keeps w (close_data w).
Proof.
  apply keeps_same. unfold close_data. destruct (w_data w) as [d|]; [|reflexivity].
  destruct (d_sock d), (d_acc d); reflexivity.
Qed.

Ltac ksame := apply keeps_same; reflexivity.

Lemma run_keeps : forall p w, keeps w (snd (run p w)).
Proof.
  induction p as [v| |a k IH|verb arg k IH|line k IH|a k IH|k IH|e k IH|k IH|t k IH|k IH|k IH|h pt k IH|on k IH|k IH|k IH|k IH
                 |k IH|ip port k IH|k IH|k IH|k IH|g k IH|k IH|k IH|k IH|k IH|body IH]; intro w; cbn [run].
  - apply keeps_refl.
  - apply keeps_refl.
  - destruct (has_crlf a); [apply keeps_refl|apply IH].
  - destruct arg as [a|].
    + destruct (has_crlf a); [apply keeps_refl|].
      destruct (do_send w _) as [w'|] eqn:E; cbn [snd]; [eapply keeps_trans; [eapply keeps_do_send; eauto|apply IH]|ksame].
    + destruct (do_send w _) as [w'|] eqn:E; cbn [snd]; [eapply keeps_trans; [eapply keeps_do_send; eauto|apply IH]|ksame].
  - destruct (do_send w _) as [w'|] eqn:E; cbn [snd]; [eapply keeps_trans; [eapply keeps_do_send; eauto|apply IH]|ksame].
  - destruct (match a with AdvEprt => _ | AdvPort => _ end) as [line|]; [|apply keeps_refl].
    destruct (do_send w _) as [w'|] eqn:E; cbn [snd]; [eapply keeps_trans; [eapply keeps_do_send; eauto|apply IH]|ksame].
  - destruct (negb (w_open w)); [apply keeps_refl|].
    destruct (w_backlog w) as [|[t [r|]] rest]; [destruct (w_peer_closed w); apply keeps_refl| |cbn [snd]; ksame].
    destruct (code r =? 421).
    + unfold ctl_disconnect. cbv zeta. destruct (negb _ || _); cbn [snd]; [eapply keeps_trans; [|apply IH]|]; ksame.
    + eapply keeps_trans; [|apply IH]. ksame.
  - eapply keeps_trans; [|apply IH]. ksame.
  - apply IH.
  - eapply keeps_trans; [|apply IH]. split; reflexivity.
  - apply IH.
  - apply IH.
  - destruct (w_script _) as [|s rest]; cbn [snd]; [destruct (w_open w); ksame|].
    destruct (negb (s_reachable s)); cbn [snd]; [destruct (w_open w); ksame|].
    eapply keeps_trans; [|apply IH]. destruct (w_open w); ksame.
  - eapply keeps_trans; [|apply IH]. ksame.
  - destruct (_ && _); cbn [snd]; [eapply keeps_trans; [|apply IH]|]; ksame.
  - destruct (_ && _); cbn [snd]; [eapply keeps_trans; [|apply IH]|]; ksame.
  - unfold ctl_disconnect. cbv zeta. destruct (negb _ || _); cbn [snd]; [eapply keeps_trans; [|apply IH]|]; ksame.
  - eapply keeps_trans; [|apply IH]. ksame.
  - destruct (dp_reachable _); cbn [snd]; [eapply keeps_trans; [|apply IH]|]; ksame.
  - eapply keeps_trans; [|apply IH]. ksame.
  - destruct (dp_reachable _); cbn [snd]; [eapply keeps_trans; [|apply IH]; ksame|apply keeps_refl].
  - destruct (dp_tls_ok _); cbn [snd]; [eapply keeps_trans; [|apply IH]|]; ksame.
  - destruct (w_data w) as [d|]; [|apply IH].
    destruct (_ && _); cbn [snd]; [ksame|].
    eapply keeps_trans; [|apply IH]. eapply keeps_trans; [|apply keeps_close_data]. ksame.
  - destruct (data_recv _ _ _ _ _) as [[ev r] cb']. destruct r; cbn [snd]; try (eapply keeps_trans; [|apply IH]); ksame.
  - destruct (data_recv _ _ _ _ _) as [[ev r] cb']. destruct r; cbn [snd]; try (eapply keeps_trans; [|apply IH]); ksame.
  - destruct (data_send _ _ _ _) as [[ev r] cb']. destruct r; cbn [snd]; try (eapply keeps_trans; [|apply IH]); ksame.
  - destruct (io_cb (w_io w)) as [answers|]; [|apply IH].
    destruct (poll answers) as [a answers']. eapply keeps_trans; [|apply IH]. ksame.
  - destruct (run body w) as [o w1] eqn:R. cbn [snd].
    pose proof (IH w) as X. rewrite R in X. cbn [snd] in X.
    eapply keeps_trans; [exact X|]. eapply keeps_trans; [apply keeps_close_data|ksame].
Qed.

Theorem step_keeps_tls_config a w : keeps w (snd (step w a)).
Proof.
  destruct a; unfold step; try (eapply keeps_trans; [|apply run_keeps]; ksame); split; reflexivity.
Qed.

(* ================================================================== TLS gating of the control channel *)
(* a command written while the TLS layer is up is written inside TLS; between "switch to the TLS socket" and the
   completed handshake nothing can be written at all *)
Lemma peer_react_trace w : w_trace (peer_react w) = w_trace w.
Proof. unfold peer_react. destruct (w_cur w); reflexivity. Qed.

Theorem send_is_secured_iff_tls_up w line w' : do_send w line = Some w' ->
  (w_ssl w = true -> w_tls_up w = true) /\
  (w_peer_closed w = false ->
   w_trace w' = w_trace w ++ block (w_obs w) (ORequest line) ++ [EWire (w_ssl w && w_tls_up w) (w_ord w) line]).
Proof.
  unfold do_send.
  change (w_open (notify w (ORequest line))) with (w_open w).
  change (w_ssl (notify w (ORequest line))) with (w_ssl w).
  change (w_tls_up (notify w (ORequest line))) with (w_tls_up w).
  change (w_peer_closed (notify w (ORequest line))) with (w_peer_closed w).
  change (w_ord (notify w (ORequest line))) with (w_ord w).
  destruct (negb (w_open w)); [discriminate|].
  destruct (w_ssl w) eqn:S, (w_tls_up w) eqn:U; cbn [andb negb]; try discriminate; intro H;
    (split; [auto|]); intro Hp; rewrite Hp in H; inversion H; subst;
    rewrite peer_react_trace; cbn [w_trace emit set_trace notify]; unfold block; rewrite <- ?app_assoc; reflexivity.
Qed.

(* the control handshake: on success the TLS layer is up with a fresh session; on failure the call ends in
   ftp_exception and the continuation (the login) is never run *)
Theorem ctl_handshake_cases k w :
  (w_last_tls_ok w && negb (w_peer_closed w) = true ->
     exists w1, run (CtlHandshake k) w = run k w1 /\ w_tls_up w1 = true /\ w_ssl w1 = w_ssl w /\
                w_sess_id w1 = w_next_sess w /\ w_next_sess w1 = S (w_next_sess w) /\
                w_trace w1 = w_trace w ++ [ECtl (CHandshake true (w_next_sess w))]) /\
  (w_last_tls_ok w && negb (w_peer_closed w) = false ->
     run (CtlHandshake k) w = (OThrow, emit w [ECtl (CHandshake false O)])).
Proof.
  split; intro H; cbn [run]; rewrite H; [|reflexivity].
  eexists. split; [reflexivity|]. cbn. repeat split; reflexivity.
Qed.

(* the data handshake offers the control connection's current session exactly when resumption is configured *)
Theorem data_handshake_offer k w :
  let offered := if c_resume (w_cfg w) then Some (w_sess_id w) else None in
  (dp_tls_ok (w_plan w) = true ->
     exists w1, run (DHandshakeP k) w = run k w1 /\ w_trace w1 = w_trace w ++ [EData (DHandshake offered true)] /\
                w_sess_id w1 = w_sess_id w /\ w_cfg w1 = w_cfg w) /\
  (dp_tls_ok (w_plan w) = false ->
     exists w1, run (DHandshakeP k) w = (OThrow, w1) /\ w_trace w1 = w_trace w ++ [EData (DHandshake offered false)]).
Proof.
  cbv zeta. split; intro H; cbn [run]; rewrite H; eexists; (split; [reflexivity|]); cbn; repeat split; reflexivity.
Qed.

(* a command/reply exchange leaves the TLS state of the control connection alone *)
Lemma after_command_tls w line x r rest : w_cur w = r :: rest ->
  w_sess_id (after_command w line x) = w_sess_id w /\ w_ssl (after_command w line x) = w_ssl w /\
  w_tls_up (after_command w line x) = w_tls_up w /\ w_next_sess (after_command w line x) = w_next_sess w.
Proof.
  intro Hc. destruct w as [f1 f2 f3 f4 f5 f6 f7 f8 f9 f10 f11 f12 f13 f14 f15 f16 f17 f18 f19 f20]. cbn in Hc. subst.
  unfold after_command, peer_react. cbn. repeat split; reflexivity.
Qed.

(* ================================================================== C06: where the data connection goes *)
Lemma after_command_plan w line x r rest : w_cur w = r :: rest -> w_plan (after_command w line x) = r_data r.
Proof.
  intro Hc. destruct w as [f1 f2 f3 f4 f5 f6 f7 f8 f9 f10 f11 f12 f13 f14 f15 f16 f17 f18 f19 f20]. cbn in Hc. subst.
  unfold after_command, peer_react. reflexivity.
Qed.

Lemma run_dnew_dconnect ip port k w : dp_reachable (w_plan w) = true ->
  exists w2, run (DNew (DConnect ip port k)) w = run k w2 /\
             w_trace w2 = w_trace w ++ [EData DNewObj; EData (DConnectTo ip port true)] /\
             w_data w2 = Some (mkD true false false).
Proof.
  intro H. cbn [run]. change (w_plan (emit (set_data w (Some (mkD false false false))) [EData DNewObj])) with (w_plan w).
  rewrite H. eexists. split; [reflexivity|]. cbn [w_trace w_data emit set_trace set_data]. rewrite <- app_assoc. auto.
Qed.

Lemma run_dnew_dconnect_fail ip port k w : dp_reachable (w_plan w) = false ->
  exists w2, run (DNew (DConnect ip port k)) w = (OThrow, w2) /\
             w_trace w2 = w_trace w ++ [EData DNewObj; EData (DConnectTo ip port false)].
Proof.
  intro H. cbn [run]. change (w_plan (emit (set_data w (Some (mkD false false false))) [EData DNewObj])) with (w_plan w).
  rewrite H. eexists. split; [reflexivity|]. cbn [w_trace emit set_trace set_data]. rewrite <- app_assoc. auto.
Qed.

(* passive, RFC 2428: after a non-negative reply to EPSV the client connects to the control connection's peer
   (ip = None) at exactly the port the 229 parser returns; a reply the parser rejects is an error and no socket is
   opened *)
Theorem epsv_connects_to_parsed verb arg acc k_ok k_none w r rest x :
  ready w -> w_pending w = [] -> w_cur w = r :: rest -> simple_reaction r x -> is_negative x = false ->
  c_mode (w_cfg w) = Passive -> c_rfc2428 (w_cfg w) = true ->
  match try_parse_epsv_reply (text x) with
  | Some port =>
      dp_reachable (r_data r) = true ->
      exists w2 K, run (create_data_connection verb arg acc k_ok k_none) w = run K w2 /\
        data_events (skipn (length (w_trace w)) (w_trace w2)) = [DNewObj; DConnectTo None port true]
  | None =>
      exists w2, run (create_data_connection verb arg acc k_ok k_none) w = (OThrow, w2) /\
        data_events (skipn (length (w_trace w)) (w_trace w2)) = []
  end.
Proof.
  intros Hr Hp Hc Hs Hn Hm Hrfc. unfold create_data_connection. rewrite run_getcfg, Hm, Hrfc.
  rewrite (pc_step EPSV_ None _ w r rest x Hr Hc Hs I). rewrite Hn.
  assert (T : exists es, w_trace (after_command w (EPSV_ ++ []) x) = w_trace w ++ es /\ data_events es = []).
  { destruct (after_command_facts w (EPSV_ ++ []) x r rest Hr Hc Hs Hp) as (_ & _ & _ & _ & _ & _ & _ & _ & _ & T).
    eexists. split; [exact T|]. rewrite !data_events_app, !data_events_block. reflexivity. }
  pose proof (after_command_plan w (EPSV_ ++ []) x r rest Hc) as Pl.
  destruct T as (es & T & De).
  generalize dependent (after_command w (EPSV_ ++ []) x). intros w1 T Pl.
  destruct (try_parse_epsv_reply (text x)) as [port|].
  - intro Hreach. rewrite <- Pl in Hreach.
    destruct (run_dnew_dconnect None port
      (process_command verb arg (fun r2 =>
         if is_negative r2 then DDisconnect true (k_none ((acc ++ [x]) ++ [r2]))
         else if c_tls (w_cfg w) then DHandshakeP (k_ok ((acc ++ [x]) ++ [r2])) else k_ok ((acc ++ [x]) ++ [r2]))) w1 Hreach)
      as (w2 & E & T2 & _).
    exists w2. eexists. split; [exact E|].
    rewrite T2, T, <- app_assoc, skipn_app, skipn_all, Nat.sub_diag. cbn [skipn]. rewrite app_nil_l, data_events_app, De. reflexivity.
  - exists w1. split; [reflexivity|]. rewrite T, skipn_app, skipn_all, Nat.sub_diag. cbn [skipn]. rewrite app_nil_l. exact De.
Qed.
