(* Returns_Global.v - C02 / C15 over EVERY call, every state and every behaviour of the server: a call that returns,
   returns every reply it read from the control connection, in the order they were read - no reply swallowed, none
   invented, none duplicated (logout, whose result type is a single reply, returns the last one it read). *)
From LibFtp Require Import Bytes Decimal Reply Endpoint DataConn Client Client_Proofs.
Local Open Scope N_scope.

Fixpoint recvd (tr : list event) : list reply :=
  match tr with
  | [] => []
  | ERecv _ r :: tr' => r :: recvd tr'
  | _ :: tr' => recvd tr'
  end.

Lemma recvd_app a b : recvd (a ++ b) = recvd a ++ recvd b.
Proof. induction a as [|e a IH]; [reflexivity|]. destruct e; cbn [app recvd]; rewrite ?IH; reflexivity. Qed.

Lemma recvd_obs obs e : recvd (map (fun o => EObs o e) obs) = [].
Proof. induction obs as [|o obs IH]; [reflexivity|exact IH]. Qed.
Lemma recvd_io ev : recvd (map EIo ev) = [].
Proof. induction ev as [|e ev IH]; [reflexivity|exact IH]. Qed.

(* what a returned value must be, given the replies read during the call *)
Definition retmatch (v : retv) (got : list reply) : Prop :=
  match v with
  | RvReplies l => l = got
  | RvList l _ => l = got
  | RvReply r => exists pre, got = pre ++ [r]
  | RvOptReply o => got = match o with Some r => [r] | None => [] end
  | RvUnit => got = []
  end.

Definition Res (got : list reply) (w : world) (ow : outcome * world) : Prop :=
  exists tr, w_trace (snd ow) = w_trace w ++ tr /\
    match fst ow with OReturn v => retmatch v (got ++ recvd tr) | _ => True end.

Lemma Res_then got w w1 t1 ow : w_trace w1 = w_trace w ++ t1 -> Res (got ++ recvd t1) w1 ow -> Res got w ow.
Proof.
  intros E (t2 & E2 & M). exists (t1 ++ t2). rewrite E2, E, app_assoc. split; [reflexivity|].
  destruct (fst ow); try exact I. rewrite recvd_app, app_assoc. exact M.
Qed.

Lemma Res_quiet got w w1 t1 ow : w_trace w1 = w_trace w ++ t1 -> recvd t1 = [] -> Res got w1 ow -> Res got w ow.
Proof. intros E Q H. apply (Res_then got w w1 t1); [exact E|]. rewrite Q, app_nil_r. exact H. Qed.

Lemma Res_stop got w w1 t1 o : w_trace w1 = w_trace w ++ t1 -> match o with OReturn _ => False | _ => True end -> Res got w (o, w1).
Proof. intros E H. exists t1. split; [exact E|]. cbn [fst]. destruct o; [destruct H|exact I|exact I]. Qed.

Lemma Res_same got w w1 ow : w_trace w1 = w_trace w -> Res got w1 ow -> Res got w ow.
Proof. intros E H. apply (Res_quiet got w w1 []); [rewrite app_nil_r; exact E|reflexivity|exact H]. Qed.

Ltac tcalc := cbn [w_trace emit set_trace set_queues set_io set_data set_cfg set_ctl set_obs release_pending notify];
              rewrite <- ?app_assoc; reflexivity.
Ltac stop_here := eapply Res_stop; [first [rewrite app_nil_r; reflexivity | tcalc | (instantiate (1 := []); rewrite app_nil_r; reflexivity)]|exact I].
Ltac qk tac := eapply Res_quiet; [| |tac]; [tcalc|first [reflexivity | apply recvd_obs | apply recvd_io]].

Lemma ext_do_send_q w line w' : do_send w line = Some w' -> exists t1, w_trace w' = w_trace w ++ t1 /\ recvd t1 = [].
Proof.
  unfold do_send. destruct (negb _); [discriminate|]. destruct (_ && negb _); [discriminate|].
  destruct (w_peer_closed _); intro H; inversion H; subst; clear H.
  - eexists. split; [cbn [w_trace emit set_trace notify]; rewrite <- app_assoc; reflexivity|].
    rewrite recvd_app, recvd_obs. reflexivity.
  - eexists. split; [rewrite peer_react_trace; cbn [w_trace emit set_trace notify]; rewrite <- app_assoc; reflexivity|].
    rewrite recvd_app, recvd_obs. reflexivity.
Qed.

Lemma ext_close_data_q w : exists t1, w_trace (close_data w) = w_trace w ++ t1 /\ recvd t1 = [].
Proof.
  unfold close_data. destruct (w_data w) as [d|]; [|exists []; rewrite app_nil_r; split; reflexivity].
  destruct (d_sock d), (d_acc d); cbv zeta.
  - exists [EData DClose; EData DAccClose]. split; [cbn [w_trace set_data emit set_trace release_pending set_queues]; rewrite <- app_assoc; reflexivity|reflexivity].
  - exists [EData DClose]. split; reflexivity.
  - exists [EData DAccClose]. split; reflexivity.
  - exists []. rewrite app_nil_r. split; reflexivity.
Qed.

Lemma ext_ctl_disconnect_q w : exists t1, w_trace (snd (ctl_disconnect w)) = w_trace w ++ t1 /\ recvd t1 = [].
Proof.
  unfold ctl_disconnect. cbn [snd]. eexists. split; [cbn [w_trace set_queues set_ctl emit set_trace]; reflexivity|].
  destruct (w_ssl w); reflexivity.
Qed.

(* [ra p got]: given that [got] are the replies read so far in this call, whatever p returns matches what will have been
   read by then *)
Fixpoint ra (p : prog) (got : list reply) : Prop :=
  match p with
  | Ret v => retmatch v got
  | Throw => True
  | Recv k => forall r, ra (k r) (got ++ [r])
  | PumpIn k | PumpOut k => forall x, ra (k x) got
  | PumpInList k => forall t, ra (k t) got
  | GetCfg k => forall c, ra (k c) got
  | IsOpen k | IsSsl k | Poll k => forall b, ra (k b) got
  | CheckArg _ k | Send _ _ k | SendRaw _ k | SendAdv _ k | Notify _ k | SetTypeCfg _ k | CtlConnect _ _ k | CtlSetSsl _ k
  | CtlHandshake k | CtlTlsShutdown k | CtlDisconnect k | DNew k | DConnect _ _ k | DListenP k | DAccept k | DHandshakeP k
  | DDisconnect _ k | Scope k => ra k got
  end.

Lemma run_ra : forall p got w, ra p got -> Res got w (run p w).
Proof.
  induction p as [v| |a k IH|verb arg k IH|line k IH|a k IH|k IH|e k IH|k IH|t k IH|k IH|k IH|h pt k IH|on k IH|k IH|k IH|k IH
                 |k IH|ip port k IH|k IH|k IH|k IH|g k IH|k IH|k IH|k IH|k IH|body IH]; intros got w N; cbn [run]; cbn [ra] in N.
  - exists []. rewrite app_nil_r. split; [reflexivity|]. cbn [fst recvd]. rewrite app_nil_r. exact N.
  - stop_here.
  - destruct (has_crlf a); [stop_here|apply IH; exact N].
  - destruct arg as [a|].
    + destruct (has_crlf a); [stop_here|].
      destruct (do_send w _) as [w'|] eqn:E.
      * destruct (ext_do_send_q _ _ _ E) as (t1 & E1 & Q1). eapply Res_quiet; [exact E1|exact Q1|apply IH; exact N].
      * eapply Res_stop; [cbn [w_trace notify emit set_trace]; reflexivity|exact I].
    + destruct (do_send w _) as [w'|] eqn:E.
      * destruct (ext_do_send_q _ _ _ E) as (t1 & E1 & Q1). eapply Res_quiet; [exact E1|exact Q1|apply IH; exact N].
      * eapply Res_stop; [cbn [w_trace notify emit set_trace]; reflexivity|exact I].
  - destruct (do_send w _) as [w'|] eqn:E.
    + destruct (ext_do_send_q _ _ _ E) as (t1 & E1 & Q1). eapply Res_quiet; [exact E1|exact Q1|apply IH; exact N].
    + eapply Res_stop; [cbn [w_trace notify emit set_trace]; reflexivity|exact I].
  - destruct (match a with AdvEprt => _ | AdvPort => _ end) as [line|]; [|stop_here].
    destruct (do_send w _) as [w'|] eqn:E.
    + destruct (ext_do_send_q _ _ _ E) as (t1 & E1 & Q1). eapply Res_quiet; [exact E1|exact Q1|apply IH; exact N].
    + eapply Res_stop; [cbn [w_trace notify emit set_trace]; reflexivity|exact I].
  - (* Recv *)
    destruct (negb (w_open w)); [stop_here|].
    destruct (w_backlog w) as [|[t [r|]] rest].
    + destruct (w_peer_closed w); stop_here.
    + set (w1 := emit (set_queues w rest (w_pending w)) [ERecv t r]).
      destruct (code r =? 421).
      * destruct (ctl_disconnect w1) as [ok w2] eqn:D.
        destruct (ext_ctl_disconnect_q w1) as (t2 & E2 & Q2). rewrite D in E2. cbn [snd] in E2.
        destruct ok.
        -- apply (Res_then got w (notify w2 (OReply r)) ([ERecv t r] ++ t2 ++ map (fun o => EObs o (OReply r)) (w_obs w2))).
           ++ cbn [w_trace notify emit set_trace]. rewrite E2. unfold w1. cbn [w_trace emit set_trace set_queues].
              rewrite <- !app_assoc. reflexivity.
           ++ cbn [app recvd]. rewrite recvd_app, Q2, recvd_obs. cbn [app]. apply IH. apply N.
        -- eapply Res_stop; [rewrite E2; unfold w1; cbn [w_trace emit set_trace set_queues]; rewrite <- app_assoc; reflexivity|exact I].
      * apply (Res_then got w (notify w1 (OReply r)) ([ERecv t r] ++ map (fun o => EObs o (OReply r)) (w_obs w1))).
        -- unfold w1. cbn [w_trace notify emit set_trace set_queues]. rewrite <- app_assoc. reflexivity.
        -- cbn [app recvd]. rewrite recvd_obs. apply IH. apply N.
    + stop_here.
  - qk ltac:(apply IH; exact N).
  - apply IH. apply N.
  - qk ltac:(apply IH; exact N).
  - apply IH. apply N.
  - apply IH. apply N.
  - (* CtlConnect *)
    match goal with |- context [match w_script ?w0 with _ => _ end] => set (W0 := w0) end.
    assert (X0 : exists e0, w_trace W0 = w_trace w ++ e0 /\ recvd e0 = []).
    { unfold W0. destruct (w_open w); [exists [ECtl CClose]|exists []]; (split; [cbn [w_trace set_queues set_ctl emit set_trace]; rewrite ?app_nil_r; reflexivity|reflexivity]). }
    destruct X0 as (e0 & E0 & Q0).
    destruct (w_script W0) as [|s rest].
    + eapply Res_stop; [cbn [w_trace emit set_trace]; rewrite E0, <- app_assoc; reflexivity|exact I].
    + destruct (negb (s_reachable s)).
      * eapply Res_stop; [cbn [w_trace emit set_trace]; rewrite E0, <- app_assoc; reflexivity|exact I].
      * eapply Res_quiet; [| |apply IH; exact N].
        -- cbn [w_trace emit set_trace]. rewrite E0, <- app_assoc. reflexivity.
        -- rewrite recvd_app, Q0. reflexivity.
  - qk ltac:(apply IH; exact N).
  - destruct (w_last_tls_ok w && negb (w_peer_closed w)).
    + qk ltac:(apply IH; exact N).
    + eapply Res_stop; [cbn [w_trace emit set_trace]; reflexivity|exact I].
  - destruct (w_tls_up w && w_tls_clean w && negb (w_peer_closed w)).
    + qk ltac:(apply IH; exact N).
    + eapply Res_stop; [cbn [w_trace emit set_trace]; reflexivity|exact I].
  - destruct (ctl_disconnect w) as [ok w1] eqn:D.
    destruct (ext_ctl_disconnect_q w) as (t2 & E2 & Q2). rewrite D in E2. cbn [snd] in E2.
    destruct ok; [eapply Res_quiet; [exact E2|exact Q2|apply IH; exact N]|eapply Res_stop; [exact E2|exact I]].
  - qk ltac:(apply IH; exact N).
  - destruct (dp_reachable (w_plan w)); [qk ltac:(apply IH; exact N)|eapply Res_stop; [cbn [w_trace emit set_trace]; reflexivity|exact I]].
  - qk ltac:(apply IH; exact N).
  - destruct (dp_reachable (w_plan w)); [qk ltac:(apply IH; exact N)|stop_here].
  - destruct (dp_tls_ok (w_plan w)); [qk ltac:(apply IH; exact N)|eapply Res_stop; [cbn [w_trace emit set_trace set_data]; reflexivity|exact I]].
  - destruct (w_data w) as [d|]; [|apply IH; exact N].
    destruct (d_ssl d && negb (dp_shutdown_ok (w_plan w))); [eapply Res_stop; [cbn [w_trace emit set_trace]; reflexivity|exact I]|].
    match goal with |- context [close_data ?W] => set (W1 := W) end.
    destruct (ext_close_data_q W1) as (t2 & E2 & Q2).
    eapply Res_quiet; [| |apply IH; exact N].
    + rewrite E2. unfold W1. cbn [w_trace emit set_trace]. rewrite <- app_assoc. reflexivity.
    + rewrite recvd_app, Q2. destruct (d_ssl d), g; reflexivity.
  - destruct (data_recv _ _ _ _ _) as [[ev r] cb'].
    destruct r; try (eapply Res_stop; [cbn [w_trace emit set_trace set_io]; reflexivity|exact I]);
      (qk ltac:(apply IH; apply N)).
  - destruct (data_recv _ _ _ _ _) as [[ev r] cb'].
    destruct r; try (eapply Res_stop; [cbn [w_trace emit set_trace]; reflexivity|exact I]);
      (qk ltac:(apply IH; apply N)).
  - destruct (data_send _ _ _ _) as [[ev r] cb'].
    destruct r; try (eapply Res_stop; [cbn [w_trace emit set_trace set_io]; reflexivity|exact I]);
      (qk ltac:(apply IH; apply N)).
  - destruct (io_cb (w_io w)) as [answers|]; [|apply IH; apply N].
    destruct (poll answers) as [a answers'].
    qk ltac:(apply IH; apply N).
  - (* Scope *)
    destruct (run body w) as [o w1] eqn:Rn.
    pose proof (IH got w N) as (tr & E & M). rewrite Rn in E, M. cbn [fst snd] in E, M.
    destruct (ext_close_data_q w1) as (t2 & E2 & Q2).
    exists (tr ++ t2). cbn [fst snd]. split.
    + cbn [w_trace set_data]. rewrite E2, E, app_assoc. reflexivity.
    + destruct o; try exact I. rewrite recvd_app, Q2, app_nil_r. exact M.
Qed.

(* ------------------------------------------------------------------ the operations *)
Ltac norm := rewrite <- ?app_assoc; cbn [app].
Ltac rat K := repeat (cbn [ra]; first
  [ exact I | intro
  | match goal with
    | |- ra (if ?b then _ else _) _ => destruct b
    | |- ra (match ?x with _ => _ end) _ => destruct x
    | |- ra (let _ := _ in _) _ => cbv zeta
    end ]); try (norm; apply K).

Lemma ra_process_login u pw acc k : (forall a, ra (k a) a) -> ra (process_login u pw acc k) acc.
Proof. intro K. unfold process_login, process_command, process_raw. rat K. Qed.

Lemma ra_cdc verb arg acc k_ok k_none :
  (forall a, ra (k_ok a) a) -> (forall a, ra (k_none a) a) -> ra (create_data_connection verb arg acc k_ok k_none) acc.
Proof.
  intros K1 K2. unfold create_data_connection, process_command. cbn [ra]. intro c.
  destruct (c_mode c), (c_rfc2428 c); rat K1; try (norm; apply K2); try (norm; apply K1).
Qed.

Lemma ra_finish acc : ra (finish_transfer acc) acc.
Proof.
  unfold finish_transfer, process_abort, process_command.
  cbn [ra]. intro b. destruct b; cbn [ra].
  - intro r. destruct (code r =? 426); cbn [ra retmatch]; [intro r2; norm; reflexivity|reflexivity].
  - intro r. reflexivity.
Qed.

Lemma ra_download path : ra (op_download path) [].
Proof.
  unfold op_download. cbn [ra]. apply ra_cdc; intro a; cbn [ra retmatch]; [|reflexivity].
  intro x. apply ra_finish.
Qed.

Lemma ra_upload v path : ra (op_upload v path) [].
Proof.
  unfold op_upload. cbn [ra]. apply ra_cdc; intro a; cbn [ra retmatch]; [|reflexivity].
  intro x. apply ra_finish.
Qed.

Lemma ra_list path names : ra (op_list path names) [].
Proof.
  unfold op_list. cbn [ra]. apply ra_cdc; intro a; cbn [ra retmatch]; [|reflexivity].
  intros t r. reflexivity.
Qed.

Lemma ra_connect h p l : ra (op_connect h p l) [].
Proof.
  assert (LP : forall acc, ra (match l with
                | None => Ret (RvReplies acc)
                | Some (u, pw) => process_login u pw acc (fun acc' => Ret (RvReplies acc')) end) acc).
  { intro acc. destruct l as [[u pw]|]; [apply ra_process_login; intro; reflexivity|reflexivity]. }
  unfold op_connect, process_raw. cbv zeta.
  destruct l as [[u pw]|]; cbn [ra]; intro g; cbn [app]; destruct (code g =? 120); cbn [ra].
  - intro g2. cbn [app]. destruct (is_negative g2); cbn [ra retmatch]; [reflexivity|]. intro c. destruct (c_tls c); cbn [ra].
    + intro a. destruct (is_negative a); cbn [ra retmatch]; [reflexivity|]. apply (LP ([g; g2] ++ [a])).
    + apply (LP [g; g2]).
  - destruct (is_negative g); cbn [ra retmatch]; [reflexivity|]. intro c. destruct (c_tls c); cbn [ra].
    + intro a. destruct (is_negative a); cbn [ra retmatch]; [reflexivity|]. apply (LP ([g] ++ [a])).
    + apply (LP [g]).
  - intro g2. cbn [app]. destruct (is_negative g2); cbn [ra retmatch]; [reflexivity|]. intro c. destruct (c_tls c); cbn [ra].
    + intro a. destruct (is_negative a); cbn [ra retmatch]; [reflexivity|]. apply (LP ([g; g2] ++ [a])).
    + apply (LP [g; g2]).
  - destruct (is_negative g); cbn [ra retmatch]; [reflexivity|]. intro c. destruct (c_tls c); cbn [ra].
    + intro a. destruct (is_negative a); cbn [ra retmatch]; [reflexivity|]. apply (LP ([g] ++ [a])).
    + apply (LP [g]).
Qed.

Lemma ra_simple v a : ra (op_simple v a) [].
Proof. unfold op_simple, process_command. cbn [ra retmatch]. intro r. exists []. reflexivity. Qed.

Lemma ra_set_type t : ra (op_set_type t) [].
Proof. unfold op_set_type, process_command. cbn [ra]. intro r. destruct (is_positive r); cbn [ra retmatch]; exists []; reflexivity. Qed.

Lemma ra_rename a b : ra (op_rename a b) [].
Proof.
  unfold op_rename, process_command. cbn [ra]. intro r. destruct (code r =? 350); cbn [ra retmatch]; [intro r2|]; reflexivity.
Qed.

Lemma ra_logout : ra op_logout [].
Proof.
  unfold op_logout, process_command. cbn [ra]. intro r. cbv zeta. destruct (code r =? 120); cbn [ra].
  - intros r2 s. destruct (is_positive r2 && s); cbn [ra retmatch]; exists [r]; reflexivity.
  - intro s. destruct (is_positive r && s); cbn [ra retmatch]; exists []; reflexivity.
Qed.

Lemma ra_disconnect g : ra (op_disconnect g) [].
Proof.
  unfold op_disconnect, process_command. destruct g; cbn [ra].
  - intros r b. destruct b; cbn [ra]; intro s; destruct s; cbn [ra retmatch]; reflexivity.
  - intro b. destruct b; cbn [ra]; intro s; destruct s; cbn [ra retmatch]; reflexivity.
Qed.

(* every call that returns, returns what it read: connect, login, rename, the transfers and listings return ALL the replies
   read during the call, in order; the single-reply calls and logout return the last reply read; disconnect returns the
   reply to QUIT or nothing - for every state of the client and every behaviour of the server *)
Theorem step_returns_what_it_read a w :
  exists tr, w_trace (snd (step w a)) = w_trace w ++ tr /\
    match fst (step w a) with OReturn v => retmatch v (recvd tr) | _ => True end.
Proof.
  assert (ST : forall p i, ra p [] -> exists tr, w_trace (snd (run p (set_io w i))) = w_trace w ++ tr /\
             match fst (run p (set_io w i)) with OReturn v => retmatch v (recvd tr) | _ => True end).
  { intros p i N. destruct (run_ra p [] (set_io w i) N) as (tr & E & M). exists tr. split; [exact E|exact M]. }
  destruct a as [h p l|u pw| |v arg|t|x y|path cb f|uv path ch cb|path names|g|o|o|md|b]; unfold step; cbn [prog_of];
    try (exists []; rewrite app_nil_r; split; reflexivity).
  - apply ST. apply ra_connect.
  - apply ST. unfold op_login. apply ra_process_login. intro; reflexivity.
  - apply ST. apply ra_logout.
  - apply ST. apply ra_simple.
  - apply ST. apply ra_set_type.
  - apply ST. apply ra_rename.
  - apply ST. apply ra_download.
  - apply ST. apply ra_upload.
  - apply ST. apply ra_list.
  - apply ST. apply ra_disconnect.
Qed.

(* non-vacuity: a 120 greeting followed by 220, then a login - connect returns both greeting replies and the login's *)
Definition returns_script : list session :=
  let say c := mkR [RReply (mkReply c [])] [] false false true no_plan in
  [mkSess true false true (mkR [RReply (mkReply 120 []); RReply (mkReply 220 [])] [] false false true no_plan)
          [say 331; say 230; say 200]].

Example returns_example :
  let w0 := init_world (mkConfig Passive true TBinary false false) returns_script in
  let '(o, w) := step w0 (AConnect [104] 21 (Some ([117], [112]))) in
  o = OReturn (RvReplies [mkReply 120 []; mkReply 220 []; mkReply 331 []; mkReply 230 []; mkReply 200 []]) /\
  recvd (w_trace w) = [mkReply 120 []; mkReply 220 []; mkReply 331 []; mkReply 230 []; mkReply 200 []].
Proof. vm_compute. split; reflexivity. Qed.
