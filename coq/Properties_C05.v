(* C05 - ASCII type converts line endings exactly, independent of chunking. *)
From LibFtp Require Import Bytes Ascii Ascii_Proofs.
Local Open Scope N_scope.

(* upload: for every byte string, every way the source chops it into (non-empty) chunks - which
   covers every internal buffer size >= 1 and every short-read pattern of a source with sticky
   end-of-file -, and every sequence of caller buffer sizes >= 1 that is long enough: the loop
   "read until a read returns nothing" terminates by an empty read, the concatenation of the
   results is to_crlf of the source, no result is empty and each fits its buffer *)
Theorem C05_upload_conv : forall (cks : list bytes) (sizes : list nat),
  Forall (fun n => 1 <= n)%nat sizes ->
  (length (to_crlf (concat cks)) < length sizes)%nat ->
  exists os st',
    drain sizes (istart cks) = (os, true, st') /\
    concat os = to_crlf (concat cks) /\
    Forall2 (fun o n => o <> [] /\ (length o <= n)%nat) os (firstn (length os) sizes).
Proof. exact upload_conv. Qed.
Print Assumptions C05_upload_conv.

(* ... and 2|s|+1 reads always suffice *)
Theorem C05_upload_bound : forall s, (length (to_crlf s) <= 2 * length s)%nat.
Proof. exact to_crlf_length. Qed.
Print Assumptions C05_upload_bound.

(* at any point of the read sequence nothing has been lost or invented *)
Theorem C05_upload_prefix : forall cks sizes os stopped st',
  Forall (fun n => 1 <= n)%nat sizes -> drain sizes (istart cks) = (os, stopped, st') ->
  to_crlf (concat cks) = concat os ++ pending st'.
Proof. exact upload_prefix. Qed.
Print Assumptions C05_upload_prefix.

(* download: for every partition of the received bytes into write calls, the sink content after
   flush is from_crlf of the bytes (a final CR is delivered by flush) *)
Theorem C05_download_conv : forall blocks : list bytes,
  sink_content (owrites false blocks) = from_crlf (concat blocks).
Proof. intro blocks. exact (download_conv blocks false). Qed.
Print Assumptions C05_download_conv.

Theorem C05_download_flush_once_last : forall blocks,
  exists ws, owrites false blocks = ws ++ [SinkFlush] /\ Forall (fun e => e <> SinkFlush) ws /\
             (length blocks <= length ws <= S (length blocks))%nat.
Proof. intro blocks. exact (download_flush_last blocks false). Qed.
Print Assumptions C05_download_flush_once_last.

(* LF-only text survives upload followed by download *)
Theorem C05_lf_text_roundtrip : forall s, mem CR s = false -> from_crlf (to_crlf s) = s.
Proof. exact lf_text_roundtrip. Qed.
Print Assumptions C05_lf_text_roundtrip.

(* non-vacuity: "a CR | LF b CR" in chunks of 2, caller size 1 and 3 alternating *)
Example C05_example_upload :
  let cks := [[97; 13]; [10; 98]; [13]] in
  fst (fst (drain [1;3;1;3;1;3;1;3;1;3]%nat (istart cks))) = [[97]; [13;10;98]; [13]; [10]]
  /\ to_crlf (concat cks) = [97;13;10;98;13;10].
Proof. vm_compute. split; reflexivity. Qed.
Example C05_example_download :
  owrites false [[97; 13]; [10; 98; 13]] = [SinkWrite [97]; SinkWrite [10; 98]; SinkWrite [13]; SinkFlush].
Proof. vm_compute. reflexivity. Qed.

(* ---- every receiving call, every state in ASCII type, every server (Ascii_Global.v) ---- *)
From LibFtp Require Import Decimal Reply Endpoint DataConn DataConn_Proofs Client Client_Proofs Bytes_Global Ascii_Global.

(* what the call hands to the sink is the conversion of what it read from the data connection: when the data loop failed (no
   flush), the conversion with at most one CR held back; once the sink was flushed, exactly [from_crlf] of all that was read *)
Theorem C05_call_hands_the_sink_the_conversion_of_what_it_read : forall a w,
  receives a -> c_type (w_cfg w) = TAscii ->
  exists tr, w_trace (snd (step w a)) = w_trace w ++ tr /\
    (count_ev is_flush (ios tr) = O ->
       exists b, forall tail, sink_bytes (ios tr) ++ from_crlf (cr_if b ++ tail) = from_crlf (net_in_bytes (ios tr) ++ tail)) /\
    (count_ev is_flush (ios tr) <> O -> sink_bytes (ios tr) = from_crlf (net_in_bytes (ios tr))).
Proof. exact step_sink_gets_the_conversion. Qed.
Print Assumptions C05_call_hands_the_sink_the_conversion_of_what_it_read.

Theorem C05_flushed_sink_holds_the_conversion : forall a w tr,
  receives a -> c_type (w_cfg w) = TAscii ->
  w_trace (snd (step w a)) = w_trace w ++ tr -> In IoSinkFlush (ios tr) ->
  sink_bytes (ios tr) = from_crlf (net_in_bytes (ios tr)).
Proof. exact flushed_sink_holds_the_conversion. Qed.
Print Assumptions C05_flushed_sink_holds_the_conversion.

Example C05_example_call_completed :
  let w0 := init_world (mkConfig Passive true TAscii false false) ascii_script in
  let tr := w_trace (snd (steps w0 [AConnect [104] 21 None; ADownload [102] None None])) in
  sink_bytes (ios tr) = [97;10;98;13;10;99;13] /\ net_in_bytes (ios tr) = [97;13;10;98;13;13;10;99;13] /\ In IoSinkFlush (ios tr).
Proof. exact ascii_example. Qed.
Example C05_example_call_cut :
  let w0 := init_world (mkConfig Passive true TAscii false false) ascii_cut_script in
  let tr := w_trace (snd (steps w0 [AConnect [104] 21 None; ADownload [102] None None])) in
  sink_bytes (ios tr) = [97;10;98] /\ net_in_bytes (ios tr) = [97;13;10;98;13] /\ count_ev is_flush (ios tr) = O.
Proof. exact ascii_cut_example. Qed.

(* ---- every upload call, every state in ASCII type, every server (Upload_Ascii_Global.v) ---- *)
From LibFtp Require Upload_Ascii_Global.

(* what the call writes to the data connection is a prefix of the LF->CRLF conversion of what the source yields; nothing else
   is written there, whether the upload completes, is cancelled or fails *)
Theorem C05_upload_call_writes_a_prefix_of_the_conversion : forall u path chunks cb w,
  c_type (w_cfg w) = TAscii ->
  exists tr rest, w_trace (snd (step w (AUpload u path chunks cb))) = w_trace w ++ tr /\
    net_out_bytes (ios tr) ++ rest = to_crlf (concat chunks).
Proof. exact Upload_Ascii_Global.upload_writes_a_prefix_of_the_conversion. Qed.
Print Assumptions C05_upload_call_writes_a_prefix_of_the_conversion.

Example C05_example_upload_call :
  let w0 := init_world (mkConfig Passive true TAscii false false) Upload_Ascii_Global.upload_ascii_script in
  let tr := w_trace (snd (steps w0 [AConnect [104] 21 None; AUpload UStor [102] [[97;10]; [13]; [10;98;10]] None])) in
  net_out_bytes (ios tr) = [97;13;10;13;10;98;13;10].
Proof. exact Upload_Ascii_Global.upload_ascii_example. Qed.
