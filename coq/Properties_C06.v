(* C06 - data connections go to, or are advertised at, exactly the negotiated endpoint.
   Part 1 (this file): the 227/229 parsers and the PORT/EPRT formatters.
   Part 2 (Properties_C06_dispatch.v, over the protocol model): method dispatch, order
   listen -> advertise -> accept / parse -> connect, one data connection per transfer. *)
From LibFtp Require Import Bytes Decimal Endpoint Endpoint_Proofs.
Local Open Scope N_scope.

(* 227: a result exactly when the text between the first '(' and the last ')' is six decimal numbers <= 255 separated by
   five commas - nothing else: no seventh (empty) field, no sign, no blank, no other address syntax - and then the
   address is h1.h2.h3.h4 with the numbers written and the port is 256*p1 + p2: the number written, never wrapped *)
Theorem C06_pasv_iff : forall s ip port, try_parse_pasv_reply s = Some (ip, port) <->
  exists pre suf t0 t1 t2 t3 t4 t5 a b c d hi lo,
    parens s pre (join [COMMA] [t0; t1; t2; t3; t4; t5]) suf /\
    field t0 255 a /\ field t1 255 b /\ field t2 255 c /\ field t3 255 d /\ field t4 255 hi /\ field t5 255 lo /\
    ip = dotted a b c d /\ port = hi * 256 + lo.
Proof. exact pasv_iff. Qed.
Print Assumptions C06_pasv_iff.

(* 227: every well-formed reply, whatever surrounds the parenthesised part, parses to exactly the
   address and port written *)
Theorem C06_pasv_complete : forall pre suf t0 t1 t2 t3 t4 t5 a b c d hi lo,
  mem LPAR pre = false -> mem RPAR suf = false ->
  field t0 255 a -> field t1 255 b -> field t2 255 c -> field t3 255 d -> field t4 255 hi -> field t5 255 lo ->
  try_parse_pasv_reply (pre ++ LPAR :: join [COMMA] [t0; t1; t2; t3; t4; t5] ++ RPAR :: suf)
  = Some (dotted a b c d, hi * 256 + lo).
Proof. exact pasv_complete. Qed.
Print Assumptions C06_pasv_complete.

(* 227: no parentheses / a number of comma-separated pieces other than six ([pieces] splits at EVERY comma and drops
   nothing) / a piece that is not a decimal number <= 255 => error *)
Theorem C06_pasv_rejects :
  (forall s, mem LPAR s = false -> try_parse_pasv_reply s = None) /\
  (forall s, mem RPAR s = false -> try_parse_pasv_reply s = None) /\
  (forall s pre inner suf, parens s pre inner suf ->
     (length (pieces COMMA inner) <> 6%nat \/
      (exists k, (k < 6)%nat /\ forall v, ~ field (nth k (pieces COMMA inner) []) 255 v)) ->
     try_parse_pasv_reply s = None).
Proof. exact (conj pasv_rejects_no_lpar (conj pasv_rejects_no_rpar pasv_rejects_fields)). Qed.
Print Assumptions C06_pasv_rejects.

(* 229: a port exactly when the text between the first '(' and the last ')' is
   <d><d><d>port<d> with one delimiter d in 33..126 and port a decimal number <= 65535 *)
Theorem C06_epsv_iff : forall s p, try_parse_epsv_reply s = Some p <->
  exists pre d digits suf,
    parens s pre ([d; d; d] ++ digits ++ [d]) suf /\ 33 <= d <= 126 /\ field digits 65535 p.
Proof. exact epsv_iff. Qed.
Print Assumptions C06_epsv_iff.

(* PORT: for every IPv4 address and all 65536 ports the advertised text parses back (as the
   parenthesised part of a 227 reply) to the same address and port *)
Theorem C06_port_roundtrip : forall a b c d p pre suf cmd,
  a < 256 -> b < 256 -> c < 256 -> d < 256 -> p < 65536 ->
  mem LPAR pre = false -> mem RPAR suf = false ->
  make_port_command (V4 a b c d) p = Some cmd ->
  exists args, cmd = PORT_ ++ [SP] ++ args /\
    try_parse_pasv_reply (pre ++ LPAR :: args ++ RPAR :: suf) = Some (dotted a b c d, p).
Proof. exact port_roundtrip. Qed.
Print Assumptions C06_port_roundtrip.

Theorem C06_port_refuses_non_ipv4 : forall t p, make_port_command (V6 t) p = None.
Proof. exact port_refuses_non_ipv4. Qed.
Print Assumptions C06_port_refuses_non_ipv4.

(* EPRT: RFC 2428 syntax with family 1 (IPv4) / 2 (IPv6), and the decimal port parses back for
   all 65536 ports - also through the 229 parser *)
Theorem C06_eprt_wellformed : forall ip p, p < 65536 ->
  make_eprt_command ip p =
    EPRT_ ++ [SP; BAR] ++ (match ip with V4 _ _ _ _ => [49] | V6 _ => [50] end) ++ [BAR] ++ addr_text ip
          ++ [BAR] ++ to_string p ++ [BAR] /\
  try_parse_uint16 (to_string p) = Some p /\
  (forall pre suf, mem LPAR pre = false -> mem RPAR suf = false ->
     try_parse_epsv_reply (pre ++ [LPAR; BAR; BAR; BAR] ++ to_string p ++ [BAR; RPAR] ++ suf) = Some p).
Proof. exact eprt_wellformed. Qed.
Print Assumptions C06_eprt_wellformed.

(* history: what the pinned code did (findings F5, F6, F7) *)
Theorem C06_pasv_wrap_refuted_on_pinned :
  exists s ip, try_parse_pasv_reply_pinned s = Some (ip, 0) /\ try_parse_pasv_reply s = None.
Proof. exact pasv_wrap_refuted_on_pinned. Qed.
Theorem C06_epsv_delims_refuted_on_pinned :
  exists s, try_parse_epsv_reply_pinned s = Some 644 /\ try_parse_epsv_reply s = None.
Proof. exact epsv_delims_refuted_on_pinned. Qed.
Theorem C06_port_ipv6_refuted_on_pinned :
  exists t p cmd, make_port_command_pinned (V6 t) p = Some cmd.
Proof. exact port_ipv6_refuted_on_pinned. Qed.
Theorem C06_pasv_trailing_comma_refuted_on_pinned :
  (* "(1,2,3,4,5,6,)": seven fields, the pinned code connected to 1.2.3.4:1286 *)
  exists s r, try_parse_pasv_reply_pinned s = Some r /\ try_parse_pasv_reply s = None.
Proof. exact pasv_trailing_comma_refuted_on_pinned. Qed.
Theorem C06_pasv_host_not_numeric_refuted_on_pinned :
  (* "(::1,0,0,1,4,5)": the pinned code handed "::1.0.0.1" to make_address, which takes it for an IPv6 address *)
  exists s r, try_parse_pasv_reply_pinned s = Some r /\ try_parse_pasv_reply s = None.
Proof. exact pasv_host_not_numeric_refuted_on_pinned. Qed.
Print Assumptions C06_pasv_trailing_comma_refuted_on_pinned.
Print Assumptions C06_pasv_host_not_numeric_refuted_on_pinned.
Print Assumptions C06_pasv_wrap_refuted_on_pinned.
Print Assumptions C06_epsv_delims_refuted_on_pinned.
Print Assumptions C06_port_ipv6_refuted_on_pinned.

Example C06_example_pasv :
  (* "227 Entering Passive Mode (127,0,0,1,200,10)." *)
  try_parse_pasv_reply [50;50;55;32;40; 49;50;55;44;48;44;48;44;49;44;50;48;48;44;49;48; 41;46]
  = Some ([49;50;55;46;48;46;48;46;49], 51210).
Proof. vm_compute. reflexivity. Qed.
Example C06_example_epsv :
  try_parse_epsv_reply [50;50;57;32;40;124;124;124;54;52;52;54;124;41] = Some 6446.
Proof. vm_compute. reflexivity. Qed.
