(* Lockstep_Global.v - C02 / C09 over EVERY call, every state and every behaviour of the server: within a call, a command line
   is written to the control connection only when every command line the call has written before has been followed by a
   reply read - one command line per protocol step, never two in a row (ABOR too: it follows the preliminary reply). *)
From LibFtp Require Import Bytes Decimal Reply Endpoint DataConn Client Client_Proofs.
Local Open Scope N_scope.

(* [pend]: a command line was written and no reply has been read since *)
Fixpoint okhs (pend : bool) (tr : list event) : Prop :=
  match tr with
  | [] => True
  | EWire _ _ _ :: tr' | EWireLost _ :: tr' => pend = false /\ okhs true tr'
  | ERecv _ _ :: tr' => okhs false tr'
  | _ :: tr' => okhs pend tr'
  end.

Fixpoint hsafter (pend : bool) (tr : list event) : bool :=
  match tr with
  | [] => pend
  | EWire _ _ _ :: tr' | EWireLost _ :: tr' => hsafter true tr'
  | ERecv _ _ :: tr' => hsafter false tr'
  | _ :: tr' => hsafter pend tr'
  end.

Lemma okhs_app hs a b : okhs hs (a ++ b) <-> okhs hs a /\ okhs (hsafter hs a) b.
Proof.
  revert hs. induction a as [|e a IH]; intro hs; cbn [app okhs hsafter]; [tauto|].
  destruct e; cbn [okhs hsafter]; rewrite ?IH; tauto.
Qed.

Lemma hsafter_app hs a b : hsafter hs (a ++ b) = hsafter (hsafter hs a) b.
Proof. revert hs. induction a as [|e a IH]; intro hs; cbn [app hsafter]; [reflexivity|]. destruct e; apply IH. Qed.

Definition quiet (e : event) : Prop :=
  match e with EWire _ _ _ | EWireLost _ | ERecv _ _ => False | _ => True end.

Lemma quiet_ok hs es : Forall quiet es -> okhs hs es /\ hsafter hs es = hs.
Proof.
  induction 1 as [|e es Q _ IH]; [split; [exact I|reflexivity]|].
  destruct e; cbn [okhs hsafter]; try exact IH; destruct Q.
Qed.

Lemma q_io ev : Forall quiet (map EIo ev).
Proof. induction ev as [|e ev IH]; cbn; constructor; [exact I|exact IH]. Qed.

Lemma q_obs obs e : Forall quiet (map (fun o => EObs o e) obs).
Proof. induction obs as [|o obs IH]; cbn; constructor; [exact I|exact IH]. Qed.

Definition St (hs : bool) (w w' : world) (hs' : bool) : Prop :=
  exists tr, w_trace w' = w_trace w ++ tr /\ okhs hs tr /\ hsafter hs tr = hs' /\ c_tls (w_cfg w') = c_tls (w_cfg w).
Definition Sx (hs : bool) (w w' : world) : Prop := exists tr, w_trace w' = w_trace w ++ tr /\ okhs hs tr.

Lemma St_refl hs w : St hs w w hs.
Proof. exists []. rewrite app_nil_r. repeat split. Qed.
Lemma Sx_refl hs w : Sx hs w w.
Proof. exists []. rewrite app_nil_r. repeat split. Qed.

Lemma St_trans h0 a h1 b h2 c : St h0 a b h1 -> St h1 b c h2 -> St h0 a c h2.
Proof.
  intros (t1 & E1 & O1 & L1 & C1) (t2 & E2 & O2 & L2 & C2). exists (t1 ++ t2). rewrite E2, E1, app_assoc. split; [reflexivity|].
  split; [apply okhs_app; rewrite L1; split; assumption|]. split; [rewrite hsafter_app, L1; exact L2|congruence].
Qed.

Lemma St_then h0 a h1 b c : St h0 a b h1 -> (c_tls (w_cfg b) = c_tls (w_cfg a) -> Sx h1 b c) -> Sx h0 a c.
Proof.
  intros (t1 & E1 & O1 & L1 & C1) H. destruct (H C1) as (t2 & E2 & O2).
  exists (t1 ++ t2). rewrite E2, E1, app_assoc. split; [reflexivity|]. apply okhs_app. rewrite L1. split; assumption.
Qed.

Lemma St_weaken h0 a b h1 : St h0 a b h1 -> Sx h0 a b.
Proof. intros (t & E & O & _). exists t. split; assumption. Qed.

Lemma St_quiet hs w w' es : w_trace w' = w_trace w ++ es -> Forall quiet es -> c_tls (w_cfg w') = c_tls (w_cfg w) -> St hs w w' hs.
Proof. intros E Q C. destruct (quiet_ok hs es Q) as (A & B). exists es. repeat split; assumption. Qed.

Lemma St_notify hs w e : St hs w (notify w e) hs.
Proof. apply (St_quiet _ _ _ (map (fun o => EObs o e) (w_obs w))); [reflexivity|apply q_obs|reflexivity]. Qed.

Ltac qall := repeat (first [apply Forall_nil | apply Forall_cons; [exact I|]]).
Ltac sq := first
  [ apply (St_quiet _ _ _ []); [cbn [w_trace emit set_trace set_queues set_io set_data set_cfg set_ctl set_obs release_pending notify];
                               rewrite ?app_nil_r; reflexivity|constructor|reflexivity]
  | (eapply St_quiet; [cbn [w_trace emit set_trace set_queues set_io set_data set_cfg set_ctl set_obs release_pending notify];
                       rewrite <- ?app_assoc; reflexivity|qall|reflexivity]) ].

Lemma peer_react_cfg w : w_cfg (peer_react w) = w_cfg w.
Proof. unfold peer_react. destruct (w_cur w); reflexivity. Qed.

Lemma St_do_send w line w' : do_send w line = Some w' -> St false w w' true.
Proof.
  unfold do_send. destruct (negb _); [discriminate|]. destruct (_ && negb _); [discriminate|].
  set (w1 := notify w (ORequest line)).
  assert (G1 : St false w w1 false) by apply St_notify.
  destruct (w_peer_closed w1); intro H; inversion H; subst; clear H.
  - eapply St_trans; [exact G1|]. exists [EWireLost line]. repeat split.
  - eapply St_trans; [exact G1|].
    match goal with |- St _ w1 (peer_react ?W) _ => apply (St_trans _ _ true W) end.
    + eexists. split; [cbn [w_trace emit set_trace]; reflexivity|]. repeat split.
    + apply (St_quiet _ _ _ []); [rewrite app_nil_r; apply peer_react_trace|constructor|rewrite peer_react_cfg; reflexivity].
Qed.

Lemma St_close_data hs w : St hs w (close_data w) hs.
Proof.
  unfold close_data. destruct (w_data w) as [d|]; [|apply St_refl].
  destruct (d_sock d), (d_acc d); cbv zeta.
  - apply (St_quiet _ _ _ [EData DClose; EData DAccClose]); [cbn [w_trace set_data emit set_trace release_pending set_queues]; rewrite <- app_assoc; reflexivity|qall|reflexivity].
  - apply (St_quiet _ _ _ [EData DClose]); [reflexivity|qall|reflexivity].
  - apply (St_quiet _ _ _ [EData DAccClose]); [reflexivity|qall|reflexivity].
  - apply (St_quiet _ _ _ []); [rewrite app_nil_r; reflexivity|constructor|reflexivity].
Qed.

Lemma St_ctl_disconnect hs w : St hs w (snd (ctl_disconnect w)) hs.
Proof.
  unfold ctl_disconnect. cbn [snd].
  eapply St_quiet; [cbn [w_trace set_queues set_ctl emit set_trace]; reflexivity| |reflexivity].
  destruct (w_ssl w); cbn [app]; qall.
Qed.

(* ------------------------------------------------------------------ programs *)
(* [gh p pend]: p writes a command line only when none is pending *)
Fixpoint gh (p : prog) (hs : bool) : Prop :=
  match p with
  | Ret _ | Throw => True
  | Send _ _ k | SendRaw _ k | SendAdv _ k => hs = false /\ gh k true
  | Recv k => forall r, gh (k r) false
  | PumpIn k | PumpOut k => forall x, gh (k x) hs
  | PumpInList k => forall t, gh (k t) hs
  | GetCfg k => forall c, gh (k c) hs
  | IsOpen k | IsSsl k | Poll k => forall b, gh (k b) hs
  | CheckArg _ k | Notify _ k | SetTypeCfg _ k | CtlConnect _ _ k | CtlSetSsl _ k
  | CtlHandshake k | CtlTlsShutdown k | CtlDisconnect k | DNew k | DConnect _ _ k | DHandshakeP k | DListenP k | DAccept k
  | DDisconnect _ k | Scope k => gh k hs
  end.

Ltac ih IH N T := let C := fresh "C" in intro C; eapply IH; [first [exact N | apply N]|rewrite C; exact T].

Lemma run_gh : forall p hs w tl, gh p hs -> c_tls (w_cfg w) = tl -> Sx hs w (snd (run p w)).
Proof.
  induction p as [v| |a k IH|verb arg k IH|line k IH|a k IH|k IH|e k IH|k IH|t k IH|k IH|k IH|h pt k IH|on k IH|k IH|k IH|k IH
                 |k IH|ip port k IH|k IH|k IH|k IH|g k IH|k IH|k IH|k IH|k IH|body IH]; intros hs w tl N T; cbn [run]; cbn [gh] in N.
  - apply Sx_refl.
  - apply Sx_refl.
  - destruct (has_crlf a); [apply Sx_refl|eapply IH; [exact N|exact T]].
  - destruct N as (-> & N). destruct arg as [a|].
    + destruct (has_crlf a); [apply Sx_refl|].
      destruct (do_send w _) as [w'|] eqn:E; cbn [snd];
        [eapply St_then; [eapply St_do_send; eauto|ih IH N T]|eapply St_weaken; apply St_notify].
    + destruct (do_send w _) as [w'|] eqn:E; cbn [snd];
        [eapply St_then; [eapply St_do_send; eauto|ih IH N T]|eapply St_weaken; apply St_notify].
  - destruct N as (-> & N). destruct (do_send w _) as [w'|] eqn:E; cbn [snd];
      [eapply St_then; [eapply St_do_send; eauto|ih IH N T]|eapply St_weaken; apply St_notify].
  - destruct N as (-> & N). destruct (match a with AdvEprt => _ | AdvPort => _ end) as [line|]; [|apply Sx_refl].
    destruct (do_send w _) as [w'|] eqn:E; cbn [snd];
      [eapply St_then; [eapply St_do_send; eauto|ih IH N T]|eapply St_weaken; apply St_notify].
  - (* Recv *)
    destruct (negb (w_open w)); [apply Sx_refl|].
    destruct (w_backlog w) as [|[t [r|]] rest].
    + destruct (w_peer_closed w); apply Sx_refl.
    + set (w1 := emit (set_queues w rest (w_pending w)) [ERecv t r]).
      assert (G1 : St hs w w1 false).
      { exists [ERecv t r]. unfold w1. repeat split. }
      destruct (code r =? 421).
      * destruct (ctl_disconnect w1) as [ok w2] eqn:D.
        pose proof (St_ctl_disconnect false w1) as G2. rewrite D in G2. cbn [snd] in G2.
        destruct ok; cbn [snd].
        -- eapply St_then; [eapply St_trans; [exact G1|]; eapply St_trans; [exact G2|apply St_notify]|].
           intro C. eapply IH; [apply N|rewrite C; exact T].
        -- eapply St_weaken. eapply St_trans; [exact G1|exact G2].
      * eapply St_then; [eapply St_trans; [exact G1|apply St_notify]|]. intro C. eapply IH; [apply N|rewrite C; exact T].
    + cbn [snd]. eapply St_weaken. sq.
  - eapply St_then; [apply St_notify|ih IH N T].
  - eapply IH; [apply N|exact T].
  - (* SetTypeCfg *)
    eapply St_then; [|ih IH N T].
    eapply St_quiet; [cbn [w_trace emit set_trace set_cfg]; reflexivity|qall|reflexivity].
  - eapply IH; [apply N|exact T].
  - eapply IH; [apply N|exact T].
  - (* CtlConnect *)
    match goal with |- context [match w_script ?w0 with _ => _ end] => set (W0 := w0) end.
    assert (X0 : St hs w W0 hs) by (unfold W0; destruct (w_open w); sq).
    destruct (w_script W0) as [|s rest]; cbn [snd].
    + eapply St_weaken. eapply St_trans; [exact X0|sq].
    + destruct (negb (s_reachable s)); cbn [snd].
      * eapply St_weaken. eapply St_trans; [exact X0|].
        eapply St_quiet; [cbn [w_trace emit set_trace]; reflexivity|qall|reflexivity].
      * eapply St_then; [eapply St_trans; [exact X0|]|ih IH N T].
        eapply St_quiet; [cbn [w_trace emit set_trace]; reflexivity|qall|reflexivity].
  - eapply St_then; [|ih IH N T]. sq.
  - destruct (w_last_tls_ok w && negb (w_peer_closed w)); cbn [snd]; [eapply St_then; [|ih IH N T]|eapply St_weaken]; sq.
  - destruct (w_tls_up w && w_tls_clean w && negb (w_peer_closed w)); cbn [snd]; [eapply St_then; [|ih IH N T]|eapply St_weaken]; sq.
  - destruct (ctl_disconnect w) as [ok w1] eqn:D.
    pose proof (St_ctl_disconnect hs w) as G2. rewrite D in G2. cbn [snd] in G2.
    destruct ok; cbn [snd]; [eapply St_then; [exact G2|ih IH N T]|eapply St_weaken; exact G2].
  - (* DNew *)
    eapply St_then; [|ih IH N T]. sq.
  - destruct (dp_reachable (w_plan w)); cbn [snd]; [eapply St_then; [|ih IH N T]|eapply St_weaken]; sq.
  - eapply St_then; [|ih IH N T]. sq.
  - destruct (dp_reachable (w_plan w)); cbn [snd]; [eapply St_then; [|ih IH N T]; sq|apply Sx_refl].
  - (* DHandshakeP *)
    destruct (dp_tls_ok (w_plan w)); cbn [snd].
    + eapply St_then; [|ih IH N T]. sq.
    + eapply St_weaken. sq.
  - destruct (w_data w) as [d|]; [|eapply IH; [exact N|exact T]].
    destruct (d_ssl d && negb (dp_shutdown_ok (w_plan w))); cbn [snd]; [eapply St_weaken; sq|].
    eapply St_then; [|ih IH N T]. eapply St_trans; [|apply St_close_data].
    destruct (d_ssl d), g; cbn [app]; sq.
  - (* PumpIn *)
    destruct (data_recv _ _ _ _ _) as [[ev r] cb'].
    match goal with |- context [set_io ?A ?B] => set (W1 := set_io A B) end.
    assert (G1 : St hs w W1 hs) by (apply (St_quiet _ _ _ (map EIo ev)); [reflexivity|apply q_io|reflexivity]).
    destruct r; cbn [snd]; try (eapply St_weaken; exact G1); (eapply St_then; [exact G1|intro C; eapply IH; [apply N|rewrite C; exact T]]).
  - destruct (data_recv _ _ _ _ _) as [[ev r] cb'].
    match goal with |- context [emit w ?E] => set (W1 := emit w E) end.
    assert (G1 : St hs w W1 hs) by (apply (St_quiet _ _ _ (map EIo ev)); [reflexivity|apply q_io|reflexivity]).
    destruct r; cbn [snd]; try (eapply St_weaken; exact G1); (eapply St_then; [exact G1|intro C; eapply IH; [apply N|rewrite C; exact T]]).
  - destruct (data_send _ _ _ _) as [[ev r] cb'].
    match goal with |- context [set_io ?A ?B] => set (W1 := set_io A B) end.
    assert (G1 : St hs w W1 hs) by (apply (St_quiet _ _ _ (map EIo ev)); [reflexivity|apply q_io|reflexivity]).
    destruct r; cbn [snd]; try (eapply St_weaken; exact G1); (eapply St_then; [exact G1|intro C; eapply IH; [apply N|rewrite C; exact T]]).
  - (* Poll *)
    destruct (io_cb (w_io w)) as [answers|]; [|eapply IH; [apply N|exact T]].
    destruct (poll answers) as [a answers'].
    eapply St_then; [|intro C; eapply IH; [apply N|rewrite C; exact T]].
    apply (St_quiet _ _ _ [EIo (IoPoll a)]); [reflexivity|qall|reflexivity].
  - (* Scope *)
    destruct (run body w) as [o w1] eqn:Rn. cbn [snd].
    pose proof (IH hs w tl N T) as (tr & E & O). rewrite Rn in E. cbn [snd] in E.
    destruct (St_close_data (hsafter hs tr) w1) as (t2 & E2 & O2 & _).
    exists (tr ++ t2). split.
    + cbn [w_trace set_data]. rewrite E2, E, app_assoc. reflexivity.
    + apply okhs_app. split; assumption.
Qed.

(* ------------------------------------------------------------------ the operations *)
Ltac ght := repeat (cbn [gh]; first
  [ exact I | reflexivity | intro
  | match goal with
    | |- gh (if ?b then _ else _) _ => destruct b
    | |- gh (match ?x with _ => _ end) _ => destruct x
    | |- gh (let _ := _ in _) _ => cbv zeta
    | |- _ /\ _ => split
    end ]).

Lemma gh_cdc verb arg acc k_ok k_none :
  (forall a, gh (k_ok a) false) -> (forall a, gh (k_none a) false) ->
  gh (create_data_connection verb arg acc k_ok k_none) false.
Proof.
  intros K1 K2. unfold create_data_connection, process_command. cbn [gh]. intro c.
  destruct (c_mode c), (c_rfc2428 c); ght; first [apply K2 | apply K1].
Qed.

Lemma gh_finish acc : gh (finish_transfer acc) false.
Proof. unfold finish_transfer, process_abort, process_command. ght. Qed.

Lemma gh_process_login u pw acc k : (forall a, gh (k a) false) -> gh (process_login u pw acc k) false.
Proof. intro K. unfold process_login, process_command, process_raw. ght; apply K. Qed.

Lemma gh_connect h p l : gh (op_connect h p l) false.
Proof.
  unfold op_connect, process_raw. cbv zeta.
  assert (LP : forall acc, gh (match l with
                | None => Ret (RvReplies acc)
                | Some (u, pw) => process_login u pw acc (fun acc' => Ret (RvReplies acc')) end) false).
  { intros acc. destruct l as [[u pw]|]; [apply gh_process_login; intros; exact I|exact I]. }
  destruct l as [[u pw]|]; ght; try apply (LP _); try (apply gh_process_login; intros; exact I).
Qed.

(* every call, every state, every server *)
Theorem step_one_command_line_per_reply a w :
  exists tr, w_trace (snd (step w a)) = w_trace w ++ tr /\ okhs false tr.
Proof.
  assert (ST : forall p i, gh p false -> exists tr, w_trace (snd (run p (set_io w i))) = w_trace w ++ tr /\ okhs false tr).
  { intros p i N. destruct (run_gh p false (set_io w i) _ N eq_refl) as (tr & E & O). exists tr. split; [exact E|exact O]. }
  destruct a as [h p l|u pw| |v arg|t|x y|path cb f|uv path ch cb|path names|g|o|o|md|b]; unfold step; cbn [prog_of];
    try (exists []; rewrite app_nil_r; split; [reflexivity|exact I]).
  - apply ST. apply gh_connect.
  - apply ST. unfold op_login. apply gh_process_login. intros; exact I.
  - apply ST. unfold op_logout, process_command. ght.
  - apply ST. unfold op_simple, process_command. ght.
  - apply ST. unfold op_set_type, process_command. ght.
  - apply ST. unfold op_rename, process_command. ght.
  - apply ST. unfold op_download. cbn [gh]. apply gh_cdc; [|intros; exact I].
    intros a. cbn [gh]. intro x. apply gh_finish.
  - apply ST. unfold op_upload. cbn [gh]. apply gh_cdc; [|intros; exact I].
    intros a. cbn [gh]. intro x. apply gh_finish.
  - apply ST. unfold op_list. cbn [gh]. apply gh_cdc; [|intros; exact I]. ght.
  - apply ST. unfold op_disconnect, process_command. destruct g; ght.
Qed.

(* read on the trace: between two command lines of a call a reply was read *)
Corollary a_reply_between_two_command_lines a w tr pre s o line post :
  w_trace (snd (step w a)) = w_trace w ++ tr -> tr = pre ++ EWire s o line :: post -> hsafter false pre = false.
Proof.
  intros E S. destruct (step_one_command_line_per_reply a w) as (tr' & E' & O).
  rewrite E in E'. apply app_inv_head in E'. subst tr'. subst tr.
  apply okhs_app in O. destruct O as (_ & O). cbn [okhs] in O. exact (proj1 O).
Qed.

(* non-vacuity: a download cancelled by its callback: EPSV, its reply, RETR, the preliminary reply, ABOR, 426 and 226 *)
Definition lockstep_script : list session :=
  let say c := mkR [RReply (mkReply c [])] [] false false true no_plan in
  let epsv := mkR [RReply (mkReply 229 [40;124;124;124;53;124;41])] [] false false true (mkDP true true [] DEof true) in
  let retr := mkR [RReply (mkReply 150 [])] [] false false true (mkDP true true [[1;13]; [10;3;4]; [5;6;7;8]] DEof true) in
  let abor := mkR [RReply (mkReply 426 []); RReply (mkReply 226 [])] [] false false true no_plan in
  [mkSess true false true (say 220) [epsv; retr; abor]].

Example lockstep_example :
  let w0 := init_world (mkConfig Passive true TBinary false false) lockstep_script in
  let w1 := snd (steps w0 [AConnect [104] 21 None]) in
  let tr := skipn (length (w_trace w1)) (w_trace (snd (step w1 (ADownload [102] (Some [false; false; true; true]) None)))) in
  map (fun e => match e with EWire _ _ l => firstn 4 l | ERecv _ r => [code r] | _ => [] end)
      (filter (fun e => match e with EWire _ _ _ | ERecv _ _ => true | _ => false end) tr)
  = [[69;80;83;86]; [229]; [82;69;84;82]; [150]; [65;66;79;82]; [426]; [226]]
  /\ okhs false tr.
Proof. vm_compute. split; [reflexivity|repeat split]. Qed.
