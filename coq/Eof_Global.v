(* Eof_Global.v - C04 over EVERY call, every state and every behaviour of the server: once a call has written to a data
   connection it reads no reply from the control connection until it has signalled the end of the data - by the orderly
   shutdown of the data connection (after the TLS close-notify when TLS is on) - unless the transfer callback has said
   'cancelled' (then ABOR is what follows).  So the server never answers an upload that it cannot know to be complete. *)
From LibFtp Require Import Bytes Decimal Reply Endpoint DataConn Client Client_Proofs.
Local Open Scope N_scope.

(* [wr]: bytes were written to the data connection and its end has not been signalled since *)
Fixpoint okhs (wr : bool) (tr : list event) : Prop :=
  match tr with
  | [] => True
  | ERecv _ _ :: tr' => wr = false /\ okhs wr tr'
  | EIo (IoNetWrite _) :: tr' => okhs true tr'
  | EIo (IoPoll true) :: tr' => okhs false tr'
  | EData DTcpShutdown :: tr' => okhs false tr'
  | _ :: tr' => okhs wr tr'
  end.

Fixpoint hsafter (wr : bool) (tr : list event) : bool :=
  match tr with
  | [] => wr
  | EIo (IoNetWrite _) :: tr' => hsafter true tr'
  | EIo (IoPoll true) :: tr' => hsafter false tr'
  | EData DTcpShutdown :: tr' => hsafter false tr'
  | _ :: tr' => hsafter wr tr'
  end.

Lemma okhs_app hs a b : okhs hs (a ++ b) <-> okhs hs a /\ okhs (hsafter hs a) b.
Proof.
  revert hs. induction a as [|e a IH]; intro hs; cbn [app okhs hsafter]; [tauto|].
  destruct e as [| | | |i| |d|]; cbn [okhs hsafter]; rewrite ?IH; try tauto.
  - destruct i as [[|]| | | | | | | |]; cbn [okhs hsafter]; rewrite ?IH; tauto.
  - destruct d; cbn [okhs hsafter]; rewrite ?IH; tauto.
Qed.

Lemma hsafter_app hs a b : hsafter hs (a ++ b) = hsafter (hsafter hs a) b.
Proof.
  revert hs. induction a as [|e a IH]; intro hs; cbn [app hsafter]; [reflexivity|].
  destruct e as [| | | |i| |d|]; try apply IH.
  - destruct i as [[|]| | | | | | | |]; apply IH.
  - destruct d; apply IH.
Qed.

Definition quiet (e : event) : Prop :=
  match e with ERecv _ _ | EIo (IoNetWrite _) | EIo (IoPoll true) | EData DTcpShutdown => False | _ => True end.

Lemma quiet_ok hs es : Forall quiet es -> okhs hs es /\ hsafter hs es = hs.
Proof.
  induction 1 as [|e es Q _ IH]; [split; [exact I|reflexivity]|].
  destruct e as [| | | |i| |d|]; cbn [okhs hsafter]; try exact IH; try (destruct Q).
  - destruct i as [[|]| | | | | | | |]; cbn [okhs hsafter]; try exact IH; destruct Q.
  - destruct d; cbn [okhs hsafter]; try exact IH; destruct Q.
Qed.

(* what a data loop adds: no reply is read in it *)
Lemma io_ok ev : forall hs, okhs hs (map EIo ev).
Proof.
  induction ev as [|e ev IH]; intro hs; [exact I|]. cbn [map okhs].
  destruct e as [[|]| | | | | | | |]; apply IH.
Qed.

Lemma q_obs obs e : Forall quiet (map (fun o => EObs o e) obs).
Proof. induction obs as [|o obs IH]; cbn; constructor; [exact I|exact IH]. Qed.

Definition St (hs : bool) (w w' : world) (hs' : bool) : Prop :=
  exists tr, w_trace w' = w_trace w ++ tr /\ okhs hs tr /\ hsafter hs tr = hs' /\ (w_data w <> None -> w_data w' <> None).
Definition Sx (hs : bool) (w w' : world) : Prop := exists tr, w_trace w' = w_trace w ++ tr /\ okhs hs tr.

Lemma St_refl hs w : St hs w w hs.
Proof. exists []. rewrite app_nil_r. repeat split; auto. Qed.
Lemma Sx_refl hs w : Sx hs w w.
Proof. exists []. rewrite app_nil_r. repeat split. Qed.

Lemma St_trans h0 a h1 b h2 c : St h0 a b h1 -> St h1 b c h2 -> St h0 a c h2.
Proof.
  intros (t1 & E1 & O1 & L1 & C1) (t2 & E2 & O2 & L2 & C2). exists (t1 ++ t2). rewrite E2, E1, app_assoc. split; [reflexivity|].
  split; [apply okhs_app; rewrite L1; split; assumption|]. split; [rewrite hsafter_app, L1; exact L2|auto].
Qed.

Lemma St_then h0 a h1 b c : St h0 a b h1 -> ((w_data a <> None -> w_data b <> None) -> Sx h1 b c) -> Sx h0 a c.
Proof.
  intros (t1 & E1 & O1 & L1 & C1) H. destruct (H C1) as (t2 & E2 & O2).
  exists (t1 ++ t2). rewrite E2, E1, app_assoc. split; [reflexivity|]. apply okhs_app. rewrite L1. split; assumption.
Qed.

Lemma St_weaken h0 a b h1 : St h0 a b h1 -> Sx h0 a b.
Proof. intros (t & E & O & _). exists t. split; assumption. Qed.

Lemma St_quiet hs w w' es : w_trace w' = w_trace w ++ es -> Forall quiet es -> w_data w' = w_data w -> St hs w w' hs.
Proof. intros E Q C. destruct (quiet_ok hs es Q) as (A & B). exists es. rewrite C. repeat split; auto. Qed.

Lemma St_notify hs w e : St hs w (notify w e) hs.
Proof. apply (St_quiet _ _ _ (map (fun o => EObs o e) (w_obs w))); [reflexivity|apply q_obs|reflexivity]. Qed.

Ltac qall := repeat (first [apply Forall_nil | apply Forall_cons; [exact I|]]).
Ltac sq := first
  [ apply (St_quiet _ _ _ []); [cbn [w_trace emit set_trace set_queues set_io set_data set_cfg set_ctl set_obs release_pending notify];
                               rewrite ?app_nil_r; reflexivity|constructor|reflexivity]
  | (eapply St_quiet; [cbn [w_trace emit set_trace set_queues set_io set_data set_cfg set_ctl set_obs release_pending notify];
                       rewrite <- ?app_assoc; reflexivity|qall|reflexivity]) ].

Lemma peer_react_cfg w : w_data (peer_react w) = w_data w.
Proof. unfold peer_react. destruct (w_cur w); reflexivity. Qed.

Lemma St_do_send hs w line w' : do_send w line = Some w' -> St hs w w' hs.
Proof.
  unfold do_send. destruct (negb _); [discriminate|]. destruct (_ && negb _); [discriminate|].
  set (w1 := notify w (ORequest line)).
  assert (G1 : St hs w w1 hs) by apply St_notify.
  destruct (w_peer_closed w1); intro H; inversion H; subst; clear H.
  - eapply St_trans; [exact G1|]. sq.
  - eapply St_trans; [exact G1|].
    match goal with |- St _ w1 (peer_react ?W) _ => apply (St_trans _ _ hs W) end.
    + sq.
    + apply (St_quiet _ _ _ []); [rewrite app_nil_r; apply peer_react_trace|constructor|rewrite peer_react_cfg; reflexivity].
Qed.

Lemma St_set hs w w' es : w_trace w' = w_trace w ++ es -> Forall quiet es -> w_data w' <> None -> St hs w w' hs.
Proof. intros E Q K. destruct (quiet_ok hs es Q) as (A & B). exists es. repeat split; auto. Qed.

Lemma St_close_data hs w : St hs w (close_data w) hs.
Proof.
  unfold close_data. destruct (w_data w) as [d|]; [|apply St_refl].
  destruct (d_sock d), (d_acc d); cbv zeta.
  - apply (St_set _ _ _ [EData DClose; EData DAccClose]); [cbn [w_trace set_data emit set_trace release_pending set_queues]; rewrite <- app_assoc; reflexivity|qall|discriminate].
  - apply (St_set _ _ _ [EData DClose]); [reflexivity|qall|discriminate].
  - apply (St_set _ _ _ [EData DAccClose]); [reflexivity|qall|discriminate].
  - apply (St_set _ _ _ []); [rewrite app_nil_r; reflexivity|constructor|discriminate].
Qed.

Lemma St_ctl_disconnect hs w : St hs w (snd (ctl_disconnect w)) hs.
Proof.
  unfold ctl_disconnect. cbn [snd].
  eapply St_quiet; [cbn [w_trace set_queues set_ctl emit set_trace]; reflexivity| |reflexivity].
  destruct (w_ssl w); cbn [app]; qall.
Qed.

(* ------------------------------------------------------------------ programs *)
(* ------------------------------------------------------------------ programs *)
(* [ge p wr h]: p reads no reply while [wr]; [h]: a data connection object exists for sure *)
Fixpoint ge (p : prog) (wr h : bool) : Prop :=
  match p with
  | Ret _ | Throw => True
  | Recv k => wr = false /\ forall r, ge (k r) false h
  | PumpIn k | PumpOut k => forall x, ge (k x) true h /\ ge (k x) false h
  | PumpInList k => forall t, ge (k t) true h /\ ge (k t) false h
  | Poll k => ge (k true) false h /\ ge (k false) wr h
  | DDisconnect g k => h = true /\ ge k (if g then false else wr) h
  | DNew k | DConnect _ _ k | DListenP k | DAccept k | DHandshakeP k => ge k wr true
  | GetCfg k => forall c, ge (k c) wr h
  | IsOpen k | IsSsl k => forall b, ge (k b) wr h
  | CheckArg _ k | Send _ _ k | SendRaw _ k | SendAdv _ k | Notify _ k | SetTypeCfg _ k | CtlConnect _ _ k | CtlSetSsl _ k
  | CtlHandshake k | CtlTlsShutdown k | CtlDisconnect k | Scope k => ge k wr h
  end.

Ltac ih IH N T := let C := fresh "C" in let X := fresh "X" in
  intro C; eapply IH; [first [exact N | apply N]|intro X; apply C; apply T; exact X].
Ltac dset IH N es := eapply St_then; [|intros _; eapply IH; [exact N|intros _; discriminate]];
                     apply (St_set _ _ _ es); [reflexivity|qall|discriminate].

Lemma run_ge : forall p wr h w, ge p wr h -> (h = true -> w_data w <> None) -> Sx wr w (snd (run p w)).
Proof.
  induction p as [v| |a k IH|verb arg k IH|line k IH|a k IH|k IH|e k IH|k IH|t k IH|k IH|k IH|hh pt k IH|on k IH|k IH|k IH|k IH
                 |k IH|ip port k IH|k IH|k IH|k IH|g k IH|k IH|k IH|k IH|k IH|body IH]; intros hs h w N T; cbn [run]; cbn [ge] in N.
  - apply Sx_refl.
  - apply Sx_refl.
  - destruct (has_crlf a); [apply Sx_refl|eapply IH; [exact N|exact T]].
  - destruct arg as [a|].
    + destruct (has_crlf a); [apply Sx_refl|].
      destruct (do_send w _) as [w'|] eqn:E; cbn [snd];
        [eapply St_then; [eapply St_do_send; eauto|ih IH N T]|eapply St_weaken; apply St_notify].
    + destruct (do_send w _) as [w'|] eqn:E; cbn [snd];
        [eapply St_then; [eapply St_do_send; eauto|ih IH N T]|eapply St_weaken; apply St_notify].
  - destruct (do_send w _) as [w'|] eqn:E; cbn [snd];
      [eapply St_then; [eapply St_do_send; eauto|ih IH N T]|eapply St_weaken; apply St_notify].
  - destruct (match a with AdvEprt => _ | AdvPort => _ end) as [line|]; [|apply Sx_refl].
    destruct (do_send w _) as [w'|] eqn:E; cbn [snd];
      [eapply St_then; [eapply St_do_send; eauto|ih IH N T]|eapply St_weaken; apply St_notify].
  - (* Recv *)
    destruct N as (-> & N).
    destruct (negb (w_open w)); [apply Sx_refl|].
    destruct (w_backlog w) as [|[t [r|]] rest].
    + destruct (w_peer_closed w); apply Sx_refl.
    + set (w1 := emit (set_queues w rest (w_pending w)) [ERecv t r]).
      assert (G1 : St false w w1 false).
      { exists [ERecv t r]. unfold w1. repeat split; auto. }
      destruct (code r =? 421).
      * destruct (ctl_disconnect w1) as [ok w2] eqn:D.
        pose proof (St_ctl_disconnect false w1) as G2. rewrite D in G2. cbn [snd] in G2.
        destruct ok; cbn [snd].
        -- eapply St_then; [eapply St_trans; [exact G1|]; eapply St_trans; [exact G2|apply St_notify]|].
           intro C. eapply IH; [apply N|intro X; apply C; apply T; exact X].
        -- eapply St_weaken. eapply St_trans; [exact G1|exact G2].
      * eapply St_then; [eapply St_trans; [exact G1|apply St_notify]|]. intro C. eapply IH; [apply N|intro X; apply C; apply T; exact X].
    + cbn [snd]. eapply St_weaken. sq.
  - eapply St_then; [apply St_notify|ih IH N T].
  - eapply IH; [apply N|exact T].
  - (* SetTypeCfg *)
    eapply St_then; [|ih IH N T].
    eapply St_quiet; [cbn [w_trace emit set_trace set_cfg]; reflexivity|qall|reflexivity].
  - eapply IH; [apply N|exact T].
  - eapply IH; [apply N|exact T].
  - (* CtlConnect *)
    match goal with |- context [match w_script ?w0 with _ => _ end] => set (W0 := w0) end.
    assert (X0 : St hs w W0 hs) by (unfold W0; destruct (w_open w); sq).
    destruct (w_script W0) as [|s rest]; cbn [snd].
    + eapply St_weaken. eapply St_trans; [exact X0|sq].
    + destruct (negb (s_reachable s)); cbn [snd].
      * eapply St_weaken. eapply St_trans; [exact X0|].
        eapply St_quiet; [cbn [w_trace emit set_trace]; reflexivity|qall|reflexivity].
      * eapply St_then; [eapply St_trans; [exact X0|]|ih IH N T].
        eapply St_quiet; [cbn [w_trace emit set_trace]; reflexivity|qall|reflexivity].
  - eapply St_then; [|ih IH N T]. sq.
  - destruct (w_last_tls_ok w && negb (w_peer_closed w)); cbn [snd]; [eapply St_then; [|ih IH N T]|eapply St_weaken]; sq.
  - destruct (w_tls_up w && w_tls_clean w && negb (w_peer_closed w)); cbn [snd]; [eapply St_then; [|ih IH N T]|eapply St_weaken]; sq.
  - destruct (ctl_disconnect w) as [ok w1] eqn:D.
    pose proof (St_ctl_disconnect hs w) as G2. rewrite D in G2. cbn [snd] in G2.
    destruct ok; cbn [snd]; [eapply St_then; [exact G2|ih IH N T]|eapply St_weaken; exact G2].
  - (* DNew *)
    dset IH N [EData DNewObj].
  - (* DConnect *)
    destruct (dp_reachable (w_plan w)); cbn [snd]; [dset IH N [EData (DConnectTo ip port true)]|eapply St_weaken; sq].
  - dset IH N [EData DListen].
  - destruct (dp_reachable (w_plan w)); cbn [snd]; [dset IH N [EData DAcceptOk]|apply Sx_refl].
  - (* DHandshakeP *)
    destruct (dp_tls_ok (w_plan w)); cbn [snd].
    + eapply St_then; [|intros _; eapply IH; [exact N|intros _; discriminate]].
      eapply St_set; [cbn [w_trace emit set_trace set_data]; reflexivity|qall|discriminate].
    + eapply St_weaken. eapply St_set; [cbn [w_trace emit set_trace set_data]; reflexivity|qall|discriminate].
  - (* DDisconnect *)
    destruct N as (-> & N).
    destruct (w_data w) as [d|] eqn:D; [|exfalso; exact (T eq_refl eq_refl)].
    destruct (d_ssl d && negb (dp_shutdown_ok (w_plan w))); cbn [snd]; [eapply St_weaken; sq|].
    match goal with |- context [close_data ?W] => set (W1 := W) end.
    assert (G1 : St hs w W1 (if g then false else hs)).
    { unfold W1. destruct (d_ssl d), g; cbn [app];
        (eexists; split; [cbn [w_trace emit set_trace]; reflexivity|]; cbn [okhs hsafter]; repeat split; auto). }
    eapply St_then; [eapply St_trans; [exact G1|apply St_close_data]|].
    intro C. eapply IH; [exact N|intros _; apply C; rewrite D; discriminate].
  - (* PumpIn *)
    destruct (data_recv _ _ _ _ _) as [[ev r] cb'].
    match goal with |- context [set_io ?A ?B] => set (W1 := set_io A B) end.
    assert (G1 : St hs w W1 (hsafter hs (map EIo ev))).
    { exists (map EIo ev). split; [reflexivity|]. split; [apply io_ok|]. split; [reflexivity|intro X; exact X]. }
    destruct r; cbn [snd]; try (eapply St_weaken; exact G1);
      (eapply St_then; [exact G1|intro C; destruct (hsafter hs (map EIo ev));
        (eapply IH; [first [exact (proj1 (N _)) | exact (proj2 (N _))]|intro X; apply C; apply T; exact X])]).
  - destruct (data_recv _ _ _ _ _) as [[ev r] cb'].
    match goal with |- context [emit w ?E] => set (W1 := emit w E) end.
    assert (G1 : St hs w W1 (hsafter hs (map EIo ev))).
    { exists (map EIo ev). split; [reflexivity|]. split; [apply io_ok|]. split; [reflexivity|intro X; exact X]. }
    destruct r; cbn [snd]; try (eapply St_weaken; exact G1);
      (eapply St_then; [exact G1|intro C; destruct (hsafter hs (map EIo ev));
        (eapply IH; [first [exact (proj1 (N _)) | exact (proj2 (N _))]|intro X; apply C; apply T; exact X])]).
  - destruct (data_send _ _ _ _) as [[ev r] cb'].
    match goal with |- context [set_io ?A ?B] => set (W1 := set_io A B) end.
    assert (G1 : St hs w W1 (hsafter hs (map EIo ev))).
    { exists (map EIo ev). split; [reflexivity|]. split; [apply io_ok|]. split; [reflexivity|intro X; exact X]. }
    destruct r; cbn [snd]; try (eapply St_weaken; exact G1);
      (eapply St_then; [exact G1|intro C; destruct (hsafter hs (map EIo ev));
        (eapply IH; [first [exact (proj1 (N _)) | exact (proj2 (N _))]|intro X; apply C; apply T; exact X])]).
  - (* Poll *)
    destruct N as (Nt & Nf).
    destruct (io_cb (w_io w)) as [answers|]; [|eapply IH; [exact Nf|exact T]].
    destruct (poll answers) as [a answers']. destruct a.
    + eapply St_then; [|intro C; eapply IH; [exact Nt|intro X; apply C; apply T; exact X]].
      exists [EIo (IoPoll true)]. split; [reflexivity|]. split; [exact I|]. split; [reflexivity|intro X; exact X].
    + eapply St_then; [|intro C; eapply IH; [exact Nf|intro X; apply C; apply T; exact X]].
      apply (St_quiet _ _ _ [EIo (IoPoll false)]); [reflexivity|qall|reflexivity].
  - (* Scope *)
    destruct (run body w) as [o w1] eqn:Rn. cbn [snd].
    pose proof (IH hs h w N T) as (tr & E & O). rewrite Rn in E. cbn [snd] in E.
    destruct (St_close_data (hsafter hs tr) w1) as (t2 & E2 & O2 & _).
    exists (tr ++ t2). split.
    + cbn [w_trace set_data]. rewrite E2, E, app_assoc. reflexivity.
    + apply okhs_app. split; assumption.
Qed.

(* ------------------------------------------------------------------ the operations *)
Ltac get := repeat (cbn [ge]; first
  [ exact I | reflexivity | intro
  | match goal with
    | |- ge (if ?b then _ else _) _ _ => destruct b
    | |- ge (match ?x with _ => _ end) _ _ => destruct x
    | |- ge (let _ := _ in _) _ _ => cbv zeta
    | |- _ /\ _ => split
    end ]).

Lemma ge_cdc verb arg acc k_ok k_none h :
  (forall a, ge (k_ok a) false true) -> (forall a h', ge (k_none a) false h') ->
  ge (create_data_connection verb arg acc k_ok k_none) false h.
Proof.
  intros K1 K2. unfold create_data_connection, process_command. cbn [ge]. intro c.
  destruct (c_mode c), (c_rfc2428 c); get; first [apply K2 | apply K1].
Qed.

Lemma ge_finish acc wr : ge (finish_transfer acc) wr true.
Proof. unfold finish_transfer, process_abort, process_command. get. Qed.

Lemma ge_process_login u pw acc k h : (forall a h', ge (k a) false h') -> ge (process_login u pw acc k) false h.
Proof. intro K. unfold process_login, process_command, process_raw. get; apply K. Qed.

Lemma ge_connect hh p l h : ge (op_connect hh p l) false h.
Proof.
  unfold op_connect, process_raw. cbv zeta.
  assert (LP : forall acc h0, ge (match l with
                | None => Ret (RvReplies acc)
                | Some (u, pw) => process_login u pw acc (fun acc' => Ret (RvReplies acc')) end) false h0).
  { intros acc h0. destruct l as [[u pw]|]; [apply ge_process_login; intros; exact I|exact I]. }
  destruct l as [[u pw]|]; get; try apply (LP _ _); try (apply ge_process_login; intros; exact I).
Qed.

(* every call, every state, every server *)
Theorem step_reads_no_reply_before_the_end_of_data_is_signalled a w :
  exists tr, w_trace (snd (step w a)) = w_trace w ++ tr /\ okhs false tr.
Proof.
  assert (ST : forall p i, ge p false false -> exists tr, w_trace (snd (run p (set_io w i))) = w_trace w ++ tr /\ okhs false tr).
  { intros p i N. destruct (run_ge p false false (set_io w i) N) as (tr & E & O); [discriminate|]. exists tr. split; [exact E|exact O]. }
  destruct a as [h p l|u pw| |v arg|t|x y|path cb f|uv path ch cb|path names|g|o|o|md|b]; unfold step; cbn [prog_of];
    try (exists []; rewrite app_nil_r; split; [reflexivity|exact I]).
  - apply ST. apply ge_connect.
  - apply ST. unfold op_login. apply ge_process_login. intros; exact I.
  - apply ST. unfold op_logout, process_command. get.
  - apply ST. unfold op_simple, process_command. get.
  - apply ST. unfold op_set_type, process_command. get.
  - apply ST. unfold op_rename, process_command. get.
  - apply ST. unfold op_download. cbn [ge]. apply ge_cdc; [|intros; exact I].
    intro a. cbn [ge]. intro x. split; apply ge_finish.
  - apply ST. unfold op_upload. cbn [ge]. apply ge_cdc; [|intros; exact I].
    intro a. cbn [ge]. intro x. split; apply ge_finish.
  - apply ST. unfold op_list. cbn [ge]. apply ge_cdc; [|intros; exact I]. get.
  - apply ST. unfold op_disconnect, process_command. destruct g; get.
Qed.

(* read on the trace: when a reply is read, nothing written to a data connection is left without its end signalled (or the
   callback has cancelled) *)
Corollary reply_read_after_the_end_was_signalled a w tr pre t r post :
  w_trace (snd (step w a)) = w_trace w ++ tr -> tr = pre ++ ERecv t r :: post -> hsafter false pre = false.
Proof.
  intros E S. destruct (step_reads_no_reply_before_the_end_of_data_is_signalled a w) as (tr' & E' & O).
  rewrite E in E'. apply app_inv_head in E'. subst tr'. subst tr.
  apply okhs_app in O. destruct O as (_ & O). cbn [okhs] in O. exact (proj1 O).
Qed.

(* non-vacuity: an upload of two blocks: the blocks, the shutdown of the data connection, and only then the completion reply *)
Definition eof_script : list session :=
  let say c := mkR [RReply (mkReply c [])] [] false false true no_plan in
  let epsv := mkR [RReply (mkReply 229 [40;124;124;124;53;124;41])] [] false false true (mkDP true true [] DEof true) in
  let stor := mkR [RReply (mkReply 150 [])] [RReply (mkReply 226 [])] false false true (mkDP true true [] DEof true) in
  [mkSess true false true (say 220) [epsv; stor]].

Example eof_example :
  let w0 := init_world (mkConfig Passive true TBinary false false) eof_script in
  let w1 := snd (steps w0 [AConnect [104] 21 None]) in
  let tr := skipn (length (w_trace w1)) (w_trace (snd (step w1 (AUpload UStor [102] [[1;2]; [3]] None)))) in
  filter (fun e => match e with EIo (IoNetWrite _) | EData DTcpShutdown | ERecv _ _ => true | _ => false end) tr
  = [ERecv 1 (mkReply 229 [40;124;124;124;53;124;41]); ERecv 2 (mkReply 150 []); EIo (IoNetWrite [1;2]); EIo (IoNetWrite [3]);
     EData DTcpShutdown; ERecv 2 (mkReply 226 [])]
  /\ okhs false tr.
Proof. vm_compute. split; [reflexivity|repeat split]. Qed.
