(* FramingSpec.v - what a stream of well-formed RFC 959 replies is, and what each receive step
   must return for it (chunk-free specification of C01). *)
From LibFtp Require Export Bytes Decimal Reply Framing.
Local Open Scope N_scope.

Inductive term := TCRLF | TLF.
Definition term_bytes (t : term) : bytes := match t with TCRLF => [CR; LF] | TLF => [LF] end.

Record wline := mkL { ltext : bytes; lterm : term }.
Definition wline_bytes (l : wline) : bytes := ltext l ++ term_bytes (lterm l).

(* free of CR and LF *)
Definition clean (t : bytes) : bool := negb (mem CR t) && negb (mem LF t).

(* a later line closes a multi-line reply when it begins with the same three digits and a space *)
Definition is_closing (d3 t : bytes) : bool :=
  Nat.leb 4 (length t) && bytes_eqb (firstn 3 t) d3 && (nth 3 t 0 =? SP).

Inductive wreply :=
| WSingle (d3 rest : bytes) (t : term)
| WMulti (d3 rest0 : bytes) (t0 : term) (conts : list wline) (restz : bytes) (tz : term).

Definition wr_digits (r : wreply) : bytes :=
  match r with WSingle d _ _ => d | WMulti d _ _ _ _ _ => d end.

Definition wr_lines (r : wreply) : list wline :=
  match r with
  | WSingle d rest t => [mkL (d ++ rest) t]
  | WMulti d r0 t0 cs rz tz => mkL (d ++ DASH :: r0) t0 :: cs ++ [mkL (d ++ SP :: rz) tz]
  end.

Definition render_reply (r : wreply) : bytes := concat (map wline_bytes (wr_lines r)).
Definition render (rs : list wreply) : bytes := concat (map render_reply rs).

(* text = the reply's bytes minus the final line terminator *)
Definition expected_text (r : wreply) : bytes :=
  match r with
  | WSingle d rest _ => d ++ rest
  | WMulti d r0 t0 cs rz _ =>
      wline_bytes (mkL (d ++ DASH :: r0) t0) ++ concat (map wline_bytes cs) ++ (d ++ SP :: rz)
  end.
Definition expected (r : wreply) : reply := mkReply (dec_value (wr_digits r)) (expected_text r).

Definition digits3 (d : bytes) : bool := Nat.eqb (length d) 3 && all_digits d.

Definition wf_line (m : nat) (l : wline) : bool :=
  clean (ltext l) && Nat.leb (length (wline_bytes l)) m.

Definition wf_reply (m : nat) (r : wreply) : bool :=
  digits3 (wr_digits r) && forallb (wf_line m) (wr_lines r) &&
  match r with
  | WSingle _ rest _ => match rest with [] => true | c :: _ => negb (c =? DASH) end
  | WMulti d _ _ cs _ _ => forallb (fun c => negb (is_closing d (ltext c))) cs
  end.
