(* C03 - binary download and listings deliver exactly the bytes the server sent.
   The theorems are about data_connection::recv as modelled in DataConn.v (loop over the segments the socket
   delivers, one sink write per segment, one flush, end-of-file vs error); the kernel, TCP and the TLS record
   layer are not modelled: that bytes arrive in order and once is assumed and exercised by the correspondence. *)
From LibFtp Require Import Bytes Ascii DataConn DataConn_Proofs.
Local Open Scope N_scope.

(* for every payload and every way it is cut into segments (of any sizes), with or without a callback: a download
   that completes hands the sink exactly the concatenation of the segments, and flushes it exactly once, after
   the last byte and before returning *)
Theorem C03_download_exact : forall s segs e cb ev r cb', good_sink s ->
  data_recv TBinary s segs e cb = (ev, r, cb') -> r = PDone ->
  e = DEof /\ sink_bytes ev = concat segs /\ net_in_bytes ev = concat segs /\
  exists pre post, ev = pre ++ IoSinkFlush :: post /\ count_ev is_flush pre = O /\ count_ev is_flush post = O /\
                   sink_bytes pre = concat segs /\ sink_bytes post = [].
Proof. exact download_exact. Qed.
Print Assumptions C03_download_exact.

(* ... and without a callback every stream that ends by end-of-file completes (listings use no callback) *)
Theorem C03_download_completes : forall s segs ev r cb', good_sink s ->
  data_recv TBinary s segs DEof None = (ev, r, cb') -> r = PDone.
Proof. exact download_completes_without_callback. Qed.
Print Assumptions C03_download_completes.

(* a stream that ends by an error (reset, TLS truncation) is reported, and the sink is not flushed *)
Theorem C03_error_no_flush : forall t s segs e cb ev cb',
  data_recv t s segs e cb = (ev, PThrow, cb') -> count_ev is_flush ev = O.
Proof. exact download_error_no_flush. Qed.
Print Assumptions C03_error_no_flush.

Example C03_example :
  let '(ev, r, _) := data_recv TBinary (mkSink None O) [[1;2;3]; [4]; []; [5;6]] DEof None in
  sink_bytes ev = [1;2;3;4;5;6] /\ r = PDone /\ count_ev is_flush ev = 1%nat.
Proof. vm_compute. auto. Qed.
