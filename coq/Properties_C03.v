(* C03 - binary download and listings deliver exactly the bytes the server sent.
   The theorems are about data_connection::recv as modelled in DataConn.v (loop over the segments the socket
   delivers, one sink write per segment, one flush, end-of-file vs error); the kernel, TCP and the TLS record
   layer are not modelled: that bytes arrive in order and once is assumed and exercised by the correspondence. *)
From LibFtp Require Import Bytes Endpoint Ascii DataConn DataConn_Proofs Client Client_Proofs Login_Proofs Transfer_Proofs Transfer_More.
Local Open Scope N_scope.

(* for every payload and every way it is cut into segments (of any sizes), with or without a callback: a download
   that completes hands the sink exactly the concatenation of the segments, and flushes it exactly once, after
   the last byte and before returning *)
Theorem C03_download_exact : forall s segs e cb ev r cb', good_sink s ->
  data_recv TBinary s segs e cb = (ev, r, cb') -> r = PDone ->
  e = DEof /\ sink_bytes ev = concat segs /\ net_in_bytes ev = concat segs /\
  exists pre post, ev = pre ++ IoSinkFlush :: post /\ count_ev is_flush pre = O /\ count_ev is_flush post = O /\
                   sink_bytes pre = concat segs /\ sink_bytes post = [].
Proof. exact download_exact. Qed.
Print Assumptions C03_download_exact.

(* ... and without a callback every stream that ends by end-of-file completes (listings use no callback) *)
Theorem C03_download_completes : forall s segs ev r cb', good_sink s ->
  data_recv TBinary s segs DEof None = (ev, r, cb') -> r = PDone.
Proof. exact download_completes_without_callback. Qed.
Print Assumptions C03_download_completes.

(* a stream that ends by an error (reset, TLS truncation) is reported, and the sink is not flushed *)
Theorem C03_error_no_flush : forall t s segs e cb ev cb',
  data_recv t s segs e cb = (ev, PThrow, cb') -> count_ev is_flush ev = O.
Proof. exact download_error_no_flush. Qed.
Print Assumptions C03_error_no_flush.

(* end to end on the protocol model (passive modes, binary type): the download call as a whole - set-up command, RETR,
   data loop, close, completion reply - hands the caller's sink exactly the bytes the server sent, whatever their
   segmentation, returns the three replies and leaves no data socket *)
Theorem C03_download_end_to_end : forall w path r1 r2 rest x1 x2 x3 ip port,
  insync w (r1 :: r2 :: rest) -> w_data w = None ->
  c_mode (w_cfg w) = Passive -> c_tls (w_cfg w) = false ->
  has_crlf path = false ->
  simple_reaction r1 x1 -> is_negative x1 = false -> passive_target (w_cfg w) x1 ip port ->
  dp_reachable (r_data r1) = true ->
  accepts_transfer r2 x2 x3 -> dp_end (r_data r2) = DEof ->
  exists w', step w (ADownload path None None) = (OReturn (RvReplies [x1; x2; x3]), w') /\
    insync w' rest /\ w_data w' = None /\ w_cfg w' = w_cfg w /\
    sink_bytes (io_events (skipn (length (w_trace w)) (w_trace w'))) = delivered (c_type (w_cfg w)) (concat (dp_segs (r_data r2))) /\
    wire_events (skipn (length (w_trace w)) (w_trace w')) =
      [WLine (setup_line (w_cfg w)); WReply x1; WLine (RETR_ ++ SP :: path); WReply x2; WReply x3] /\
    data_events (skipn (length (w_trace w)) (w_trace w')) =
      [DNewObj; DConnectTo ip port true; DTcpShutdown; DClose].
Proof. exact download_passive_complete. Qed.
Print Assumptions C03_download_end_to_end.

Example C03_example :
  let '(ev, r, _) := data_recv TBinary (mkSink None O) [[1;2;3]; [4]; []; [5;6]] DEof None in
  sink_bytes ev = [1;2;3;4;5;6] /\ r = PDone /\ count_ev is_flush ev = 1%nat.
Proof. vm_compute. auto. Qed.

(* a whole listing over TLS *)
Theorem C03_listing_over_tls : forall w path names r1 r2 rest x1 x2 x3 ip port,
  insync w (r1 :: r2 :: rest) -> w_data w = None ->
  c_mode (w_cfg w) = Passive -> c_tls (w_cfg w) = true ->
  arg_ok path ->
  simple_reaction r1 x1 -> is_negative x1 = false -> passive_target (w_cfg w) x1 ip port ->
  dp_reachable (r_data r1) = true ->
  accepts_transfer r2 x2 x3 -> dp_end (r_data r2) = DEof ->
  dp_tls_ok (r_data r2) = true -> dp_shutdown_ok (r_data r2) = true ->
  exists w', step w (AList path names) = (OReturn (RvList [x1; x2; x3] (delivered (c_type (w_cfg w)) (concat (dp_segs (r_data r2))))), w') /\
    insync w' rest /\ w_data w' = None /\ w_cfg w' = w_cfg w /\
    wire_events (skipn (length (w_trace w)) (w_trace w')) =
      [WLine (setup_line (w_cfg w)); WReply x1; WLine (line_of (if names then NLST_ else LIST_) path); WReply x2; WReply x3] /\
    data_events (skipn (length (w_trace w)) (w_trace w')) =
      [DNewObj; DConnectTo ip port true;
       DHandshake (if c_resume (w_cfg w) then Some (w_sess_id w) else None) true;
       DTlsShutdown true; DTcpShutdown; DClose] /\
    obs_events (skipn (length (w_trace w)) (w_trace w')) =
      told (w_obs w) (ORequest (setup_line (w_cfg w))) ++ told (w_obs w) (OReply x1) ++
      told (w_obs w) (ORequest (line_of (if names then NLST_ else LIST_) path)) ++ told (w_obs w) (OReply x2) ++
      told (w_obs w) (OFileList (delivered (c_type (w_cfg w)) (concat (dp_segs (r_data r2))))) ++ told (w_obs w) (OReply x3).
Proof. exact list_passive_complete_tls. Qed.
Print Assumptions C03_listing_over_tls.

(* a whole listing in the active modes *)
Theorem C03_listing_active : forall w path names r1 r2 rest x1 x2 x3 line,
  insync w (r1 :: r2 :: rest) -> w_data w = None ->
  c_mode (w_cfg w) = Active -> c_tls (w_cfg w) = false ->
  arg_ok path -> adv_cmd w = Some line ->
  simple_reaction r1 x1 -> is_negative x1 = false ->
  accepts_transfer r2 x2 x3 -> dp_reachable (r_data r2) = true -> dp_end (r_data r2) = DEof ->
  exists w', step w (AList path names) = (OReturn (RvList [x1; x2; x3] (delivered (c_type (w_cfg w)) (concat (dp_segs (r_data r2))))), w') /\
    insync w' rest /\ w_data w' = None /\ w_cfg w' = w_cfg w /\
    wire_events (skipn (length (w_trace w)) (w_trace w')) =
      [WLine line; WReply x1; WLine (line_of (if names then NLST_ else LIST_) path); WReply x2; WReply x3] /\
    data_events (skipn (length (w_trace w)) (w_trace w')) =
      [DNewObj; DListen; DAcceptOk; DTcpShutdown; DClose; DAccClose].
Proof. exact list_active_complete. Qed.
Print Assumptions C03_listing_active.

From LibFtp Require Import Bytes_Global.
(* ------------------------------------------------------------------ every call, every state, every server *)
(* [ios tr]: the callback / sink / source / data-socket events among tr. In binary type, what a call hands to the caller's
   sink ([sink_bytes]) is exactly what it read from the data connection ([net_in_bytes]) - the same bytes in the same order -
   whether the transfer completes, is cancelled, is cut by the server or fails: nothing is added, dropped, repeated or
   reordered between the socket and the sink (calls: everything but set_transfer_type and the uploads; a download's sink
   does not fail) *)
Theorem C03_sink_gets_exactly_what_was_read : forall a w, receives a -> c_type (w_cfg w) = TBinary ->
  exists tr, w_trace (snd (step w a)) = w_trace w ++ tr /\ sink_bytes (ios tr) = net_in_bytes (ios tr).
Proof. exact step_sink_gets_what_was_read. Qed.
Print Assumptions C03_sink_gets_exactly_what_was_read.

Example C03_bytes_example :
  let w0 := init_world (mkConfig Passive true TBinary false false) bytes_script in
  let tr := w_trace (snd (steps w0 [AConnect [104%N] 21%N None; ADownload [102%N] None None])) in
  sink_bytes (ios tr) = [1;2;3;4;5;6]%N /\ net_in_bytes (ios tr) = [1;2;3;4;5;6]%N.
Proof. exact bytes_example. Qed.

(* ---- the sink over every call, every state, either type, every server (Flush_Global.v) ---- *)
From LibFtp Require Flush_Global.

(* what a call does to the caller's sink is accepted by the automaton Open -flush-> Flushed in which writes are allowed only
   while Open: writes, then at most one flush, then nothing *)
Theorem C03_sink_written_then_flushed_once : forall a w, Flush_Global.sink_ok a ->
  exists tr st', w_trace (snd (step w a)) = w_trace w ++ tr /\
    Flush_Global.chk Flush_Global.Open (Bytes_Global.ios tr) = Some st'.
Proof. exact Flush_Global.step_sink_written_then_flushed_once. Qed.
Print Assumptions C03_sink_written_then_flushed_once.

Theorem C03_flushed_at_most_once : forall a w tr, Flush_Global.sink_ok a ->
  w_trace (snd (step w a)) = w_trace w ++ tr -> (count_ev is_flush (Bytes_Global.ios tr) <= 1)%nat.
Proof. exact Flush_Global.flushed_at_most_once. Qed.
Print Assumptions C03_flushed_at_most_once.

Theorem C03_sink_untouched_after_the_flush : forall a w tr pre post, Flush_Global.sink_ok a ->
  w_trace (snd (step w a)) = w_trace w ++ tr ->
  Bytes_Global.ios tr = pre ++ IoSinkFlush :: post -> count_ev Flush_Global.is_sinkop post = O.
Proof. exact Flush_Global.sink_untouched_after_the_flush. Qed.
Print Assumptions C03_sink_untouched_after_the_flush.

Example C03_example_flush :
  let w0 := init_world (mkConfig Passive true TBinary false false) Bytes_Global.bytes_script in
  let tr := w_trace (snd (steps w0 [AConnect [104] 21 None; ADownload [102] None None])) in
  Bytes_Global.ios tr = [IoNetRead [1;2]; IoSinkWrite [1;2]; IoNetRead [3]; IoSinkWrite [3]; IoNetRead [4;5;6]; IoSinkWrite [4;5;6]; IoSinkFlush]
  /\ Flush_Global.chk Flush_Global.Open (Bytes_Global.ios tr) = Some Flush_Global.Flushed.
Proof. exact Flush_Global.flush_example. Qed.
