(* C19 - the command-line parser is total, case-insensitive and inverts its quoting. *)
From LibFtp Require Import Bytes Cmdline Cmdline_Proofs.
Local Open Scope N_scope.

(* totality of the modelled logic is by construction: parse_command is a total function into
   option (command * list bytes), None standing for the application's own Invalid command error.
   That the C++ never fails in another way (other exception types) is the runtime half, checked by
   the correspondence on every generated line. *)

(* verbs are recognised regardless of letter case, whatever follows after whitespace *)
Theorem C19_verbs_case_insensitive : forall c spelling rest, lower spelling = verb_name c ->
  (rest = [] \/ exists sp r, rest = sp :: r /\ is_space sp = true) ->
  parse_command (spelling ++ rest) = Some (c, parse_args (S (length rest)) rest).
Proof. exact verbs_case_insensitive. Qed.
Print Assumptions C19_verbs_case_insensitive.

(* nothing but the documented verbs is accepted: the first token folds to the verb's name *)
Theorem C19_only_verbs : forall line c args, parse_command line = Some (c, args) ->
  lower (fst (read_token (skip_ws line))) = verb_name c.
Proof. exact only_verbs. Qed.
Print Assumptions C19_only_verbs.

(* for every verb spelling and every list of arbitrary byte strings, the arguments written with the
   supported quoting are recovered exactly *)
Theorem C19_quoting_roundtrip : forall c spelling (args : list bytes), lower spelling = verb_name c ->
  parse_command (spelling ++ render_args args) = Some (c, args).
Proof. exact quoting_roundtrip. Qed.
Print Assumptions C19_quoting_roundtrip.

(* there are exactly 27 documented verbs *)
Theorem C19_27_verbs : length all_commands = 27%nat /\ NoDup (map verb_name all_commands).
Proof.
  split; [reflexivity|]. cbn [all_commands map].
  repeat (constructor; [cbn [In verb_name]; intuition discriminate|]). constructor.
Qed.
Print Assumptions C19_27_verbs.

Example C19_example :
  (* the line: GeT, then the quoted arguments <a b> and <q, double quote, x, backslash> *)
  parse_command [71;101;84;32; 34;97;32;98;34; 32; 34;113;92;34;120;92;92;34]
  = Some (C_get, [[97;32;98]; [113;34;120;92]]).
Proof. vm_compute. reflexivity. Qed.
