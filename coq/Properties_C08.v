(* C08 - any server behaviour ends in a return or ftp_exception: no hang, no wrapped integer.
   This file covers what is logic: termination of the reply reader on every byte stream, schedule
   and ending; the buffer cap; exact-or-rejected decimal parsing. Memory safety and foreign
   exception types are runtime matters and are covered only by the sanitised differential runs. *)
From LibFtp Require Import Bytes Decimal Decimal_Proofs Reply Framing FramingSpec Framing_Proofs.
Local Open Scope N_scope.

(* whatever the bytes (buffered or still to come), however they are cut into reads, whether the
   stream ends by close or by an I/O error: one receive step returns a reply or raises
   ftp_exception - the explicit fuel S(|buffer| + |unread|) is never exhausted *)
Theorem C08_recv_total : forall (m : nat) (s : conn), fst (recv (fixed_cfg m) s) <> OutOfFuel.
Proof. exact recv_total. Qed.
Print Assumptions C08_recv_total.

(* the line buffer never grows beyond the cap ... *)
Theorem C08_line_cap : forall c s r s', read_line c s = (r, s') ->
  (length (buffer s) <= maxb c)%nat -> (length (buffer s') <= maxb c)%nat.
Proof. exact line_cap. Qed.
Print Assumptions C08_line_cap.

(* ... and a full buffer that holds no terminator is refused at once, without another read *)
Theorem C08_full_buffer_refused : forall c s, find_eol (strict_cr c) (buffer s) 0 = None ->
  (maxb c <= length (buffer s))%nat -> read_line c s = (Exn, s).
Proof. exact full_buffer_refused. Qed.
Print Assumptions C08_full_buffer_refused.

(* numbers derived from server text are the exact decimal value or a rejection, never wrapped *)
Theorem C08_no_wrap : forall s n,
  (try_parse_uint64 s = Some n <-> (s <> [] /\ all_digits s = true /\ dec_value s = n /\ n <= max64)) /\
  (forall bound, bound <= max64 ->
     (try_parse_bounded bound s = Some n <-> (s <> [] /\ all_digits s = true /\ dec_value s = n /\ n <= bound))).
Proof.
  intros s n. split; [apply try_parse_uint64_spec|]. intros b Hb. apply try_parse_bounded_spec. exact Hb.
Qed.
Print Assumptions C08_no_wrap.

(* history: the pinned reader spun for ever when the stream ended inside a multi-line reply (F2) *)
Theorem C08_recv_livelock_refuted_on_pinned :
  forall fuel, fst (recv_fuel fuel (pinned_cfg 64) f2_conn) = OutOfFuel.
Proof. exact recv_livelock_refuted_on_pinned. Qed.
Print Assumptions C08_recv_livelock_refuted_on_pinned.

Example C08_example_eof_inside_multiline : fst (recv (fixed_cfg 64) f2_conn) = Exn.
Proof. exact recv_eof_inside_multiline_fixed. Qed.
