(* C20 - the interactive client survives any input and server, and protects local files.
   Model: App.v (command_handler, cmdline_interface::run, main) on top of the protocol model; the local file system is
   a finite map. PARTIAL: symlinks, permissions, signals and terminal handling are not modelled; that the real
   process exits with status 0 and touches no other file is observed by the correspondence on the real binary. *)
From LibFtp Require Import Bytes Decimal Reply Endpoint DataConn Client Client_Proofs Login_Proofs Transfer_Proofs Transfer_More Cmdline AppStrings Typed App App_Proofs.
Local Open Scope N_scope.

(* for every script of input lines, every local file system and every script of the peer: the run ends with the
   success status; the only ways out of the loop are "exit", the end of the input, and the end of the input inside
   a prompt - an invalid line, a cmdline_exception and an ftp_exception are printed and the loop goes on *)
(* (Hung: a library call blocks for ever on a silent peer - the process does not end, so it has no status) *)
Theorem C20_loop_exit : forall fuel a, fst (run_app fuel a) = ExitSuccess \/ fst (run_app fuel a) = Hung.
Proof. exact loop_exit. Qed.
Print Assumptions C20_loop_exit.

(* a command that needs a connection, given while disconnected: "Connection is not open." and nothing else - no
   library call (hence no network activity), no prompt, no output, no file touched - for every argument list *)
Theorem C20_offline_guard : forall a c args, needs_connection c = true -> connected a = false ->
  handle a c args = (HCmdline m_not_open, a).
Proof. exact offline_guard. Qed.
Print Assumptions C20_offline_guard.

(* get never overwrites or deletes a local file that already existed ... *)
Theorem C20_get_refuses_existing_file : forall a remote local content,
  connected a = true -> fs_get (a_fs a) local = Some content ->
  handle a C_get [remote; local] = (HCmdline (m_exists_pre ++ local ++ m_exists_post), a).
Proof. exact get_refuses_existing_file. Qed.
Print Assumptions C20_get_refuses_existing_file.

(* ... touches no other local file whatever happens ... *)
Theorem C20_get_protects_other_files : forall a remote local m, connected a = true -> bytes_eqb m local = false ->
  fs_get (a_fs (snd (handle a C_get [remote; local]))) m = fs_get (a_fs a) m.
Proof. exact get_protects_files. Qed.
Print Assumptions C20_get_protects_other_files.

(* ... and removes the file it created when the server refuses the download *)
Theorem C20_get_removes_file_of_refused_download : forall a remote local,
  connected a = true -> fs_get (a_fs a) local = None -> name_ok local = true ->
  let '(o, a3) := lib (mkApp (a_w a) (fs_put (a_fs a) local []) (a_in a) (a_out a)) (ADownload remote (Some []) None) in
  o <> OThrow -> o <> OBlocked -> replies_positive o = false ->
  fs_get (a_fs (snd (handle a C_get [remote; local]))) local = None.
Proof. exact get_removes_file_of_refused_download. Qed.
Print Assumptions C20_get_removes_file_of_refused_download.

(* after any library error the handler has dropped the connection: disconnected, plain socket *)
Theorem C20_error_drops_connection : forall a c a',
  (w_tls_up (snd (step (a_w a) c)) = true -> w_ssl (snd (step (a_w a) c)) = true) ->
  lib a c = (OThrow, a') -> w_open (a_w a') = false /\ w_ssl (a_w a') = false.
Proof. exact error_drops_connection. Qed.
Print Assumptions C20_error_drops_connection.

(* get is the only verb that touches the local file system: every other command, with any arguments and against any
   server behaviour, leaves every local file exactly as it was *)
Theorem C20_only_get_touches_files : forall a c args, c <> C_get -> a_fs (snd (handle a c args)) = a_fs a.
Proof. exact only_get_touches_files. Qed.
Print Assumptions C20_only_get_touches_files.

(* after a library error the following open starts a clean session: it reads exactly the new server's greeting and is in
   step with that server's script, plain, nothing buffered, whatever the failed call had left behind *)
Theorem C20_open_after_error_is_clean : forall a c a' h p s srest g,
  (w_tls_up (snd (step (a_w a) c)) = true -> w_ssl (snd (step (a_w a) c)) = true) ->
  lib a c = (OThrow, a') ->
  w_script (a_w a') = s :: srest -> s_reachable s = true -> c_tls (w_cfg (a_w a')) = false ->
  r_now (s_greeting s) = [RReply g] -> r_close_after (s_greeting s) = false -> code g <> 421 -> code g <> 120 ->
  exists a'', lib a' (AConnect h p None) = (OReturn (RvReplies [g]), a'') /\
    insync (a_w a'') (s_reactions s) /\ w_ssl (a_w a'') = false /\ a_fs a'' = a_fs a'.
Proof. exact open_after_error_is_clean. Qed.
Print Assumptions C20_open_after_error_is_clean.

(* a WHOLE script of connection-needing commands (any of the 21 verbs, any spelling, any arguments) given while
   disconnected: every line is answered "Connection is not open.", nothing else is printed, the session state is untouched
   (no library call is made, hence no network activity), the local files are untouched, and the run ends at the end of the
   input with the success status *)
Theorem C20_offline_script : forall lines w files out0,
  w_open w = false -> Forall offline_line lines ->
  let a := mkApp w files lines out0 in
  run_main a = (ExitSuccess, mkApp w files [] (out0 ++ offline_output (length lines) ++ [OPrompt p_main])).
Proof. exact offline_script. Qed.
Print Assumptions C20_offline_script.

(* non-vacuity: commands while disconnected, then end of input *)
Example C20_example :
  let a := app_init [] [] [[108;115]; [71;69;84;32;120]; []; [98;111;103;117;115]] in
  a_out (snd (run_main a)) =
    [OPrompt p_main; OLine m_not_open; OPrompt p_main; OLine m_not_open; OPrompt p_main; OPrompt p_main; OLine m_invalid; OPrompt p_main].
Proof. vm_compute. reflexivity. Qed.
