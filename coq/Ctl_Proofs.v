(* Ctl_Proofs.v - programs that contain no control-socket primitive (everything except connect, logout and disconnect)
   never touch the peer-script pointer, and never switch a plain control socket to TLS. *)
From LibFtp Require Import Bytes Decimal Reply Endpoint DataConn Client Client_Proofs.
Local Open Scope N_scope.

Inductive noctl : prog -> Prop :=
| nc_ret v : noctl (Ret v)
| nc_throw : noctl Throw
| nc_check a k : noctl k -> noctl (CheckArg a k)
| nc_send verb arg k : noctl k -> noctl (Send verb arg k)
| nc_raw line k : noctl k -> noctl (SendRaw line k)
| nc_adv a k : noctl k -> noctl (SendAdv a k)
| nc_recv k : (forall r, noctl (k r)) -> noctl (Recv k)
| nc_notify e k : noctl k -> noctl (Notify e k)
| nc_getcfg k : (forall c, noctl (k c)) -> noctl (GetCfg k)
| nc_settype t k : noctl k -> noctl (SetTypeCfg t k)
| nc_isopen k : (forall b, noctl (k b)) -> noctl (IsOpen k)
| nc_isssl k : (forall b, noctl (k b)) -> noctl (IsSsl k)
| nc_dnew k : noctl k -> noctl (DNew k)
| nc_dconnect ip port k : noctl k -> noctl (DConnect ip port k)
| nc_dlisten k : noctl k -> noctl (DListenP k)
| nc_daccept k : noctl k -> noctl (DAccept k)
| nc_dhs k : noctl k -> noctl (DHandshakeP k)
| nc_ddisc g k : noctl k -> noctl (DDisconnect g k)
| nc_pumpin k : (forall r, noctl (k r)) -> noctl (PumpIn k)
| nc_pumpinlist k : (forall t, noctl (k t)) -> noctl (PumpInList k)
| nc_pumpout k : (forall r, noctl (k r)) -> noctl (PumpOut k)
| nc_poll k : (forall b, noctl (k b)) -> noctl (Poll k)
| nc_scope body : noctl body -> noctl (Scope body).

(* what such a program preserves *)
Definition keepc (w w' : world) : Prop :=
  w_script w' = w_script w /\ (w_ssl w = false -> w_ssl w' = false).

Lemma keepc_refl w : keepc w w.
Proof. split; auto. Qed.
Lemma keepc_trans a b c : keepc a b -> keepc b c -> keepc a c.
Proof. intros (A1 & A2) (B1 & B2). split; [congruence|auto]. Qed.
Lemma keepc_same a b : w_script b = w_script a -> w_ssl b = w_ssl a -> keepc a b.
Proof. intros H1 H2. split; [exact H1|intro H; rewrite H2; exact H]. Qed.
Ltac csame := apply keepc_same; reflexivity.

Lemma keepc_do_send w line w' : do_send w line = Some w' -> keepc w w'.
Proof.
  unfold do_send. destruct (negb _); [discriminate|]. destruct (_ && _); [discriminate|].
  destruct (w_peer_closed _); intro H; inversion H; subst; apply keepc_same; try reflexivity;
    unfold peer_react; destruct (w_cur _); reflexivity.
Qed.

Lemma keepc_close_data w : keepc w (close_data w).
Proof.
  unfold close_data. destruct (w_data w) as [d|]; [|apply keepc_refl].
  destruct (d_sock d), (d_acc d); csame.
Qed.

Lemma keepc_ctl_disconnect w : keepc w (snd (ctl_disconnect w)).
Proof. unfold ctl_disconnect. cbn [snd]. split; reflexivity. Qed.

Lemma run_noctl p : noctl p -> forall w, keepc w (snd (run p w)).
Proof.
  induction 1 as [v| |a k Hk IH|verb arg k Hk IH|line k Hk IH|a k Hk IH|k Hk IH|e k Hk IH|k Hk IH|t k Hk IH|k Hk IH|k Hk IH
                 |k Hk IH|ip port k Hk IH|k Hk IH|k Hk IH|k Hk IH|g k Hk IH|k Hk IH|k Hk IH|k Hk IH|k Hk IH|body Hb IH];
    intro w; cbn [run].
  - apply keepc_refl.
  - apply keepc_refl.
  - destruct (has_crlf a); [apply keepc_refl|apply IH].
  - destruct arg as [a|].
    + destruct (has_crlf a); [apply keepc_refl|].
      destruct (do_send w _) as [w'|] eqn:E; cbn [snd]; [eapply keepc_trans; [eapply keepc_do_send; eauto|apply IH]|csame].
    + destruct (do_send w _) as [w'|] eqn:E; cbn [snd]; [eapply keepc_trans; [eapply keepc_do_send; eauto|apply IH]|csame].
  - destruct (do_send w _) as [w'|] eqn:E; cbn [snd]; [eapply keepc_trans; [eapply keepc_do_send; eauto|apply IH]|csame].
  - destruct (match a with AdvEprt => _ | AdvPort => _ end) as [line|]; [|apply keepc_refl].
    destruct (do_send w _) as [w'|] eqn:E; cbn [snd]; [eapply keepc_trans; [eapply keepc_do_send; eauto|apply IH]|csame].
  - destruct (negb (w_open w)); [apply keepc_refl|].
    destruct (w_backlog w) as [|[t [r|]] rest]; [destruct (w_peer_closed w); apply keepc_refl| |cbn [snd]; csame].
    destruct (code r =? 421).
    + pose proof (keepc_ctl_disconnect (emit (set_queues w rest (w_pending w)) [ERecv t r])) as K.
      destruct (ctl_disconnect _) as [ok w2]. cbn [snd] in K.
      assert (K0 : keepc w w2) by (eapply keepc_trans; [|exact K]; csame).
      destruct ok; cbn [snd]; [|exact K0].
      eapply keepc_trans; [exact K0|]. eapply keepc_trans; [|apply IH]. csame.
    + eapply keepc_trans; [|apply IH]. csame.
  - eapply keepc_trans; [|apply IH]. csame.
  - apply IH.
  - eapply keepc_trans; [|apply IH]. csame.
  - apply IH.
  - apply IH.
  - eapply keepc_trans; [|apply IH]. csame.
  - destruct (dp_reachable _); cbn [snd]; [eapply keepc_trans; [|apply IH]|]; csame.
  - eapply keepc_trans; [|apply IH]. csame.
  - destruct (dp_reachable _); cbn [snd]; [eapply keepc_trans; [|apply IH]; csame|apply keepc_refl].
  - destruct (dp_tls_ok _); cbn [snd]; [eapply keepc_trans; [|apply IH]|]; csame.
  - destruct (w_data w) as [d|]; [|apply IH].
    destruct (_ && _); cbn [snd]; [csame|].
    eapply keepc_trans; [|apply IH]. eapply keepc_trans; [|apply keepc_close_data]. csame.
  - destruct (data_recv _ _ _ _ _) as [[ev r] cb']. destruct r; cbn [snd]; try (eapply keepc_trans; [|apply IH]); csame.
  - destruct (data_recv _ _ _ _ _) as [[ev r] cb']. destruct r; cbn [snd]; try (eapply keepc_trans; [|apply IH]); csame.
  - destruct (data_send _ _ _ _) as [[ev r] cb']. destruct r; cbn [snd]; try (eapply keepc_trans; [|apply IH]); csame.
  - destruct (io_cb (w_io w)) as [answers|]; [|apply IH].
    destruct (poll answers) as [a answers']. eapply keepc_trans; [|apply IH]. csame.
  - destruct (run body w) as [o w1] eqn:R. cbn [snd].
    pose proof (IH w) as X. rewrite R in X. cbn [snd] in X.
    eapply keepc_trans; [exact X|]. eapply keepc_trans; [apply keepc_close_data|csame].
Qed.

Ltac nc :=
  repeat (first
    [ apply nc_ret | apply nc_throw | apply nc_check | apply nc_send | apply nc_raw | apply nc_adv | apply nc_recv; intro
    | apply nc_notify | apply nc_getcfg; intro | apply nc_settype | apply nc_isopen; intro | apply nc_isssl; intro
    | apply nc_dnew | apply nc_dconnect | apply nc_dlisten | apply nc_daccept | apply nc_dhs | apply nc_ddisc
    | apply nc_pumpin; intro | apply nc_pumpinlist; intro | apply nc_pumpout; intro | apply nc_poll; intro | apply nc_scope
    | match goal with
      | |- noctl (if ?b then _ else _) => destruct b
      | |- noctl (match ?x with _ => _ end) => destruct x
      | |- noctl (let _ := _ in _) => cbv zeta
      end ]).

(* every call other than connect, logout and disconnect is such a program *)
Theorem step_keeps_ctl a w :
  match a with AConnect _ _ _ | ALogout | ADisconnect _ => True | _ => keepc w (snd (step w a)) end.
Proof.
  destruct a; try exact I; unfold step; try csame.
  - eapply keepc_trans; [|apply run_noctl]; [csame|]. cbn [prog_of]. unfold op_login, process_login, process_command, process_raw. nc.
  - eapply keepc_trans; [|apply run_noctl]; [csame|]. cbn [prog_of]. unfold op_simple, process_command. nc.
  - eapply keepc_trans; [|apply run_noctl]; [csame|]. cbn [prog_of]. unfold op_set_type, process_command. nc.
  - eapply keepc_trans; [|apply run_noctl]; [csame|]. cbn [prog_of]. unfold op_rename, process_command. nc.
  - eapply keepc_trans; [|apply run_noctl]; [csame|]. cbn [prog_of].
    unfold op_download, create_data_connection, finish_transfer, process_abort, process_command. nc.
  - eapply keepc_trans; [|apply run_noctl]; [csame|]. cbn [prog_of].
    unfold op_upload, create_data_connection, finish_transfer, process_abort, process_command. nc.
  - eapply keepc_trans; [|apply run_noctl]; [csame|]. cbn [prog_of].
    unfold op_list, create_data_connection, process_command. nc.
Qed.

(* ... and, as long as the control connection stays open, its TLS state and its address family *)
Definition keept (w w' : world) : Prop :=
  w_open w' = true ->
  w_open w = true /\ w_ssl w' = w_ssl w /\ w_tls_up w' = w_tls_up w /\ w_sess_id w' = w_sess_id w /\ w_cur6 w' = w_cur6 w /\
  w_tls_clean w' = w_tls_clean w.

Lemma keept_refl w : keept w w.
Proof. intro H. repeat split; auto. Qed.
Lemma keept_trans a b c : keept a b -> keept b c -> keept a c.
Proof.
  intros A B Hc. destruct (B Hc) as (Hb & B1 & B2 & B3 & B4 & B5). destruct (A Hb) as (Ha & A1 & A2 & A3 & A4 & A5).
  split; [exact Ha|]. repeat split; congruence.
Qed.
Lemma keept_same a b : w_open b = w_open a -> w_ssl b = w_ssl a -> w_tls_up b = w_tls_up a -> w_sess_id b = w_sess_id a ->
  w_cur6 b = w_cur6 a -> w_tls_clean b = w_tls_clean a -> keept a b.
Proof. intros H0 H1 H2 H3 H4 H5 Hb. rewrite <- H0. repeat split; auto. Qed.
Ltac tsame := apply keept_same; reflexivity.

Lemma keept_do_send w line w' : do_send w line = Some w' -> keept w w'.
Proof.
  unfold do_send. destruct (negb _); [discriminate|]. destruct (_ && _); [discriminate|].
  destruct (w_peer_closed _); intro H; inversion H; subst; apply keept_same; try reflexivity;
    unfold peer_react; destruct (w_cur _); reflexivity.
Qed.

Lemma keept_close_data w : keept w (close_data w).
Proof.
  unfold close_data. destruct (w_data w) as [d|]; [|apply keept_refl].
  destruct (d_sock d), (d_acc d); tsame.
Qed.

Lemma keept_ctl_disconnect w : keept w (snd (ctl_disconnect w)).
Proof. unfold ctl_disconnect. cbn [snd]. intro H. discriminate H. Qed.

Lemma run_noctl_t p : noctl p -> forall w, keept w (snd (run p w)).
Proof.
  induction 1 as [v| |a k Hk IH|verb arg k Hk IH|line k Hk IH|a k Hk IH|k Hk IH|e k Hk IH|k Hk IH|t k Hk IH|k Hk IH|k Hk IH
                 |k Hk IH|ip port k Hk IH|k Hk IH|k Hk IH|k Hk IH|g k Hk IH|k Hk IH|k Hk IH|k Hk IH|k Hk IH|body Hb IH];
    intro w; cbn [run].
  - apply keept_refl.
  - apply keept_refl.
  - destruct (has_crlf a); [apply keept_refl|apply IH].
  - destruct arg as [a|].
    + destruct (has_crlf a); [apply keept_refl|].
      destruct (do_send w _) as [w'|] eqn:E; cbn [snd]; [eapply keept_trans; [eapply keept_do_send; eauto|apply IH]|tsame].
    + destruct (do_send w _) as [w'|] eqn:E; cbn [snd]; [eapply keept_trans; [eapply keept_do_send; eauto|apply IH]|tsame].
  - destruct (do_send w _) as [w'|] eqn:E; cbn [snd]; [eapply keept_trans; [eapply keept_do_send; eauto|apply IH]|tsame].
  - destruct (match a with AdvEprt => _ | AdvPort => _ end) as [line|]; [|apply keept_refl].
    destruct (do_send w _) as [w'|] eqn:E; cbn [snd]; [eapply keept_trans; [eapply keept_do_send; eauto|apply IH]|tsame].
  - destruct (negb (w_open w)); [apply keept_refl|].
    destruct (w_backlog w) as [|[t [r|]] rest]; [destruct (w_peer_closed w); apply keept_refl| |cbn [snd]; tsame].
    destruct (code r =? 421).
    + pose proof (keept_ctl_disconnect (emit (set_queues w rest (w_pending w)) [ERecv t r])) as K.
      destruct (ctl_disconnect _) as [ok w2]. cbn [snd] in K.
      assert (K0 : keept w w2) by (eapply keept_trans; [|exact K]; tsame).
      destruct ok; cbn [snd]; [|exact K0].
      eapply keept_trans; [exact K0|]. eapply keept_trans; [|apply IH]. tsame.
    + eapply keept_trans; [|apply IH]. tsame.
  - eapply keept_trans; [|apply IH]. tsame.
  - apply IH.
  - eapply keept_trans; [|apply IH]. tsame.
  - apply IH.
  - apply IH.
  - eapply keept_trans; [|apply IH]. tsame.
  - destruct (dp_reachable _); cbn [snd]; [eapply keept_trans; [|apply IH]|]; tsame.
  - eapply keept_trans; [|apply IH]. tsame.
  - destruct (dp_reachable _); cbn [snd]; [eapply keept_trans; [|apply IH]; tsame|apply keept_refl].
  - destruct (dp_tls_ok _); cbn [snd]; [eapply keept_trans; [|apply IH]|]; tsame.
  - destruct (w_data w) as [d|]; [|apply IH].
    destruct (_ && _); cbn [snd]; [tsame|].
    eapply keept_trans; [|apply IH]. eapply keept_trans; [|apply keept_close_data]. tsame.
  - destruct (data_recv _ _ _ _ _) as [[ev r] cb']. destruct r; cbn [snd]; try (eapply keept_trans; [|apply IH]); tsame.
  - destruct (data_recv _ _ _ _ _) as [[ev r] cb']. destruct r; cbn [snd]; try (eapply keept_trans; [|apply IH]); tsame.
  - destruct (data_send _ _ _ _) as [[ev r] cb']. destruct r; cbn [snd]; try (eapply keept_trans; [|apply IH]); tsame.
  - destruct (io_cb (w_io w)) as [answers|]; [|apply IH].
    destruct (poll answers) as [a answers']. eapply keept_trans; [|apply IH]. tsame.
  - destruct (run body w) as [o w1] eqn:R. cbn [snd].
    pose proof (IH w) as X. rewrite R in X. cbn [snd] in X.
    eapply keept_trans; [exact X|]. eapply keept_trans; [apply keept_close_data|tsame].
Qed.


Theorem step_keeps_tls_state a w :
  match a with AConnect _ _ _ | ALogout | ADisconnect _ => True | _ => keept w (snd (step w a)) end.
Proof.
  destruct a; try exact I; unfold step; try tsame.
  - eapply keept_trans; [|apply run_noctl_t]; [tsame|]. cbn [prog_of]. unfold op_login, process_login, process_command, process_raw. nc.
  - eapply keept_trans; [|apply run_noctl_t]; [tsame|]. cbn [prog_of]. unfold op_simple, process_command. nc.
  - eapply keept_trans; [|apply run_noctl_t]; [tsame|]. cbn [prog_of]. unfold op_set_type, process_command. nc.
  - eapply keept_trans; [|apply run_noctl_t]; [tsame|]. cbn [prog_of]. unfold op_rename, process_command. nc.
  - eapply keept_trans; [|apply run_noctl_t]; [tsame|]. cbn [prog_of].
    unfold op_download, create_data_connection, finish_transfer, process_abort, process_command. nc.
  - eapply keept_trans; [|apply run_noctl_t]; [tsame|]. cbn [prog_of].
    unfold op_upload, create_data_connection, finish_transfer, process_abort, process_command. nc.
  - eapply keept_trans; [|apply run_noctl_t]; [tsame|]. cbn [prog_of].
    unfold op_list, create_data_connection, process_command. nc.
Qed.
