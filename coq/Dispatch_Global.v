(* Dispatch_Global.v - C06, the choice of the method, over EVERY call, every state and every behaviour of the server: the
   data-connection command a call writes is the one the configuration prescribes - EPSV for passive + RFC 2428, PASV for
   passive without, EPRT for active + RFC 2428, PORT for active without; never another one, whatever the address family
   of the control connection, the replies of the server or the history of the session. *)
From LibFtp Require Import Bytes Decimal Reply Endpoint DataConn Client Client_Proofs Modes_Proofs.
Local Open Scope N_scope.

Definition is_eprt (l : bytes) : Prop := firstn 5 l = EPRT_ ++ [SP].
Definition is_port (l : bytes) : Prop := firstn 5 l = PORT_ ++ [SP].

(* a command line that is allowed under the configuration (m, r) *)
Definition okline (m : tmode) (r : bool) (l : bytes) : Prop :=
  (l = EPSV_ -> m = Passive /\ r = true) /\ (l = PASV_ -> m = Passive /\ r = false) /\
  (is_eprt l -> m = Active /\ r = true) /\ (is_port l -> m = Active /\ r = false).

(* a line that is none of the four, whatever the configuration *)
Definition plain_line (l : bytes) : Prop := l <> EPSV_ /\ l <> PASV_ /\ ~ is_eprt l /\ ~ is_port l.

Lemma plain_ok m r l : plain_line l -> okline m r l.
Proof. intros (A & B & C & D). unfold okline. split; [|split; [|split]]; intro X; contradiction. Qed.

Definition okev (m : tmode) (r : bool) (e : event) : Prop :=
  match e with EWire _ _ l | EWireLost l => okline m r l | _ => True end.

Definition E (m : tmode) (r : bool) (w w' : world) : Prop :=
  exists tr, w_trace w' = w_trace w ++ tr /\ Forall (okev m r) tr /\ keepm w w'.

Lemma E_refl m r w : E m r w w.
Proof. exists []. rewrite app_nil_r. repeat split. constructor. Qed.

Lemma E_trans m r a b c : E m r a b -> E m r b c -> E m r a c.
Proof.
  intros (t1 & E1 & F1 & K1) (t2 & E2 & F2 & K2). exists (t1 ++ t2). rewrite E2, E1, app_assoc. split; [reflexivity|].
  split; [apply Forall_app; split; assumption|eapply keepm_trans; eassumption].
Qed.

Definition quiet (e : event) : Prop := match e with EWire _ _ _ | EWireLost _ => False | _ => True end.

Lemma quiet_ok m r es : Forall quiet es -> Forall (okev m r) es.
Proof. induction 1 as [|e es Q _ IH]; constructor; [|exact IH]. destruct e; try exact I; destruct Q. Qed.

Lemma E_quiet m r w w' es : w_trace w' = w_trace w ++ es -> Forall quiet es -> w_cfg w' = w_cfg w -> E m r w w'.
Proof. intros X Q C. exists es. split; [exact X|]. split; [apply quiet_ok; exact Q|apply keepm_same; exact C]. Qed.

Lemma q_obs obs e : Forall quiet (map (fun o => EObs o e) obs).
Proof. induction obs as [|o obs IH]; cbn; constructor; [exact I|exact IH]. Qed.
Lemma q_io ev : Forall quiet (map EIo ev).
Proof. induction ev as [|e ev IH]; cbn; constructor; [exact I|exact IH]. Qed.

Lemma E_notify m r w e : E m r w (notify w e).
Proof. apply (E_quiet _ _ _ _ (map (fun o => EObs o e) (w_obs w))); [reflexivity|apply q_obs|reflexivity]. Qed.

Ltac qall := repeat (first [apply Forall_nil | apply Forall_cons; [exact I|]]).
Ltac eq_ := first
  [ apply (E_quiet _ _ _ _ []); [cbn [w_trace emit set_trace set_queues set_io set_data set_cfg set_ctl set_obs release_pending notify];
                                rewrite ?app_nil_r; reflexivity|constructor|reflexivity]
  | (eapply E_quiet; [cbn [w_trace emit set_trace set_queues set_io set_data set_cfg set_ctl set_obs release_pending notify];
                      rewrite <- ?app_assoc; reflexivity|qall|reflexivity]) ].

Lemma peer_react_cfg w : w_cfg (peer_react w) = w_cfg w.
Proof. unfold peer_react. destruct (w_cur w); reflexivity. Qed.

Lemma E_do_send m r w line w' : okline m r line -> do_send w line = Some w' -> E m r w w'.
Proof.
  intro OK. unfold do_send. destruct (negb _); [discriminate|]. destruct (_ && negb _); [discriminate|].
  set (w1 := notify w (ORequest line)).
  assert (G1 : E m r w w1) by apply E_notify.
  destruct (w_peer_closed w1); intro H; inversion H; subst; clear H.
  - eapply E_trans; [exact G1|]. exists [EWireLost line]. split; [reflexivity|]. split; [constructor; [exact OK|constructor]|apply keepm_same; reflexivity].
  - eapply E_trans; [exact G1|].
    match goal with |- E _ _ w1 (peer_react ?W) => apply (E_trans _ _ _ W) end.
    + eexists. split; [cbn [w_trace emit set_trace]; reflexivity|]. split; [constructor; [exact OK|constructor]|apply keepm_same; reflexivity].
    + apply (E_quiet _ _ _ _ []); [rewrite app_nil_r; apply peer_react_trace|constructor|apply peer_react_cfg].
Qed.

Lemma E_close_data m r w : E m r w (close_data w).
Proof.
  unfold close_data. destruct (w_data w) as [d|]; [|apply E_refl].
  destruct (d_sock d), (d_acc d); cbv zeta.
  - apply (E_quiet _ _ _ _ [EData DClose; EData DAccClose]); [cbn [w_trace set_data emit set_trace release_pending set_queues]; rewrite <- app_assoc; reflexivity|qall|reflexivity].
  - apply (E_quiet _ _ _ _ [EData DClose]); [reflexivity|qall|reflexivity].
  - apply (E_quiet _ _ _ _ [EData DAccClose]); [reflexivity|qall|reflexivity].
  - apply (E_quiet _ _ _ _ []); [rewrite app_nil_r; reflexivity|constructor|reflexivity].
Qed.

Lemma E_ctl_disconnect m r w : E m r w (snd (ctl_disconnect w)).
Proof.
  unfold ctl_disconnect. cbn [snd].
  eapply E_quiet; [cbn [w_trace set_queues set_ctl emit set_trace]; reflexivity| |reflexivity].
  destruct (w_ssl w); cbn [app]; qall.
Qed.

Definition line_of (verb : bytes) (arg : option bytes) : bytes :=
  match arg with Some a => verb ++ SP :: a | None => verb end.

(* the advertised endpoint commands *)
Lemma adv_ok (b6 : bool) (a : adv) line m r :
  match a with
  | AdvEprt => Some (make_eprt_command (if b6 then V6 [58; 58; 49] else V4 127 0 0 1) canon_port)
  | AdvPort => make_port_command (if b6 then V6 [58; 58; 49] else V4 127 0 0 1) canon_port
  end = Some line ->
  m = Active -> r = (match a with AdvEprt => true | AdvPort => false end) -> okline m r line.
Proof.
  intros H -> ->. destruct b6, a; inversion H; subst; unfold okline, is_eprt, is_port;
    (split; [|split; [|split]]); intro X; try (split; reflexivity); vm_compute in X; discriminate X.
Qed.

(* ------------------------------------------------------------------ programs *)
Fixpoint gs (m : tmode) (r : bool) (p : prog) : Prop :=
  match p with
  | Ret _ | Throw => True
  | Send verb arg k => okline m r (line_of verb arg) /\ gs m r k
  | SendRaw line k => okline m r line /\ gs m r k
  | SendAdv a k => (m = Active /\ r = (match a with AdvEprt => true | AdvPort => false end)) /\ gs m r k
  | GetCfg k => forall c, c_mode c = m -> c_rfc2428 c = r -> gs m r (k c)
  | Recv k => forall x, gs m r (k x)
  | IsOpen k | IsSsl k | Poll k => forall b, gs m r (k b)
  | PumpIn k | PumpOut k => forall x, gs m r (k x)
  | PumpInList k => forall t, gs m r (k t)
  | CheckArg _ k | Notify _ k | SetTypeCfg _ k | CtlConnect _ _ k | CtlSetSsl _ k
  | CtlHandshake k | CtlTlsShutdown k | CtlDisconnect k | DNew k | DConnect _ _ k | DListenP k | DAccept k | DHandshakeP k
  | DDisconnect _ k | Scope k => gs m r k
  end.

Definition cfg_is (m : tmode) (r : bool) (w : world) : Prop := c_mode (w_cfg w) = m /\ c_rfc2428 (w_cfg w) = r.

Lemma cfg_keep m r w w' : keepm w w' -> cfg_is m r w -> cfg_is m r w'.
Proof. intros (A & B) (C & D). split; congruence. Qed.

Definition Ex (m : tmode) (r : bool) (w w' : world) : Prop := exists tr, w_trace w' = w_trace w ++ tr /\ Forall (okev m r) tr.

Lemma E_then m r a b c : E m r a b -> (cfg_is m r a -> cfg_is m r b -> Ex m r b c) -> cfg_is m r a -> Ex m r a c.
Proof.
  intros (t1 & E1 & F1 & K1) H Ca. destruct (H Ca (cfg_keep _ _ _ _ K1 Ca)) as (t2 & E2 & F2).
  exists (t1 ++ t2). rewrite E2, E1, app_assoc. split; [reflexivity|]. apply Forall_app. split; assumption.
Qed.

Lemma E_weaken m r a b : E m r a b -> Ex m r a b.
Proof. intros (t & X & F & _). exists t. split; assumption. Qed.

Lemma Ex_refl m r w : Ex m r w w.
Proof. exists []. rewrite app_nil_r. split; [reflexivity|constructor]. Qed.

Ltac ih IH N := intros _ Cb; apply IH; [first [exact N | apply N]|exact Cb].

Lemma run_gs : forall p m r w, gs m r p -> cfg_is m r w -> Ex m r w (snd (run p w)).
Proof.
  induction p as [v| |a k IH|verb arg k IH|line k IH|a k IH|k IH|e k IH|k IH|t k IH|k IH|k IH|h pt k IH|on k IH|k IH|k IH|k IH
                 |k IH|ip port k IH|k IH|k IH|k IH|g k IH|k IH|k IH|k IH|k IH|body IH]; intros m r w N T; cbn [run]; cbn [gs] in N.
  - apply Ex_refl.
  - apply Ex_refl.
  - destruct (has_crlf a); [apply Ex_refl|apply IH; assumption].
  - destruct N as (NA & N). destruct arg as [a|]; cbn [line_of] in NA.
    + destruct (has_crlf a); [apply Ex_refl|].
      destruct (do_send w _) as [w'|] eqn:X; cbn [snd];
        [eapply E_then; [eapply E_do_send; [exact NA|exact X]|ih IH N|exact T]|eapply E_weaken; apply E_notify].
    + destruct (do_send w _) as [w'|] eqn:X; cbn [snd];
        [eapply E_then; [eapply E_do_send; [exact NA|exact X]|ih IH N|exact T]|eapply E_weaken; apply E_notify].
  - destruct N as (NA & N).
    destruct (do_send w _) as [w'|] eqn:X; cbn [snd];
      [eapply E_then; [eapply E_do_send; [exact NA|exact X]|ih IH N|exact T]|eapply E_weaken; apply E_notify].
  - destruct N as ((Nm & Nr) & N).
    destruct (match a with AdvEprt => Some (make_eprt_command _ _) | AdvPort => _ end) as [line|] eqn:A; [|apply Ex_refl].
    destruct (do_send w _) as [w'|] eqn:X; cbn [snd];
      [eapply E_then; [eapply E_do_send; [exact (adv_ok (w_cur6 w) a line m r A Nm Nr)|exact X]|ih IH N|exact T]
      |eapply E_weaken; apply E_notify].
  - (* Recv *)
    destruct (negb (w_open w)); [apply Ex_refl|].
    destruct (w_backlog w) as [|[t [x|]] rest].
    + destruct (w_peer_closed w); apply Ex_refl.
    + set (w1 := emit (set_queues w rest (w_pending w)) [ERecv t x]).
      assert (G1 : E m r w w1) by (unfold w1; eq_).
      destruct (code x =? 421).
      * destruct (ctl_disconnect w1) as [ok w2] eqn:D.
        pose proof (E_ctl_disconnect m r w1) as G2. rewrite D in G2. cbn [snd] in G2.
        destruct ok; cbn [snd].
        -- eapply E_then; [eapply E_trans; [exact G1|]; eapply E_trans; [exact G2|apply E_notify]| |exact T].
           intros _ Cb. apply IH; [apply N|exact Cb].
        -- eapply E_weaken. eapply E_trans; [exact G1|exact G2].
      * eapply E_then; [eapply E_trans; [exact G1|apply E_notify]| |exact T]. intros _ Cb. apply IH; [apply N|exact Cb].
    + cbn [snd]. eapply E_weaken. eq_.
  - eapply E_then; [apply E_notify|ih IH N|exact T].
  - destruct T as (Tm & Tr). apply IH; [apply N; assumption|split; assumption].
  - (* SetTypeCfg *)
    eapply E_then; [|ih IH N|exact T].
    exists [ESetType t]. split; [reflexivity|]. split; [qall|split; reflexivity].
  - apply IH; [apply N|exact T].
  - apply IH; [apply N|exact T].
  - (* CtlConnect *)
    match goal with |- context [match w_script ?w0 with _ => _ end] => set (W0 := w0) end.
    assert (X0 : E m r w W0) by (unfold W0; destruct (w_open w); eq_).
    destruct (w_script W0) as [|s rest]; cbn [snd].
    + eapply E_weaken. eapply E_trans; [exact X0|eq_].
    + destruct (negb (s_reachable s)); cbn [snd].
      * eapply E_weaken. eapply E_trans; [exact X0|].
        eapply E_quiet; [cbn [w_trace emit set_trace]; reflexivity|qall|reflexivity].
      * eapply E_then; [eapply E_trans; [exact X0|]|ih IH N|exact T].
        eapply E_quiet; [cbn [w_trace emit set_trace]; reflexivity|qall|reflexivity].
  - eapply E_then; [|ih IH N|exact T]. eq_.
  - destruct (w_last_tls_ok w && negb (w_peer_closed w)); cbn [snd]; [eapply E_then; [|ih IH N|exact T]|eapply E_weaken]; eq_.
  - destruct (w_tls_up w && w_tls_clean w && negb (w_peer_closed w)); cbn [snd]; [eapply E_then; [|ih IH N|exact T]|eapply E_weaken]; eq_.
  - destruct (ctl_disconnect w) as [ok w1] eqn:D.
    pose proof (E_ctl_disconnect m r w) as G2. rewrite D in G2. cbn [snd] in G2.
    destruct ok; cbn [snd]; [eapply E_then; [exact G2|ih IH N|exact T]|eapply E_weaken; exact G2].
  - eapply E_then; [|ih IH N|exact T]. eq_.
  - destruct (dp_reachable (w_plan w)); cbn [snd]; [eapply E_then; [|ih IH N|exact T]|eapply E_weaken]; eq_.
  - eapply E_then; [|ih IH N|exact T]. eq_.
  - destruct (dp_reachable (w_plan w)); cbn [snd]; [eapply E_then; [|ih IH N|exact T]; eq_|apply Ex_refl].
  - destruct (dp_tls_ok (w_plan w)); cbn [snd]; [eapply E_then; [|ih IH N|exact T]|eapply E_weaken]; eq_.
  - destruct (w_data w) as [d|]; [|apply IH; assumption].
    destruct (d_ssl d && negb (dp_shutdown_ok (w_plan w))); cbn [snd]; [eapply E_weaken; eq_|].
    eapply E_then; [|ih IH N|exact T]. eapply E_trans; [|apply E_close_data].
    destruct (d_ssl d), g; cbn [app]; eq_.
  - destruct (data_recv _ _ _ _ _) as [[ev x] cb'].
    match goal with |- context [set_io ?A ?B] => set (W1 := set_io A B) end.
    assert (G1 : E m r w W1) by (unfold W1; apply (E_quiet _ _ _ _ (map EIo ev)); [reflexivity|apply q_io|reflexivity]).
    destruct x; cbn [snd]; try (eapply E_weaken; exact G1); (eapply E_then; [exact G1| |exact T]; intros _ Cb; apply IH; [apply N|exact Cb]).
  - destruct (data_recv _ _ _ _ _) as [[ev x] cb'].
    match goal with |- context [emit w ?Z] => set (W1 := emit w Z) end.
    assert (G1 : E m r w W1) by (unfold W1; apply (E_quiet _ _ _ _ (map EIo ev)); [reflexivity|apply q_io|reflexivity]).
    destruct x; cbn [snd]; try (eapply E_weaken; exact G1); (eapply E_then; [exact G1| |exact T]; intros _ Cb; apply IH; [apply N|exact Cb]).
  - destruct (data_send _ _ _ _) as [[ev x] cb'].
    match goal with |- context [set_io ?A ?B] => set (W1 := set_io A B) end.
    assert (G1 : E m r w W1) by (unfold W1; apply (E_quiet _ _ _ _ (map EIo ev)); [reflexivity|apply q_io|reflexivity]).
    destruct x; cbn [snd]; try (eapply E_weaken; exact G1); (eapply E_then; [exact G1| |exact T]; intros _ Cb; apply IH; [apply N|exact Cb]).
  - destruct (io_cb (w_io w)) as [answers|]; [|apply IH; [apply N|exact T]].
    destruct (poll answers) as [a answers'].
    eapply E_then; [|intros _ Cb; apply IH; [apply N|exact Cb]|exact T]. eq_.
  - (* Scope *)
    destruct (run body w) as [o w1] eqn:Rn. cbn [snd].
    pose proof (IH m r w N T) as (tr & X & F). rewrite Rn in X. cbn [snd] in X.
    destruct (E_close_data m r w1) as (t2 & X2 & F2 & _).
    exists (tr ++ t2). split.
    + cbn [w_trace set_data]. rewrite X2, X, app_assoc. reflexivity.
    + apply Forall_app. split; assumption.
Qed.

(* ------------------------------------------------------------------ the operations *)
Ltac okl := unfold okline, is_eprt, is_port, line_of; (split; [|split; [|split]]);
  (let X := fresh "X" in intro X; first [ (split; reflexivity) | (exfalso; vm_compute in X; discriminate X) ]).

Ltac gst := repeat (cbn [gs]; first
  [ exact I | okl | intro | split
  | match goal with
    | |- gs _ _ (if ?b then _ else _) => destruct b eqn:?
    | |- gs _ _ (match ?x with _ => _ end) => destruct x eqn:?
    | |- gs _ _ (let _ := _ in _) => cbv zeta
    end ]).

Lemma gs_process_login m r u pw acc k : (forall a, gs m r (k a)) -> gs m r (process_login u pw acc k).
Proof.
  intro K. unfold process_login, process_command, process_raw. cbn [gs]. intros c _ _.
  split; [okl|]. intro r1. cbv zeta.
  assert (TA : forall acc3, gs m r (process_command TYPE_ (Some (type_arg (c_type c))) (fun r5 => k (acc3 ++ [r5])))).
  { intro acc3. unfold process_command. cbn [gs]. split; [destruct (c_type c); okl|]. intro; apply K. }
  assert (AP : forall x acc2, gs m r (if is_negative x then k acc2 else
      if c_tls c then process_raw PBSZ_0 (fun r3 => if is_negative r3 then k (acc2 ++ [r3]) else
                      process_raw PROT_P (fun r4 => if is_negative r4 then k (acc2 ++ [r3; r4]) else
                        process_command TYPE_ (Some (type_arg (c_type c))) (fun r5 => k ((acc2 ++ [r3; r4]) ++ [r5]))))
      else process_command TYPE_ (Some (type_arg (c_type c))) (fun r5 => k (acc2 ++ [r5])))).
  { intros x acc2. destruct (is_negative x); [apply K|]. destruct (c_tls c); [|apply TA].
    unfold process_raw. cbn [gs]. split; [okl|]. intro r3. destruct (is_negative r3); [apply K|].
    cbn [gs]. split; [okl|]. intro r4. destruct (is_negative r4); [apply K|]. apply TA. }
  destruct (code r1 =? 331).
  - cbn [gs]. split; [okl|]. intro r2. apply AP.
  - apply AP.
Qed.

Lemma gs_cdc m r verb arg acc k_ok k_none : (forall m0 r0, okline m0 r0 (line_of verb arg)) ->
  (forall a, gs m r (k_ok a)) -> (forall a, gs m r (k_none a)) -> gs m r (create_data_connection verb arg acc k_ok k_none).
Proof.
  intros V K1 K2. unfold create_data_connection, process_command. cbn [gs]. intros c Cm Cr. cbv zeta.
  assert (MN : forall (acc1 : list reply) (passive : bool), gs m r (Send verb arg (Recv (fun r2 =>
     if is_negative r2 then (if passive then DDisconnect true (k_none (acc1 ++ [r2])) else k_none (acc1 ++ [r2]))
     else if passive then (if c_tls c then DHandshakeP (k_ok (acc1 ++ [r2])) else k_ok (acc1 ++ [r2]))
          else DAccept (if c_tls c then DHandshakeP (k_ok (acc1 ++ [r2])) else k_ok (acc1 ++ [r2])))))).
  { intros acc1 passive. cbn [gs]. split; [apply V|]. intro r2.
    destruct (is_negative r2), passive, (c_tls c); cbn [gs]; first [apply K1 | apply K2]. }
  destruct (c_mode c) eqn:M, (c_rfc2428 c) eqn:R2; subst m r; cbn [gs].
  - split; [okl|]. intro x. destruct (is_negative x); [apply K2|].
    destruct (try_parse_epsv_reply (text x)); [|exact I]. exact (MN (acc ++ [x]) true).
  - split; [okl|]. intro x. destruct (is_negative x); [apply K2|].
    destruct (try_parse_pasv_reply (text x)) as [[ip port]|]; [|exact I]. exact (MN (acc ++ [x]) true).
  - intro b. destruct (negb b); cbn [gs]; [exact I|]. split; [split; reflexivity|]. intro x.
    destruct (is_negative x); [apply K2|exact (MN (acc ++ [x]) false)].
  - intro b. destruct (negb b); cbn [gs]; [exact I|]. split; [split; reflexivity|]. intro x.
    destruct (is_negative x); [apply K2|exact (MN (acc ++ [x]) false)].
Qed.

Lemma gs_finish m r acc : gs m r (finish_transfer acc).
Proof. unfold finish_transfer, process_abort, process_command. gst. Qed.

Lemma gs_connect m r h p l : gs m r (op_connect h p l).
Proof.
  unfold op_connect, process_raw. cbv zeta.
  assert (LP : forall acc, gs m r (match l with
                | None => Ret (RvReplies acc)
                | Some (u, pw) => process_login u pw acc (fun acc' => Ret (RvReplies acc')) end)).
  { intro acc. destruct l as [[u pw]|]; [apply gs_process_login; intros; exact I|exact I]. }
  destruct l as [[u pw]|]; gst; try apply LP; try (apply gs_process_login; intros; exact I).
Qed.

(* raw commands: the caller's own verb must not be one of the four *)
Definition not_raw_setup (a : api) : Prop :=
  match a with ASimple v arg => plain_line (line_of v arg) | _ => True end.

(* every call, every state, every server: the data-connection command on the wire is the one the configuration at the
   time of the call prescribes *)
Theorem step_method_by_configuration a w : not_raw_setup a ->
  exists tr, w_trace (snd (step w a)) = w_trace w ++ tr /\
    Forall (okev (c_mode (w_cfg w)) (c_rfc2428 (w_cfg w))) tr.
Proof.
  intro NR. set (m := c_mode (w_cfg w)). set (r := c_rfc2428 (w_cfg w)).
  assert (ST : forall p i, gs m r p -> exists tr, w_trace (snd (run p (set_io w i))) = w_trace w ++ tr /\ Forall (okev m r) tr).
  { intros p i N. assert (T : cfg_is m r (set_io w i)) by (split; reflexivity).
    destruct (run_gs p m r (set_io w i) N T) as (tr & X & F). exists tr. split; [exact X|exact F]. }
  destruct a as [h p l|u pw| |v arg|t|x y|path cb f|uv path ch cb|path names|g|o|o|md|b]; unfold step; cbn [prog_of];
    try (exists []; rewrite app_nil_r; split; [reflexivity|constructor]).
  - apply ST. apply gs_connect.
  - apply ST. unfold op_login. apply gs_process_login. intros; exact I.
  - apply ST. unfold op_logout, process_command. gst.
  - apply ST. unfold op_simple, process_command. cbn [gs]. split; [apply plain_ok; exact NR|intro; exact I].
  - apply ST. unfold op_set_type, process_command. cbn [gs]. split; [destruct t; okl|]. intro x. destruct (is_positive x); exact I.
  - apply ST. unfold op_rename, process_command. gst.
  - apply ST. unfold op_download. cbn [gs]. apply gs_cdc; [intros; okl| |intros; exact I].
    intro a. cbn [gs]. intro x. apply gs_finish.
  - apply ST. unfold op_upload. cbn [gs]. apply gs_cdc; [intros; destruct uv; okl| |intros; exact I].
    intro a. cbn [gs]. intro x. apply gs_finish.
  - apply ST. unfold op_list. cbn [gs]. apply gs_cdc; [intros; destruct names, path; okl| |intros; exact I].
    intro a. gst.
  - apply ST. unfold op_disconnect, process_command. destruct g; gst.
Qed.

(* non-vacuity: the same refused listing under the four configurations writes EPSV, PASV, EPRT, PORT *)
Definition dispatch_script : list session :=
  let say c := mkR [RReply (mkReply c [])] [] false false true no_plan in
  [mkSess true false true (say 220) [say 500]].

Definition first_setup (m : tmode) (r : bool) : list bytes :=
  let w := snd (steps (init_world (mkConfig m r TBinary false false) dispatch_script) [AConnect [104] 21 None; AList None false]) in
  map (fun e => match e with EWire _ _ l => firstn 4 l | _ => [] end)
      (filter (fun e => match e with EWire _ _ _ => true | _ => false end) (w_trace w)).

Example dispatch_example :
  first_setup Passive true = [EPSV_] /\ first_setup Passive false = [PASV_] /\
  first_setup Active true = [EPRT_] /\ first_setup Active false = [PORT_].
Proof. vm_compute. repeat split. Qed.
