(* History2_Proofs.v - the lockstep theorem of History_Proofs.v for EVERY configuration: passive and active modes, RFC 2428
   on and off, plain and TLS sessions. *)
From LibFtp Require Import Bytes Decimal Reply Endpoint Ascii DataConn DataConn_Proofs Client Client_Proofs Login_Proofs Transfer_Proofs Transfer_More Transfer_Cb Refusals Modes_Proofs Ctl_Proofs History_Proofs.
Local Open Scope N_scope.

(* what is fixed along a history: transfer mode, RFC 2428 flag, TLS configured or not, the command that advertises the
   listening endpoint in the active modes (None: PORT on an IPv6 control connection - no transfer is possible) *)
Record kit := mkKit { k_mode : tmode; k_rfc : bool; k_tls : bool; k_adv : option bytes }.
Definition kit_of (w : world) : kit :=
  mkKit (c_mode (w_cfg w)) (c_rfc2428 (w_cfg w)) (c_tls (w_cfg w)) (adv_cmd w).

Definition InvK (w : world) (rs : list reaction) : Prop := insync w rs /\ w_data w = None.

Definition ptarget (rfc : bool) (x1 : reply) (ip : option bytes) (port : N) : Prop :=
  if rfc then try_parse_epsv_reply (text x1) = Some port /\ ip = None
  else exists a, try_parse_pasv_reply (text x1) = Some (a, port) /\ ip = Some a.

(* data-connection conditions of an accepted transfer, by TLS *)
Definition data_ok (tls : bool) (r2 : reaction) : Prop :=
  if tls then dp_tls_ok (r_data r2) = true /\ dp_shutdown_ok (r_data r2) = true else True.

Inductive servesK (k : kit) (t : ttype) : api -> list reaction -> list reply -> Prop :=
| sk_simple verb arg r x :
    arg_ok arg -> simple_reaction r x -> servesK k t (ASimple verb arg) [r] [x]
| sk_type t0 r x :
    simple_reaction r x -> servesK k t (ASetType t0) [r] [x]
| sk_login u pw rs xs ex :
    has_crlf u = false -> has_crlf pw = false -> simple_all rs xs ->
    login_opt (k_tls k) t u pw xs = Some ex -> length ex = length xs ->
    servesK k t (ALogin u pw) rs (map snd ex)
| sk_rename_refused a b r1 x1 :
    has_crlf a = false -> has_crlf b = false -> simple_reaction r1 x1 -> code x1 <> 350 ->
    servesK k t (ARename a b) [r1] [x1]
| sk_rename a b r1 r2 x1 x2 :
    has_crlf a = false -> has_crlf b = false -> simple_reaction r1 x1 -> code x1 = 350 -> simple_reaction r2 x2 ->
    servesK k t (ARename a b) [r1; r2] [x1; x2]
(* accepted transfers, passive *)
| sk_download_p path r1 r2 x1 x2 x3 ip port :
    k_mode k = Passive -> has_crlf path = false -> simple_reaction r1 x1 -> is_negative x1 = false -> ptarget (k_rfc k) x1 ip port ->
    dp_reachable (r_data r1) = true -> accepts_transfer r2 x2 x3 -> dp_end (r_data r2) = DEof -> data_ok (k_tls k) r2 ->
    servesK k t (ADownload path None None) [r1; r2] [x1; x2; x3]
| sk_upload_p u path chunks r1 r2 x1 x2 x3 ip port :
    k_mode k = Passive -> has_crlf path = false -> simple_reaction r1 x1 -> is_negative x1 = false -> ptarget (k_rfc k) x1 ip port ->
    dp_reachable (r_data r1) = true -> accepts_transfer r2 x2 x3 -> data_ok (k_tls k) r2 ->
    servesK k t (AUpload u path chunks None) [r1; r2] [x1; x2; x3]
| sk_list_p path names r1 r2 x1 x2 x3 ip port :
    k_mode k = Passive -> arg_ok path -> simple_reaction r1 x1 -> is_negative x1 = false -> ptarget (k_rfc k) x1 ip port ->
    dp_reachable (r_data r1) = true -> accepts_transfer r2 x2 x3 -> dp_end (r_data r2) = DEof -> data_ok (k_tls k) r2 ->
    servesK k t (AList path names) [r1; r2] [x1; x2; x3]
(* accepted transfers, active *)
| sk_download_a path r1 r2 x1 x2 x3 line :
    k_mode k = Active -> k_adv k = Some line -> has_crlf path = false -> simple_reaction r1 x1 -> is_negative x1 = false ->
    accepts_transfer r2 x2 x3 -> dp_reachable (r_data r2) = true -> dp_end (r_data r2) = DEof -> data_ok (k_tls k) r2 ->
    servesK k t (ADownload path None None) [r1; r2] [x1; x2; x3]
| sk_upload_a u path chunks r1 r2 x1 x2 x3 line :
    k_mode k = Active -> k_adv k = Some line -> has_crlf path = false -> simple_reaction r1 x1 -> is_negative x1 = false ->
    accepts_transfer r2 x2 x3 -> dp_reachable (r_data r2) = true -> data_ok (k_tls k) r2 ->
    servesK k t (AUpload u path chunks None) [r1; r2] [x1; x2; x3]
| sk_list_a path names r1 r2 x1 x2 x3 line :
    k_mode k = Active -> k_adv k = Some line -> arg_ok path -> simple_reaction r1 x1 -> is_negative x1 = false ->
    accepts_transfer r2 x2 x3 -> dp_reachable (r_data r2) = true -> dp_end (r_data r2) = DEof -> data_ok (k_tls k) r2 ->
    servesK k t (AList path names) [r1; r2] [x1; x2; x3]
(* transfers with a callback, passive modes without TLS: completed, and cancelled while in progress (ABOR answered by
   426 and then the reply to ABOR, the order RFC 959 prescribes) *)
| sk_download_cb_p path answers answers' answers'' ev r1 r2 x1 x2 x3 ip port :
    k_mode k = Passive -> k_tls k = false -> has_crlf path = false -> simple_reaction r1 x1 -> is_negative x1 = false ->
    ptarget (k_rfc k) x1 ip port -> dp_reachable (r_data r1) = true -> accepts_transfer r2 x2 x3 ->
    data_recv t (mkSink None O) (dp_segs (r_data r2)) (dp_end (r_data r2)) (Some answers) = (ev, PDone, Some answers') ->
    poll answers' = (false, answers'') ->
    servesK k t (ADownload path (Some answers) None) [r1; r2] [x1; x2; x3]
| sk_upload_cb_p u path chunks answers answers' answers'' ev r1 r2 x1 x2 x3 ip port :
    k_mode k = Passive -> k_tls k = false -> has_crlf path = false -> simple_reaction r1 x1 -> is_negative x1 = false ->
    ptarget (k_rfc k) x1 ip port -> dp_reachable (r_data r1) = true -> accepts_transfer r2 x2 x3 ->
    data_send t block_size chunks (Some answers) = (ev, PDone, Some answers') ->
    poll answers' = (false, answers'') ->
    servesK k t (AUpload u path chunks (Some answers)) [r1; r2] [x1; x2; x3]
| sk_download_cancelled_p path answers answers' answers'' ev pr r1 r2 r3 x1 x2 x4 x5 ip port :
    k_mode k = Passive -> k_tls k = false -> has_crlf path = false -> simple_reaction r1 x1 -> is_negative x1 = false ->
    ptarget (k_rfc k) x1 ip port -> dp_reachable (r_data r1) = true -> simple_reaction r2 x2 -> is_negative x2 = false ->
    data_recv t (mkSink None O) (dp_segs (r_data r2)) (dp_end (r_data r2)) (Some answers) = (ev, pr, Some answers') ->
    pr <> PThrow -> poll answers' = (true, answers'') ->
    r_now r3 = [RReply x4; RReply x5] -> r_on_close r3 = [] -> r_close_after r3 = false -> code x4 = 426 -> code x5 <> 421 ->
    servesK k t (ADownload path (Some answers) None) [r1; r2; r3] [x1; x2; x4; x5]
| sk_upload_cancelled_p u path chunks answers answers' answers'' ev pr r1 r2 r3 x1 x2 x4 x5 ip port :
    k_mode k = Passive -> k_tls k = false -> has_crlf path = false -> simple_reaction r1 x1 -> is_negative x1 = false ->
    ptarget (k_rfc k) x1 ip port -> dp_reachable (r_data r1) = true -> simple_reaction r2 x2 -> is_negative x2 = false ->
    data_send t block_size chunks (Some answers) = (ev, pr, Some answers') ->
    pr <> PThrow -> poll answers' = (true, answers'') ->
    r_now r3 = [RReply x4; RReply x5] -> r_on_close r3 = [] -> r_close_after r3 = false -> code x4 = 426 -> code x5 <> 421 ->
    servesK k t (AUpload u path chunks (Some answers)) [r1; r2; r3] [x1; x2; x4; x5]
(* refusals *)
| sk_download_refused_at_setup_p path cb f r1 x1 :
    k_mode k = Passive -> has_crlf path = false -> simple_reaction r1 x1 -> is_negative x1 = true ->
    servesK k t (ADownload path cb f) [r1] [x1]
| sk_download_refused_at_command_p path cb f r1 r2 x1 x2 ip port :
    k_mode k = Passive -> has_crlf path = false -> simple_reaction r1 x1 -> is_negative x1 = false -> ptarget (k_rfc k) x1 ip port ->
    dp_reachable (r_data r1) = true -> simple_reaction r2 x2 -> is_negative x2 = true ->
    servesK k t (ADownload path cb f) [r1; r2] [x1; x2]
| sk_upload_refused_at_command_p u path chunks cb r1 r2 x1 x2 ip port :
    k_mode k = Passive -> has_crlf path = false -> simple_reaction r1 x1 -> is_negative x1 = false -> ptarget (k_rfc k) x1 ip port ->
    dp_reachable (r_data r1) = true -> simple_reaction r2 x2 -> is_negative x2 = true ->
    servesK k t (AUpload u path chunks cb) [r1; r2] [x1; x2]
| sk_download_refused_at_setup_a path cb f r1 x1 line :
    k_mode k = Active -> k_adv k = Some line -> has_crlf path = false -> simple_reaction r1 x1 -> is_negative x1 = true ->
    servesK k t (ADownload path cb f) [r1] [x1]
| sk_upload_refused_at_setup_a u path chunks cb r1 x1 line :
    k_mode k = Active -> k_adv k = Some line -> has_crlf path = false -> simple_reaction r1 x1 -> is_negative x1 = true ->
    servesK k t (AUpload u path chunks cb) [r1] [x1]
| sk_download_refused_at_command_a path cb f r1 r2 x1 x2 line :
    k_mode k = Active -> k_adv k = Some line -> has_crlf path = false -> simple_reaction r1 x1 -> is_negative x1 = false ->
    simple_reaction r2 x2 -> is_negative x2 = true ->
    servesK k t (ADownload path cb f) [r1; r2] [x1; x2]
| sk_upload_refused_at_command_a u path chunks cb r1 r2 x1 x2 line :
    k_mode k = Active -> k_adv k = Some line -> has_crlf path = false -> simple_reaction r1 x1 -> is_negative x1 = false ->
    simple_reaction r2 x2 -> is_negative x2 = true ->
    servesK k t (AUpload u path chunks cb) [r1; r2] [x1; x2]
| sk_upload_refused_at_setup_p u path chunks cb r1 x1 :
    k_mode k = Passive -> has_crlf path = false -> simple_reaction r1 x1 -> is_negative x1 = true ->
    servesK k t (AUpload u path chunks cb) [r1] [x1]
(* refused listings (LIST / NLST, with or without a path), every method *)
| sk_list_refused_at_setup_p path names r1 x1 :
    k_mode k = Passive -> arg_ok path -> simple_reaction r1 x1 -> is_negative x1 = true ->
    servesK k t (AList path names) [r1] [x1]
| sk_list_refused_at_command_p path names r1 r2 x1 x2 ip port :
    k_mode k = Passive -> arg_ok path -> simple_reaction r1 x1 -> is_negative x1 = false -> ptarget (k_rfc k) x1 ip port ->
    dp_reachable (r_data r1) = true -> simple_reaction r2 x2 -> is_negative x2 = true ->
    servesK k t (AList path names) [r1; r2] [x1; x2]
| sk_list_refused_at_setup_a path names r1 x1 line :
    k_mode k = Active -> k_adv k = Some line -> arg_ok path -> simple_reaction r1 x1 -> is_negative x1 = true ->
    servesK k t (AList path names) [r1] [x1]
| sk_list_refused_at_command_a path names r1 r2 x1 x2 line :
    k_mode k = Active -> k_adv k = Some line -> arg_ok path -> simple_reaction r1 x1 -> is_negative x1 = false ->
    simple_reaction r2 x2 -> is_negative x2 = true ->
    servesK k t (AList path names) [r1; r2] [x1; x2].

Lemma adv_cmd_keeps w w' : w_cfg w' = w_cfg w \/ (c_rfc2428 (w_cfg w') = c_rfc2428 (w_cfg w)) -> w_cur6 w' = w_cur6 w ->
  c_rfc2428 (w_cfg w') = c_rfc2428 (w_cfg w) -> adv_cmd w' = adv_cmd w.
Proof. intros _ H6 Hr. unfold adv_cmd, local_ip. rewrite Hr, H6. reflexivity. Qed.

Lemma invk_after w c rest :
  w_data w = None ->
  match c with AConnect _ _ _ | ALogout | ADisconnect _ | ASetMode _ | ASetRfc2428 _ => False | _ => True end ->
  insync (snd (step w c)) rest ->
  InvK (snd (step w c)) rest /\ kit_of (snd (step w c)) = kit_of w.
Proof.
  intros Hd Hc Hi.
  pose proof (step_releases_data c w Hd) as D.
  pose proof (step_keeps_tls_config c w) as (K1 & _).
  pose proof (step_keeps_modes c w) as M.
  pose proof (step_keeps_tls_state c w) as T.
  assert (Ho : w_open (snd (step w c)) = true) by (destruct Hi as ((Ho & _) & _); exact Ho).
  destruct c; try contradiction; destruct M as (M1 & M2); destruct (T Ho) as (_ & _ & _ & _ & T6 & _);
    (split; [split; [exact Hi|exact D]|]; unfold kit_of; rewrite M1, M2, K1; f_equal; unfold adv_cmd, local_ip; rewrite M2, T6; reflexivity).
Qed.

Theorem servedK_step w c rs rest xs :
  InvK w (rs ++ rest) -> servesK (kit_of w) (c_type (w_cfg w)) c rs xs ->
  outcome_replies (fst (step w c)) = Some xs /\ InvK (snd (step w c)) rest /\
  kit_of (snd (step w c)) = kit_of w /\
  c_type (w_cfg (snd (step w c))) = next_type (c_type (w_cfg w)) c xs.
Proof.
  intros (Hi & Hd) S.
  assert (Fin : forall o w', step w c = (o, w') -> outcome_replies o = Some xs -> insync w' rest ->
                match c with AConnect _ _ _ | ALogout | ADisconnect _ | ASetMode _ | ASetRfc2428 _ => False | _ => True end ->
                c_type (w_cfg w') = next_type (c_type (w_cfg w)) c xs ->
                outcome_replies (fst (step w c)) = Some xs /\ InvK (snd (step w c)) rest /\
                kit_of (snd (step w c)) = kit_of w /\
                c_type (w_cfg (snd (step w c))) = next_type (c_type (w_cfg w)) c xs).
  { intros o w' E Ho Is Hc Hty. pose proof (invk_after w c rest Hd Hc) as IA. rewrite E in *. cbn [fst snd] in *.
    destruct (IA Is) as (I1 & I2). auto. }
  pose proof Hi as (Hr & Hp & Hc).
  inversion S; subst; cbn [app kit_of k_mode k_rfc k_tls k_adv] in *.
  - destruct (simple_call w verb arg r rest x Hr Hp Hc H0 H) as (w' & E & A & B & C & Cf & _).
    apply (Fin _ w' E eq_refl); [exact (conj A (conj B C))|exact I|rewrite Cf; reflexivity].
  - destruct (set_type_call w t0 r rest x Hr Hp Hc H) as (w' & E & A & B & C & Ty & _).
    apply (Fin _ w' E eq_refl); [exact (conj A (conj B C))|exact I|exact Ty].
  - destruct (login_call_exact w u pw rs xs0 rest ex Hi H1 H H0 H2 H3) as (w' & E & Is & Cf & _).
    apply (Fin _ w' E eq_refl Is I). rewrite Cf. reflexivity.
  - destruct (rename_call w a b r1 rest x1 Hr Hp Hc H1 H H0) as (R1 & _).
    destruct (R1 H2) as (w' & E & A & B & C & Cf & _).
    apply (Fin _ w' E eq_refl); [exact (conj A (conj B C))|exact I|rewrite Cf; reflexivity].
  - destruct (rename_call w a b r1 (r2 :: rest) x1 Hr Hp Hc H1 H H0) as (_ & R2).
    destruct (R2 H2 r2 rest x2 eq_refl H3) as (w' & E & A & B & C & Cf & _).
    apply (Fin _ w' E eq_refl); [exact (conj A (conj B C))|exact I|rewrite Cf; reflexivity].
  - (* download, passive *)
    unfold data_ok in H7. destruct (c_tls (w_cfg w)) eqn:Tl.
    + destruct H7 as (Tok & Sok).
      destruct (download_passive_complete_tls w path r1 r2 rest x1 x2 x3 ip port Hi Hd H Tl H0 H1 H2 H3 H4 H5 H6 Tok Sok) as (w' & E & Is & _ & Cf & _).
      apply (Fin _ w' E eq_refl Is I). rewrite Cf. reflexivity.
    + destruct (download_passive_complete w path r1 r2 rest x1 x2 x3 ip port Hi Hd H Tl H0 H1 H2 H3 H4 H5 H6) as (w' & E & Is & _ & Cf & _).
      apply (Fin _ w' E eq_refl Is I). rewrite Cf. reflexivity.
  - (* upload, passive *)
    unfold data_ok in H6. destruct (c_tls (w_cfg w)) eqn:Tl.
    + destruct H6 as (Tok & Sok).
      destruct (upload_passive_complete_tls w u path chunks r1 r2 rest x1 x2 x3 ip port Hi Hd H Tl H0 H1 H2 H3 H4 H5 Tok Sok) as (w' & E & Is & _ & Cf & _).
      apply (Fin _ w' E eq_refl Is I). rewrite Cf. reflexivity.
    + destruct (upload_passive_complete w u path chunks r1 r2 rest x1 x2 x3 ip port Hi Hd H Tl H0 H1 H2 H3 H4 H5) as (w' & E & Is & _ & Cf & _).
      apply (Fin _ w' E eq_refl Is I). rewrite Cf. reflexivity.
  - (* list, passive *)
    unfold data_ok in H7. destruct (c_tls (w_cfg w)) eqn:Tl.
    + destruct H7 as (Tok & Sok).
      destruct (list_passive_complete_tls w path names r1 r2 rest x1 x2 x3 ip port Hi Hd H Tl H0 H1 H2 H3 H4 H5 H6 Tok Sok) as (w' & E & Is & _ & Cf & _).
      apply (Fin _ w' E eq_refl Is I). rewrite Cf. reflexivity.
    + destruct (list_passive_complete w path names r1 r2 rest x1 x2 x3 ip port Hi Hd H Tl H0 H1 H2 H3 H4 H5 H6) as (w' & E & Is & _ & Cf & _).
      apply (Fin _ w' E eq_refl Is I). rewrite Cf. reflexivity.
  - (* download, active *)
    unfold data_ok in H7. destruct (c_tls (w_cfg w)) eqn:Tl.
    + destruct H7 as (Tok & Sok).
      destruct (download_active_complete_tls w path r1 r2 rest x1 x2 x3 line Hi Hd H Tl H1 H0 H2 H3 H4 H5 H6 Tok Sok) as (w' & E & Is & _ & Cf & _).
      apply (Fin _ w' E eq_refl Is I). rewrite Cf. reflexivity.
    + destruct (download_active_complete w path r1 r2 rest x1 x2 x3 line Hi Hd H Tl H1 H0 H2 H3 H4 H5 H6) as (w' & E & Is & _ & Cf & _).
      apply (Fin _ w' E eq_refl Is I). rewrite Cf. reflexivity.
  - (* upload, active *)
    unfold data_ok in H6. destruct (c_tls (w_cfg w)) eqn:Tl.
    + destruct H6 as (Tok & Sok).
      destruct (upload_active_complete_tls w u path chunks r1 r2 rest x1 x2 x3 line Hi Hd H Tl H1 H0 H2 H3 H4 H5 Tok Sok) as (w' & E & Is & _ & Cf & _).
      apply (Fin _ w' E eq_refl Is I). rewrite Cf. reflexivity.
    + destruct (upload_active_complete w u path chunks r1 r2 rest x1 x2 x3 line Hi Hd H Tl H1 H0 H2 H3 H4 H5) as (w' & E & Is & _ & Cf & _).
      apply (Fin _ w' E eq_refl Is I). rewrite Cf. reflexivity.
  - (* list, active *)
    unfold data_ok in H7. destruct (c_tls (w_cfg w)) eqn:Tl.
    + destruct H7 as (Tok & Sok).
      destruct (list_active_complete_tls w path names r1 r2 rest x1 x2 x3 line Hi Hd H Tl H1 H0 H2 H3 H4 H5 H6 Tok Sok) as (w' & E & Is & _ & Cf & _).
      apply (Fin _ w' E eq_refl Is I). rewrite Cf. reflexivity.
    + destruct (list_active_complete w path names r1 r2 rest x1 x2 x3 line Hi Hd H Tl H1 H0 H2 H3 H4 H5 H6) as (w' & E & Is & _ & Cf & _).
      apply (Fin _ w' E eq_refl Is I). rewrite Cf. reflexivity.
  - destruct (download_callback_passive_complete w path answers answers' answers'' ev r1 r2 rest x1 x2 x3 ip port Hi Hd H H0 H1 H2 H3 H4 H5 H6 H7 H8) as (w' & E & Is & _ & Cf & _).
    apply (Fin _ w' E eq_refl Is I). rewrite Cf. reflexivity.
  - destruct (upload_callback_passive_complete w u path chunks answers answers' answers'' ev r1 r2 rest x1 x2 x3 ip port Hi Hd H H0 H1 H2 H3 H4 H5 H6 H7 H8) as (w' & E & Is & _ & Cf & _).
    apply (Fin _ w' E eq_refl Is I). rewrite Cf. reflexivity.
  - destruct (download_cancelled_passive w path answers answers' answers'' ev r1 r2 r3 rest x1 x2 x4 x5 ip port pr Hi Hd H H0 H1 H2 H3 H4 H5 H6 H7 H8 H9 H10 H11 H12 H13 H14 H15) as (w' & E & Is & _ & Cf & _).
    apply (Fin _ w' E eq_refl Is I). rewrite Cf. reflexivity.
  - destruct (upload_cancelled_passive w u path chunks answers answers' answers'' ev r1 r2 r3 rest x1 x2 x4 x5 ip port pr Hi Hd H H0 H1 H2 H3 H4 H5 H6 H7 H8 H9 H10 H11 H12 H13 H14 H15) as (w' & E & Is & _ & Cf & _).
    apply (Fin _ w' E eq_refl Is I). rewrite Cf. reflexivity.
  - destruct (refused_at_passive_setup w RETR_ path (mkIo cb (mkSink f O) []) r1 rest x1 Hr Hp Hd Hc H1 H H2 H0) as (w' & E & A & B & C & _ & Cf & _).
    change (run _ (set_io w (mkIo cb (mkSink f O) []))) with (step w (ADownload path cb f)) in E.
    apply (Fin _ w' E eq_refl); [exact (conj A (conj B C))|exact I|rewrite Cf; reflexivity].
  - destruct (refused_at_transfer_command_passive w RETR_ path (mkIo cb (mkSink f O) []) (fun acc => PumpIn (fun _ => finish_transfer acc)) r1 r2 rest x1 x2 ip port
                Hi Hd H H0 H1 H2 H3 H4 H5 H6) as (w' & E & Is & _ & Cf & _).
    change (run _ (set_io w (mkIo cb (mkSink f O) []))) with (step w (ADownload path cb f)) in E.
    apply (Fin _ w' E eq_refl Is I). rewrite Cf. reflexivity.
  - destruct (refused_at_transfer_command_passive w (upverb_bytes u) path (mkIo cb (mkSink None O) chunks) (fun acc => PumpOut (fun _ => finish_transfer acc)) r1 r2 rest x1 x2 ip port
                Hi Hd H H0 H1 H2 H3 H4 H5 H6) as (w' & E & Is & _ & Cf & _).
    change (run _ (set_io w (mkIo cb (mkSink None O) chunks))) with (step w (AUpload u path chunks cb)) in E.
    apply (Fin _ w' E eq_refl Is I). rewrite Cf. reflexivity.
  - destruct (refused_at_active_setup w RETR_ path (mkIo cb (mkSink f O) []) (fun acc => PumpIn (fun _ => finish_transfer acc)) r1 rest x1 line
                Hi Hd H H1 H0 H2 H3) as (w' & E & Is & _ & Cf & _).
    change (run _ (set_io w (mkIo cb (mkSink f O) []))) with (step w (ADownload path cb f)) in E.
    apply (Fin _ w' E eq_refl Is I). rewrite Cf. reflexivity.
  - destruct (refused_at_active_setup w (upverb_bytes u) path (mkIo cb (mkSink None O) chunks) (fun acc => PumpOut (fun _ => finish_transfer acc)) r1 rest x1 line
                Hi Hd H H1 H0 H2 H3) as (w' & E & Is & _ & Cf & _).
    change (run _ (set_io w (mkIo cb (mkSink None O) chunks))) with (step w (AUpload u path chunks cb)) in E.
    apply (Fin _ w' E eq_refl Is I). rewrite Cf. reflexivity.
  - destruct (refused_at_transfer_command_active w RETR_ path (mkIo cb (mkSink f O) []) (fun acc => PumpIn (fun _ => finish_transfer acc)) r1 r2 rest x1 x2 line
                Hi Hd H H1 H0 H2 H3 H4 H5) as (w' & E & Is & _ & Cf & _).
    change (run _ (set_io w (mkIo cb (mkSink f O) []))) with (step w (ADownload path cb f)) in E.
    apply (Fin _ w' E eq_refl Is I). rewrite Cf. reflexivity.
  - destruct (refused_at_transfer_command_active w (upverb_bytes u) path (mkIo cb (mkSink None O) chunks) (fun acc => PumpOut (fun _ => finish_transfer acc)) r1 r2 rest x1 x2 line
                Hi Hd H H1 H0 H2 H3 H4 H5) as (w' & E & Is & _ & Cf & _).
    change (run _ (set_io w (mkIo cb (mkSink None O) chunks))) with (step w (AUpload u path chunks cb)) in E.
    apply (Fin _ w' E eq_refl Is I). rewrite Cf. reflexivity.
  - destruct (upload_refused_at_setup_passive w u path chunks cb r1 rest x1 H0 Hi Hd H H1 H2) as (w' & E & Is & _ & Cf & _).
    apply (Fin _ w' E eq_refl Is I). rewrite Cf. reflexivity.
  - destruct (list_refused_at_setup_passive w path names r1 rest x1 H0 Hi Hd H H1 H2) as (w' & E & Is & _ & Cf & _).
    apply (Fin _ w' E eq_refl Is I). rewrite Cf. reflexivity.
  - destruct (list_refused_at_command_passive w path names r1 r2 rest x1 x2 ip port H0 Hi Hd H H1 H2 H3 H4 H5 H6) as (w' & E & Is & _ & Cf & _).
    apply (Fin _ w' E eq_refl Is I). rewrite Cf. reflexivity.
  - destruct (list_refused_at_setup_active w path names r1 rest x1 line H1 Hi Hd H H0 H2 H3) as (w' & E & Is & _ & Cf & _).
    apply (Fin _ w' E eq_refl Is I). rewrite Cf. reflexivity.
  - destruct (list_refused_at_command_active w path names r1 r2 rest x1 x2 line H1 Hi Hd H H0 H2 H3 H4 H5) as (w' & E & Is & _ & Cf & _).
    apply (Fin _ w' E eq_refl Is I). rewrite Cf. reflexivity.
Qed.

Inductive historyK (k : kit) : ttype -> list api -> list reaction -> list (list reply) -> Prop :=
| hk_nil t : historyK k t [] [] []
| hk_cons t c rs xs cs rss xss :
    servesK k t c rs xs -> historyK k (next_type t c xs) cs rss xss -> historyK k t (c :: cs) (rs ++ rss) (xs :: xss).

Lemma lockstep_all_aux k t cs rss xss : historyK k t cs rss xss ->
  forall w rest, kit_of w = k -> c_type (w_cfg w) = t -> InvK w (rss ++ rest) ->
  map outcome_replies (fst (steps w cs)) = map Some xss /\ InvK (snd (steps w cs)) rest.
Proof.
  induction 1 as [t|t c rs xs cs rss xss S Hh IH]; intros w rest Hk Hty Hi.
  - cbn. split; [reflexivity|exact Hi].
  - rewrite <- app_assoc in Hi. subst k t.
    destruct (servedK_step w c rs (rss ++ rest) xs Hi S) as (E1 & I1 & K1 & T1).
    cbn [steps]. destruct (step w c) as [o1 w1] eqn:St. cbn [fst snd] in E1, I1, K1, T1.
    destruct (IH w1 rest K1 T1 I1) as (E2 & I2).
    destruct (steps w1 cs) as [os2 w2]. cbn [fst snd] in E2, I2.
    destruct o1; try discriminate; cbn [fst snd map]; rewrite E1, E2; auto.
Qed.

(* C02 for every configuration: transfer mode, RFC 2428 flag, TLS *)
Theorem lockstep_all_configurations : forall cs rss xss w rest,
  InvK w (rss ++ rest) -> historyK (kit_of w) (c_type (w_cfg w)) cs rss xss ->
  map outcome_replies (fst (steps w cs)) = map Some xss /\ InvK (snd (steps w cs)) rest.
Proof. intros cs rss xss w rest Hi Hh. exact (lockstep_all_aux _ _ cs rss xss Hh w rest eq_refl eq_refl Hi). Qed.

(* non-vacuity of the callback constructors: a download with a callback that never cancels, then an upload cancelled
   at the poll that follows the last block (ABOR answered by 426 and 226) *)
Definition exk_calls : list api :=
  [ADownload [102] (Some [false; false; false]) None; AUpload UStor [103] [[9]; [8]] (Some [false; false; false; true])].
Definition exk_script : list reaction :=
  [ex_epsv; mkR [RReply (mkReply 150 [])] [RReply (mkReply 226 [])] false false true (mkDP true true [[1]; [2]] DEof true)] ++
  [ex_epsv; ex_r 150 []; mkR [RReply (mkReply 426 []); RReply (mkReply 226 [65])] [] false false true no_plan] ++ [].
Example ex_historyK : historyK (mkKit Passive true false None) TBinary exk_calls exk_script
  [[mkReply 229 [40;124;124;124;53;124;41]; mkReply 150 []; mkReply 226 []];
   [mkReply 229 [40;124;124;124;53;124;41]; mkReply 150 []; mkReply 426 []; mkReply 226 [65]]].
Proof.
  unfold exk_calls, exk_script.
  apply hk_cons.
  { eapply (sk_download_cb_p _ _ [102] _ [] [] _ ex_epsv _ _ _ _ None 5); try reflexivity;
      repeat split; try reflexivity; discriminate. }
  apply hk_cons.
  { eapply (sk_upload_cancelled_p _ _ UStor [103] _ _ [true] [] _ PDone ex_epsv (ex_r 150 []) _ _ _ _ _ None 5); try reflexivity;
      repeat split; try reflexivity; discriminate. }
  apply hk_nil.
Qed.
