(* Type_Proofs.v - C10: "the transfer type the client reports and converts by changes only when the server positively
   acknowledges a TYPE command": a program without the SetTypeCfg primitive leaves the transfer type alone - and the only
   operation that contains it is set_transfer_type, behind the test of the reply. Stated for every call, every state of
   the client and every behaviour of the server. *)
From LibFtp Require Import Bytes Decimal Reply Endpoint DataConn Client Client_Proofs.
Local Open Scope N_scope.

Fixpoint notype (p : prog) : Prop :=
  match p with
  | SetTypeCfg _ _ => False
  | Ret _ | Throw => True
  | CheckArg _ k | Send _ _ k | SendRaw _ k | SendAdv _ k | Notify _ k | CtlConnect _ _ k | CtlSetSsl _ k | CtlHandshake k
  | CtlTlsShutdown k | CtlDisconnect k | DNew k | DConnect _ _ k | DListenP k | DAccept k | DHandshakeP k | DDisconnect _ k
  | Scope k => notype k
  | Recv k => forall r, notype (k r)
  | GetCfg k => forall c, notype (k c)
  | IsOpen k | IsSsl k | Poll k => forall b, notype (k b)
  | PumpIn k | PumpOut k => forall r, notype (k r)
  | PumpInList k => forall t, notype (k t)
  end.

Definition keepty (w w' : world) : Prop := c_type (w_cfg w') = c_type (w_cfg w).

Lemma keepty_refl w : keepty w w.
Proof. reflexivity. Qed.
Lemma keepty_trans a b c : keepty a b -> keepty b c -> keepty a c.
Proof. unfold keepty. congruence. Qed.
Lemma keepty_same a b : w_cfg b = w_cfg a -> keepty a b.
Proof. intro H. unfold keepty. rewrite H. reflexivity. Qed.

Lemma keepty_do_send w line w' : do_send w line = Some w' -> keepty w w'.
Proof.
  unfold do_send. destruct (negb _); [discriminate|]. destruct (_ && _); [discriminate|].
  destruct (w_peer_closed _); intro H; inversion H; subst; apply keepty_same; [reflexivity|].
  unfold peer_react. destruct (w_cur _); reflexivity.
Qed.

Lemma keepty_close_data w : keepty w (close_data w).
Proof.
  apply keepty_same. unfold close_data. destruct (w_data w) as [d|]; [|reflexivity].
  destruct (d_sock d), (d_acc d); reflexivity.
Qed.

Ltac tysame := apply keepty_same; reflexivity.

Lemma run_keepty : forall p w, notype p -> keepty w (snd (run p w)).
Proof.
  induction p as [v| |a k IH|verb arg k IH|line k IH|a k IH|k IH|e k IH|k IH|t k IH|k IH|k IH|h pt k IH|on k IH|k IH|k IH|k IH
                 |k IH|ip port k IH|k IH|k IH|k IH|g k IH|k IH|k IH|k IH|k IH|body IH]; intros w N; cbn [run]; cbn [notype] in N.
  - apply keepty_refl.
  - apply keepty_refl.
  - destruct (has_crlf a); [apply keepty_refl|(apply IH; auto)].
  - destruct arg as [a|].
    + destruct (has_crlf a); [apply keepty_refl|].
      destruct (do_send w _) as [w'|] eqn:E; cbn [snd]; [eapply keepty_trans; [eapply keepty_do_send; eauto|(apply IH; auto)]|tysame].
    + destruct (do_send w _) as [w'|] eqn:E; cbn [snd]; [eapply keepty_trans; [eapply keepty_do_send; eauto|(apply IH; auto)]|tysame].
  - destruct (do_send w _) as [w'|] eqn:E; cbn [snd]; [eapply keepty_trans; [eapply keepty_do_send; eauto|(apply IH; auto)]|tysame].
  - destruct (match a with AdvEprt => _ | AdvPort => _ end) as [line|]; [|apply keepty_refl].
    destruct (do_send w _) as [w'|] eqn:E; cbn [snd]; [eapply keepty_trans; [eapply keepty_do_send; eauto|(apply IH; auto)]|tysame].
  - destruct (negb (w_open w)); [apply keepty_refl|].
    destruct (w_backlog w) as [|[t [r|]] rest]; [destruct (w_peer_closed w); apply keepty_refl| |cbn [snd]; tysame].
    destruct (code r =? 421).
    + unfold ctl_disconnect. cbv zeta. destruct (negb _ || _); cbn [snd]; [eapply keepty_trans; [|(apply IH; auto)]|]; tysame.
    + eapply keepty_trans; [|(apply IH; auto)]. tysame.
  - eapply keepty_trans; [|(apply IH; auto)]. tysame.
  - (apply IH; auto).
  - destruct N.
  - (apply IH; auto).
  - (apply IH; auto).
  - destruct (w_script _) as [|s rest]; cbn [snd]; [destruct (w_open w); tysame|].
    destruct (negb (s_reachable s)); cbn [snd]; [destruct (w_open w); tysame|].
    eapply keepty_trans; [|(apply IH; auto)]. destruct (w_open w); tysame.
  - eapply keepty_trans; [|(apply IH; auto)]. tysame.
  - destruct (_ && _); cbn [snd]; [eapply keepty_trans; [|(apply IH; auto)]|]; tysame.
  - destruct (_ && _); cbn [snd]; [eapply keepty_trans; [|(apply IH; auto)]|]; tysame.
  - unfold ctl_disconnect. cbv zeta. destruct (negb _ || _); cbn [snd]; [eapply keepty_trans; [|(apply IH; auto)]|]; tysame.
  - eapply keepty_trans; [|(apply IH; auto)]. tysame.
  - destruct (dp_reachable _); cbn [snd]; [eapply keepty_trans; [|(apply IH; auto)]|]; tysame.
  - eapply keepty_trans; [|(apply IH; auto)]. tysame.
  - destruct (dp_reachable _); cbn [snd]; [eapply keepty_trans; [|(apply IH; auto)]; tysame|apply keepty_refl].
  - destruct (dp_tls_ok _); cbn [snd]; [eapply keepty_trans; [|(apply IH; auto)]|]; tysame.
  - destruct (w_data w) as [d|]; [|(apply IH; auto)].
    destruct (_ && _); cbn [snd]; [tysame|].
    eapply keepty_trans; [|(apply IH; auto)]. eapply keepty_trans; [|apply keepty_close_data]. tysame.
  - destruct (data_recv _ _ _ _ _) as [[ev r] cb']. destruct r; cbn [snd]; try (eapply keepty_trans; [|(apply IH; auto)]); tysame.
  - destruct (data_recv _ _ _ _ _) as [[ev r] cb']. destruct r; cbn [snd]; try (eapply keepty_trans; [|(apply IH; auto)]); tysame.
  - destruct (data_send _ _ _ _) as [[ev r] cb']. destruct r; cbn [snd]; try (eapply keepty_trans; [|(apply IH; auto)]); tysame.
  - destruct (io_cb (w_io w)) as [answers|]; [|(apply IH; auto)].
    destruct (poll answers) as [a answers']. eapply keepty_trans; [|(apply IH; auto)]. tysame.
  - destruct (run body w) as [o w1] eqn:R. cbn [snd].
    pose proof (IH w N) as X. rewrite R in X. cbn [snd] in X.
    eapply keepty_trans; [exact X|]. eapply keepty_trans; [apply keepty_close_data|tysame].
Qed.



Ltac nt := repeat (cbn [notype]; first
  [ exact I | intro
  | match goal with
    | |- notype (if ?b then _ else _) => destruct b
    | |- notype (match ?x with _ => _ end) => destruct x
    | |- notype (let _ := _ in _) => cbv zeta
    end ]).

(* every call other than set_transfer_type leaves the transfer type as it is - login (which SENDS "TYPE I" / "TYPE A"
   for the configured type), connect, transfers in either type, refused or failing calls included *)
Theorem step_keeps_type a w :
  match a with ASetType _ => True | _ => c_type (w_cfg (snd (step w a))) = c_type (w_cfg w) end.
Proof.
  destruct a; unfold step; try exact I; try reflexivity;
    (eapply keepty_trans; [|apply run_keepty]; [tysame|]); cbn [prog_of].
  - unfold op_connect, process_login, process_command, process_raw. nt.
  - unfold op_login, process_login, process_command, process_raw. nt.
  - unfold op_logout, process_command. nt.
  - unfold op_simple, process_command. nt.
  - unfold op_rename, process_command. nt.
  - unfold op_download, create_data_connection, finish_transfer, process_abort, process_command. nt.
  - unfold op_upload, create_data_connection, finish_transfer, process_abort, process_command. nt.
  - unfold op_list, create_data_connection, process_command. nt.
  - unfold op_disconnect, process_command. nt.
Qed.

(* ... and set_transfer_type changes it exactly when the reply to TYPE is positive *)
Theorem set_type_changes_only_on_ack t w :
  c_type (w_cfg (snd (step w (ASetType t)))) = c_type (w_cfg w) \/
  (c_type (w_cfg (snd (step w (ASetType t)))) = t /\
   exists r, fst (step w (ASetType t)) = OReturn (RvReply r) /\ is_positive r = true).
Proof.
  unfold step. cbn [prog_of]. unfold op_set_type, process_command.
  set (w0 := set_io w (io_of (ASetType t))).
  cbn [run]. cbn [has_crlf type_arg]. 
  assert (Hc : has_crlf (type_arg t) = false) by (destruct t; reflexivity). rewrite Hc.
  destruct (do_send w0 _) as [w1|] eqn:S; [|left; reflexivity].
  pose proof (keepty_do_send _ _ _ S) as K1.
  destruct (negb (w_open w1)); [left; exact K1|].
  destruct (w_backlog w1) as [|[tt [r|]] rest]; [destruct (w_peer_closed w1); left; exact K1| |left; exact K1].
  destruct (code r =? 421).
  - unfold ctl_disconnect. cbv zeta. destruct (negb _ || _); cbn [snd fst].
    + destruct (is_positive r) eqn:P; cbn [run snd fst]; [right; split; [reflexivity|exists r; auto]|left; exact K1].
    + left. exact K1.
  - destruct (is_positive r) eqn:P; cbn [run snd fst]; [right; split; [reflexivity|exists r; auto]|left; exact K1].
Qed.
