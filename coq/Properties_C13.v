(* C13 - disconnect always releases the connection; a new connection starts clean. *)
From LibFtp Require Import Bytes Decimal Reply Endpoint Ascii DataConn DataConn_Proofs Client Client_Proofs Login_Proofs Transfer_Proofs Transfer_More Modes_Proofs Ctl_Proofs History_Proofs History2_Proofs Session_Proofs Tls_Global Closing_Global.
Local Open Scope N_scope.

(* non-graceful disconnect from ANY state (failed control or data handshake, dead peer, exception in the middle of
   an operation, unread bytes of any content): no command is written, and - whether it returns or reports an error -
   the client ends up disconnected, with a plain socket object and no TLS state *)
Theorem C13_disconnect_releases : forall w, (w_tls_up w = true -> w_ssl w = true) ->
  let '(o, w') := step w (ADisconnect false) in
  w_open w' = false /\ w_ssl w' = false /\ w_tls_up w' = false /\ w_data w' = w_data w /\
  (o = OReturn (RvOptReply None) \/ o = OThrow) /\
  exists es, w_trace w' = w_trace w ++ es /\ wire_events es = [].
Proof. exact disconnect_releases. Qed.
Print Assumptions C13_disconnect_releases.

(* a new connection starts clean: plain until AUTH TLS is negotiated again, no TLS session, and the only replies
   to read are the new peer's greeting - for every content of the old buffer and backlog *)
Theorem C13_fresh_session : forall h p k w s rest, w_script w = s :: rest -> s_reachable s = true ->
  exists w1, run (CtlConnect h p k) w = run k w1 /\
    w_open w1 = true /\ w_ssl w1 = false /\ w_tls_up w1 = false /\ w_sess_id w1 = O /\
    w_backlog w1 = tag (w_ord w) (r_now (s_greeting s)) /\ w_pending w1 = [] /\ w_cur w1 = s_reactions s.
Proof. exact fresh_session. Qed.
Print Assumptions C13_fresh_session.

(* receiving 421 closes the control connection: not connected afterwards, buffer dropped, socket plain *)
Theorem C13_421_closes : forall k w t x rest, w_open w = true -> w_backlog w = (t, RReply x) :: rest -> code x = 421 ->
  exists w2, w_open w2 = false /\ w_ssl w2 = false /\ w_backlog w2 = [] /\
    (run (Recv k) w = run (k x) (notify w2 (OReply x)) \/ run (Recv k) w = (OThrow, w2)).
Proof. exact recv_421_closes. Qed.
Print Assumptions C13_421_closes.

(* a graceful disconnect is QUIT, its reply, then the same release *)
Theorem C13_graceful_is_quit : op_disconnect true =
  Send QUIT_ None (Recv (fun r =>
    IsOpen (fun b =>
      let after := IsSsl (fun s => if s then CtlSetSsl false (Ret (RvOptReply (Some r))) else Ret (RvOptReply (Some r))) in
      if b then CtlDisconnect after else after))).
Proof. reflexivity. Qed.
Print Assumptions C13_graceful_is_quit.

(* a connection made by a disconnected client: the greeting is read and returned, the session is plain and in step with the new server, nothing buffered *)
Theorem C13_connect_starts_in_step : forall w h p s srest g,
  w_open w = false -> w_script w = s :: srest -> s_reachable s = true -> c_tls (w_cfg w) = false ->
  r_now (s_greeting s) = [RReply g] -> r_close_after (s_greeting s) = false -> code g <> 421 -> code g <> 120 ->
  exists w', step w (AConnect h p None) = (OReturn (RvReplies [g]), w') /\
    insync w' (s_reactions s) /\ w_script w' = srest /\ w_ssl w' = false /\ w_cfg w' = w_cfg w /\
    w_cur6 w' = s_ip6 s /\ w_tls_clean w' = s_tls_close_clean s /\
    wire_events (skipn (length (w_trace w)) (w_trace w')) = [WReply g] /\
    obs_events (skipn (length (w_trace w)) (w_trace w')) = told (w_obs w) (OConnected h p) ++ told (w_obs w) (OReply g).
Proof. exact connect_plain. Qed.
Print Assumptions C13_connect_starts_in_step.

(* graceful disconnect from a plain session in step: QUIT is sent, its reply returned, then the connection is closed: disconnected, plain, nothing buffered *)
Theorem C13_quit_releases : forall w r rest x,
  insync w (r :: rest) -> w_ssl w = false -> simple_reaction r x ->
  exists w', step w (ADisconnect true) = (OReturn (RvOptReply (Some x)), w') /\
    w_open w' = false /\ w_ssl w' = false /\ w_backlog w' = [] /\ w_pending w' = [] /\ w_data w' = w_data w /\
    w_script w' = w_script w /\
    wire_events (skipn (length (w_trace w)) (w_trace w')) = [WLine QUIT_; WReply x].
Proof. exact quit_call. Qed.
Print Assumptions C13_quit_releases.

(* graceful disconnect from a TLS session in step with a peer that answers the close-notify: the full trace - QUIT inside TLS, its reply, TLS shutdown, TCP shutdown, close, socket object back to plain *)
Theorem C13_quit_releases_tls : forall w r rest x,
  insync w (r :: rest) -> w_ssl w = true -> w_tls_up w = true -> w_tls_clean w = true -> simple_reaction r x ->
  exists w', step w (ADisconnect true) = (OReturn (RvOptReply (Some x)), w') /\
    w_open w' = false /\ w_ssl w' = false /\ w_tls_up w' = false /\ w_backlog w' = [] /\ w_pending w' = [] /\ w_data w' = w_data w /\
    w_script w' = w_script w /\
    skipn (length (w_trace w)) (w_trace w') =
      block (w_obs w) (ORequest QUIT_) ++ [EWire true (w_ord w) QUIT_] ++ [ERecv (w_ord w) x] ++ block (w_obs w) (OReply x) ++
      [ECtl (CTlsShutdown true); ECtl CTcpShutdown; ECtl CClose; ECtl (CSetSsl false)].
Proof. exact quit_call_tls. Qed.
Print Assumptions C13_quit_releases_tls.

(* ------------------------------------------------------------------ every call, every state, every server *)
(* [R w w']: w' is w with events added; a client that was not connected is still not connected; and if a 421 reply was
   read among those events ([has421]), the client is not connected at the end.
   Any call but connect (returning or throwing): *)
Theorem C13_421_anywhere_disconnects : forall a w, ~ is_connect a -> R w (snd (step w a)).
Proof. exact step_421_disconnects. Qed.
Print Assumptions C13_421_anywhere_disconnects.

(* ... and connect itself: a 421 as the greeting, after a 120, as the answer to AUTH TLS or to a command of the login *)
Theorem C13_421_during_connect_disconnects : forall h p l w,
  exists tr, w_trace (snd (step w (AConnect h p l))) = w_trace w ++ tr /\
    (has421 tr -> w_open (snd (step w (AConnect h p l))) = false).
Proof. exact connect_421_disconnects. Qed.
Print Assumptions C13_421_during_connect_disconnects.

Example C13_completion_421_example :
  let w0 := init_world (mkConfig Passive true TBinary false false) completion421_script in
  let '(os, w) := steps w0 [AConnect [104] 21 None; ADownload [102] None None] in
  os = [OReturn (RvReplies [mkReply 220 []]);
        OReturn (RvReplies [mkReply 229 [40;124;124;124;53;124;41]; mkReply 150 []; mkReply 421 []])] /\
  w_open w = false /\ has421 (w_trace w).
Proof. exact completion_421_example. Qed.

(* ---- a client that is not connected: every call but connect / disconnect, every such state, every server (Idle_Global.v) ---- *)
From LibFtp Require Idle_Global.

(* the call touches nothing: what it adds to the trace are notifications of observers (of the request that could not be sent)
   and the closing of a leftover data socket object - no command line, no reply read, no data connection opened, no byte
   moved, no stream or callback touched - and the client stays not connected *)
Theorem C13_not_connected_touches_nothing : forall a w, Idle_Global.keeps a -> w_open w = false ->
  exists es, w_trace (snd (step w a)) = w_trace w ++ es /\ Forall Idle_Global.silent es /\
             w_open (snd (step w a)) = false.
Proof. exact Idle_Global.step_not_connected_touches_nothing. Qed.
Print Assumptions C13_not_connected_touches_nothing.

Example C13_example_after_disconnect_nothing_is_touched :
  let w0 := init_world (mkConfig Passive true TBinary false false) Idle_Global.idle_script in
  let w1 := snd (steps w0 [AAddObserver 7; AConnect [104] 21 None; ADisconnect true]) in
  let r := step w1 (ADownload [102] None None) in
  w_open w1 = false /\ fst r = OThrow /\
  skipn (length (w_trace w1)) (w_trace (snd r)) = [EObs 7 (ORequest [69;80;83;86])].
Proof. exact Idle_Global.idle_example. Qed.
