(* Bytes_Global.v - C03 over EVERY call, every state and every behaviour of the server: in binary type, what a call hands
   to the caller's sink is exactly what it read from the data connection - the same bytes in the same order, nothing added,
   dropped, repeated or reordered - whether the transfer completes, is cancelled, is cut or fails. *)
From LibFtp Require Import Bytes Decimal Reply Endpoint DataConn DataConn_Proofs Client Client_Proofs.
Local Open Scope N_scope.

Fixpoint ios (tr : list event) : list io_event :=
  match tr with [] => [] | EIo e :: tr' => e :: ios tr' | _ :: tr' => ios tr' end.

Lemma ios_app a b : ios (a ++ b) = ios a ++ ios b.
Proof. induction a as [|e a IH]; [reflexivity|]. destruct e; cbn [app ios]; rewrite ?IH; reflexivity. Qed.

Lemma ios_io ev : ios (map EIo ev) = ev.
Proof. induction ev as [|e ev IH]; [reflexivity|]. cbn. rewrite IH. reflexivity. Qed.

(* the bytes given to the sink are the bytes read from the data connection *)
Definition bal (tr : list event) : Prop := sink_bytes (ios tr) = net_in_bytes (ios tr).

Lemma bal_app a b : bal a -> bal b -> bal (a ++ b).
Proof. unfold bal. intros A B. rewrite ios_app, sink_bytes_app, net_in_app, A, B. reflexivity. Qed.

Definition quiet (e : event) : Prop := match e with EIo _ => False | _ => True end.

Lemma quiet_ios es : Forall quiet es -> ios es = [].
Proof. induction 1 as [|e es Q _ IH]; [reflexivity|]. destruct e; try exact IH; destruct Q. Qed.

Lemma quiet_bal es : Forall quiet es -> bal es.
Proof. intro Q. unfold bal. rewrite (quiet_ios es Q). reflexivity. Qed.

Lemma q_obs obs e : Forall quiet (map (fun o => EObs o e) obs).
Proof. induction obs as [|o obs IH]; cbn; constructor; [exact I|exact IH]. Qed.

(* one data loop in binary type with a sink that does not fail: balanced, however it ends *)
Lemma data_recv_balanced s segs e cb ev r cb' : good_sink s ->
  data_recv TBinary s segs e cb = (ev, r, cb') -> sink_bytes ev = net_in_bytes ev.
Proof.
  intros G H. unfold data_recv in H.
  destruct (start_events cb) as [[ev0 c] cb1] eqn:S0.
  destruct (start_events_quiet _ _ _ _ S0) as (Q1 & _ & Q3 & _).
  destruct c; [inversion H; subst; rewrite Q1, Q3; reflexivity|].
  destruct (recv_loop TBinary false s segs e cb1) as [[[[ev1 r1] p] s1] cb2] eqn:R.
  destruct (recv_loop_binary _ _ _ _ _ _ _ _ _ G R) as (A & _).
  cbn [andb] in H.
  destruct r1; inversion H; subst; rewrite ?sink_bytes_app, ?net_in_app, Q1, Q3, A; cbn [app];
    destruct cb; cbn; rewrite ?app_nil_r; reflexivity.
Qed.

Definition inv (w : world) : Prop := c_type (w_cfg w) = TBinary /\ good_sink (io_sink (w_io w)).

Definition St (w w' : world) : Prop :=
  exists tr, w_trace w' = w_trace w ++ tr /\ bal tr /\ c_type (w_cfg w') = c_type (w_cfg w) /\ io_sink (w_io w') = io_sink (w_io w).
Definition Sx (w w' : world) : Prop := exists tr, w_trace w' = w_trace w ++ tr /\ bal tr.

Lemma inv_keep w w' : St w w' -> inv w -> inv w'.
Proof. intros (_ & _ & _ & C & S) (A & B). split; [rewrite C; exact A|rewrite S; exact B]. Qed.

Lemma St_refl w : St w w.
Proof. exists []. rewrite app_nil_r. repeat split. Qed.
Lemma Sx_refl w : Sx w w.
Proof. exists []. rewrite app_nil_r. repeat split. Qed.

Lemma St_trans a b c : St a b -> St b c -> St a c.
Proof.
  intros (t1 & E1 & B1 & C1 & S1) (t2 & E2 & B2 & C2 & S2). exists (t1 ++ t2). rewrite E2, E1, app_assoc. split; [reflexivity|].
  split; [apply bal_app; assumption|]. split; congruence.
Qed.

Lemma St_then a b c : St a b -> (inv b -> Sx b c) -> inv a -> Sx a c.
Proof.
  intros H K I0. destruct (K (inv_keep _ _ H I0)) as (t2 & E2 & B2). destruct H as (t1 & E1 & B1 & _).
  exists (t1 ++ t2). rewrite E2, E1, app_assoc. split; [reflexivity|apply bal_app; assumption].
Qed.

Lemma St_weaken a b : St a b -> Sx a b.
Proof. intros (t & E & B & _). exists t. split; assumption. Qed.

Lemma St_quiet w w' es : w_trace w' = w_trace w ++ es -> Forall quiet es -> w_cfg w' = w_cfg w -> w_io w' = w_io w -> St w w'.
Proof. intros E Q C S. exists es. split; [exact E|]. split; [apply quiet_bal; exact Q|]. rewrite C, S. split; reflexivity. Qed.

Lemma St_notify w e : St w (notify w e).
Proof. apply (St_quiet _ _ (map (fun o => EObs o e) (w_obs w))); [reflexivity|apply q_obs|reflexivity|reflexivity]. Qed.

Ltac qall := repeat (first [apply Forall_nil | apply Forall_cons; [exact I|]]).
Ltac sq := first
  [ apply (St_quiet _ _ []); [cbn [w_trace emit set_trace set_queues set_io set_data set_cfg set_ctl set_obs release_pending notify];
                             rewrite ?app_nil_r; reflexivity|constructor|reflexivity|reflexivity]
  | (eapply St_quiet; [cbn [w_trace emit set_trace set_queues set_io set_data set_cfg set_ctl set_obs release_pending notify];
                       rewrite <- ?app_assoc; reflexivity|qall|reflexivity|reflexivity]) ].

Lemma peer_react_same w : w_cfg (peer_react w) = w_cfg w /\ w_io (peer_react w) = w_io w.
Proof. unfold peer_react. destruct (w_cur w); split; reflexivity. Qed.

Lemma St_do_send w line w' : do_send w line = Some w' -> St w w'.
Proof.
  unfold do_send. destruct (negb _); [discriminate|]. destruct (_ && negb _); [discriminate|].
  set (w1 := notify w (ORequest line)).
  assert (G1 : St w w1) by apply St_notify.
  destruct (w_peer_closed w1); intro H; inversion H; subst; clear H.
  - eapply St_trans; [exact G1|]. sq.
  - eapply St_trans; [exact G1|].
    match goal with |- St w1 (peer_react ?W) => apply (St_trans _ W) end.
    + sq.
    + destruct (peer_react_same (emit w1 [EWire (w_ssl w1 && w_tls_up w1) (w_ord w1) line])) as (A & B).
      apply (St_quiet _ _ []); [rewrite app_nil_r; apply peer_react_trace|constructor|exact A|exact B].
Qed.

Lemma St_close_data w : St w (close_data w).
Proof.
  unfold close_data. destruct (w_data w) as [d|]; [|apply St_refl].
  destruct (d_sock d), (d_acc d); cbv zeta.
  - apply (St_quiet _ _ [EData DClose; EData DAccClose]); [cbn [w_trace set_data emit set_trace release_pending set_queues]; rewrite <- app_assoc; reflexivity|qall|reflexivity|reflexivity].
  - apply (St_quiet _ _ [EData DClose]); [reflexivity|qall|reflexivity|reflexivity].
  - apply (St_quiet _ _ [EData DAccClose]); [reflexivity|qall|reflexivity|reflexivity].
  - apply (St_quiet _ _ []); [rewrite app_nil_r; reflexivity|constructor|reflexivity|reflexivity].
Qed.

Lemma St_ctl_disconnect w : St w (snd (ctl_disconnect w)).
Proof.
  unfold ctl_disconnect. cbn [snd].
  eapply St_quiet; [cbn [w_trace set_queues set_ctl emit set_trace]; reflexivity| |reflexivity|reflexivity].
  destruct (w_ssl w); cbn [app]; qall.
Qed.

(* programs that neither change the transfer type nor upload: the data loops they contain are downloads / listings *)
Fixpoint gy (p : prog) : Prop :=
  match p with
  | Ret _ | Throw => True
  | SetTypeCfg _ _ => False
  | PumpOut _ => False
  | Recv k => forall r, gy (k r)
  | GetCfg k => forall c, gy (k c)
  | IsOpen k | IsSsl k | Poll k => forall b, gy (k b)
  | PumpIn k => forall x, gy (k x)
  | PumpInList k => forall t, gy (k t)
  | CheckArg _ k | Send _ _ k | SendRaw _ k | SendAdv _ k | Notify _ k | CtlConnect _ _ k | CtlSetSsl _ k
  | CtlHandshake k | CtlTlsShutdown k | CtlDisconnect k | DNew k | DConnect _ _ k | DListenP k | DAccept k | DHandshakeP k
  | DDisconnect _ k | Scope k => gy k
  end.

Ltac ih IH N := let Ib := fresh "Ib" in intro Ib; apply IH; [first [exact N | apply N]|exact Ib].

Lemma run_gy : forall p w, gy p -> inv w -> Sx w (snd (run p w)).
Proof.
  induction p as [v| |a k IH|verb arg k IH|line k IH|a k IH|k IH|e k IH|k IH|t k IH|k IH|k IH|h pt k IH|on k IH|k IH|k IH|k IH
                 |k IH|ip port k IH|k IH|k IH|k IH|g k IH|k IH|k IH|k IH|k IH|body IH]; intros w N T; cbn [run]; cbn [gy] in N.
  - apply Sx_refl.
  - apply Sx_refl.
  - destruct (has_crlf a); [apply Sx_refl|apply IH; assumption].
  - destruct arg as [a|].
    + destruct (has_crlf a); [apply Sx_refl|].
      destruct (do_send w _) as [w'|] eqn:X; cbn [snd];
        [eapply St_then; [eapply St_do_send; exact X|ih IH N|exact T]|eapply St_weaken; apply St_notify].
    + destruct (do_send w _) as [w'|] eqn:X; cbn [snd];
        [eapply St_then; [eapply St_do_send; exact X|ih IH N|exact T]|eapply St_weaken; apply St_notify].
  - destruct (do_send w _) as [w'|] eqn:X; cbn [snd];
      [eapply St_then; [eapply St_do_send; exact X|ih IH N|exact T]|eapply St_weaken; apply St_notify].
  - destruct (match a with AdvEprt => Some (make_eprt_command _ _) | AdvPort => _ end) as [line|]; [|apply Sx_refl].
    destruct (do_send w _) as [w'|] eqn:X; cbn [snd];
      [eapply St_then; [eapply St_do_send; exact X|ih IH N|exact T]|eapply St_weaken; apply St_notify].
  - (* Recv *)
    destruct (negb (w_open w)); [apply Sx_refl|].
    destruct (w_backlog w) as [|[t [x|]] rest].
    + destruct (w_peer_closed w); apply Sx_refl.
    + set (w1 := emit (set_queues w rest (w_pending w)) [ERecv t x]).
      assert (G1 : St w w1) by (unfold w1; sq).
      destruct (code x =? 421).
      * destruct (ctl_disconnect w1) as [ok w2] eqn:D.
        pose proof (St_ctl_disconnect w1) as G2. rewrite D in G2. cbn [snd] in G2.
        destruct ok; cbn [snd].
        -- eapply St_then; [eapply St_trans; [exact G1|]; eapply St_trans; [exact G2|apply St_notify]| |exact T].
           intro Ib. apply IH; [apply N|exact Ib].
        -- eapply St_weaken. eapply St_trans; [exact G1|exact G2].
      * eapply St_then; [eapply St_trans; [exact G1|apply St_notify]| |exact T]. intro Ib. apply IH; [apply N|exact Ib].
    + cbn [snd]. eapply St_weaken. sq.
  - eapply St_then; [apply St_notify|ih IH N|exact T].
  - apply IH; [apply N|exact T].
  - destruct N.
  - apply IH; [apply N|exact T].
  - apply IH; [apply N|exact T].
  - (* CtlConnect *)
    match goal with |- context [match w_script ?w0 with _ => _ end] => set (W0 := w0) end.
    assert (X0 : St w W0) by (unfold W0; destruct (w_open w); sq).
    destruct (w_script W0) as [|s rest]; cbn [snd].
    + eapply St_weaken. eapply St_trans; [exact X0|sq].
    + destruct (negb (s_reachable s)); cbn [snd].
      * eapply St_weaken. eapply St_trans; [exact X0|].
        eapply St_quiet; [cbn [w_trace emit set_trace]; reflexivity|qall|reflexivity|reflexivity].
      * eapply St_then; [eapply St_trans; [exact X0|]|ih IH N|exact T].
        eapply St_quiet; [cbn [w_trace emit set_trace]; reflexivity|qall|reflexivity|reflexivity].
  - eapply St_then; [|ih IH N|exact T]. sq.
  - destruct (w_last_tls_ok w && negb (w_peer_closed w)); cbn [snd]; [eapply St_then; [|ih IH N|exact T]|eapply St_weaken]; sq.
  - destruct (w_tls_up w && w_tls_clean w && negb (w_peer_closed w)); cbn [snd]; [eapply St_then; [|ih IH N|exact T]|eapply St_weaken]; sq.
  - destruct (ctl_disconnect w) as [ok w1] eqn:D.
    pose proof (St_ctl_disconnect w) as G2. rewrite D in G2. cbn [snd] in G2.
    destruct ok; cbn [snd]; [eapply St_then; [exact G2|ih IH N|exact T]|eapply St_weaken; exact G2].
  - eapply St_then; [|ih IH N|exact T]. sq.
  - destruct (dp_reachable (w_plan w)); cbn [snd]; [eapply St_then; [|ih IH N|exact T]|eapply St_weaken]; sq.
  - eapply St_then; [|ih IH N|exact T]. sq.
  - destruct (dp_reachable (w_plan w)); cbn [snd]; [eapply St_then; [|ih IH N|exact T]; sq|apply Sx_refl].
  - destruct (dp_tls_ok (w_plan w)); cbn [snd]; [eapply St_then; [|ih IH N|exact T]|eapply St_weaken]; sq.
  - destruct (w_data w) as [d|]; [|apply IH; assumption].
    destruct (d_ssl d && negb (dp_shutdown_ok (w_plan w))); cbn [snd]; [eapply St_weaken; sq|].
    eapply St_then; [|ih IH N|exact T]. eapply St_trans; [|apply St_close_data].
    destruct (d_ssl d), g; cbn [app]; sq.
  - (* PumpIn *)
    destruct T as (Ty & Gs). rewrite Ty.
    destruct (data_recv TBinary _ _ _ _) as [[ev x] cb'] eqn:DR.
    pose proof (data_recv_balanced _ _ _ _ _ _ _ Gs DR) as B.
    match goal with |- context [set_io ?A0 ?B0] => set (W1 := set_io A0 B0) end.
    assert (G1 : St w W1).
    { exists (map EIo ev). unfold W1. split; [reflexivity|]. split; [unfold bal; rewrite ios_io; exact B|]. split; reflexivity. }
    assert (T0 : inv w) by (split; assumption).
    destruct x; cbn [snd]; try (eapply St_weaken; exact G1); (eapply St_then; [exact G1| |exact T0]; intro Ib; apply IH; [apply N|exact Ib]).
  - (* PumpInList: its own sink, always good *)
    destruct T as (Ty & Gs). rewrite Ty.
    destruct (data_recv TBinary _ _ _ _) as [[ev x] cb'] eqn:DR.
    assert (G0 : good_sink (mkSink None O)) by reflexivity.
    pose proof (data_recv_balanced _ _ _ _ _ _ _ G0 DR) as B.
    match goal with |- context [emit w ?Z] => set (W1 := emit w Z) end.
    assert (G1 : St w W1).
    { exists (map EIo ev). unfold W1. split; [reflexivity|]. split; [unfold bal; rewrite ios_io; exact B|]. split; reflexivity. }
    assert (T0 : inv w) by (split; assumption).
    destruct x; cbn [snd]; try (eapply St_weaken; exact G1); (eapply St_then; [exact G1| |exact T0]; intro Ib; apply IH; [apply N|exact Ib]).
  - destruct N.
  - (* Poll *)
    destruct (io_cb (w_io w)) as [answers|]; [|apply IH; [apply N|exact T]].
    destruct (poll answers) as [a answers'].
    eapply St_then; [|intro Ib; apply IH; [apply N|exact Ib]|exact T].
    exists [EIo (IoPoll a)]. split; [reflexivity|]. split; [reflexivity|]. split; reflexivity.
  - (* Scope *)
    destruct (run body w) as [o w1] eqn:Rn. cbn [snd].
    pose proof (IH w N T) as (tr & X & F). rewrite Rn in X. cbn [snd] in X.
    destruct (St_close_data w1) as (t2 & X2 & F2 & _).
    exists (tr ++ t2). split.
    + cbn [w_trace set_data]. rewrite X2, X, app_assoc. reflexivity.
    + apply bal_app; assumption.
Qed.

(* ------------------------------------------------------------------ the operations *)
Ltac gyt := repeat (cbn [gy]; first
  [ exact I | intro
  | match goal with
    | |- gy (if ?b then _ else _) => destruct b
    | |- gy (match ?x with _ => _ end) => destruct x
    | |- gy (let _ := _ in _) => cbv zeta
    end ]).

Lemma gy_process_login u pw acc k : (forall a, gy (k a)) -> gy (process_login u pw acc k).
Proof. intro K. unfold process_login, process_command, process_raw. gyt; apply K. Qed.

Lemma gy_cdc verb arg acc k_ok k_none : (forall a, gy (k_ok a)) -> (forall a, gy (k_none a)) ->
  gy (create_data_connection verb arg acc k_ok k_none).
Proof.
  intros K1 K2. unfold create_data_connection, process_command. cbn [gy]. intro c.
  destruct (c_mode c), (c_rfc2428 c); gyt; first [apply K1 | apply K2].
Qed.

Lemma gy_finish acc : gy (finish_transfer acc).
Proof. unfold finish_transfer, process_abort, process_command. gyt. Qed.

Lemma gy_connect h p l : gy (op_connect h p l).
Proof.
  unfold op_connect, process_raw. cbv zeta.
  assert (LP : forall acc, gy (match l with
                | None => Ret (RvReplies acc)
                | Some (u, pw) => process_login u pw acc (fun acc' => Ret (RvReplies acc')) end)).
  { intro acc. destruct l as [[u pw]|]; [apply gy_process_login; intros; exact I|exact I]. }
  destruct l as [[u pw]|]; gyt; try apply LP; try (apply gy_process_login; intros; exact I).
Qed.

(* the calls this theorem is about: all but set_transfer_type and the uploads; a download's sink must not fail *)
Definition receives (a : api) : Prop :=
  match a with ASetType _ | AUpload _ _ _ _ => False | ADownload _ _ (Some _) => False | _ => True end.

(* every such call, every state in binary type, every server: the bytes handed to the sink are the bytes read from the data
   connection, in order *)
Theorem step_sink_gets_what_was_read a w : receives a -> c_type (w_cfg w) = TBinary ->
  exists tr, w_trace (snd (step w a)) = w_trace w ++ tr /\ sink_bytes (ios tr) = net_in_bytes (ios tr).
Proof.
  intros RC Ty.
  assert (ST : forall p i, gy p -> good_sink (io_sink i) ->
            exists tr, w_trace (snd (run p (set_io w i))) = w_trace w ++ tr /\ sink_bytes (ios tr) = net_in_bytes (ios tr)).
  { intros p i N G. assert (T : inv (set_io w i)) by (split; [exact Ty|exact G]).
    destruct (run_gy p (set_io w i) N T) as (tr & X & B). exists tr. split; [exact X|exact B]. }
  assert (GN : good_sink (io_sink no_io)) by reflexivity.
  destruct a as [h p l|u pw| |v arg|t|x y|path cb f|uv path ch cb|path names|g|o|o|md|b]; unfold step; cbn [prog_of io_of];
    try (exists []; rewrite app_nil_r; split; reflexivity); try (destruct RC; fail).
  - apply ST; [apply gy_connect|exact GN].
  - apply ST; [unfold op_login; apply gy_process_login; intros; exact I|exact GN].
  - apply ST; [unfold op_logout, process_command; gyt|exact GN].
  - apply ST; [unfold op_simple, process_command; gyt|exact GN].
  - apply ST; [unfold op_rename, process_command; gyt|exact GN].
  - destruct f as [n|]; [destruct RC|].
    apply ST; [|reflexivity]. unfold op_download. cbn [gy]. apply gy_cdc; [|intros; exact I].
    intro a. cbn [gy]. intro x. apply gy_finish.
  - apply ST; [|exact GN]. unfold op_list. cbn [gy]. apply gy_cdc; [|intros; exact I]. intro a. gyt.
  - apply ST; [unfold op_disconnect, process_command; destruct g; gyt|exact GN].
Qed.

(* non-vacuity: a download of three segments cut by an error after the second read: the sink holds what was read *)
Definition bytes_script : list session :=
  let say c := mkR [RReply (mkReply c [])] [] false false true no_plan in
  let epsv := mkR [RReply (mkReply 229 [40;124;124;124;53;124;41])] [] false false true (mkDP true true [] DEof true) in
  let retr := mkR [RReply (mkReply 150 []); RReply (mkReply 226 [])] [] false false true (mkDP true true [[1;2]; [3]; [4;5;6]] DEof true) in
  [mkSess true false true (say 220) [epsv; retr]].

Example bytes_example :
  let w0 := init_world (mkConfig Passive true TBinary false false) bytes_script in
  let tr := w_trace (snd (steps w0 [AConnect [104] 21 None; ADownload [102] None None])) in
  sink_bytes (ios tr) = [1;2;3;4;5;6] /\ net_in_bytes (ios tr) = [1;2;3;4;5;6].
Proof. vm_compute. split; reflexivity. Qed.
