(* Transfer_Proofs.v - whole transfers on the protocol model: what a download / upload / listing call does from a
   session in step, in the passive modes, when the server accepts (preliminary reply, data, completion reply when the
   client closes the data connection) and when it refuses the transfer command.
   Proof style: the world is destructed to a flat record, every primitive is consumed by a one-step lemma whose
   continuation is abstract (the kernel never evaluates the rest of the program under an undecided condition),
   side conditions are closed by computation on the world term alone. *)
From Coq Require Import Lia ZifyNat ZifyN.
From LibFtp Require Import Bytes Decimal Reply Endpoint Ascii DataConn DataConn_Proofs Client Client_Proofs Login_Proofs.
Local Open Scope N_scope.

Lemma recv_loop_nocb t : forall segs p s e ev r p' s' cb', recv_loop t p s segs e None = (ev, r, p', s', cb') -> cb' = None.
Proof.
  induction segs as [|seg segs IH]; intros p s e ev r p' s' cb' H; cbn [recv_loop] in H.
  - destruct e; inversion H; reflexivity.
  - destruct (sink_write t p seg) as [o q]. destruct (sink_fails s); [inversion H; reflexivity|].
    destruct (recv_loop t q (sink_next s) segs e None) as [[[[ev1 r1] p1] s1] cb1] eqn:R.
    inversion H; subst. eapply IH; eassumption.
Qed.

Lemma data_recv_nocb t s segs e ev r cb' : data_recv t s segs e None = (ev, r, cb') -> cb' = None.
Proof.
  unfold data_recv. cbn [start_events].
  destruct (recv_loop t false s segs e None) as [[[[ev1 r1] p1] s1] cb1] eqn:R.
  pose proof (recv_loop_nocb _ _ _ _ _ _ _ _ _ _ R) as ->.
  destruct r1; try (destruct (_ && _)); intro H; inversion H; reflexivity.
Qed.


Lemma recv_loop_done_nocb t : forall segs p s ev r p' s' cb', good_sink s ->
  recv_loop t p s segs DEof None = (ev, r, p', s', cb') -> r = PDone.
Proof.
  induction segs as [|seg rest IH]; intros p s ev r p' s' cb' G R.
  - cbn in R. inversion R. reflexivity.
  - cbn [recv_loop] in R. destruct (sink_write t p seg) as [o q]. rewrite (sink_fails_good s G) in R.
    destruct (recv_loop t q (sink_next s) rest DEof None) as [[[[e2 r2] p2] s2] c2] eqn:R2.
    inversion R; subst. eapply IH; [apply good_sink_next; exact G|exact R2].
Qed.

Theorem download_completes_any_type t s segs ev r cb' : good_sink s ->
  data_recv t s segs DEof None = (ev, r, cb') -> r = PDone.
Proof.
  intros G H. unfold data_recv in H. cbn [start_events] in H.
  destruct (recv_loop t false s segs DEof None) as [[[[ev1 r1] p] s1] cb2] eqn:R.
  pose proof (recv_loop_done_nocb _ _ _ _ _ _ _ _ _ G R) as ->.
  assert (G1 : good_sink s1).
  { destruct t.
    - destruct (recv_loop_binary _ _ _ _ _ _ _ _ _ G R) as (_ & _ & _ & _ & _ & X). first [exact X | idtac].
    - destruct (recv_loop_ascii _ _ _ _ _ _ _ _ _ _ G R) as (_ & _ & X & _). exact X. }
  rewrite (sink_fails_good s1 G1), andb_false_r in H. inversion H. reflexivity.
Qed.

(* what the sink must hold after a completed download, by transfer type *)
Definition delivered (t : ttype) (payload : bytes) : bytes :=
  match t with TBinary => payload | TAscii => from_crlf payload end.

Lemma download_sink_any_type t s segs ev cb' : good_sink s ->
  data_recv t s segs DEof None = (ev, PDone, cb') -> sink_bytes ev = delivered t (concat segs).
Proof.
  intros G H. destruct t; cbn [delivered].
  - destruct (download_exact _ _ _ _ _ _ _ G H eq_refl) as (_ & SB & _). exact SB.
  - exact (download_ascii_exact _ _ _ _ _ _ _ G H eq_refl).
Qed.

(* what goes out on the data connection for a completed upload, by transfer type *)
Definition sent (t : ttype) (chunks : list bytes) : bytes :=
  match t with TBinary => concat (upto_empty chunks) | TAscii => to_crlf (concat chunks) end.

Lemma block_size_pos : (1 <= block_size)%nat.
Proof. unfold block_size. lia. Qed.

Lemma upload_net_any_type t chunks ev cb' :
  data_send t block_size chunks None = (ev, PDone, cb') -> net_out_bytes ev = sent t chunks.
Proof.
  intro H. destruct t; cbn [sent].
  - exact (upload_exact _ _ _ _ _ _ H eq_refl).
  - exact (upload_ascii_exact _ _ _ _ _ _ block_size_pos H eq_refl).
Qed.

(* ---- one-step lemmas with the continuation abstract (cheap for the kernel: no branch of the rest of the
   program is ever evaluated under an undecided condition) ---- *)
Definition answers_with (r : reaction) (x : reply) : Prop :=
  r_now r = [RReply x] /\ r_close_after r = false /\ code x <> 421.

Lemma xchg_line line k w r rest x :
  ready w -> w_cur w = r :: rest -> answers_with r x ->
  run (SendRaw line (Recv k)) w = run (k x) (after_command w line x).
Proof.
  intros (Ho & Hs & Hp & Hb) Hc (Rn & Ra & R421).
  change (run (SendRaw line (Recv k)) w) with
    (match do_send w line with Some w' => run (Recv k) w' | None => (OThrow, notify w (ORequest line)) end).
  rewrite (do_send_ready w line Ho Hs Hp).
  set (w0 := emit (notify w (ORequest line)) [EWire (w_ssl w && w_tls_up w) (w_ord w) line]).
  assert (Hc0 : w_cur w0 = r :: rest) by exact Hc.
  rewrite (recv_reply k (peer_react w0) (w_ord w) x []); [reflexivity| | |exact R421].
  - rewrite (peer_react_cons w0 r rest Hc0). exact Ho.
  - rewrite (peer_react_cons w0 r rest Hc0). cbn [w_backlog]. unfold w0. cbn [w_backlog emit set_trace notify w_ord].
    rewrite Hb, Rn. reflexivity.
Qed.

Lemma xchg verb arg k w r rest x :
  ready w -> w_cur w = r :: rest -> answers_with r x -> arg_ok arg ->
  run (process_command verb arg k) w = run (k x) (after_command w (line_of verb arg) x).
Proof.
  intros Hr Hc Hs Ha. unfold process_command, line_of. destruct arg as [a|].
  - cbn [run]. cbn in Ha. rewrite Ha.
    pose proof (xchg_line (verb ++ SP :: a) k w r rest x Hr Hc Hs) as P. cbn [run] in P. exact P.
  - rewrite app_nil_r. pose proof (xchg_line verb k w r rest x Hr Hc Hs) as P. cbn [run] in P. exact P.
Qed.

Lemma run_dnew k w : run (DNew k) w = run k (emit (set_data w (Some (mkD false false false))) [EData DNewObj]).
Proof. reflexivity. Qed.
Lemma run_dconnect ip port k w : dp_reachable (w_plan w) = true ->
  run (DConnect ip port k) w = run k (emit (set_data w (Some (mkD true false false))) [EData (DConnectTo ip port true)]).
Proof. intro H. cbn [run]. rewrite H. reflexivity. Qed.
Lemma run_pumpin k w ev r cb' :
  data_recv (c_type (w_cfg w)) (io_sink (w_io w)) (dp_segs (w_plan w)) (dp_end (w_plan w)) (io_cb (w_io w)) = (ev, r, cb') ->
  r <> PThrow ->
  run (PumpIn k) w = run (k r) (set_io (emit w (map EIo ev)) (mkIo cb' (io_sink (w_io w)) (io_chunks (w_io w)))).
Proof. intros H N. cbn [run]. rewrite H. destruct r; try reflexivity. congruence. Qed.
Lemma run_poll_none k w : io_cb (w_io w) = None -> run (Poll k) w = run (k false) w.
Proof. intro H. cbn [run]. rewrite H. reflexivity. Qed.
Lemma run_ddisconnect g k w d : w_data w = Some d -> d_ssl d = false ->
  run (DDisconnect g k) w = run k (close_data (emit w ([] ++ (if g then [EData DTcpShutdown] else [])))).
Proof. intros H S. cbn [run]. rewrite H, S. reflexivity. Qed.

Ltac flat :=
  cbn [after_command peer_react notify emit set_trace set_queues set_data set_io set_ctl set_cfg release_pending close_data tag map app
       w_cfg w_open w_ssl w_tls_up w_sess_id w_tls_clean w_peer_closed w_backlog w_pending w_script w_cur w_cur6
       w_last_tls_ok w_plan w_obs w_data w_io w_ord w_next_sess w_trace
       r_now r_on_close r_drop_pending r_close_after r_tls_ok r_data d_sock d_acc d_ssl io_cb io_sink io_chunks
       c_mode c_rfc2428 c_type c_tls c_resume orb andb negb].

Fixpoint io_ev (tr : list event) : list io_event :=
  match tr with [] => [] | EIo x :: t => x :: io_ev t | _ :: t => io_ev t end.
Fixpoint data_ev_of (tr : list event) : list data_ev :=
  match tr with [] => [] | EData x :: t => x :: data_ev_of t | _ :: t => data_ev_of t end.
Lemma io_events_fix tr : io_events tr = io_ev tr.
Proof. induction tr as [|e tr IH]; [reflexivity|]. unfold io_events in *. cbn [map concat]. rewrite IH. destruct e; reflexivity. Qed.
Lemma data_events_fix tr : data_events tr = data_ev_of tr.
Proof. induction tr as [|e tr IH]; [reflexivity|]. unfold data_events in *. cbn [map concat]. rewrite IH. destruct e; reflexivity. Qed.
Lemma io_ev_app a b : io_ev (a ++ b) = io_ev a ++ io_ev b.
Proof. rewrite <- !io_events_fix. apply io_events_app. Qed.
Lemma data_ev_app a b : data_ev_of (a ++ b) = data_ev_of a ++ data_ev_of b.
Proof. rewrite <- !data_events_fix. apply data_events_app. Qed.
Lemma we_obs l e : wire_events (map (fun o => EObs o e) l) = [].
Proof. induction l; [reflexivity|exact IHl]. Qed.
Lemma ie_obs l e : io_ev (map (fun o => EObs o e) l) = [].
Proof. induction l; [reflexivity|exact IHl]. Qed.
Lemma de_obs l e : data_ev_of (map (fun o => EObs o e) l) = [].
Proof. induction l; [reflexivity|exact IHl]. Qed.
Lemma we_io l : wire_events (map EIo l) = [].
Proof. induction l; [reflexivity|exact IHl]. Qed.
Lemma de_io l : data_ev_of (map EIo l) = [].
Proof. induction l; [reflexivity|exact IHl]. Qed.
Lemma ie_io l : io_ev (map EIo l) = l.
Proof. induction l as [|a l IH]; [reflexivity|]. cbn [map io_ev]. rewrite IH. reflexivity. Qed.
Lemma skipn_app_len {A} (a b : list A) : skipn (length a) (a ++ b) = b.
Proof. rewrite skipn_app, skipn_all, Nat.sub_diag. reflexivity. Qed.

Fixpoint obs_events (tr : list event) : list (nat * obs_ev) :=
  match tr with [] => [] | EObs o e :: t => (o, e) :: obs_events t | _ :: t => obs_events t end.
Lemma oe_app a b : obs_events (a ++ b) = obs_events a ++ obs_events b.
Proof. induction a as [|e a IH]; [reflexivity|]. cbn [app obs_events]. destruct e; rewrite ?IH; reflexivity. Qed.
Lemma oe_obs l e : obs_events (map (fun o => EObs o e) l) = map (fun o => (o, e)) l.
Proof. induction l as [|a l IH]; [reflexivity|]. cbn [map obs_events]. rewrite IH. reflexivity. Qed.
Lemma oe_io l : obs_events (map EIo l) = [].
Proof. induction l; [reflexivity|exact IHl]. Qed.
Definition told (obs : list nat) (e : obs_ev) : list (nat * obs_ev) := map (fun o => (o, e)) obs.

Ltac norm_events :=
  repeat (progress (rewrite ?wire_events_app, ?io_ev_app, ?data_ev_app, ?oe_app, ?we_obs, ?ie_obs, ?de_obs, ?oe_obs, ?we_io, ?de_io, ?ie_io, ?oe_io;
                    cbn [wire_events io_ev data_ev_of obs_events app])).


Lemma Hdp : forall b1 b2 (z : list (nat * ritem)), (if b2 : bool then [] else (if b1 : bool then [] else []) ++ []) ++ z = z.
Proof. intros [] [] z; reflexivity. Qed.


Lemma send_loop_nocb : forall blocks ev r cb', send_loop blocks None = (ev, r, cb') -> cb' = None.
Proof.
  induction blocks as [|b rest IH]; intros ev r cb' H; cbn [send_loop] in H.
  - inversion H; reflexivity.
  - destruct (send_loop rest None) as [[ev1 r1] cb1] eqn:R. pose proof (IH _ _ _ eq_refl) as E. inversion H; subst. reflexivity.
Qed.
Lemma data_send_nocb t blk chunks ev r cb' : data_send t blk chunks None = (ev, r, cb') -> cb' = None.
Proof.
  unfold data_send. cbn [start_events].
  destruct (send_loop (upload_blocks t blk chunks) None) as [[ev1 r1] cb1] eqn:R.
  pose proof (send_loop_nocb _ _ _ _ R) as ->. intro H. inversion H. reflexivity.
Qed.

Lemma run_pumpout k w ev r cb' :
  data_send (c_type (w_cfg w)) block_size (io_chunks (w_io w)) (io_cb (w_io w)) = (ev, r, cb') -> r <> PThrow ->
  run (PumpOut k) w = run (k r) (set_io (emit w (map EIo ev)) (mkIo cb' (io_sink (w_io w)) (io_chunks (w_io w)))).
Proof. intros H N. cbn [run]. rewrite H. destruct r; try reflexivity. congruence. Qed.
Lemma run_pumpinlist k w ev r cb' :
  data_recv (c_type (w_cfg w)) (mkSink None O) (dp_segs (w_plan w)) (dp_end (w_plan w)) None = (ev, r, cb') -> r <> PThrow ->
  run (PumpInList k) w = run (k (sink_bytes ev)) (emit w (map EIo ev)).
Proof. intros H N. cbn [run]. rewrite H. destruct r; try reflexivity. congruence. Qed.
Lemma run_notify e k w : run (Notify e k) w = run k (notify w e).
Proof. reflexivity. Qed.

(* ---- the passive set-up step ---- *)
Definition setup_line (cfg : config) : bytes := if c_rfc2428 cfg then EPSV_ else PASV_.
(* the positive reply to EPSV / PASV names the endpoint [ip]:[port] ([ip] = None: the address of the control peer) *)
Definition passive_target (cfg : config) (x1 : reply) (ip : option bytes) (port : N) : Prop :=
  if c_rfc2428 cfg then try_parse_epsv_reply (text x1) = Some port /\ ip = None
  else exists a, try_parse_pasv_reply (text x1) = Some (a, port) /\ ip = Some a.

(* the reaction to an accepted transfer command: a preliminary reply at once, the completion reply when the client
   closes the data connection *)
Definition accepts_transfer (r2 : reaction) (x2 x3 : reply) : Prop :=
  r_now r2 = [RReply x2] /\ r_on_close r2 = [RReply x3] /\ r_close_after r2 = false /\
  is_negative x2 = false /\ code x2 <> 421 /\ code x3 <> 421.

Ltac t_intro :=
  match goal with |- forall (w : world), _ => idtac end.

(* common opening: destruct the world and the two reactions, run the set-up exchange and open the data connection *)
Ltac open_passive w r1 r2 Hs Hpath N1 Reach :=
  unfold create_data_connection; rewrite run_getcfg; flat.

(* C02 / C03 / C07 / C17 on a whole binary download in the passive modes: from a session in step, with a server that
   answers EPSV / PASV positively (naming a reachable endpoint), accepts RETR and sends the completion reply when the
   client has closed the data connection, for every payload and segmentation: the call returns exactly the three
   replies generated for its two commands, the sink receives exactly the payload, the command lines are the set-up
   command and RETR path, one data connection is made to the parsed endpoint and closed, no data socket is left, and
   the session is in step again *)
Theorem download_passive_complete w path r1 r2 rest x1 x2 x3 ip port :
  insync w (r1 :: r2 :: rest) -> w_data w = None ->
  c_mode (w_cfg w) = Passive -> c_tls (w_cfg w) = false ->
  has_crlf path = false ->
  simple_reaction r1 x1 -> is_negative x1 = false -> passive_target (w_cfg w) x1 ip port ->
  dp_reachable (r_data r1) = true ->
  accepts_transfer r2 x2 x3 -> dp_end (r_data r2) = DEof ->
  exists w', step w (ADownload path None None) = (OReturn (RvReplies [x1; x2; x3]), w') /\
    insync w' rest /\ w_data w' = None /\ w_cfg w' = w_cfg w /\
    sink_bytes (io_events (skipn (length (w_trace w)) (w_trace w'))) = delivered (c_type (w_cfg w)) (concat (dp_segs (r_data r2))) /\
    wire_events (skipn (length (w_trace w)) (w_trace w')) =
      [WLine (setup_line (w_cfg w)); WReply x1; WLine (RETR_ ++ SP :: path); WReply x2; WReply x3] /\
    data_events (skipn (length (w_trace w)) (w_trace w')) =
      [DNewObj; DConnectTo ip port true; DTcpShutdown; DClose].
Proof.
  intros ((Ho & Hs & Hpc & Hb) & Hp & Hc) Hd Hm Htls Hpath (R1n & R1c & R1a & R1x) N1 Tgt Reach
         (R2n & R2c & R2a & N2 & X2 & X3) End.
  destruct w as [cfg f2 f3 f4 f5 f6 f7 f8 f9 f10 f11 f12 f13 f14 f15 f16 f17 f18 f19 f20].
  destruct cfg as [cm crfc cty ctls cres].
  cbn in Ho, Hs, Hpc, Hb, Hp, Hc, Hd, Hm, Htls, Tgt. subst.
  destruct r1 as [n1 oc1 dp1 ca1 tl1 d1]. destruct r2 as [n2 oc2 dp2 ca2 tl2 d2].
  cbn in R1n, R1c, R1a, Reach, R2n, R2c, R2a, End. subst.
  destruct (data_recv cty (mkSink None O) (dp_segs d2) DEof None) as [[ev r] cb'] eqn:DR.
  pose proof (data_recv_nocb _ _ _ _ _ _ _ DR) as ->.
  pose proof (download_completes_any_type _ _ _ _ _ _ (eq_refl : good_sink (mkSink None O)) DR) as ->.
  pose proof (download_sink_any_type _ _ _ _ _ (eq_refl : good_sink (mkSink None O)) DR) as SB.
  rewrite step_download_unfold. unfold op_download.
  rewrite run_checkarg, Hpath, run_scope.
  unfold create_data_connection. rewrite run_getcfg. flat.
  destruct crfc; cbn [setup_line c_rfc2428].
  - destruct Tgt as (P1 & ->).
    erewrite (xchg EPSV_ None _ _ _ _ x1); [| repeat split; auto | reflexivity | repeat split; auto | exact I].
    cbv beta. rewrite N1, P1. cbv beta iota.
    rewrite run_dnew. rewrite run_dconnect by exact Reach.
    erewrite (xchg RETR_ (Some path) _ _ _ _ x2); [| repeat split; auto | reflexivity | repeat split; auto | exact Hpath].
    cbv beta. rewrite N2. cbv beta iota.
    rewrite (run_pumpin _ _ ev PDone None); [| cbn; rewrite End; exact DR | discriminate].
    unfold finish_transfer. rewrite run_poll_none by reflexivity.
    rewrite (run_ddisconnect true _ _ (mkD true false false)) by reflexivity.
    rewrite (recv_reply _ _ (S f18) x3 []); [| reflexivity | cbn; rewrite !Hdp; reflexivity | exact X3].
    rewrite run_ret.
    eexists. split; [reflexivity|].
    split. { unfold insync, ready. cbn. rewrite Hs. auto. }
    split; [reflexivity|]. split; [reflexivity|].
    rewrite io_events_fix, data_events_fix.
    Opaque io_ev data_ev_of wire_events skipn.
    cbn.
    Transparent io_ev data_ev_of wire_events skipn.
    rewrite <- !app_assoc, !skipn_app_len. norm_events. rewrite ?app_nil_r. auto.
  - destruct Tgt as (a & P1 & ->).
    erewrite (xchg PASV_ None _ _ _ _ x1); [| repeat split; auto | reflexivity | repeat split; auto | exact I].
    cbv beta. rewrite N1, P1. cbv beta iota.
    rewrite run_dnew. rewrite run_dconnect by exact Reach.
    erewrite (xchg RETR_ (Some path) _ _ _ _ x2); [| repeat split; auto | reflexivity | repeat split; auto | exact Hpath].
    cbv beta. rewrite N2. cbv beta iota.
    rewrite (run_pumpin _ _ ev PDone None); [| cbn; rewrite End; exact DR | discriminate].
    unfold finish_transfer. rewrite run_poll_none by reflexivity.
    rewrite (run_ddisconnect true _ _ (mkD true false false)) by reflexivity.
    rewrite (recv_reply _ _ (S f18) x3 []); [| reflexivity | cbn; rewrite !Hdp; reflexivity | exact X3].
    rewrite run_ret.
    eexists. split; [reflexivity|].
    split. { unfold insync, ready. cbn. rewrite Hs. auto. }
    split; [reflexivity|]. split; [reflexivity|].
    rewrite io_events_fix, data_events_fix.
    Opaque io_ev data_ev_of wire_events skipn.
    cbn.
    Transparent io_ev data_ev_of wire_events skipn.
    rewrite <- !app_assoc, !skipn_app_len. norm_events. rewrite ?app_nil_r. auto.
Qed.

Ltac trace_facts :=
  rewrite ?io_events_fix, ?data_events_fix;
  cbn [w_trace after_command peer_react notify emit set_trace set_queues set_data set_io set_ctl set_cfg release_pending close_data tag map app
       w_cfg w_open w_ssl w_tls_up w_sess_id w_tls_clean w_peer_closed w_backlog w_pending w_script w_cur w_cur6
       w_last_tls_ok w_plan w_obs w_data w_io w_ord w_next_sess length
       r_now r_on_close r_drop_pending r_close_after r_tls_ok r_data d_sock d_acc d_ssl io_cb io_sink io_chunks
       c_mode c_rfc2428 c_type c_tls c_resume orb andb negb line_of];
  rewrite <- ?app_assoc, ?skipn_app_len; norm_events; rewrite ?app_nil_r.

(* the same for an upload (STOR / STOU / APPE), binary type: the bytes written on the data connection are exactly
   the source's, end of file is signalled (the data connection is closed) BEFORE the completion reply is awaited *)
Theorem upload_passive_complete w u path chunks r1 r2 rest x1 x2 x3 ip port :
  insync w (r1 :: r2 :: rest) -> w_data w = None ->
  c_mode (w_cfg w) = Passive -> c_tls (w_cfg w) = false ->
  has_crlf path = false ->
  simple_reaction r1 x1 -> is_negative x1 = false -> passive_target (w_cfg w) x1 ip port ->
  dp_reachable (r_data r1) = true ->
  accepts_transfer r2 x2 x3 ->
  exists w', step w (AUpload u path chunks None) = (OReturn (RvReplies [x1; x2; x3]), w') /\
    insync w' rest /\ w_data w' = None /\ w_cfg w' = w_cfg w /\
    net_out_bytes (io_events (skipn (length (w_trace w)) (w_trace w'))) = sent (c_type (w_cfg w)) chunks /\
    wire_events (skipn (length (w_trace w)) (w_trace w')) =
      [WLine (setup_line (w_cfg w)); WReply x1; WLine (upverb_bytes u ++ SP :: path); WReply x2; WReply x3] /\
    data_events (skipn (length (w_trace w)) (w_trace w')) =
      [DNewObj; DConnectTo ip port true; DTcpShutdown; DClose].
Proof.
  intros ((Ho & Hs & Hpc & Hb) & Hp & Hc) Hd Hm Htls Hpath (R1n & R1c & R1a & R1x) N1 Tgt Reach
         (R2n & R2c & R2a & N2 & X2 & X3).
  destruct w as [cfg f2 f3 f4 f5 f6 f7 f8 f9 f10 f11 f12 f13 f14 f15 f16 f17 f18 f19 f20].
  destruct cfg as [cm crfc cty ctls cres].
  cbn in Ho, Hs, Hpc, Hb, Hp, Hc, Hd, Hm, Htls, Tgt. subst.
  destruct r1 as [n1 oc1 dp1 ca1 tl1 d1]. destruct r2 as [n2 oc2 dp2 ca2 tl2 d2].
  cbn in R1n, R1c, R1a, Reach, R2n, R2c, R2a. subst.
  destruct (data_send cty block_size chunks None) as [[ev r] cb'] eqn:DS.
  pose proof (data_send_nocb _ _ _ _ _ _ DS) as ->.
  pose proof (upload_completes_without_callback _ _ _ _ _ _ DS) as ->.
  pose proof (upload_net_any_type _ _ _ _ DS) as NB.
  rewrite step_upload_unfold. unfold op_upload.
  rewrite run_checkarg, Hpath, run_scope.
  unfold create_data_connection. rewrite run_getcfg. flat.
  destruct crfc; cbn [setup_line c_rfc2428].
  - destruct Tgt as (P1 & ->).
    erewrite (xchg EPSV_ None _ _ _ _ x1); [| repeat split; auto | reflexivity | repeat split; auto | exact I].
    cbv beta. rewrite N1, P1. cbv beta iota.
    rewrite run_dnew. rewrite run_dconnect by exact Reach.
    erewrite (xchg (upverb_bytes u) (Some path) _ _ _ _ x2); [| repeat split; auto | reflexivity | repeat split; auto | exact Hpath].
    cbv beta. rewrite N2. cbv beta iota.
    rewrite (run_pumpout _ _ ev PDone None); [| exact DS | discriminate].
    unfold finish_transfer. rewrite run_poll_none by reflexivity.
    rewrite (run_ddisconnect true _ _ (mkD true false false)) by reflexivity.
    rewrite (recv_reply _ _ (S f18) x3 []); [| reflexivity | cbn; rewrite !Hdp; reflexivity | exact X3].
    rewrite run_ret.
    eexists. split; [reflexivity|].
    split. { unfold insync, ready. cbn. rewrite Hs. auto. }
    split; [reflexivity|]. split; [reflexivity|].
    trace_facts. auto.
  - destruct Tgt as (a & P1 & ->).
    erewrite (xchg PASV_ None _ _ _ _ x1); [| repeat split; auto | reflexivity | repeat split; auto | exact I].
    cbv beta. rewrite N1, P1. cbv beta iota.
    rewrite run_dnew. rewrite run_dconnect by exact Reach.
    erewrite (xchg (upverb_bytes u) (Some path) _ _ _ _ x2); [| repeat split; auto | reflexivity | repeat split; auto | exact Hpath].
    cbv beta. rewrite N2. cbv beta iota.
    rewrite (run_pumpout _ _ ev PDone None); [| exact DS | discriminate].
    unfold finish_transfer. rewrite run_poll_none by reflexivity.
    rewrite (run_ddisconnect true _ _ (mkD true false false)) by reflexivity.
    rewrite (recv_reply _ _ (S f18) x3 []); [| reflexivity | cbn; rewrite !Hdp; reflexivity | exact X3].
    rewrite run_ret.
    eexists. split; [reflexivity|].
    split. { unfold insync, ready. cbn. rewrite Hs. auto. }
    split; [reflexivity|]. split; [reflexivity|].
    trace_facts. auto.
Qed.

(* C07: the transfer command itself (RETR / STOR / STOU / APPE / LIST / NLST) refused with 4xx / 5xx in the passive
   modes, for every continuation [k_ok] (download, upload, listing): the call returns the two replies received,
   nothing is handed to the sink, read from the source or told to the callback, the data connection that had been
   opened is closed, no socket is left, and the session is in step *)
Theorem refused_at_transfer_command_passive w verb path io k_ok r1 r2 rest x1 x2 ip port :
  insync w (r1 :: r2 :: rest) -> w_data w = None ->
  c_mode (w_cfg w) = Passive -> has_crlf path = false ->
  simple_reaction r1 x1 -> is_negative x1 = false -> passive_target (w_cfg w) x1 ip port ->
  dp_reachable (r_data r1) = true ->
  simple_reaction r2 x2 -> is_negative x2 = true ->
  exists w',
    run (CheckArg path (Scope (create_data_connection verb (Some path) [] k_ok (fun acc => Ret (RvReplies acc))))) (set_io w io)
      = (OReturn (RvReplies [x1; x2]), w') /\
    insync w' rest /\ w_data w' = None /\ w_cfg w' = w_cfg w /\
    io_events (skipn (length (w_trace w)) (w_trace w')) = [] /\
    wire_events (skipn (length (w_trace w)) (w_trace w')) =
      [WLine (setup_line (w_cfg w)); WReply x1; WLine (verb ++ SP :: path); WReply x2] /\
    data_events (skipn (length (w_trace w)) (w_trace w')) =
      [DNewObj; DConnectTo ip port true; DTcpShutdown; DClose].
Proof.
  intros ((Ho & Hs & Hpc & Hb) & Hp & Hc) Hd Hm Hpath (R1n & R1c & R1a & R1x) N1 Tgt Reach
         (R2n & R2c & R2a & X2) N2.
  destruct w as [cfg f2 f3 f4 f5 f6 f7 f8 f9 f10 f11 f12 f13 f14 f15 f16 f17 f18 f19 f20].
  destruct cfg as [cm crfc cty ctls cres].
  cbn in Ho, Hs, Hpc, Hb, Hp, Hc, Hd, Hm, Tgt. subst.
  destruct r1 as [n1 oc1 dp1 ca1 tl1 d1]. destruct r2 as [n2 oc2 dp2 ca2 tl2 d2].
  cbn in R1n, R1c, R1a, Reach, R2n, R2c, R2a. subst.
  rewrite run_checkarg, Hpath, run_scope.
  unfold create_data_connection. rewrite run_getcfg. flat.
  destruct crfc; cbn [setup_line c_rfc2428].
  - destruct Tgt as (P1 & ->).
    erewrite (xchg EPSV_ None _ _ _ _ x1); [| repeat split; auto | reflexivity | repeat split; auto | exact I].
    cbv beta. rewrite N1, P1. cbv beta iota.
    rewrite run_dnew. rewrite run_dconnect by exact Reach.
    erewrite (xchg verb (Some path) _ _ _ _ x2); [| repeat split; auto | reflexivity | repeat split; auto | exact Hpath].
    cbv beta. rewrite N2. cbv beta iota.
    rewrite (run_ddisconnect true _ _ (mkD true false false)) by reflexivity.
    rewrite run_ret.
    eexists. split; [reflexivity|].
    split. { unfold insync, ready. cbn. rewrite !Hdp, Hs. auto. }
    split; [reflexivity|]. split; [reflexivity|].
    trace_facts. auto.
  - destruct Tgt as (a & P1 & ->).
    erewrite (xchg PASV_ None _ _ _ _ x1); [| repeat split; auto | reflexivity | repeat split; auto | exact I].
    cbv beta. rewrite N1, P1. cbv beta iota.
    rewrite run_dnew. rewrite run_dconnect by exact Reach.
    erewrite (xchg verb (Some path) _ _ _ _ x2); [| repeat split; auto | reflexivity | repeat split; auto | exact Hpath].
    cbv beta. rewrite N2. cbv beta iota.
    rewrite (run_ddisconnect true _ _ (mkD true false false)) by reflexivity.
    rewrite run_ret.
    eexists. split; [reflexivity|].
    split. { unfold insync, ready. cbn. rewrite !Hdp, Hs. auto. }
    split; [reflexivity|]. split; [reflexivity|].
    trace_facts. auto.
Qed.

Lemma step_list_unfold w path names : step w (AList path names) = run (op_list path names) (set_io w no_io).
Proof. reflexivity. Qed.


(* a listing (LIST / NLST), passive modes: the text returned is exactly what the data connection delivered, the
   replies are exactly the three generated, and every observer is told the listing text after the preliminary and
   before the completion reply (C14) *)
Theorem list_passive_complete w path names r1 r2 rest x1 x2 x3 ip port :
  insync w (r1 :: r2 :: rest) -> w_data w = None ->
  c_mode (w_cfg w) = Passive -> c_tls (w_cfg w) = false ->
  arg_ok path ->
  simple_reaction r1 x1 -> is_negative x1 = false -> passive_target (w_cfg w) x1 ip port ->
  dp_reachable (r_data r1) = true ->
  accepts_transfer r2 x2 x3 -> dp_end (r_data r2) = DEof ->
  exists w', step w (AList path names) = (OReturn (RvList [x1; x2; x3] (delivered (c_type (w_cfg w)) (concat (dp_segs (r_data r2))))), w') /\
    insync w' rest /\ w_data w' = None /\ w_cfg w' = w_cfg w /\
    wire_events (skipn (length (w_trace w)) (w_trace w')) =
      [WLine (setup_line (w_cfg w)); WReply x1; WLine (line_of (if names then NLST_ else LIST_) path); WReply x2; WReply x3] /\
    data_events (skipn (length (w_trace w)) (w_trace w')) =
      [DNewObj; DConnectTo ip port true; DTcpShutdown; DClose] /\
    obs_events (skipn (length (w_trace w)) (w_trace w')) =
      told (w_obs w) (ORequest (setup_line (w_cfg w))) ++ told (w_obs w) (OReply x1) ++
      told (w_obs w) (ORequest (line_of (if names then NLST_ else LIST_) path)) ++ told (w_obs w) (OReply x2) ++
      told (w_obs w) (OFileList (delivered (c_type (w_cfg w)) (concat (dp_segs (r_data r2))))) ++ told (w_obs w) (OReply x3).
Proof.
  intros ((Ho & Hs & Hpc & Hb) & Hp & Hc) Hd Hm Htls Hpath (R1n & R1c & R1a & R1x) N1 Tgt Reach
         (R2n & R2c & R2a & N2 & X2 & X3) End.
  destruct w as [cfg f2 f3 f4 f5 f6 f7 f8 f9 f10 f11 f12 f13 f14 f15 f16 f17 f18 f19 f20].
  destruct cfg as [cm crfc cty ctls cres].
  cbn in Ho, Hs, Hpc, Hb, Hp, Hc, Hd, Hm, Htls, Tgt. subst.
  destruct r1 as [n1 oc1 dp1 ca1 tl1 d1]. destruct r2 as [n2 oc2 dp2 ca2 tl2 d2].
  cbn in R1n, R1c, R1a, Reach, R2n, R2c, R2a, End. subst.
  destruct (data_recv cty (mkSink None O) (dp_segs d2) DEof None) as [[ev r] cb'] eqn:DR.
  pose proof (download_completes_any_type _ _ _ _ _ _ (eq_refl : good_sink (mkSink None O)) DR) as ->.
  pose proof (download_sink_any_type _ _ _ _ _ (eq_refl : good_sink (mkSink None O)) DR) as SB.
  rewrite step_list_unfold. unfold op_list.
  assert (Hcheck : has_crlf (match path with Some p => p | None => [] end) = false).
  { destruct path as [p|]; [exact Hpath|reflexivity]. }
  rewrite run_checkarg, Hcheck, run_scope.
  unfold create_data_connection. rewrite run_getcfg. flat.
  destruct crfc; cbn [setup_line c_rfc2428].
  - destruct Tgt as (P1 & ->).
    erewrite (xchg EPSV_ None _ _ _ _ x1); [| repeat split; auto | reflexivity | repeat split; auto | exact I].
    cbv beta. rewrite N1, P1. cbv beta iota.
    rewrite run_dnew. rewrite run_dconnect by exact Reach.
    erewrite (xchg (if names then NLST_ else LIST_) path _ _ _ _ x2); [| repeat split; auto | reflexivity | repeat split; auto | exact Hpath].
    cbv beta. rewrite N2. cbv beta iota.
    rewrite (run_pumpinlist _ _ ev PDone cb'); [| cbn; rewrite End; exact DR | discriminate].
    rewrite run_notify.
    rewrite (run_ddisconnect true _ _ (mkD true false false)) by reflexivity.
    rewrite (recv_reply _ _ (S f18) x3 []); [| reflexivity | cbn; rewrite !Hdp; reflexivity | exact X3].
    rewrite run_ret, SB.
    eexists. split; [reflexivity|].
    split. { unfold insync, ready. cbn. rewrite Hs. auto. }
    split; [reflexivity|]. split; [reflexivity|].
    trace_facts. auto.
  - destruct Tgt as (a & P1 & ->).
    erewrite (xchg PASV_ None _ _ _ _ x1); [| repeat split; auto | reflexivity | repeat split; auto | exact I].
    cbv beta. rewrite N1, P1. cbv beta iota.
    rewrite run_dnew. rewrite run_dconnect by exact Reach.
    erewrite (xchg (if names then NLST_ else LIST_) path _ _ _ _ x2); [| repeat split; auto | reflexivity | repeat split; auto | exact Hpath].
    cbv beta. rewrite N2. cbv beta iota.
    rewrite (run_pumpinlist _ _ ev PDone cb'); [| cbn; rewrite End; exact DR | discriminate].
    rewrite run_notify.
    rewrite (run_ddisconnect true _ _ (mkD true false false)) by reflexivity.
    rewrite (recv_reply _ _ (S f18) x3 []); [| reflexivity | cbn; rewrite !Hdp; reflexivity | exact X3].
    rewrite run_ret, SB.
    eexists. split; [reflexivity|].
    split. { unfold insync, ready. cbn. rewrite Hs. auto. }
    split; [reflexivity|]. split; [reflexivity|].
    trace_facts. auto.
Qed.
