(* Bytes.v - bytes are N, byte strings are lists; std::string / string_view helpers. *)
From Coq Require Export List Arith NArith Bool Lia.
Export ListNotations.
Local Open Scope N_scope.

Definition byte := N.
Definition bytes := list N.

Definition CR : N := 13.
Definition LF : N := 10.
Definition SP : N := 32.
Definition DASH : N := 45.
Definition DOT : N := 46.
Definition COMMA : N := 44.
Definition LPAR : N := 40.
Definition RPAR : N := 41.
Definition BAR : N := 124.

(* std::string_view::substr(pos, n) for pos <= size (the callers guarantee it) *)
Definition substr (s : bytes) (pos n : nat) : bytes := firstn n (skipn pos s).
Definition substr_from (s : bytes) (pos : nat) : bytes := skipn pos s.

Fixpoint bytes_eqb (a b : bytes) : bool :=
  match a, b with
  | [], [] => true
  | x :: a', y :: b' => (x =? y) && bytes_eqb a' b'
  | _, _ => false
  end.

Lemma bytes_eqb_eq a b : bytes_eqb a b = true <-> a = b.
Proof.
  revert b; induction a as [|x a IH]; intros [|y b]; cbn; split; intro H;
    try congruence; try reflexivity.
  - apply andb_true_iff in H as [H1 H2]. apply N.eqb_eq in H1. apply IH in H2. congruence.
  - inversion H; subst. rewrite N.eqb_refl. cbn. apply IH. reflexivity.
Qed.

Lemma bytes_eqb_refl a : bytes_eqb a a = true.
Proof. apply bytes_eqb_eq. reflexivity. Qed.

(* position of the first / last occurrence of a byte (std::string_view::find / rfind) *)
Fixpoint find_first (c : N) (s : bytes) : option nat :=
  match s with
  | [] => None
  | x :: s' => if x =? c then Some O else option_map S (find_first c s')
  end.

Fixpoint find_last (c : N) (s : bytes) : option nat :=
  match s with
  | [] => None
  | x :: s' =>
      match find_last c s' with
      | Some i => Some (S i)
      | None => if x =? c then Some O else None
      end
  end.

Definition mem (c : N) (s : bytes) : bool := existsb (N.eqb c) s.

Lemma find_first_spec c s i :
  find_first c s = Some i ->
  exists pre suf, s = pre ++ c :: suf /\ length pre = i /\ mem c pre = false.
Proof.
  revert i; induction s as [|x s IH]; cbn; intros i H; [discriminate|].
  destruct (x =? c) eqn:E.
  - inversion H; subst. apply N.eqb_eq in E; subst. exists [], s. auto.
  - destruct (find_first c s) as [j|] eqn:F; cbn in H; [|discriminate].
    inversion H; subst. destruct (IH j eq_refl) as (pre & suf & -> & <- & Hm).
    exists (x :: pre), suf. cbn. rewrite N.eqb_sym, E. auto.
Qed.

Lemma find_first_none c s : find_first c s = None -> mem c s = false.
Proof.
  induction s as [|x s IH]; cbn; [reflexivity|].
  destruct (x =? c) eqn:E; [discriminate|].
  destruct (find_first c s); cbn; [discriminate|]. intros _.
  rewrite N.eqb_sym, E. cbn. apply IH. reflexivity.
Qed.

Lemma find_first_app_notin c pre suf :
  mem c pre = false -> find_first c (pre ++ c :: suf) = Some (length pre).
Proof.
  induction pre as [|x pre IH]; cbn; intro H.
  - rewrite N.eqb_refl. reflexivity.
  - apply orb_false_iff in H as [H1 H2]. rewrite N.eqb_sym, H1, (IH H2). reflexivity.
Qed.

Lemma find_last_spec c s i :
  find_last c s = Some i ->
  exists pre suf, s = pre ++ c :: suf /\ length pre = i /\ mem c suf = false.
Proof.
  revert i; induction s as [|x s IH]; cbn; intros i H; [discriminate|].
  destruct (find_last c s) as [j|] eqn:F.
  - inversion H; subst. destruct (IH j eq_refl) as (pre & suf & -> & <- & Hm).
    exists (x :: pre), suf. auto.
  - destruct (x =? c) eqn:E; [|discriminate]. inversion H; subst.
    apply N.eqb_eq in E; subst. exists [], s. repeat split.
    clear IH H. induction s as [|y s IH]; cbn in *; [reflexivity|].
    destruct (find_last c s); [discriminate|].
    destruct (y =? c) eqn:E; [discriminate|]. rewrite N.eqb_sym, E. cbn. auto.
Qed.

Lemma find_last_none c s : find_last c s = None -> mem c s = false.
Proof.
  induction s as [|x s IH]; cbn; [reflexivity|].
  destruct (find_last c s); [discriminate|].
  destruct (x =? c) eqn:E; [discriminate|]. intros _.
  rewrite N.eqb_sym, E. cbn. auto.
Qed.

Lemma find_last_app_notin c pre suf :
  mem c suf = false -> find_last c (pre ++ c :: suf) = Some (length pre).
Proof.
  intro H. assert (F : find_last c (c :: suf) = Some O).
  { cbn. destruct (find_last c suf) eqn:E.
    - apply find_last_spec in E as (p & q & -> & _ & _).
      unfold mem in H. rewrite existsb_app in H. cbn in H.
      rewrite N.eqb_refl, orb_true_r in H. discriminate.
    - rewrite N.eqb_refl. reflexivity. }
  induction pre as [|x pre IH]; [exact F|].
  cbn [app find_last length]. rewrite IH. reflexivity.
Qed.

Lemma mem_app c a b : mem c (a ++ b) = mem c a || mem c b.
Proof. apply existsb_app. Qed.

(* join with a separator string *)
Fixpoint join (sep : bytes) (l : list bytes) : bytes :=
  match l with
  | [] => []
  | [x] => x
  | x :: l' => x ++ sep ++ join sep l'
  end.
