(* C04 - binary upload transmits exactly the source bytes, then signals end-of-file.
   Part 1 (here): the loop of data_connection::send. Part 2: the order "close the data connection, then wait for
   the completion reply" is a property of the protocol programs (finish_transfer in Client.v), stated below. *)
From LibFtp Require Import Bytes Reply Endpoint Ascii DataConn DataConn_Proofs Client Client_Proofs Login_Proofs Transfer_Proofs Transfer_More.
Local Open Scope N_scope.

(* whatever chunks the source hands out (any pattern of short reads), an upload that runs to its end writes exactly the
   concatenation of what came before the first empty read: the loop never asks the source again after it *)
Theorem C04_upload_exact : forall blk chunks cb ev r cb',
  data_send TBinary blk chunks cb = (ev, r, cb') -> r = PDone -> net_out_bytes ev = concat (upto_empty chunks).
Proof. exact upload_exact. Qed.
Print Assumptions C04_upload_exact.

Theorem C04_upload_completes : forall t blk chunks ev r cb',
  data_send t blk chunks None = (ev, r, cb') -> r = PDone.
Proof. exact upload_completes_without_callback. Qed.
Print Assumptions C04_upload_completes.

(* the program that ends every transfer: when not cancelled, the data connection is closed gracefully
   (TLS close-notify, TCP shutdown, close) BEFORE the completion reply is awaited *)
Theorem C04_eof_before_completion : forall acc,
  finish_transfer acc =
  Poll (fun cancelled =>
    if cancelled then process_abort acc (fun acc' => DDisconnect false (Ret (RvReplies acc')))
    else DDisconnect true (Recv (fun r => Ret (RvReplies (acc ++ [r]))))).
Proof. reflexivity. Qed.
Print Assumptions C04_eof_before_completion.


(* end to end on the protocol model (passive modes, binary type, STOR / STOU / APPE): the bytes written on the data
   connection are exactly the source's; the data connection is closed (end of file for the server) before the
   completion reply is read - that reply is only written by the peer when it has seen the close *)
Theorem C04_upload_end_to_end : forall w u path chunks r1 r2 rest x1 x2 x3 ip port,
  insync w (r1 :: r2 :: rest) -> w_data w = None ->
  c_mode (w_cfg w) = Passive -> c_tls (w_cfg w) = false ->
  has_crlf path = false ->
  simple_reaction r1 x1 -> is_negative x1 = false -> passive_target (w_cfg w) x1 ip port ->
  dp_reachable (r_data r1) = true ->
  accepts_transfer r2 x2 x3 ->
  exists w', step w (AUpload u path chunks None) = (OReturn (RvReplies [x1; x2; x3]), w') /\
    insync w' rest /\ w_data w' = None /\ w_cfg w' = w_cfg w /\
    net_out_bytes (io_events (skipn (length (w_trace w)) (w_trace w'))) = sent (c_type (w_cfg w)) chunks /\
    wire_events (skipn (length (w_trace w)) (w_trace w')) =
      [WLine (setup_line (w_cfg w)); WReply x1; WLine (upverb_bytes u ++ SP :: path); WReply x2; WReply x3] /\
    data_events (skipn (length (w_trace w)) (w_trace w')) =
      [DNewObj; DConnectTo ip port true; DTcpShutdown; DClose].
Proof. exact upload_passive_complete. Qed.
Print Assumptions C04_upload_end_to_end.

Example C04_example :
  let '(ev, r, _) := data_send TBinary 4 [[1]; [2;3]; [4;5;6]] None in net_out_bytes ev = [1;2;3;4;5;6] /\ r = PDone.
Proof. vm_compute. auto. Qed.

(* the whole upload over TLS (passive modes): the data connection is wrapped after the transfer command was accepted, the source bytes go out, close-notify and close come before the completion reply is read *)
Theorem C04_upload_over_tls : forall w u path chunks r1 r2 rest x1 x2 x3 ip port,
  insync w (r1 :: r2 :: rest) -> w_data w = None ->
  c_mode (w_cfg w) = Passive -> c_tls (w_cfg w) = true ->
  has_crlf path = false ->
  simple_reaction r1 x1 -> is_negative x1 = false -> passive_target (w_cfg w) x1 ip port ->
  dp_reachable (r_data r1) = true ->
  accepts_transfer r2 x2 x3 ->
  dp_tls_ok (r_data r2) = true -> dp_shutdown_ok (r_data r2) = true ->
  exists w', step w (AUpload u path chunks None) = (OReturn (RvReplies [x1; x2; x3]), w') /\
    insync w' rest /\ w_data w' = None /\ w_cfg w' = w_cfg w /\
    net_out_bytes (io_events (skipn (length (w_trace w)) (w_trace w'))) = sent (c_type (w_cfg w)) chunks /\
    wire_events (skipn (length (w_trace w)) (w_trace w')) =
      [WLine (setup_line (w_cfg w)); WReply x1; WLine (upverb_bytes u ++ SP :: path); WReply x2; WReply x3] /\
    data_events (skipn (length (w_trace w)) (w_trace w')) =
      [DNewObj; DConnectTo ip port true;
       DHandshake (if c_resume (w_cfg w) then Some (w_sess_id w) else None) true;
       DTlsShutdown true; DTcpShutdown; DClose].
Proof. exact upload_passive_complete_tls. Qed.
Print Assumptions C04_upload_over_tls.

(* the whole upload in the active modes (EPRT / PORT): listen, advertise, transfer command, accept one connection, send, close socket and listener, then the completion reply *)
Theorem C04_upload_active : forall w u path chunks r1 r2 rest x1 x2 x3 line,
  insync w (r1 :: r2 :: rest) -> w_data w = None ->
  c_mode (w_cfg w) = Active -> c_tls (w_cfg w) = false ->
  has_crlf path = false -> adv_cmd w = Some line ->
  simple_reaction r1 x1 -> is_negative x1 = false ->
  accepts_transfer r2 x2 x3 -> dp_reachable (r_data r2) = true ->
  exists w', step w (AUpload u path chunks None) = (OReturn (RvReplies [x1; x2; x3]), w') /\
    insync w' rest /\ w_data w' = None /\ w_cfg w' = w_cfg w /\
    net_out_bytes (io_events (skipn (length (w_trace w)) (w_trace w'))) = sent (c_type (w_cfg w)) chunks /\
    wire_events (skipn (length (w_trace w)) (w_trace w')) =
      [WLine line; WReply x1; WLine (upverb_bytes u ++ SP :: path); WReply x2; WReply x3] /\
    data_events (skipn (length (w_trace w)) (w_trace w')) =
      [DNewObj; DListen; DAcceptOk; DTcpShutdown; DClose; DAccClose].
Proof. exact upload_active_complete. Qed.
Print Assumptions C04_upload_active.

From LibFtp Require Import Bytes_Global Upload_Global.
(* ------------------------------------------------------------------ every upload, every state, every server *)
(* In binary type the bytes an upload / append / unique-name upload writes to the data connection ([net_out_bytes] of the
   call's events) are the concatenation of the first k blocks the caller's source yields before its first empty read, for
   some k - a prefix of the source in whole blocks, in order, nothing added, repeated or reordered; and nothing else is
   written to a data connection in the call - whether the upload completes, is cancelled, is refused or fails *)
Theorem C04_upload_writes_a_prefix_of_the_source : forall u path chunks cb w, c_type (w_cfg w) = TBinary ->
  exists tr k, w_trace (snd (step w (AUpload u path chunks cb))) = w_trace w ++ tr /\
    net_out_bytes (ios tr) = concat (firstn k (upto_empty chunks)).
Proof. exact upload_writes_a_prefix_of_the_source. Qed.
Print Assumptions C04_upload_writes_a_prefix_of_the_source.

Example C04_upload_example :
  let w0 := init_world (mkConfig Passive true TBinary false false) upload_script in
  let tr := w_trace (snd (steps w0 [AConnect [104%N] 21%N None; AUpload UStor [102%N] [[1;2]; [3]; [4;5;6]; []; [9]]%N None])) in
  net_out_bytes (ios tr) = [1;2;3;4;5;6]%N.
Proof. exact upload_example. Qed.

(* ---- end of data before the reply, over every call, every state, every server (Eof_Global.v) ---- *)
From LibFtp Require Eof_Global.

(* once a call has written to a data connection it reads no reply until it has signalled the end of the data by the orderly
   shutdown of that connection - unless the transfer callback has said 'cancelled' *)
Theorem C04_no_reply_read_before_the_end_of_data_is_signalled : forall a w,
  exists tr, w_trace (snd (step w a)) = w_trace w ++ tr /\ Eof_Global.okhs false tr.
Proof. exact Eof_Global.step_reads_no_reply_before_the_end_of_data_is_signalled. Qed.
Print Assumptions C04_no_reply_read_before_the_end_of_data_is_signalled.

Theorem C04_reply_read_after_the_end_was_signalled : forall a w tr pre t r post,
  w_trace (snd (step w a)) = w_trace w ++ tr -> tr = pre ++ ERecv t r :: post -> Eof_Global.hsafter false pre = false.
Proof. exact Eof_Global.reply_read_after_the_end_was_signalled. Qed.
Print Assumptions C04_reply_read_after_the_end_was_signalled.

Example C04_example_eof_then_reply :
  let w0 := init_world (mkConfig Passive true TBinary false false) Eof_Global.eof_script in
  let w1 := snd (steps w0 [AConnect [104] 21 None]) in
  let tr := skipn (length (w_trace w1)) (w_trace (snd (step w1 (AUpload UStor [102] [[1;2]; [3]] None)))) in
  filter (fun e => match e with EIo (IoNetWrite _) | EData DTcpShutdown | ERecv _ _ => true | _ => false end) tr
  = [ERecv 1 (mkReply 229 [40;124;124;124;53;124;41]); ERecv 2 (mkReply 150 []); EIo (IoNetWrite [1;2]); EIo (IoNetWrite [3]);
     EData DTcpShutdown; ERecv 2 (mkReply 226 [])]
  /\ Eof_Global.okhs false tr.
Proof. exact Eof_Global.eof_example. Qed.
