(* C04 - binary upload transmits exactly the source bytes, then signals end-of-file.
   Part 1 (here): the loop of data_connection::send. Part 2: the order "close the data connection, then wait for
   the completion reply" is a property of the protocol programs (finish_transfer in Client.v), stated below. *)
From LibFtp Require Import Bytes Ascii DataConn DataConn_Proofs Reply Client.
Local Open Scope N_scope.

(* whatever chunks the source hands out (any pattern of short reads; the loop never asks again after the first
   empty read), an upload that runs to its end writes exactly their concatenation *)
Theorem C04_upload_exact : forall blk chunks cb ev r cb',
  data_send TBinary blk chunks cb = (ev, r, cb') -> r = PDone -> net_out_bytes ev = concat chunks.
Proof. exact upload_exact. Qed.
Print Assumptions C04_upload_exact.

Theorem C04_upload_completes : forall t blk chunks ev r cb',
  data_send t blk chunks None = (ev, r, cb') -> r = PDone.
Proof. exact upload_completes_without_callback. Qed.
Print Assumptions C04_upload_completes.

(* the program that ends every transfer: when not cancelled, the data connection is closed gracefully
   (TLS close-notify, TCP shutdown, close) BEFORE the completion reply is awaited *)
Theorem C04_eof_before_completion : forall acc,
  finish_transfer acc =
  Poll (fun cancelled =>
    if cancelled then process_abort acc (fun acc' => DDisconnect false (Ret (RvReplies acc')))
    else DDisconnect true (Recv (fun r => Ret (RvReplies (acc ++ [r]))))).
Proof. reflexivity. Qed.
Print Assumptions C04_eof_before_completion.

Example C04_example :
  let '(ev, r, _) := data_send TBinary 4 [[1]; [2;3]; [4;5;6]] None in net_out_bytes ev = [1;2;3;4;5;6] /\ r = PDone.
Proof. vm_compute. auto. Qed.
