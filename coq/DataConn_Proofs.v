From LibFtp Require Import Bytes Ascii Ascii_Proofs DataConn.
Local Open Scope N_scope.

(* ------------------------------------------------------------------ download loop, binary type, no failing sink *)
Definition good_sink (s : sink) : Prop := fail_at s = None.

Lemma sink_fails_good s : good_sink s -> sink_fails s = false.
Proof. unfold good_sink, sink_fails. intros ->. reflexivity. Qed.

Lemma good_sink_next s : good_sink s -> good_sink (sink_next s).
Proof. unfold good_sink, sink_next. cbn. auto. Qed.

Lemma sink_bytes_app a b : sink_bytes (a ++ b) = sink_bytes a ++ sink_bytes b.
Proof. induction a as [|e a IH]; [reflexivity|]. destruct e; cbn; rewrite ?IH, <- ?app_assoc; reflexivity. Qed.
Lemma notified_app a b : notified (a ++ b) = (notified a + notified b)%nat.
Proof. induction a as [|e a IH]; [reflexivity|]. destruct e; cbn; rewrite ?IH; lia. Qed.
Lemma net_in_app a b : net_in_bytes (a ++ b) = net_in_bytes a ++ net_in_bytes b.
Proof. induction a as [|e a IH]; [reflexivity|]. destruct e; cbn; rewrite ?IH, <- ?app_assoc; reflexivity. Qed.
Lemma net_out_app a b : net_out_bytes (a ++ b) = net_out_bytes a ++ net_out_bytes b.
Proof. induction a as [|e a IH]; [reflexivity|]. destruct e; cbn; rewrite ?IH, <- ?app_assoc; reflexivity. Qed.

(* what the loop read from the network so far is what it handed to the sink (binary), and what it
   reported through notify; nothing is flushed inside the loop *)
Lemma recv_loop_binary : forall segs s e cb ev r p s' cb',
  good_sink s -> recv_loop TBinary false s segs e cb = (ev, r, p, s', cb') ->
  sink_bytes ev = net_in_bytes ev /\
  (cb <> None -> notified ev = length (net_in_bytes ev)) /\
  count_ev is_flush ev = O /\
  (exists k, net_in_bytes ev = concat (firstn k segs) /\
             (r = PDone -> k = length segs /\ e = DEof) /\
             (r = PThrow -> k = length segs /\ e = DErr)) /\
  r <> PCancelledBeforeStart /\ good_sink s'.
Proof.
  induction segs as [|seg rest IH]; intros s e cb ev r p s' cb' G H.
  - cbn in H. destruct e; inversion H; subst; cbn; (split; [reflexivity|]); (split; [reflexivity|]);
      (split; [reflexivity|]); (split; [exists O; cbn; repeat split; auto; discriminate|]); split; auto; discriminate.
  - cbn [recv_loop sink_write] in H. rewrite (sink_fails_good s G) in H.
    destruct cb as [answers|].
    + destruct (poll answers) as [a answers'].
      destruct a.
      * inversion H; subst. cbn. rewrite ?app_nil_r.
        split; [reflexivity|]. split; [intros _; lia|]. split; [reflexivity|].
        split; [exists 1%nat; cbn; rewrite ?app_nil_r; repeat split; auto; discriminate|].
        split; [discriminate|apply good_sink_next; exact G].
      * destruct (recv_loop TBinary false (sink_next s) rest e (Some answers')) as [[[[ev1 r1] p1] s1] cb1] eqn:R.
        inversion H; subst.
        destruct (IH _ _ _ _ _ _ _ _ (good_sink_next s G) R) as (A & B & C & (k & D1 & D2 & D3) & E & F).
        cbn. rewrite A. split; [reflexivity|].
        split; [intros _; rewrite app_length, (B ltac:(discriminate)); reflexivity|].
        split; [exact C|]. split; [|split; assumption].
        exists (S k). cbn. rewrite D1. split; [reflexivity|]. split; intro X.
        -- destruct (D2 X). split; [lia|assumption].
        -- destruct (D3 X). split; [lia|assumption].
    + destruct (recv_loop TBinary false (sink_next s) rest e None) as [[[[ev1 r1] p1] s1] cb1] eqn:R.
      inversion H; subst.
      destruct (IH _ _ _ _ _ _ _ _ (good_sink_next s G) R) as (A & B & C & (k & D1 & D2 & D3) & E & F).
      cbn. rewrite A. split; [reflexivity|]. split; [congruence|]. split; [exact C|]. split; [|split; assumption].
      exists (S k). cbn. rewrite D1. split; [reflexivity|]. split; intro X.
      * destruct (D2 X). split; [lia|assumption].
      * destruct (D3 X). split; [lia|assumption].
Qed.

Lemma recv_loop_ascii : forall segs prev s e cb ev r p s' cb',
  good_sink s -> recv_loop TAscii prev s segs e cb = (ev, r, p, s', cb') ->
  (forall tail, sink_bytes ev ++ from_crlf (cr_if p ++ tail) = from_crlf (cr_if prev ++ net_in_bytes ev ++ tail)) /\
  count_ev is_flush ev = O /\ good_sink s' /\
  (r = PDone -> net_in_bytes ev = concat segs /\ e = DEof).
Proof.
  induction segs as [|seg rest IH]; intros prev s e cb ev r p s' cb' G H.
  - cbn in H. destruct e; inversion H; subst; cbn; repeat split; auto; discriminate.
  - cbn [recv_loop sink_write] in H. destruct (owrite prev seg) as [o p0] eqn:W.
    rewrite (sink_fails_good s G) in H.
    pose proof (owrite_spec seg prev) as OS.
    destruct cb as [answers|].
    + destruct (poll answers) as [a answers']. destruct a.
      * inversion H; subst. cbn. rewrite ?app_nil_r. split; [|repeat split; auto; try discriminate; apply good_sink_next; exact G].
        intro tail. rewrite <- ?app_assoc. apply OS. exact W.
      * destruct (recv_loop TAscii p0 (sink_next s) rest e (Some answers')) as [[[[ev1 r1] p1] s1] cb1] eqn:R.
        inversion H; subst.
        destruct (IH _ _ _ _ _ _ _ _ _ (good_sink_next s G) R) as (A & B & C & D).
        cbn. split; [|split; [exact B|split; [exact C|]]].
        -- intro tail. rewrite <- !app_assoc, (A tail). rewrite <- (OS (net_in_bytes ev1 ++ tail) o p0 W). reflexivity.
        -- intro X. destruct (D X) as (D1 & D2). rewrite D1. auto.
    + destruct (recv_loop TAscii p0 (sink_next s) rest e None) as [[[[ev1 r1] p1] s1] cb1] eqn:R.
      inversion H; subst.
      destruct (IH _ _ _ _ _ _ _ _ _ (good_sink_next s G) R) as (A & B & C & D).
      cbn. split; [|split; [exact B|split; [exact C|]]].
      * intro tail. rewrite <- !app_assoc, (A tail). rewrite <- (OS (net_in_bytes ev1 ++ tail) o p0 W). reflexivity.
      * intro X. destruct (D X) as (D1 & D2). rewrite D1. auto.
Qed.

Lemma count_ev_app f a b : count_ev f (a ++ b) = (count_ev f a + count_ev f b)%nat.
Proof. unfold count_ev. rewrite filter_app, app_length. reflexivity. Qed.

Lemma start_events_quiet cb ev0 c cb1 : start_events cb = (ev0, c, cb1) ->
  sink_bytes ev0 = [] /\ count_ev is_flush ev0 = O /\ net_in_bytes ev0 = [] /\ net_out_bytes ev0 = [] /\ notified ev0 = O /\
  (cb = None -> cb1 = None /\ c = false).
Proof.
  unfold start_events. destruct cb as [answers|].
  - destruct (poll answers) as [a answers']. intro H; inversion H; subst. destruct c; cbn; repeat split; discriminate.
  - intro H; inversion H; subst. cbn. repeat split; auto.
Qed.

(* C03: a completed download (binary type) hands the sink exactly the bytes the peer sent before closing, in
   order, each once; the sink is flushed exactly once, after the last byte *)
Theorem download_exact s segs e cb ev r cb' : good_sink s ->
  data_recv TBinary s segs e cb = (ev, r, cb') -> r = PDone ->
  e = DEof /\ sink_bytes ev = concat segs /\ net_in_bytes ev = concat segs /\
  exists pre post, ev = pre ++ IoSinkFlush :: post /\ count_ev is_flush pre = O /\ count_ev is_flush post = O /\
                   sink_bytes pre = concat segs /\ sink_bytes post = [].
Proof.
  intros G H Hr. unfold data_recv in H.
  destruct (start_events cb) as [[ev0 c] cb1] eqn:S0.
  destruct (start_events_quiet _ _ _ _ S0) as (Q1 & Q2 & Q3 & Q4 & Q5 & Q6).
  subst r. destruct c; [inversion H|].
  destruct (recv_loop TBinary false s segs e cb1) as [[[[ev1 r1] p] s1] cb2] eqn:R.
  destruct (recv_loop_binary _ _ _ _ _ _ _ _ _ G R) as (A & B & C & (k & D1 & D2 & D3) & E & F).
  try rewrite R in H. cbn [andb] in H. destruct r1; inversion H; subst.
  destruct (D2 eq_refl) as (-> & ->). rewrite firstn_all in D1.
  split; [reflexivity|]. rewrite !sink_bytes_app, !net_in_app, Q1, Q3, A, D1. cbn [app].
  split; [destruct cb; cbn; rewrite ?app_nil_r; reflexivity|].
  split; [destruct cb; cbn; rewrite ?app_nil_r; reflexivity|].
  exists (ev0 ++ ev1), (match cb with Some _ => [IoEnd] | None => [] end).
  split; [rewrite <- !app_assoc; reflexivity|].
  rewrite count_ev_app, Q2, C, sink_bytes_app, Q1, A, D1. destruct cb; cbn; auto.
Qed.

Theorem download_completes_without_callback s segs ev r cb' : good_sink s ->
  data_recv TBinary s segs DEof None = (ev, r, cb') -> r = PDone.
Proof.
  intros G H. unfold data_recv in H. cbn in H.
  destruct (recv_loop TBinary false s segs DEof None) as [[[[ev1 r1] p] s1] cb2] eqn:R.
  assert (r1 = PDone).
  { clear H. revert s G ev1 r1 p s1 cb2 R. induction segs as [|seg rest IH]; intros s G ev1 r1 p s1 cb2 R.
    - cbn in R. inversion R. reflexivity.
    - cbn [recv_loop sink_write] in R. rewrite (sink_fails_good s G) in R.
      destruct (recv_loop TBinary false (sink_next s) rest DEof None) as [[[[e2 r2] p2] s2] c2] eqn:R2.
      inversion R; subst. eapply IH; [apply good_sink_next; exact G|exact R2]. }
  subst r1. inversion H. reflexivity.
Qed.

(* an error on the data connection is reported without the sink being flushed *)
Theorem download_error_no_flush t s segs e cb ev cb' :
  data_recv t s segs e cb = (ev, PThrow, cb') -> count_ev is_flush ev = O.
Proof.
  intro H. unfold data_recv in H.
  destruct (start_events cb) as [[ev0 c] cb1] eqn:S0.
  destruct (start_events_quiet _ _ _ _ S0) as (Q1 & Q2 & _).
  destruct c; [inversion H|].
  destruct (recv_loop t false s segs e cb1) as [[[[ev1 r1] p] s1] cb2] eqn:R.
  assert (C : count_ev is_flush ev1 = O).
  { clear H S0. revert s cb1 ev1 r1 p s1 cb2 R. generalize false as prev.
    induction segs as [|seg rest IH]; intros prev s cb1 ev1 r1 p s1 cb2 R.
    - cbn in R. destruct e; inversion R; reflexivity.
    - cbn [recv_loop] in R. destruct (sink_write t prev seg) as [o p0].
      destruct (sink_fails s); [inversion R; reflexivity|].
      destruct cb1 as [answers|].
      + destruct (poll answers) as [a answers']. destruct a; [inversion R; reflexivity|].
        destruct (recv_loop t p0 (sink_next s) rest e (Some answers')) as [[[[e2 r2] p2] s2] c2] eqn:R2.
        inversion R; subst. cbn. eapply IH; exact R2.
      + destruct (recv_loop t p0 (sink_next s) rest e None) as [[[[e2 r2] p2] s2] c2] eqn:R2.
        inversion R; subst. cbn. eapply IH; exact R2. }
  try rewrite R in H.
  destruct r1;
    try (destruct (match t with TAscii => p | TBinary => false end && sink_fails s1));
    inversion H; subst; rewrite ?count_ev_app, ?Q2, ?C; reflexivity.
Qed.

(* ASCII type: the sink receives from_crlf of what arrived, whatever the segmentation *)
Theorem download_ascii_exact s segs e cb ev r cb' : good_sink s ->
  data_recv TAscii s segs e cb = (ev, r, cb') -> r = PDone ->
  sink_bytes ev = from_crlf (concat segs).
Proof.
  intros G H Hr. unfold data_recv in H.
  destruct (start_events cb) as [[ev0 c] cb1] eqn:S0.
  destruct (start_events_quiet _ _ _ _ S0) as (Q1 & Q2 & Q3 & _).
  destruct c; [subst r; inversion H|].
  destruct (recv_loop TAscii false s segs e cb1) as [[[[ev1 r1] p] s1] cb2] eqn:R.
  destruct (recv_loop_ascii _ _ _ _ _ _ _ _ _ _ G R) as (A & B & C & D).
  try rewrite R in H. rewrite (sink_fails_good s1 C), andb_false_r in H.
  destruct r1; inversion H; subst; try congruence.
  destruct (D eq_refl) as (D1 & _). rewrite !sink_bytes_app, Q1. cbn [app].
  specialize (A []). rewrite !app_nil_r, D1 in A. cbn [cr_if app] in A.
  rewrite <- A. destruct p, cb; cbn; rewrite ?app_nil_r; reflexivity.
Qed.

(* ------------------------------------------------------------------ upload *)
Definition is_poll_true (e : io_event) : bool := match e with IoPoll true => true | _ => false end.
Definition is_net (e : io_event) : bool := match e with IoNetRead _ | IoNetWrite _ => true | _ => false end.

Lemma send_loop_spec : forall blocks cb ev r cb', send_loop blocks cb = (ev, r, cb') ->
  (exists k, net_out_bytes ev = concat (firstn k blocks) /\ (r = PDone -> k = length blocks)) /\
  (cb <> None -> notified ev = length (net_out_bytes ev)) /\
  (r = PDone \/ r = PCancelled) /\ (cb = None -> r = PDone) /\
  count_ev is_begin ev = O /\ count_ev is_end ev = O /\
  (r = PCancelled -> exists pre, ev = pre ++ [IoPoll true] /\ count_ev is_poll_true pre = O) /\
  (r = PDone -> count_ev is_poll_true ev = O).
Proof.
  induction blocks as [|b rest IH]; intros cb ev r cb' H.
  - cbn in H. inversion H; subst. cbn. split; [exists O; auto|]. repeat split; auto; discriminate.
  - cbn [send_loop] in H. destruct cb as [answers|].
    + destruct (poll answers) as [a answers']. destruct a.
      * inversion H; subst. cbn. rewrite ?app_nil_r.
        split; [exists 1%nat; cbn; rewrite ?app_nil_r; split; [reflexivity|discriminate]|].
        split; [intros _; lia|]. split; [auto|]. split; [discriminate|]. split; [reflexivity|]. split; [reflexivity|].
        split; [|discriminate]. intros _. exists [IoNetWrite b; IoNotify (length b)]. auto.
      * destruct (send_loop rest (Some answers')) as [[ev1 r1] cb1] eqn:R. inversion H; subst.
        destruct (IH _ _ _ _ R) as ((k & K1 & K2) & N & RR & _ & B & E & C & D).
        cbn. split; [exists (S k); cbn; rewrite K1; split; [reflexivity|intro X; rewrite (K2 X); reflexivity]|].
        split; [intros _; rewrite app_length, (N ltac:(discriminate)); reflexivity|].
        split; [exact RR|]. split; [discriminate|]. split; [exact B|]. split; [exact E|]. split.
        -- intro X. destruct (C X) as (pre & -> & P). exists (IoNetWrite b :: IoNotify (length b) :: IoPoll false :: pre).
           split; [reflexivity|exact P].
        -- intro X. exact (D X).
    + destruct (send_loop rest None) as [[ev1 r1] cb1] eqn:R. inversion H; subst.
      destruct (IH _ _ _ _ R) as ((k & K1 & K2) & N & RR & Q & B & E & C & D).
      cbn. split; [exists (S k); cbn; rewrite K1; split; [reflexivity|intro X; rewrite (K2 X); reflexivity]|].
      split; [congruence|]. split; [exact RR|]. split; [intros _; apply Q; reflexivity|]. split; [exact B|]. split; [exact E|].
      split.
      * intro X. destruct (C X) as (pre & -> & P). exists (IoNetWrite b :: pre). split; [reflexivity|exact P].
      * exact D.
Qed.

(* C04: a binary upload that runs to its end writes to the data connection exactly the bytes the source yields up
   to its first empty read, whatever the pattern of short reads *)
Theorem upload_exact blk chunks cb ev r cb' :
  data_send TBinary blk chunks cb = (ev, r, cb') -> r = PDone -> net_out_bytes ev = concat (upto_empty chunks).
Proof.
  intros H Hr. unfold data_send in H.
  destruct (start_events cb) as [[ev0 c] cb1] eqn:S0.
  destruct (start_events_quiet _ _ _ _ S0) as (_ & _ & _ & Q4 & _).
  subst r. destruct c; [inversion H|].
  cbn [upload_blocks] in H. destruct (send_loop (upto_empty chunks) cb1) as [[ev1 r1] cb2] eqn:R.
  inversion H; subst. destruct (send_loop_spec _ _ _ _ _ R) as ((k & K1 & K2) & _).
  rewrite !net_out_app, Q4, K1, (K2 eq_refl), firstn_all. destruct cb; cbn; rewrite ?app_nil_r; reflexivity.
Qed.

Theorem upload_completes_without_callback t blk chunks ev r cb' :
  data_send t blk chunks None = (ev, r, cb') -> r = PDone.
Proof.
  intro H. unfold data_send in H. cbn [start_events] in H.
  destruct (send_loop (upload_blocks t blk chunks) None) as [[ev1 r1] cb2] eqn:R. inversion H; subst.
  destruct (send_loop_spec _ _ _ _ _ R) as (_ & _ & _ & Q & _). apply Q. reflexivity.
Qed.

(* ASCII type: what is written is to_crlf of the source *)
Lemma ascii_blocks_drain : forall fuel blk st,
  ascii_blocks fuel blk st = fst (fst (drain (repeat blk fuel) st)).
Proof.
  induction fuel as [|f IH]; intros blk st; [reflexivity|].
  cbn [ascii_blocks repeat drain]. destruct (aread blk st) as [o st'].
  destruct o as [|x o]; [reflexivity|]. rewrite IH. destruct (drain (repeat blk f) st') as [[os stopped] st'']. reflexivity.
Qed.

Theorem upload_ascii_exact blk chunks cb ev r cb' : (1 <= blk)%nat ->
  data_send TAscii blk chunks cb = (ev, r, cb') -> r = PDone -> net_out_bytes ev = to_crlf (concat chunks).
Proof.
  intros Hb H Hr. unfold data_send in H.
  destruct (start_events cb) as [[ev0 c] cb1] eqn:S0.
  destruct (start_events_quiet _ _ _ _ S0) as (_ & _ & _ & Q4 & _).
  subst r. destruct c; [inversion H|].
  cbn [upload_blocks] in H.
  destruct (send_loop (ascii_blocks (S (2 * length (concat chunks))) blk (istart chunks)) cb1) as [[ev1 r1] cb2] eqn:R.
  inversion H; subst. destruct (send_loop_spec _ _ _ _ _ R) as ((k & K1 & K2) & _).
  rewrite !net_out_app, Q4, K1, (K2 eq_refl), firstn_all, ascii_blocks_drain.
  assert (F : Forall (fun n => (1 <= n)%nat) (repeat blk (S (2 * length (concat chunks))))).
  { apply Forall_forall. intros x Hx. apply repeat_spec in Hx. subst. exact Hb. }
  assert (L : (length (to_crlf (concat chunks)) < length (repeat blk (S (2 * length (concat chunks)))))%nat).
  { rewrite repeat_length. pose proof (to_crlf_length (concat chunks)). lia. }
  destruct (upload_conv chunks _ F L) as (os & st' & D & E & _). rewrite D. cbn [fst].
  rewrite E. destruct cb; cbn; rewrite ?app_nil_r; reflexivity.
Qed.

(* ------------------------------------------------------------------ C12: the callback brackets and counts *)
Theorem callback_send t blk chunks answers ev r cb' :
  data_send t blk chunks (Some answers) = (ev, r, cb') ->
  match answers with
  | true :: _ => ev = [IoPoll true] /\ r = PCancelledBeforeStart
  | _ =>
      exists body, ev = IoPoll false :: IoBegin :: body ++ [IoEnd] /\
        count_ev is_begin body = O /\ count_ev is_end body = O /\
        notified ev = length (net_out_bytes ev) /\
        (r = PCancelled -> exists pre, body = pre ++ [IoPoll true] /\ count_ev is_poll_true pre = O) /\
        (r = PDone -> count_ev is_poll_true body = O) /\ (r = PDone \/ r = PCancelled)
  end.
Proof.
  intro H. unfold data_send in H. cbn [start_events] in H.
  destruct answers as [|[|] rest]; cbn [poll] in H.
  - destruct (send_loop (upload_blocks t blk chunks) (Some [])) as [[ev1 r1] cb2] eqn:R. inversion H; subst.
    destruct (send_loop_spec _ _ _ _ _ R) as (_ & N & RR & _ & B & E & C & D).
    exists ev1. cbn. rewrite notified_app, net_out_app. cbn. rewrite app_nil_r, Nat.add_0_r.
    repeat split; auto. apply N. discriminate.
  - inversion H. auto.
  - destruct (send_loop (upload_blocks t blk chunks) (Some rest)) as [[ev1 r1] cb2] eqn:R. inversion H; subst.
    destruct (send_loop_spec _ _ _ _ _ R) as (_ & N & RR & _ & B & E & C & D).
    exists ev1. cbn. rewrite notified_app, net_out_app. cbn. rewrite app_nil_r, Nat.add_0_r.
    repeat split; auto. apply N. discriminate.
Qed.

Lemma recv_loop_polls t : forall segs prev s e cb ev r p s' cb',
  recv_loop t prev s segs e cb = (ev, r, p, s', cb') ->
  count_ev is_begin ev = O /\ count_ev is_end ev = O /\ r <> PCancelledBeforeStart /\
  (r = PCancelled -> exists pre, ev = pre ++ [IoPoll true] /\ count_ev is_poll_true pre = O) /\
  (r <> PCancelled -> count_ev is_poll_true ev = O) /\
  (cb = None -> r <> PCancelled).
Proof.
  induction segs as [|seg rest IH]; intros prev s e cb ev r p s' cb' H.
  - cbn in H. destruct e; inversion H; subst; cbn; repeat split; auto; discriminate.
  - cbn [recv_loop] in H. destruct (sink_write t prev seg) as [o p0].
    destruct (sink_fails s).
    + inversion H; subst. cbn. repeat split; auto; discriminate.
    + destruct cb as [answers|].
      * destruct (poll answers) as [a answers']. destruct a.
        -- inversion H; subst. cbn. split; [reflexivity|]. split; [reflexivity|]. split; [discriminate|].
           split; [intros _; exists [IoNetRead seg; IoSinkWrite o; IoNotify (length seg)]; auto|].
           split; [congruence|discriminate].
        -- destruct (recv_loop t p0 (sink_next s) rest e (Some answers')) as [[[[ev1 r1] p1] s1] cb1] eqn:R.
           inversion H; subst. destruct (IH _ _ _ _ _ _ _ _ _ R) as (B & E & X & C & D & _).
           cbn. split; [exact B|]. split; [exact E|]. split; [exact X|]. split; [|split; [exact D|discriminate]].
           intro Y. destruct (C Y) as (pre & -> & P).
           exists (IoNetRead seg :: IoSinkWrite o :: IoNotify (length seg) :: IoPoll false :: pre). auto.
      * destruct (recv_loop t p0 (sink_next s) rest e None) as [[[[ev1 r1] p1] s1] cb1] eqn:R.
        inversion H; subst. destruct (IH _ _ _ _ _ _ _ _ _ R) as (B & E & X & C & D & N).
        cbn. split; [exact B|]. split; [exact E|]. split; [exact X|]. split; [|split; [exact D|]].
        -- intro Y. exfalso. apply (N eq_refl). exact Y.
        -- intros _. apply N. reflexivity.
Qed.

Ltac callback_recv_tac H t s segs e X :=
  destruct (recv_loop t false s segs e (Some X)) as [[[[ev1 r1] p] s1] cb2] eqn:R; try rewrite R in H;
  destruct (recv_loop_polls t _ _ _ _ _ _ _ _ _ _ R) as (B & E & XX & C & D & _);
  set (pc := match t with TAscii => p | TBinary => false end) in *;
  destruct r1;
  [ destruct (pc && sink_fails s1); inversion H; subst;
    [ exists (ev1 ++ [IoSinkWrite [CR]]); rewrite app_nil_r, !count_ev_app, B, E; cbn;
      repeat split; auto; discriminate
    | exists (ev1 ++ (if pc then [IoSinkWrite [CR]] else []) ++ [IoSinkFlush]);
      rewrite <- !app_assoc, !count_ev_app, B, E; split; [reflexivity|];
      split; [destruct pc; reflexivity|]; split; [destruct pc; reflexivity|]; split; [discriminate|];
      intros _; rewrite (D ltac:(discriminate)); destruct pc; reflexivity ]
  | congruence
  | destruct (pc && sink_fails s1); inversion H; subst;
    [ exists (ev1 ++ [IoSinkWrite [CR]]); rewrite app_nil_r, !count_ev_app, B, E; cbn;
      repeat split; auto; discriminate
    | exists (ev1 ++ (if pc then [IoSinkWrite [CR]] else []) ++ [IoSinkFlush]);
      rewrite <- !app_assoc, !count_ev_app, B, E; split; [reflexivity|];
      split; [destruct pc; reflexivity|]; split; [destruct pc; reflexivity|]; split; [|discriminate];
      intros _; destruct (C eq_refl) as (pre & -> & P);
      exists pre, ((if pc then [IoSinkWrite [CR]] else []) ++ [IoSinkFlush]);
      rewrite <- app_assoc; split; [reflexivity|]; split; [exact P|]; destruct pc; reflexivity ]
  | inversion H; subst; exists ev1; rewrite app_nil_r; repeat split; auto; discriminate ].

Theorem callback_recv t s segs e answers ev r cb' :
  data_recv t s segs e (Some answers) = (ev, r, cb') ->
  match answers with
  | true :: _ => ev = [IoPoll true] /\ r = PCancelledBeforeStart
  | _ =>
      exists body, ev = IoPoll false :: IoBegin :: body ++ (match r with PThrow => [] | _ => [IoEnd] end) /\
        count_ev is_begin body = O /\ count_ev is_end body = O /\
        (r = PCancelled -> exists pre rest, body = pre ++ IoPoll true :: rest /\ count_ev is_poll_true pre = O /\
                                            count_ev is_net rest = O) /\
        (r = PDone -> count_ev is_poll_true body = O)
  end.
Proof.
  intro H. unfold data_recv in H. cbn [start_events] in H.
  destruct answers as [|[|] rest]; cbn [poll] in H.
  - callback_recv_tac H t s segs e (@nil bool).
  - inversion H. auto.
  - callback_recv_tac H t s segs e rest.
Qed.

(* a stream that ends by an error (for a TLS stream: without close-notify) is never reported as complete *)
Theorem truncated_stream_is_error t : forall segs prev s ev r p s' cb',
  recv_loop t prev s segs DErr None = (ev, r, p, s', cb') -> r = PThrow.
Proof.
  induction segs as [|seg rest IH]; intros prev s ev r p s' cb' H.
  - cbn in H. inversion H. reflexivity.
  - cbn [recv_loop] in H. destruct (sink_write t prev seg) as [o p0].
    destruct (sink_fails s); [inversion H; reflexivity|].
    destruct (recv_loop t p0 (sink_next s) rest DErr None) as [[[[e2 r2] p2] s2] c2] eqn:R.
    inversion H; subst. eapply IH; exact R.
Qed.

Theorem truncated_download_throws t s segs ev r cb' :
  data_recv t s segs DErr None = (ev, r, cb') -> r = PThrow.
Proof.
  intro H. unfold data_recv in H. cbn [start_events] in H.
  destruct (recv_loop t false s segs DErr None) as [[[[ev1 r1] p] s1] cb2] eqn:R.
  rewrite (truncated_stream_is_error t _ _ _ _ _ _ _ _ R) in H. inversion H. reflexivity.
Qed.
