(* Endpoint.v - model of client::try_parse_pasv_reply (src/client.cpp), client::try_parse_epsv_reply,
   client::make_port_command and client::make_eprt_command.
   [strict] = false is the pinned code; the definitions without suffix are the code after the "fix:" commits (227:
   six 8-bit fields, no empty seventh one; 229: checked delimiters; PORT refused for non-IPv4). *)
From LibFtp Require Export Bytes Decimal.
Local Open Scope N_scope.

Definition pasv_field (strict : bool) : bytes -> option N :=
  if strict then try_parse_uint8 else try_parse_uint16.

Definition try_parse_pasv_gen (strict : bool) (s : bytes) : option (bytes * N) :=
  match find_first LPAR s with None => None | Some b =>
  match find_last RPAR s with None => None | Some e =>
  if Nat.leb e b then None else
  let b1 := S b in
  if Nat.leb e b1 then None else
  let addr := substr s b1 (e - b1) in
  match split_string addr COMMA with
  | [t0; t1; t2; t3; t4; t5] =>
      let ip := t0 ++ [DOT] ++ t1 ++ [DOT] ++ t2 ++ [DOT] ++ t3 in
      match pasv_field strict t4 with None => None | Some hi =>
      match pasv_field strict t5 with None => None | Some lo =>
        Some (ip, (hi * 256 + lo) mod 65536)          (* assignment to std::uint16_t *)
      end end
  | _ => None
  end end end.

Definition try_parse_pasv_reply_pinned := try_parse_pasv_gen false.

(* the code after "fix: validate all six fields of the PASV reply": exactly six fields (split_string drops an empty last
   field, so "h1,h2,h3,h4,p1,p2," is refused explicitly), each an 8-bit decimal number; the address is rebuilt from the
   numbers (std::to_string) *)
Definition dotted (a b c d : N) : bytes :=
  to_string a ++ [DOT] ++ to_string b ++ [DOT] ++ to_string c ++ [DOT] ++ to_string d.

Definition try_parse_pasv_reply (s : bytes) : option (bytes * N) :=
  match find_first LPAR s with None => None | Some b =>
  match find_last RPAR s with None => None | Some e =>
  if Nat.leb e b then None else
  let b1 := S b in
  if Nat.leb e b1 then None else
  let addr := substr s b1 (e - b1) in
  match split_string addr COMMA with
  | [t0; t1; t2; t3; t4; t5] =>
      if last addr 0 =? COMMA then None else            (* address_string.back() == ',' *)
      match try_parse_uint8 t0 with None => None | Some h0 =>
      match try_parse_uint8 t1 with None => None | Some h1 =>
      match try_parse_uint8 t2 with None => None | Some h2 =>
      match try_parse_uint8 t3 with None => None | Some h3 =>
      match try_parse_uint8 t4 with None => None | Some hi =>
      match try_parse_uint8 t5 with None => None | Some lo =>
        Some (dotted h0 h1 h2 h3, (hi * 256 + lo) mod 65536)          (* assignment to std::uint16_t *)
      end end end end end end
  | _ => None
  end end end.

(* the text between the parentheses is indexed directly: inner[0..2] are the three leading
   delimiters, the last byte of inner is the closing delimiter, the port is what lies between
   (status_string[begin+1..begin+3], status_string[end-1], substr(begin+4, end-1-(begin+4))) *)
Definition try_parse_epsv_reply (s : bytes) : option N :=
  match find_first LPAR s with None => None | Some b =>
  match find_last RPAR s with None => None | Some e =>
  if Nat.leb e b then None else
  let inner := substr s (S b) (e - S b) in
  if Nat.ltb (length inner) 5 then None else          (* end - begin < 6 *)
  match inner with
  | d :: d2 :: d3 :: rest =>
      if (d <? 33) || (126 <? d) then None else
      if negb ((d2 =? d) && (d3 =? d) && (last rest 0 =? d)) then None else
      try_parse_uint16 (removelast rest)
  | _ => None
  end end end.

Definition try_parse_epsv_reply_pinned (s : bytes) : option N :=
  match find_first LPAR s with None => None | Some b =>
  match find_last RPAR s with None => None | Some e =>
  if Nat.leb e b then None else
  let b4 := (b + 4)%nat in
  let e1 := (e - 1)%nat in
  if Nat.leb e1 b4 then None else
  try_parse_uint16 (substr s b4 (e1 - b4))
  end end.

(* addresses as the harness / boost hands them over: the textual form comes from
   boost::asio::ip::address::to_string (oracle for IPv6; dotted decimal for IPv4) *)
Inductive ipaddr := V4 (a b c d : N) | V6 (txt : bytes).

Definition addr_text (ip : ipaddr) : bytes :=
  match ip with V4 a b c d => dotted a b c d | V6 t => t end.

Definition PORT_ : bytes := [80; 79; 82; 84].   (* "PORT" *)
Definition EPRT_ : bytes := [69; 80; 82; 84].   (* "EPRT" *)

Definition dots_to_commas (s : bytes) : bytes := map (fun c => if c =? DOT then COMMA else c) s.

(* None = ftp_exception *)
Definition make_port_command_gen (strict : bool) (ip : ipaddr) (port : N) : option bytes :=
  match ip, strict with
  | V6 _, true => None
  | _, _ =>
      Some (PORT_ ++ [SP] ++ dots_to_commas (addr_text ip) ++ [COMMA] ++ to_string (port / 256)
                 ++ [COMMA] ++ to_string (port mod 256))
  end.
Definition make_port_command := make_port_command_gen true.
Definition make_port_command_pinned := make_port_command_gen false.

Definition make_eprt_command (ip : ipaddr) (port : N) : bytes :=
  EPRT_ ++ [SP] ++ [BAR] ++ (match ip with V4 _ _ _ _ => [49] | V6 _ => [50] end) ++ [BAR]
        ++ addr_text ip ++ [BAR] ++ to_string port ++ [BAR].
