(* Extract.v - extraction of the executable model AND of the specification functions the theorems
   equate it with (ExtrOcamlBasic only; no Extract Constant). *)
From Coq Require Extraction.
From Coq Require Import ExtrOcamlBasic.
From LibFtp Require Import Bytes Decimal Reply Typed Endpoint Ascii Framing FramingSpec Cmdline DataConn Client App Observers.
Extraction Language OCaml.
Set Extraction Optimize.
Extraction "model.ml"
  (* Decimal *) try_parse_uint8 try_parse_uint16 try_parse_uint32 try_parse_uint64
                all_digits dec_value split_string pieces drop_last_empty to_string
  (* Reply *)   is_positive is_negative is_intermediate default_reply append_all
                spec_positive spec_text
  (* Endpoint *) try_parse_pasv_reply try_parse_epsv_reply make_port_command make_eprt_command dotted
  (* Ascii *)   aread drain istart owrites sink_content to_crlf from_crlf
  (* Observers *) notify_round
  (* Framing *) recv_n run_ops fixed_cfg pinned_cfg find_eol strip_eol render expected wf_reply
  (* Cmdline *) parse_command verb_name render_args lower all_commands
  (* Client *)  steps step init_world held data_recv data_send
  (* App *)     run_main app_init
  (* Typed *)   parse_size parse_datetime parse_file_list is_time_val spec_file_list.
