(* Upload_Ascii_Global.v - C05 over EVERY upload call, every state in ASCII type and every behaviour of the server: what the
   call writes to the data connection is a prefix of the LF->CRLF conversion of what the caller's source yields; nothing else
   is ever written to the data connection, whether the upload completes, is cancelled or fails. *)
From LibFtp Require Import Bytes Decimal Reply Endpoint Ascii Ascii_Proofs DataConn DataConn_Proofs Client Client_Proofs Bytes_Global.
From Coq Require Import Lia.
Local Open Scope N_scope.

Definition outb (tr : list event) : bytes := net_out_bytes (ios tr).

Lemma outb_app a b : outb (a ++ b) = outb a ++ outb b.
Proof. unfold outb. rewrite ios_app, net_out_app. reflexivity. Qed.

Lemma quiet_outb es : Forall quiet es -> outb es = [].
Proof. intro Q. unfold outb. rewrite (quiet_ios es Q). reflexivity. Qed.

Lemma block_size_pos : (1 <= block_size)%nat.
Proof. unfold block_size. destruct (N.to_nat 8192) eqn:E; [|lia]. change O with (N.to_nat 0) in E. apply N2Nat.inj in E. discriminate. Qed.

(* one upload loop in ASCII type: what it writes is a prefix (whole blocks) of the conversion of the source *)
Lemma data_send_ascii_prefix blk chunks cb ev r cb' : (1 <= blk)%nat ->
  data_send TAscii blk chunks cb = (ev, r, cb') -> exists rest, net_out_bytes ev ++ rest = to_crlf (concat chunks).
Proof.
  intros Hb H. unfold data_send in H.
  destruct (start_events cb) as [[ev0 c] cb1] eqn:S0.
  destruct (start_events_quiet _ _ _ _ S0) as (_ & _ & _ & Q4 & _).
  destruct c; [inversion H; subst; exists (to_crlf (concat chunks)); rewrite Q4; reflexivity|].
  cbn [upload_blocks] in H.
  destruct (send_loop (ascii_blocks (S (2 * length (concat chunks))) blk (istart chunks)) cb1) as [[ev1 r1] cb2] eqn:R.
  inversion H; subst. destruct (send_loop_spec _ _ _ _ _ R) as ((k & K1 & _) & _).
  assert (F : Forall (fun n => (1 <= n)%nat) (repeat blk (S (2 * length (concat chunks))))).
  { apply Forall_forall. intros x Hx. apply repeat_spec in Hx. subst. exact Hb. }
  assert (L : (length (to_crlf (concat chunks)) < length (repeat blk (S (2 * length (concat chunks)))))%nat).
  { rewrite repeat_length. pose proof (to_crlf_length (concat chunks)). lia. }
  destruct (upload_conv chunks _ F L) as (os & st' & D & E & _).
  rewrite ascii_blocks_drain, D in K1. cbn [fst] in K1.
  exists (concat (skipn k os)). rewrite !net_out_app, Q4, K1. cbn [app].
  assert (X : net_out_bytes (match cb with Some _ => [IoEnd] | None => [] end) = []) by (destruct cb; reflexivity).
  rewrite X, app_nil_r, <- concat_app, firstn_skipn. exact E.
Qed.

Definition inv (w : world) : Prop := c_type (w_cfg w) = TAscii.

(* a step that writes nothing to a data connection and keeps the transfer type and the source *)
Definition Sa (w w' : world) : Prop :=
  exists tr, w_trace w' = w_trace w ++ tr /\ outb tr = [] /\ c_type (w_cfg w') = c_type (w_cfg w) /\
             io_chunks (w_io w') = io_chunks (w_io w).

(* what a program adds: nothing ([done] = the data loop is behind us), or a prefix of the source *)
Definition Res (done : bool) (w w' : world) : Prop :=
  exists tr, w_trace w' = w_trace w ++ tr /\
    if done then outb tr = [] else exists rest, outb tr ++ rest = to_crlf (concat (io_chunks (w_io w))).

Lemma Sa_refl w : Sa w w.
Proof. exists []. rewrite app_nil_r. repeat split. Qed.

Lemma Res_refl done w : Res done w w.
Proof. exists []. rewrite app_nil_r. split; [reflexivity|]. destruct done; [reflexivity|eexists; reflexivity]. Qed.

Lemma Sa_trans a b c : Sa a b -> Sa b c -> Sa a c.
Proof.
  intros (t1 & E1 & B1 & C1 & S1) (t2 & E2 & B2 & C2 & S2). exists (t1 ++ t2). rewrite E2, E1, app_assoc. split; [reflexivity|].
  split; [rewrite outb_app, B1, B2; reflexivity|]. split; congruence.
Qed.

Lemma Sa_then done a b c : Sa a b -> (inv b -> Res done b c) -> inv a -> Res done a c.
Proof.
  intros (t1 & E1 & B1 & C1 & S1) K I0.
  assert (Ib : inv b) by (unfold inv in *; rewrite C1; exact I0).
  destruct (K Ib) as (t2 & E2 & R2).
  exists (t1 ++ t2). rewrite E2, E1, app_assoc. split; [reflexivity|]. rewrite outb_app, B1. cbn [app].
  destruct done; [exact R2|]. rewrite <- S1. exact R2.
Qed.

Lemma Sa_weaken done a b : Sa a b -> Res done a b.
Proof.
  intros (t & E & B & _). exists t. split; [exact E|]. destruct done; [exact B|eexists; rewrite B; reflexivity].
Qed.

Lemma Sa_quiet w w' es : w_trace w' = w_trace w ++ es -> Forall quiet es -> w_cfg w' = w_cfg w -> w_io w' = w_io w -> Sa w w'.
Proof. intros E Q C S. exists es. split; [exact E|]. split; [apply quiet_outb; exact Q|]. rewrite C, S. split; reflexivity. Qed.

Lemma Sa_notify w e : Sa w (notify w e).
Proof. apply (Sa_quiet _ _ (map (fun o => EObs o e) (w_obs w))); [reflexivity|apply q_obs|reflexivity|reflexivity]. Qed.

Ltac qall := repeat (first [apply Forall_nil | apply Forall_cons; [exact I|]]).
Ltac sq := first
  [ apply (Sa_quiet _ _ []); [cbn [w_trace emit set_trace set_queues set_io set_data set_cfg set_ctl set_obs release_pending notify];
                             rewrite ?app_nil_r; reflexivity|constructor|reflexivity|reflexivity]
  | (eapply Sa_quiet; [cbn [w_trace emit set_trace set_queues set_io set_data set_cfg set_ctl set_obs release_pending notify];
                       rewrite <- ?app_assoc; reflexivity|qall|reflexivity|reflexivity]) ].

Lemma Sa_do_send w line w' : do_send w line = Some w' -> Sa w w'.
Proof.
  unfold do_send. destruct (negb _); [discriminate|]. destruct (_ && negb _); [discriminate|].
  set (w1 := notify w (ORequest line)).
  assert (G1 : Sa w w1) by apply Sa_notify.
  destruct (w_peer_closed w1); intro H; inversion H; subst; clear H.
  - eapply Sa_trans; [exact G1|]. sq.
  - eapply Sa_trans; [exact G1|].
    match goal with |- Sa w1 (peer_react ?W) => apply (Sa_trans _ W) end.
    + sq.
    + destruct (peer_react_same (emit w1 [EWire (w_ssl w1 && w_tls_up w1) (w_ord w1) line])) as (A & B).
      apply (Sa_quiet _ _ []); [rewrite app_nil_r; apply peer_react_trace|constructor|exact A|exact B].
Qed.

Lemma Sa_close_data w : Sa w (close_data w).
Proof.
  unfold close_data. destruct (w_data w) as [d|]; [|apply Sa_refl].
  destruct (d_sock d), (d_acc d); cbv zeta.
  - apply (Sa_quiet _ _ [EData DClose; EData DAccClose]); [cbn [w_trace set_data emit set_trace release_pending set_queues]; rewrite <- app_assoc; reflexivity|qall|reflexivity|reflexivity].
  - apply (Sa_quiet _ _ [EData DClose]); [reflexivity|qall|reflexivity|reflexivity].
  - apply (Sa_quiet _ _ [EData DAccClose]); [reflexivity|qall|reflexivity|reflexivity].
  - apply (Sa_quiet _ _ []); [rewrite app_nil_r; reflexivity|constructor|reflexivity|reflexivity].
Qed.

Lemma Sa_ctl_disconnect w : Sa w (snd (ctl_disconnect w)).
Proof.
  unfold ctl_disconnect. cbn [snd].
  eapply Sa_quiet; [cbn [w_trace set_queues set_ctl emit set_trace]; reflexivity| |reflexivity|reflexivity].
  destruct (w_ssl w); cbn [app]; qall.
Qed.

(* upload programs: one data loop ([PumpOut]) at most on every path, no download loop, no change of the transfer type *)
Fixpoint gz (p : prog) (done : bool) : Prop :=
  match p with
  | Ret _ | Throw => True
  | SetTypeCfg _ _ | PumpIn _ | PumpInList _ => False
  | PumpOut k => done = false /\ forall x, gz (k x) true
  | Recv k => forall r, gz (k r) done
  | GetCfg k => forall c, gz (k c) done
  | IsOpen k | IsSsl k | Poll k => forall b, gz (k b) done
  | CheckArg _ k | Send _ _ k | SendRaw _ k | SendAdv _ k | Notify _ k | CtlConnect _ _ k | CtlSetSsl _ k
  | CtlHandshake k | CtlTlsShutdown k | CtlDisconnect k | DNew k | DConnect _ _ k | DListenP k | DAccept k | DHandshakeP k
  | DDisconnect _ k | Scope k => gz k done
  end.

Ltac ih IH N := let Ib := fresh "Ib" in intro Ib; apply IH; [first [exact N | apply N]|exact Ib].

Lemma run_gz : forall p done w, gz p done -> inv w -> Res done w (snd (run p w)).
Proof.
  induction p as [v| |a k IH|verb arg k IH|line k IH|a k IH|k IH|e k IH|k IH|t k IH|k IH|k IH|h pt k IH|on k IH|k IH|k IH|k IH
                 |k IH|ip port k IH|k IH|k IH|k IH|g k IH|k IH|k IH|k IH|k IH|body IH]; intros done w N T; cbn [run]; cbn [gz] in N.
  - apply Res_refl.
  - apply Res_refl.
  - destruct (has_crlf a); [apply Res_refl|apply IH; assumption].
  - destruct arg as [a|].
    + destruct (has_crlf a); [apply Res_refl|].
      destruct (do_send w _) as [w'|] eqn:X; cbn [snd];
        [eapply Sa_then; [eapply Sa_do_send; exact X|ih IH N|exact T]|eapply Sa_weaken; apply Sa_notify].
    + destruct (do_send w _) as [w'|] eqn:X; cbn [snd];
        [eapply Sa_then; [eapply Sa_do_send; exact X|ih IH N|exact T]|eapply Sa_weaken; apply Sa_notify].
  - destruct (do_send w _) as [w'|] eqn:X; cbn [snd];
      [eapply Sa_then; [eapply Sa_do_send; exact X|ih IH N|exact T]|eapply Sa_weaken; apply Sa_notify].
  - destruct (match a with AdvEprt => Some (make_eprt_command _ _) | AdvPort => _ end) as [line|]; [|apply Res_refl].
    destruct (do_send w _) as [w'|] eqn:X; cbn [snd];
      [eapply Sa_then; [eapply Sa_do_send; exact X|ih IH N|exact T]|eapply Sa_weaken; apply Sa_notify].
  - (* Recv *)
    destruct (negb (w_open w)); [apply Res_refl|].
    destruct (w_backlog w) as [|[t [x|]] rest].
    + destruct (w_peer_closed w); apply Res_refl.
    + set (w1 := emit (set_queues w rest (w_pending w)) [ERecv t x]).
      assert (G1 : Sa w w1) by (unfold w1; sq).
      destruct (code x =? 421).
      * destruct (ctl_disconnect w1) as [ok w2] eqn:D.
        pose proof (Sa_ctl_disconnect w1) as G2. rewrite D in G2. cbn [snd] in G2.
        destruct ok; cbn [snd].
        -- eapply Sa_then; [eapply Sa_trans; [exact G1|]; eapply Sa_trans; [exact G2|apply Sa_notify]| |exact T].
           intro Ib. apply IH; [apply N|exact Ib].
        -- eapply Sa_weaken. eapply Sa_trans; [exact G1|exact G2].
      * eapply Sa_then; [eapply Sa_trans; [exact G1|apply Sa_notify]| |exact T]. intro Ib. apply IH; [apply N|exact Ib].
    + cbn [snd]. eapply Sa_weaken. sq.
  - eapply Sa_then; [apply Sa_notify|ih IH N|exact T].
  - apply IH; [apply N|exact T].
  - destruct N.
  - apply IH; [apply N|exact T].
  - apply IH; [apply N|exact T].
  - (* CtlConnect *)
    match goal with |- context [match w_script ?w0 with _ => _ end] => set (W0 := w0) end.
    assert (X0 : Sa w W0) by (unfold W0; destruct (w_open w); sq).
    destruct (w_script W0) as [|s rest]; cbn [snd].
    + eapply Sa_weaken. eapply Sa_trans; [exact X0|sq].
    + destruct (negb (s_reachable s)); cbn [snd].
      * eapply Sa_weaken. eapply Sa_trans; [exact X0|].
        eapply Sa_quiet; [cbn [w_trace emit set_trace]; reflexivity|qall|reflexivity|reflexivity].
      * eapply Sa_then; [eapply Sa_trans; [exact X0|]|ih IH N|exact T].
        eapply Sa_quiet; [cbn [w_trace emit set_trace]; reflexivity|qall|reflexivity|reflexivity].
  - eapply Sa_then; [|ih IH N|exact T]. sq.
  - destruct (w_last_tls_ok w && negb (w_peer_closed w)); cbn [snd]; [eapply Sa_then; [|ih IH N|exact T]|eapply Sa_weaken]; sq.
  - destruct (w_tls_up w && w_tls_clean w && negb (w_peer_closed w)); cbn [snd]; [eapply Sa_then; [|ih IH N|exact T]|eapply Sa_weaken]; sq.
  - destruct (ctl_disconnect w) as [ok w1] eqn:D.
    pose proof (Sa_ctl_disconnect w) as G2. rewrite D in G2. cbn [snd] in G2.
    destruct ok; cbn [snd]; [eapply Sa_then; [exact G2|ih IH N|exact T]|eapply Sa_weaken; exact G2].
  - eapply Sa_then; [|ih IH N|exact T]. sq.
  - destruct (dp_reachable (w_plan w)); cbn [snd]; [eapply Sa_then; [|ih IH N|exact T]|eapply Sa_weaken]; sq.
  - eapply Sa_then; [|ih IH N|exact T]. sq.
  - destruct (dp_reachable (w_plan w)); cbn [snd]; [eapply Sa_then; [|ih IH N|exact T]; sq|apply Res_refl].
  - destruct (dp_tls_ok (w_plan w)); cbn [snd]; [eapply Sa_then; [|ih IH N|exact T]|eapply Sa_weaken]; sq.
  - destruct (w_data w) as [d|]; [|apply IH; assumption].
    destruct (d_ssl d && negb (dp_shutdown_ok (w_plan w))); cbn [snd]; [eapply Sa_weaken; sq|].
    eapply Sa_then; [|ih IH N|exact T]. eapply Sa_trans; [|apply Sa_close_data].
    destruct (d_ssl d), g; cbn [app]; sq.
  - destruct N.
  - destruct N.
  - (* PumpOut *)
    destruct N as (-> & N). unfold inv in T. rewrite T.
    destruct (data_send TAscii _ _ _) as [[ev x] cb'] eqn:DS.
    destruct (data_send_ascii_prefix _ _ _ _ _ _ block_size_pos DS) as (k0 & K0).
    match goal with |- context [set_io ?A0 ?B0] => set (W1 := set_io A0 B0) end.
    assert (E1 : w_trace W1 = w_trace w ++ map EIo ev) by reflexivity.
    assert (O1 : outb (map EIo ev) ++ k0 = to_crlf (concat (io_chunks (w_io w)))) by (unfold outb; rewrite ios_io; exact K0).
    assert (T1 : inv W1) by exact T.
    destruct x; cbn [snd];
      try (exists (map EIo ev); split; [exact E1|exists k0; exact O1]);
      (match goal with |- context [run (k ?R0) W1] => destruct (IH R0 true W1 (N R0) T1) as (t2 & E2 & R2) end; exists (map EIo ev ++ t2); split;
        [rewrite E2, E1, app_assoc; reflexivity|exists k0; rewrite outb_app, R2, app_nil_r; exact O1]).
  - (* Poll *)
    destruct (io_cb (w_io w)) as [answers|]; [|apply IH; [apply N|exact T]].
    destruct (poll answers) as [a answers'].
    eapply Sa_then; [|intro Ib; apply IH; [apply N|exact Ib]|exact T].
    exists [EIo (IoPoll a)]. split; [reflexivity|]. split; [reflexivity|]. split; reflexivity.
  - (* Scope *)
    destruct (run body w) as [o w1] eqn:Rn. cbn [snd].
    pose proof (IH done w N T) as (tr & X & F). rewrite Rn in X. cbn [snd] in X.
    destruct (Sa_close_data w1) as (t2 & X2 & F2 & _).
    exists (tr ++ t2). split.
    + cbn [w_trace set_data]. rewrite X2, X, app_assoc. reflexivity.
    + rewrite outb_app, F2, app_nil_r. exact F.
Qed.

(* ------------------------------------------------------------------ the upload operation *)
Lemma gz_cdc verb arg acc k_ok k_none done : (forall a, gz (k_ok a) done) -> (forall a, gz (k_none a) done) ->
  gz (create_data_connection verb arg acc k_ok k_none) done.
Proof.
  intros K1 K2. unfold create_data_connection, process_command. cbn [gz]. intro c.
  destruct (c_mode c), (c_rfc2428 c);
    repeat (cbn [gz]; first [ exact I | intro
      | match goal with
        | |- gz (if ?b then _ else _) _ => destruct b
        | |- gz (match ?x with _ => _ end) _ => destruct x
        | |- gz (let _ := _ in _) _ => cbv zeta
        end ]); first [apply K1 | apply K2].
Qed.

Lemma gz_finish acc : gz (finish_transfer acc) true.
Proof.
  unfold finish_transfer, process_abort, process_command. cbn [gz]. intro b. destruct b; cbn [gz].
  - intro r. destruct (code r =? 426); cbn [gz]; [intro; exact I|exact I].
  - intro r. exact I.
Qed.

(* every upload call (STOR / STOU / APPE), every state in ASCII type, every server: the bytes written to the data
   connection are a prefix of the LF->CRLF conversion of what the source yields *)
Theorem upload_writes_a_prefix_of_the_conversion u path chunks cb w : c_type (w_cfg w) = TAscii ->
  exists tr rest, w_trace (snd (step w (AUpload u path chunks cb))) = w_trace w ++ tr /\
    net_out_bytes (ios tr) ++ rest = to_crlf (concat chunks).
Proof.
  intro Ty. unfold step. cbn [prog_of io_of].
  set (w0 := set_io w (mkIo cb (mkSink None O) chunks)).
  assert (T : inv w0) by exact Ty.
  assert (N : gz (op_upload (upverb_bytes u) path) false).
  { unfold op_upload. cbn [gz]. apply gz_cdc; [|intro; exact I].
    intro a. cbn [gz]. split; [reflexivity|]. intro x. apply gz_finish. }
  destruct (run_gz _ false w0 N T) as (tr & X & k & K). exists tr, k. split; [exact X|exact K].
Qed.

(* non-vacuity: an upload of text in three chunks (a lone LF, a CRLF pair split across chunks), completed: what goes out is its conversion *)
Definition upload_ascii_script : list session :=
  let say c := mkR [RReply (mkReply c [])] [] false false true no_plan in
  let epsv := mkR [RReply (mkReply 229 [40;124;124;124;53;124;41])] [] false false true (mkDP true true [] DEof true) in
  let stor := mkR [RReply (mkReply 150 [])] [RReply (mkReply 226 [])] false false true (mkDP true true [] DEof true) in
  [mkSess true false true (say 220) [epsv; stor]].

Example upload_ascii_example :
  let w0 := init_world (mkConfig Passive true TAscii false false) upload_ascii_script in
  let tr := w_trace (snd (steps w0 [AConnect [104] 21 None; AUpload UStor [102] [[97;10]; [13]; [10;98;10]] None])) in
  net_out_bytes (ios tr) = [97;13;10;13;10;98;13;10].
Proof. vm_compute. reflexivity. Qed.
