(* App.v - model of the interactive client: command_handler (app/cmdline/src/command_handler.cpp),
   cmdline_interface::run, main. Library calls are the steps of Client.v; the local file system is a
   finite map from names to contents with the failure modes the handler has to survive. *)
From LibFtp Require Export Bytes Decimal Reply DataConn Client Cmdline AppStrings Typed.
Local Open Scope N_scope.

Inductive out_item :=
| OPrompt (p : bytes)            (* printed without newline before a line is read *)
| OLine (l : bytes)              (* a line of output: messages, replies (observer), listing text *)
| ORaw (t : bytes)               (* listing text as received (no newline added) *)
| OFtpError                      (* what() of an ftp_exception (system-dependent text) *)
| OProgressBegin | OProgressEnd. (* "Transmitting data..." / end of line of the transfer callback *)

(* the local file system: what exists(symlink_status(name)) / ofstream / ifstream / remove do with a name. The keys are the
   names present in the working directory: regular files, and - with empty content - directories and symbolic links,
   dangling ones included (the handler looks at the name itself, not at what a link points to) *)
Definition fs := list (bytes * bytes).
Fixpoint fs_get (f : fs) (n : bytes) : option bytes :=
  match f with [] => None | (k, v) :: f' => if bytes_eqb k n then Some v else fs_get f' n end.
Fixpoint fs_remove (f : fs) (n : bytes) : fs :=
  match f with [] => [] | (k, v) :: f' => if bytes_eqb k n then fs_remove f' n else (k, v) :: fs_remove f' n end.
Definition fs_put (f : fs) (n v : bytes) : fs := (n, v) :: fs_remove f n.
(* names the scratch directory accepts for a new file: non-empty, at most 255 bytes, no '/' and no NUL, not . or .. *)
Definition name_ok (n : bytes) : bool :=
  negb (Nat.eqb (length n) 0) && Nat.leb (length n) 255 && negb (mem 47 n) && negb (mem 0 n) &&
  negb (bytes_eqb n [46]) && negb (bytes_eqb n [46; 46]).

Record app := mkApp { a_w : world; a_fs : fs; a_in : list bytes; a_out : list out_item }.

Inductive hres := HOk | HCmdline (msg : bytes) | HFtp | HEof | HBlocked.
(* HEof: the input ended inside a prompt; HBlocked: a library call never returns (silent peer): the process hangs *)

Definition say (a : app) (o : list out_item) : app := mkApp (a_w a) (a_fs a) (a_in a) (a_out a ++ o).
Definition with_w (a : app) (w : world) : app := mkApp w (a_fs a) (a_in a) (a_out a).

(* utils::read_line: prompt, then the next input line; None at end of input *)
Definition read_line (a : app) (p : bytes) : option bytes * app :=
  match a_in a with
  | [] => (None, say a [OPrompt p])
  | l :: rest => (Some l, mkApp (a_w a) (a_fs a) rest (a_out a ++ [OPrompt p]))
  end.

(* the events of one library call that reach the terminal: replies and listing text (observer stdout_writer),
   the progress line of the transfer callback *)
Fixpoint terminal (tr : list event) : list out_item :=
  match tr with
  | [] => []
  | EObs _ (OReply r) :: t => OLine (text r) :: terminal t
  | EObs _ (OFileList x) :: t => ORaw x :: terminal t
  | EIo IoBegin :: t => OProgressBegin :: terminal t
  | EIo IoEnd :: t => OProgressEnd :: terminal t
  | _ :: t => terminal t
  end.

(* run one library call; an ftp_exception makes handle() disconnect non-gracefully and rethrow *)
Definition lib (a : app) (c : api) : outcome * app :=
  let n := length (w_trace (a_w a)) in
  let '(o, w1) := step (a_w a) c in
  let a1 := say (with_w a w1) (terminal (skipn n (w_trace w1))) in
  match o with
  | OThrow => let '(_, w2) := step w1 (ADisconnect false) in (o, with_w a1 w2)
  | _ => (o, a1)
  end.

Definition lib_res (r : outcome * app) : hres * app :=
  match r with (OThrow, a) => (HFtp, a) | (OBlocked, a) => (HBlocked, a) | (_, a) => (HOk, a) end.

Definition connected (a : app) : bool := w_open (a_w a).

(* a command that needs the connection, with one text argument that is prompted for when missing *)
Definition net1 (a : app) (args : list bytes) (prompt usage : bytes) (mk : bytes -> api) : hres * app :=
  if negb (connected a) then (HCmdline m_not_open, a) else
  match args with
  | [] => match read_line a prompt with
          | (None, a1) => (HEof, a1)
          | (Some x, a1) => lib_res (lib a1 (mk x))
          end
  | [x] => lib_res (lib a (mk x))
  | _ => (HCmdline usage, a)
  end.

Definition net0 (a : app) (c : api) : hres * app :=
  if negb (connected a) then (HCmdline m_not_open, a) else lib_res (lib a c).

Definition netopt (a : app) (args : list bytes) (usage : bytes) (mk : option bytes -> api) : hres * app :=
  if negb (connected a) then (HCmdline m_not_open, a) else
  match args with
  | [] => lib_res (lib a (mk None))
  | [x] => lib_res (lib a (mk (Some x)))
  | _ => (HCmdline usage, a)
  end.

(* utils::get_filename: the part after the last '/' or '\' *)
Fixpoint after_last_slash (p acc : bytes) : bytes :=
  match p with
  | [] => acc
  | c :: p' => if (c =? 47) || (c =? 92) then after_last_slash p' p' else after_last_slash p' acc
  end.
Definition get_filename (p : bytes) : bytes := after_last_slash p p.

Fixpoint blocks_of (fuel : nat) (n : nat) (s : bytes) : list bytes :=
  match fuel with
  | O => []
  | S f => match s with [] => [] | _ => firstn n s :: blocks_of f n (skipn n s) end
  end.

Definition replies_positive (o : outcome) : bool :=
  match o with
  | OReturn (RvReplies l) => (match l with [] => false | _ => forallb is_positive l end)
  | _ => false
  end.

Definition login_prompted (a : app) (user : option bytes) : hres * app :=
  let ask_pw (u : bytes) (a1 : app) :=
    match read_line a1 p_password with
    | (None, a2) => (HEof, a2)
    | (Some pw, a2) => lib_res (lib a2 (ALogin u pw))
    end in
  match user with
  | Some u => ask_pw u a
  | None => match read_line a p_username with
            | (None, a1) => (HEof, a1)
            | (Some u, a1) => ask_pw u a1
            end
  end.

Fixpoint io_events_of (tr : list event) : list io_event :=
  match tr with
  | [] => []
  | EIo x :: t => x :: io_events_of t
  | _ :: t => io_events_of t
  end.

Definition handle (a : app) (c : command) (args : list bytes) : hres * app :=
  match c with
  | C_open =>
      if connected a then (HCmdline m_already, a) else
      let go (host : bytes) (port : N) (a1 : app) :=
        match lib a1 (AConnect host port None) with
        | (OThrow, a2) => (HFtp, a2)
        | (OBlocked, a2) => (HBlocked, a2)
        | (o, a2) => if replies_positive o then login_prompted a2 None else (HOk, a2)
        end in
      match args with
      | [] => match read_line a p_hostname with
              | (None, a1) => (HEof, a1)
              | (Some h, a1) => go h 21 a1
              end
      | [h] => go h 21 a
      | [h; p] => match try_parse_uint16 p with
                  | None => (HCmdline m_bad_port, a)
                  | Some port => go h port a
                  end
      | _ => (HCmdline m_usage_open, a)
      end
  | C_mode =>
      (HOk, say a [OLine (match c_mode (w_cfg (a_w a)) with Passive => m_passive_mode | Active => m_active_mode end)])
  | C_active => (HOk, say (with_w a (snd (step (a_w a) (ASetMode Active)))) [OLine m_active_on])
  | C_passive => (HOk, say (with_w a (snd (step (a_w a) (ASetMode Passive)))) [OLine m_passive_on])
  | C_user =>
      if negb (connected a) then (HCmdline m_not_open, a) else
      match args with
      | [] => login_prompted a None
      | [u] => login_prompted a (Some u)
      | _ => (HCmdline m_usage_user, a)
      end
  | C_logout => net0 a ALogout
  | C_close => net0 a (ADisconnect true)
  | C_cd => net1 a args p_remote_dir m_usage_cd (fun x => ASimple v_CWD (Some x))
  | C_cdup => net0 a (ASimple v_CDUP None)
  | C_ls => netopt a args m_usage_ls (fun x => AList x false)
  | C_pwd => net0 a (ASimple v_PWD None)
  | C_mkdir => net1 a args p_dirname m_usage_mkdir (fun x => ASimple v_MKD (Some x))
  | C_rmdir => net1 a args p_dirname m_usage_rmdir (fun x => ASimple v_RMD (Some x))
  | C_del => net1 a args p_remote_file m_usage_del (fun x => ASimple v_DELE (Some x))
  | C_stat => netopt a args m_usage_stat (fun x => ASimple v_STAT x)
  | C_syst => net0 a (ASimple v_SYST None)
  | C_noop => net0 a (ASimple v_NOOP None)
  | C_rhelp => netopt a args m_usage_rhelp (fun x => ASimple v_HELP x)
  | C_rename =>
      if negb (connected a) then (HCmdline m_not_open, a) else
      match args with
      | [x; y] => lib_res (lib a (ARename x y))
      | _ => (HCmdline m_usage_rename, a)
      end
  | C_type =>
      if negb (connected a) then (HCmdline m_not_open, a) else
      (HOk, say a [OLine (match c_type (w_cfg (a_w a)) with TBinary => m_binary_type | TAscii => m_ascii_type end)])
  | C_binary => net0 a (ASetType TBinary)
  | C_ascii => net0 a (ASetType TAscii)
  | C_size =>
      if negb (connected a) then (HCmdline m_not_open, a) else
      let go (x : bytes) (a1 : app) :=
        match lib a1 (ASimple v_SIZE (Some x)) with
        | (OThrow, a2) => (HFtp, a2)
        | (OBlocked, a2) => (HBlocked, a2)
        | (OReturn (RvReply r), a2) =>
            match parse_size r with
            | Some n => (HOk, say a2 [OLine (to_string n ++ m_bytes)])
            | None => (HOk, a2)
            end
        | (_, a2) => (HOk, a2)
        end in
      match args with
      | [] => match read_line a p_remote_file with (None, a1) => (HEof, a1) | (Some x, a1) => go x a1 end
      | [x] => go x a
      | _ => (HCmdline m_usage_size, a)
      end
  | C_put =>
      if negb (connected a) then (HCmdline m_not_open, a) else
      let go (local remote : bytes) (a1 : app) :=
        match fs_get (a_fs a1) local with
        | None => (HCmdline (m_open_pre ++ local ++ m_quote_dot), a1)
        | Some content =>
            lib_res (lib a1 (AUpload UStor remote (blocks_of (S (length content)) block_size content) (Some [])))
        end in
      match args with
      | [] => match read_line a p_local_file with
              | (None, a1) => (HEof, a1)
              | (Some l, a1) => go l (get_filename l) a1
              end
      | [l] => go l (get_filename l) a
      | [l; r] => go l r a
      | _ => (HCmdline m_usage_put, a)
      end
  | C_get =>
      if negb (connected a) then (HCmdline m_not_open, a) else
      let go (remote local : bytes) (a1 : app) :=
        match fs_get (a_fs a1) local with
        | Some _ => (HCmdline (m_exists_pre ++ local ++ m_exists_post), a1)
        | None =>
            if negb (name_ok local) then (HCmdline (m_create_pre ++ local ++ m_quote_dot), a1) else
            (* the file is created empty, then filled by the download *)
            let a2 := mkApp (a_w a1) (fs_put (a_fs a1) local []) (a_in a1) (a_out a1) in
            let n := length (w_trace (a_w a2)) in
            let '(o, a3) := lib a2 (ADownload remote (Some []) None) in
            let got := sink_bytes (io_events_of (skipn n (w_trace (a_w a3)))) in
            let a4 := mkApp (a_w a3) (fs_put (a_fs a3) local got) (a_in a3) (a_out a3) in
            match o with
            | OThrow => (HFtp, a4)
            | OBlocked => (HBlocked, a4)
            | _ => if replies_positive o then (HOk, a4)
                   else (HOk, mkApp (a_w a4) (fs_remove (a_fs a4) local) (a_in a4) (a_out a4))
            end
        end in
      match args with
      | [] => match read_line a p_remote_file with
              | (None, a1) => (HEof, a1)
              | (Some r, a1) => go r (get_filename r) a1
              end
      | [r] => go r (get_filename r) a
      | [r; l] => go r l a
      | _ => (HCmdline m_usage_get, a)
      end
  | C_help => (HOk, say a [OLine [104; 101; 108; 112]])     (* the help text, abbreviated to one token *)
  | C_exit =>
      (* exit() swallows every error of the final disconnect *)
      if connected a then
        let n := length (w_trace (a_w a)) in
        let '(o, w1) := step (a_w a) (ADisconnect true) in
        (match o with OBlocked => HBlocked | _ => HOk end, say (with_w a w1) (terminal (skipn n (w_trace w1))))
      else (HOk, a)
  end.

(* cmdline_interface::run + main: the loop ends at "exit" or at the end of the input; the exit status is 0 unless
   an exception other than cmdline_exception / ftp_exception / end-of-input escapes (none can in this model);
   a library call that never returns leaves the process hanging: no exit status at all *)
Inductive status := ExitSuccess | Hung.    (* Hung: blocked for ever in a library call; the process does not end *)

Fixpoint run_app (fuel : nat) (a : app) : status * app :=
  match fuel with
  | O => (ExitSuccess, a)
  | S f =>
      match read_line a p_main with
      | (None, a1) => (ExitSuccess, a1)                        (* end of input: normal exit *)
      | (Some line, a1) =>
          match line with
          | [] => run_app f a1
          | _ =>
              match parse_command line with
              | None => run_app f (say a1 [OLine m_invalid])
              | Some (c, args) =>
                  match handle a1 c args with
                  | (HEof, a2) => (ExitSuccess, a2)
                  | (HCmdline m, a2) => run_app f (say a2 [OLine m])
                  | (HFtp, a2) => run_app f (say a2 [OFtpError])
                  | (HBlocked, a2) => (Hung, a2)
                  | (HOk, a2) =>
                      match c with C_exit => (ExitSuccess, a2) | _ => run_app f a2 end
                  end
              end
          end
      end
  end.

(* every iteration consumes at least one input line *)
Definition run_main (a : app) : status * app := run_app (S (length (a_in a))) a.

Definition app_init (script : list session) (files : fs) (input : list bytes) : app :=
  mkApp (set_obs (init_world (mkConfig Passive true TBinary false false) script) [O]) files input [].
