(* C01 - control replies are framed exactly, independent of network segmentation. *)
From LibFtp Require Import Bytes Decimal Reply Framing FramingSpec Framing_Proofs.
Local Open Scope N_scope.

(* For every list of well-formed replies (single-line, or multi-line "ddd-" ... closed by the first
   later line "ddd " ; any CR/LF-free texts, continuation lines of any shape that is not a closing
   line; CR LF or LF after every line; every line at most [m] bytes with its terminator), every
   trailing rest, every split of the stream into already-buffered and unread bytes, every read
   schedule and either way the stream may end afterwards: the k-th receive step returns exactly the
   k-th reply - code, and text = its bytes minus the final terminator - and after the last one the
   bytes not yet handed out are exactly the rest: nothing lost, duplicated or merged.
   (Code 421 ends the connection - C13: it is framed like any other reply, but nothing is received after it;
   that case is C01_recv_frames_then_421 below.) *)
Theorem C01_recv_frames : forall (m : nat) (rs : list wreply) (s : conn) (tail : bytes),
  forallb (wf_reply m) rs = true -> forallb not421 rs = true ->
  buffer s ++ unread (tr s) = render rs ++ tail ->
  exists s', recv_n (length rs) (fixed_cfg m) s = (map (fun r => Ok (expected r)) rs, s') /\
             buffer s' ++ unread (tr s') = tail.
Proof. exact recv_frames. Qed.
Print Assumptions C01_recv_frames.

(* ... and the same when commands are sent between the receive steps (a history of the control connection: any
   interleaving [ops] of receive steps and sends with as many receive steps as there are replies): bytes that followed
   a reply are kept for the next receive step whatever is sent in between *)
Theorem C01_recv_frames_with_sends : forall (m : nat) (ops : list cop) (rs : list wreply) (s : conn) (tail : bytes),
  forallb (wf_reply m) rs = true -> forallb not421 rs = true ->
  buffer s ++ unread (tr s) = render rs ++ tail -> count_recv ops = length rs ->
  exists s', run_ops ops (fixed_cfg m) s = (map (fun r => Ok (expected r)) rs, s') /\
             buffer s' ++ unread (tr s') = tail.
Proof. exact recv_frames_with_sends. Qed.
Print Assumptions C01_recv_frames_with_sends.

(* the result is identical for every way the stream is cut into network reads *)
Theorem C01_schedule_irrelevant : forall m rs tail b1 u1 sc1 e1 b2 u2 sc2 e2,
  forallb (wf_reply m) rs = true -> forallb not421 rs = true ->
  b1 ++ u1 = render rs ++ tail -> b2 ++ u2 = render rs ++ tail ->
  let r1 := recv_n (length rs) (fixed_cfg m) (mkConn b1 (mkT u1 sc1 e1)) in
  let r2 := recv_n (length rs) (fixed_cfg m) (mkConn b2 (mkT u2 sc2 e2)) in
  fst r1 = fst r2 /\
  buffer (snd r1) ++ unread (tr (snd r1)) = buffer (snd r2) ++ unread (tr (snd r2)).
Proof. exact recv_schedule_irrelevant. Qed.
Print Assumptions C01_schedule_irrelevant.

(* a 421 reply itself is framed exactly like the others, for every schedule; the connection is then closed, the
   bytes that followed are dropped and every later receive step reports an error *)
Theorem C01_recv_frames_then_421 : forall m rs r s tail k,
  forallb (wf_reply m) rs = true -> forallb not421 rs = true -> wf_reply m r = true -> not421 r = false ->
  buffer s ++ unread (tr s) = render (rs ++ [r]) ++ tail ->
  recv_n (length rs + 1 + S k) (fixed_cfg m) s = (map (fun r => Ok (expected r)) (rs ++ [r]) ++ [Exn], closed_conn).
Proof. exact recv_frames_then_421. Qed.
Print Assumptions C01_recv_frames_then_421.

(* history: on the pinned code the cut between CR and LF changed the result (finding F1) *)
Theorem C01_recv_frames_refuted_on_pinned :
  exists s, buffer s ++ unread (tr s) = f1_stream /\
    fst (recv_n 2 (pinned_cfg 64) s) <> fst (recv_n 2 (fixed_cfg 64) s).
Proof. exact recv_frames_refuted_on_pinned. Qed.
Print Assumptions C01_recv_frames_refuted_on_pinned.

(* non-vacuity: "150 ok" then a three-line 226 whose middle line starts with "226-", LF-terminated *)
Definition ex_rs : list wreply :=
  [WSingle [49;53;48] [32;111;107] TCRLF;
   WMulti [50;50;54] [97] TCRLF [mkL [50;50;54;45;120] TLF; mkL [] TCRLF] [98] TLF].
Example C01_example_wf : forallb (wf_reply 64) ex_rs = true.
Proof. vm_compute. reflexivity. Qed.
Example C01_example_every_cut :
  forallb (fun k => match recv_n 2 (fixed_cfg 64) (mkConn [] (mkT (render ex_rs) [k] EndEof)) with
                    | ([Ok a; Ok b], _) => bytes_eqb (text a) [49;53;48;32;111;107] && (code b =? 226)
                    | _ => false end) (seq 1 30) = true.
Proof. vm_compute. reflexivity. Qed.
