(* Abor_Global.v - C12 over EVERY call, every state and every behaviour of the server: the client writes the command ABOR
   only when the transfer callback, asked last, reported cancellation ([EIo (IoPoll true)] is the most recent poll) - no
   transfer is ever aborted on the library's own initiative, and no other call writes ABOR. *)
From LibFtp Require Import Bytes Decimal Reply Endpoint DataConn Client Client_Proofs.
Local Open Scope N_scope.

(* [armed]: the answer of the most recent poll of the callback in this call *)
Fixpoint okab (armed : bool) (tr : list event) : Prop :=
  match tr with
  | [] => True
  | EIo (IoPoll b) :: tr' => okab b tr'
  | EWire _ _ l :: tr' => (l = ABOR_ -> armed = true) /\ okab armed tr'
  | EWireLost l :: tr' => (l = ABOR_ -> armed = true) /\ okab armed tr'
  | _ :: tr' => okab armed tr'
  end.

Fixpoint abafter (armed : bool) (tr : list event) : bool :=
  match tr with
  | [] => armed
  | EIo (IoPoll b) :: tr' => abafter b tr'
  | _ :: tr' => abafter armed tr'
  end.

Lemma okab_app armed a b : okab armed (a ++ b) <-> okab armed a /\ okab (abafter armed a) b.
Proof.
  revert armed. induction a as [|e a IH]; intro armed; cbn [app okab abafter]; [tauto|].
  destruct e as [| | | |i| | |]; cbn [okab abafter]; rewrite ?IH; try tauto.
  destruct i; cbn [okab abafter]; rewrite ?IH; tauto.
Qed.

Lemma abafter_app armed a b : abafter armed (a ++ b) = abafter (abafter armed a) b.
Proof.
  revert armed. induction a as [|e a IH]; intro armed; cbn [app abafter]; [reflexivity|].
  destruct e as [| | | |i| | |]; try apply IH. destruct i; apply IH.
Qed.

Definition quiet (e : event) : Prop := match e with EIo _ | EWire _ _ _ | EWireLost _ => False | _ => True end.

Lemma quiet_ok armed es : Forall quiet es -> okab armed es /\ abafter armed es = armed.
Proof.
  induction 1 as [|e es Q _ IH]; [split; [exact I|reflexivity]|].
  destruct e; cbn [okab abafter]; try exact IH; destruct Q.
Qed.

Lemma io_ok armed ev : okab armed (map EIo ev).
Proof. revert armed. induction ev as [|e ev IH]; intro armed; [exact I|]. cbn [map okab]. destruct e; apply IH. Qed.

Lemma q_obs obs e : Forall quiet (map (fun o => EObs o e) obs).
Proof. induction obs as [|o obs IH]; cbn; constructor; [exact I|exact IH]. Qed.

Definition St (armed : bool) (w w' : world) (armed' : bool) : Prop :=
  exists tr, w_trace w' = w_trace w ++ tr /\ okab armed tr /\ abafter armed tr = armed'.
Definition Sx (armed : bool) (w w' : world) : Prop := exists tr, w_trace w' = w_trace w ++ tr /\ okab armed tr.

Lemma St_refl armed w : St armed w w armed.
Proof. exists []. rewrite app_nil_r. repeat split. Qed.
Lemma Sx_refl armed w : Sx armed w w.
Proof. exists []. rewrite app_nil_r. repeat split. Qed.

Lemma St_trans h0 a h1 b h2 c : St h0 a b h1 -> St h1 b c h2 -> St h0 a c h2.
Proof.
  intros (t1 & E1 & O1 & L1) (t2 & E2 & O2 & L2). exists (t1 ++ t2). rewrite E2, E1, app_assoc. split; [reflexivity|].
  split; [apply okab_app; rewrite L1; split; assumption|rewrite abafter_app, L1; exact L2].
Qed.

Lemma St_then h0 a h1 b c : St h0 a b h1 -> Sx h1 b c -> Sx h0 a c.
Proof.
  intros (t1 & E1 & O1 & L1) (t2 & E2 & O2).
  exists (t1 ++ t2). rewrite E2, E1, app_assoc. split; [reflexivity|]. apply okab_app. rewrite L1. split; assumption.
Qed.

Lemma St_weaken h0 a b h1 : St h0 a b h1 -> Sx h0 a b.
Proof. intros (t & E & O & _). exists t. split; assumption. Qed.

Lemma St_quiet armed w w' es : w_trace w' = w_trace w ++ es -> Forall quiet es -> St armed w w' armed.
Proof. intros E Q. destruct (quiet_ok armed es Q) as (A & B). exists es. repeat split; assumption. Qed.

Lemma St_notify armed w e : St armed w (notify w e) armed.
Proof. apply (St_quiet _ _ _ (map (fun o => EObs o e) (w_obs w))); [reflexivity|apply q_obs]. Qed.

Ltac qall := repeat (first [apply Forall_nil | apply Forall_cons; [exact I|]]).
Ltac sq := first
  [ apply (St_quiet _ _ _ []); [cbn [w_trace emit set_trace set_queues set_io set_data set_cfg set_ctl set_obs release_pending notify];
                               rewrite ?app_nil_r; reflexivity|constructor]
  | (eapply St_quiet; [cbn [w_trace emit set_trace set_queues set_io set_data set_cfg set_ctl set_obs release_pending notify];
                       rewrite <- ?app_assoc; reflexivity|qall]) ].

(* a line goes out: fine if it is not ABOR, or if the callback has just reported cancellation *)
Lemma St_do_send armed w line w' : (line = ABOR_ -> armed = true) -> do_send w line = Some w' -> St armed w w' armed.
Proof.
  intro OK. unfold do_send. destruct (negb _); [discriminate|]. destruct (_ && negb _); [discriminate|].
  set (w1 := notify w (ORequest line)).
  assert (G1 : St armed w w1 armed) by apply St_notify.
  destruct (w_peer_closed w1); intro H; inversion H; subst; clear H.
  - eapply St_trans; [exact G1|]. exists [EWireLost line]. repeat split. exact OK.
  - eapply St_trans; [exact G1|].
    match goal with |- St _ w1 (peer_react ?W) _ => apply (St_trans _ _ armed W) end.
    + eexists. split; [cbn [w_trace emit set_trace]; reflexivity|]. repeat split. exact OK.
    + apply (St_quiet _ _ _ []); [rewrite app_nil_r; apply peer_react_trace|constructor].
Qed.

Lemma St_close_data armed w : St armed w (close_data w) armed.
Proof.
  unfold close_data. destruct (w_data w) as [d|]; [|apply St_refl].
  destruct (d_sock d), (d_acc d); cbv zeta.
  - apply (St_quiet _ _ _ [EData DClose; EData DAccClose]); [cbn [w_trace set_data emit set_trace release_pending set_queues]; rewrite <- app_assoc; reflexivity|qall].
  - apply (St_quiet _ _ _ [EData DClose]); [reflexivity|qall].
  - apply (St_quiet _ _ _ [EData DAccClose]); [reflexivity|qall].
  - apply (St_quiet _ _ _ []); [rewrite app_nil_r; reflexivity|constructor].
Qed.

Lemma St_ctl_disconnect armed w : St armed w (snd (ctl_disconnect w)) armed.
Proof.
  unfold ctl_disconnect. cbn [snd].
  eapply St_quiet; [cbn [w_trace set_queues set_ctl emit set_trace]; reflexivity|].
  destruct (w_ssl w); cbn [app]; qall.
Qed.

Lemma sp_not_abor verb a : verb ++ SP :: a <> ABOR_.
Proof.
  intro H. assert (I : In SP ABOR_) by (rewrite <- H; apply in_or_app; right; left; reflexivity).
  cbn in I. repeat (destruct I as [I|I]; [discriminate I|]). exact I.
Qed.

Lemma adv_not_abor (b6 : bool) (a : adv) line :
  match a with
  | AdvEprt => Some (make_eprt_command (if b6 then V6 [58; 58; 49] else V4 127 0 0 1) canon_port)
  | AdvPort => make_port_command (if b6 then V6 [58; 58; 49] else V4 127 0 0 1) canon_port
  end = Some line -> line <> ABOR_.
Proof. destruct b6, a; intro H; inversion H; subst; vm_compute; discriminate. Qed.

(* ------------------------------------------------------------------ programs *)
(* [gb p armed]: p writes the bare line ABOR only at points where the most recent poll of the callback - [armed] before p,
   then what p's own [Poll]s answer - said "cancelled"; after a data loop ([PumpIn] / [PumpOut]) nothing is assumed *)
Fixpoint gb (p : prog) (armed : bool) : Prop :=
  match p with
  | Ret _ | Throw => True
  | Send verb arg k => (arg = None -> verb = ABOR_ -> armed = true) /\ gb k armed
  | SendRaw line k => (line = ABOR_ -> armed = true) /\ gb k armed
  | Poll k => forall b, gb (k b) b
  | PumpIn k | PumpOut k => forall x a, gb (k x) a
  | PumpInList k => forall t a, gb (k t) a
  | Recv k => forall r, gb (k r) armed
  | GetCfg k => forall c, gb (k c) armed
  | IsOpen k | IsSsl k => forall b, gb (k b) armed
  | CheckArg _ k | SendAdv _ k | Notify _ k | SetTypeCfg _ k | CtlConnect _ _ k | CtlSetSsl _ k
  | CtlHandshake k | CtlTlsShutdown k | CtlDisconnect k | DNew k | DConnect _ _ k | DListenP k | DAccept k | DHandshakeP k
  | DDisconnect _ k | Scope k => gb k armed
  end.

Lemma okab_weaken b tr : okab false tr -> okab b tr.
Proof.
  revert b. induction tr as [|e tr IH]; intros b O; [exact I|].
  destruct e as [s o l|l| | |i| | |]; cbn [okab] in *; try (apply IH; exact O).
  - destruct O as (A & O). split; [intro X; discriminate (A X)|apply IH; exact O].
  - destruct O as (A & O). split; [intro X; discriminate (A X)|apply IH; exact O].
  - destruct i; try (apply IH; exact O). exact O.
Qed.

Lemma run_gb : forall p armed w, gb p armed -> Sx armed w (snd (run p w)).
Proof.
  induction p as [v| |a k IH|verb arg k IH|line k IH|a k IH|k IH|e k IH|k IH|t k IH|k IH|k IH|h pt k IH|on k IH|k IH|k IH|k IH
                 |k IH|ip port k IH|k IH|k IH|k IH|g k IH|k IH|k IH|k IH|k IH|body IH]; intros armed w N; cbn [run]; cbn [gb] in N.
  - apply Sx_refl.
  - apply Sx_refl.
  - destruct (has_crlf a); [apply Sx_refl|apply IH; exact N].
  - destruct N as (NA & N). destruct arg as [a|].
    + destruct (has_crlf a); [apply Sx_refl|].
      destruct (do_send w _) as [w'|] eqn:E; cbn [snd];
        [eapply St_then; [eapply St_do_send; [|exact E]; intro X; destruct (sp_not_abor _ _ X)|apply IH; exact N]
        |eapply St_weaken; apply St_notify].
    + destruct (do_send w _) as [w'|] eqn:E; cbn [snd];
        [eapply St_then; [eapply St_do_send; [|exact E]; intro X; apply NA; [reflexivity|exact X]|apply IH; exact N]
        |eapply St_weaken; apply St_notify].
  - destruct N as (NA & N).
    destruct (do_send w _) as [w'|] eqn:E; cbn [snd];
      [eapply St_then; [eapply St_do_send; [exact NA|exact E]|apply IH; exact N]|eapply St_weaken; apply St_notify].
  - destruct (match a with AdvEprt => _ | AdvPort => _ end) as [line|] eqn:A; [|apply Sx_refl].
    destruct (do_send w _) as [w'|] eqn:E; cbn [snd];
      [eapply St_then; [eapply St_do_send; [|exact E]; intro X; destruct (adv_not_abor (w_cur6 w) a line A X)|apply IH; exact N]
      |eapply St_weaken; apply St_notify].
  - (* Recv *)
    destruct (negb (w_open w)); [apply Sx_refl|].
    destruct (w_backlog w) as [|[t [r|]] rest].
    + destruct (w_peer_closed w); apply Sx_refl.
    + set (w1 := emit (set_queues w rest (w_pending w)) [ERecv t r]).
      assert (G1 : St armed w w1 armed) by (unfold w1; sq).
      destruct (code r =? 421).
      * destruct (ctl_disconnect w1) as [ok w2] eqn:D.
        pose proof (St_ctl_disconnect armed w1) as G2. rewrite D in G2. cbn [snd] in G2.
        destruct ok; cbn [snd].
        -- eapply St_then; [eapply St_trans; [exact G1|]; eapply St_trans; [exact G2|apply St_notify]|apply IH; apply N].
        -- eapply St_weaken. eapply St_trans; [exact G1|exact G2].
      * eapply St_then; [eapply St_trans; [exact G1|apply St_notify]|apply IH; apply N].
    + cbn [snd]. eapply St_weaken. sq.
  - eapply St_then; [apply St_notify|apply IH; exact N].
  - apply IH. apply N.
  - eapply St_then; [|apply IH; exact N]. sq.
  - apply IH. apply N.
  - apply IH. apply N.
  - (* CtlConnect *)
    match goal with |- context [match w_script ?w0 with _ => _ end] => set (W0 := w0) end.
    assert (X0 : St armed w W0 armed) by (unfold W0; destruct (w_open w); sq).
    destruct (w_script W0) as [|s rest]; cbn [snd].
    + eapply St_weaken. eapply St_trans; [exact X0|sq].
    + destruct (negb (s_reachable s)); cbn [snd].
      * eapply St_weaken. eapply St_trans; [exact X0|].
        eapply St_quiet; [cbn [w_trace emit set_trace]; reflexivity|qall].
      * eapply St_then; [eapply St_trans; [exact X0|]|apply IH; exact N].
        eapply St_quiet; [cbn [w_trace emit set_trace]; reflexivity|qall].
  - eapply St_then; [|apply IH; exact N]. sq.
  - destruct (w_last_tls_ok w && negb (w_peer_closed w)); cbn [snd]; [eapply St_then; [|apply IH; exact N]|eapply St_weaken]; sq.
  - destruct (w_tls_up w && w_tls_clean w && negb (w_peer_closed w)); cbn [snd]; [eapply St_then; [|apply IH; exact N]|eapply St_weaken]; sq.
  - destruct (ctl_disconnect w) as [ok w1] eqn:D.
    pose proof (St_ctl_disconnect armed w) as G2. rewrite D in G2. cbn [snd] in G2.
    destruct ok; cbn [snd]; [eapply St_then; [exact G2|apply IH; exact N]|eapply St_weaken; exact G2].
  - eapply St_then; [|apply IH; exact N]. sq.
  - destruct (dp_reachable (w_plan w)); cbn [snd]; [eapply St_then; [|apply IH; exact N]|eapply St_weaken]; sq.
  - eapply St_then; [|apply IH; exact N]. sq.
  - destruct (dp_reachable (w_plan w)); cbn [snd]; [eapply St_then; [|apply IH; exact N]; sq|apply Sx_refl].
  - destruct (dp_tls_ok (w_plan w)); cbn [snd]; [eapply St_then; [|apply IH; exact N]|eapply St_weaken]; sq.
  - destruct (w_data w) as [d|]; [|apply IH; exact N].
    destruct (d_ssl d && negb (dp_shutdown_ok (w_plan w))); cbn [snd]; [eapply St_weaken; sq|].
    eapply St_then; [|apply IH; exact N]. eapply St_trans; [|apply St_close_data].
    destruct (d_ssl d), g; cbn [app]; sq.
  - (* PumpIn *)
    destruct (data_recv _ _ _ _ _) as [[ev r] cb'].
    match goal with |- context [set_io ?A ?B] => set (W1 := set_io A B) end.
    assert (G1 : St armed w W1 (abafter armed (map EIo ev))).
    { exists (map EIo ev). unfold W1. repeat split. apply io_ok. }
    destruct r; cbn [snd]; try (eapply St_weaken; exact G1); (eapply St_then; [exact G1|apply IH; apply N]).
  - destruct (data_recv _ _ _ _ _) as [[ev r] cb'].
    match goal with |- context [emit w ?E] => set (W1 := emit w E) end.
    assert (G1 : St armed w W1 (abafter armed (map EIo ev))).
    { exists (map EIo ev). unfold W1. repeat split. apply io_ok. }
    destruct r; cbn [snd]; try (eapply St_weaken; exact G1); (eapply St_then; [exact G1|apply IH; apply N]).
  - destruct (data_send _ _ _ _) as [[ev r] cb'].
    match goal with |- context [set_io ?A ?B] => set (W1 := set_io A B) end.
    assert (G1 : St armed w W1 (abafter armed (map EIo ev))).
    { exists (map EIo ev). unfold W1. repeat split. apply io_ok. }
    destruct r; cbn [snd]; try (eapply St_weaken; exact G1); (eapply St_then; [exact G1|apply IH; apply N]).
  - (* Poll *)
    destruct (io_cb (w_io w)) as [answers|].
    + destruct (poll answers) as [a answers'].
      eapply St_then; [|apply IH; apply N].
      exists [EIo (IoPoll a)]. repeat split.
    + (* no callback: the answer is "not cancelled" *)
      assert (X : Sx false w (snd (run (k false) w))) by (apply IH; apply N).
      destruct X as (tr & E & O). exists tr. split; [exact E|].
      exact (okab_weaken _ _ O).
  - (* Scope *)
    destruct (run body w) as [o w1] eqn:Rn. cbn [snd].
    pose proof (IH armed w N) as (tr & E & O). rewrite Rn in E. cbn [snd] in E.
    destruct (St_close_data (abafter armed tr) w1) as (t2 & E2 & O2 & _).
    exists (tr ++ t2). split.
    + cbn [w_trace set_data]. rewrite E2, E, app_assoc. reflexivity.
    + apply okab_app. split; assumption.
Qed.

(* ------------------------------------------------------------------ the operations *)
Ltac side := match goal with
  | |- ?x = ?x => reflexivity
  | H : Some _ = None |- _ => discriminate H
  | H : _ = ABOR_ |- _ => exfalso; vm_compute in H; discriminate H
  end.
Ltac gbt := repeat (cbn [gb]; first
  [ exact I | side | intro | split
  | match goal with
    | |- gb (if ?b then _ else _) _ => destruct b eqn:?
    | |- gb (match ?x with _ => _ end) _ => destruct x eqn:?
    | |- gb (let _ := _ in _) _ => cbv zeta
    end ]).

Lemma gb_finish acc armed : gb (finish_transfer acc) armed.
Proof. unfold finish_transfer, process_abort, process_command. gbt. Qed.

Lemma gb_cdc verb arg acc k_ok k_none armed : (arg = None -> verb <> ABOR_) ->
  (forall a b, gb (k_ok a) b) -> (forall a b, gb (k_none a) b) ->
  gb (create_data_connection verb arg acc k_ok k_none) armed.
Proof.
  intros NV K1 K2. unfold create_data_connection, process_command. cbn [gb]. intro c.
  destruct (c_mode c), (c_rfc2428 c); gbt; try (exfalso; eapply NV; eassumption); first [apply K2 | apply K1].
Qed.

Lemma gb_process_login u pw acc k armed : (forall a b, gb (k a) b) -> gb (process_login u pw acc k) armed.
Proof. intro K. unfold process_login, process_command, process_raw. gbt; apply K. Qed.

Lemma gb_connect h p l armed : gb (op_connect h p l) armed.
Proof.
  unfold op_connect, process_raw. cbv zeta.
  assert (LP : forall acc b, gb (match l with
                | None => Ret (RvReplies acc)
                | Some (u, pw) => process_login u pw acc (fun acc' => Ret (RvReplies acc')) end) b).
  { intros acc b. destruct l as [[u pw]|]; [apply gb_process_login; intros; exact I|exact I]. }
  destruct l as [[u pw]|]; gbt; try apply (LP _ _); try (apply gb_process_login; intros; exact I).
Qed.

(* the calls of the API other than a raw command whose verb the caller makes "ABOR" *)
Definition not_raw_abor (a : api) : Prop := match a with ASimple v None => v <> ABOR_ | _ => True end.

(* every call, every state, every server: the line ABOR is written only when the most recent poll of the transfer callback
   in this call answered "cancelled" *)
Theorem step_abor_only_when_cancelled a w : not_raw_abor a ->
  exists tr, w_trace (snd (step w a)) = w_trace w ++ tr /\ okab false tr.
Proof.
  intro NR.
  assert (ST : forall p i, gb p false -> exists tr, w_trace (snd (run p (set_io w i))) = w_trace w ++ tr /\ okab false tr).
  { intros p i N. destruct (run_gb p false (set_io w i) N) as (tr & E & O). exists tr. split; [exact E|exact O]. }
  destruct a as [h p l|u pw| |v arg|t|x y|path cb f|uv path ch cb|path names|g|o|o|md|b]; unfold step; cbn [prog_of];
    try (exists []; rewrite app_nil_r; split; [reflexivity|exact I]).
  - apply ST. apply gb_connect.
  - apply ST. unfold op_login. apply gb_process_login. intros; exact I.
  - apply ST. unfold op_logout, process_command. gbt.
  - apply ST. unfold op_simple, process_command. cbn [gb]. split; [|intro r; exact I].
    intros -> X. cbn [not_raw_abor] in NR. destruct (NR X).
  - apply ST. unfold op_set_type, process_command. gbt.
  - apply ST. unfold op_rename, process_command. gbt.
  - apply ST. unfold op_download. cbn [gb]. apply gb_cdc; [intro X; discriminate X| |intros; exact I].
    intros a b. cbn [gb]. intros x a0. apply gb_finish.
  - apply ST. unfold op_upload. cbn [gb]. apply gb_cdc; [intro X; discriminate X| |intros; exact I].
    intros a b. cbn [gb]. intros x a0. apply gb_finish.
  - apply ST. unfold op_list. cbn [gb]. apply gb_cdc; [| |intros; exact I].
    + intros _ X. destruct names; vm_compute in X; discriminate X.
    + intros a b. gbt.
  - apply ST. unfold op_disconnect, process_command. destruct g; gbt.
Qed.

(* read on the trace: an ABOR on the wire is preceded, in the same call, by a poll that answered "cancelled" with no other
   poll in between *)
Corollary abor_follows_a_cancelling_poll a w tr pre s o post : not_raw_abor a ->
  w_trace (snd (step w a)) = w_trace w ++ tr -> tr = pre ++ EWire s o ABOR_ :: post -> abafter false pre = true.
Proof.
  intros NR E S. destruct (step_abor_only_when_cancelled a w NR) as (tr' & E' & O).
  rewrite E in E'. apply app_inv_head in E'. subst tr'. subst tr.
  apply okab_app in O. destruct O as (_ & O). cbn [okab] in O. exact (proj1 O eq_refl).
Qed.

(* non-vacuity: a download whose callback cancels after the first block sends ABOR; one whose callback never cancels does not *)
Definition abor_script : list session :=
  let say c := mkR [RReply (mkReply c [])] [] false false true no_plan in
  let epsv := mkR [RReply (mkReply 229 [40;124;124;124;53;124;41])] [] false false true (mkDP true true [] DEof true) in
  let retr := mkR [RReply (mkReply 150 [])] [RReply (mkReply 226 [])] false false true (mkDP true true [[1]; [2]; [3]] DEof true) in
  let abor := mkR [RReply (mkReply 426 []); RReply (mkReply 226 [])] [] true false true no_plan in
  [mkSess true false true (say 220) [epsv; retr; abor]].

Definition abor_count (tr : list event) : nat :=
  length (filter (fun e => match e with EWire _ _ l => if list_eq_dec N.eq_dec l ABOR_ then true else false | _ => false end) tr).

Example abor_example :
  let run_it cb := w_trace (snd (steps (init_world (mkConfig Passive true TBinary false false) abor_script)
                                       [AConnect [104] 21 None; ADownload [102] cb None])) in
  abor_count (run_it (Some [false; false; true; true])) = 1%nat /\ abor_count (run_it (Some [false; false; false; false; false; false])) = O /\
  okab false (run_it (Some [false; false; true; true])).
Proof. vm_compute. repeat split; intro X; discriminate X. Qed.
