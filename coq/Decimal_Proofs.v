From LibFtp Require Import Bytes Decimal.
Local Open Scope N_scope.

Lemma is_digit_range c : is_digit c = true <-> 48 <= c <= 57.
Proof. unfold is_digit. rewrite andb_true_iff, !N.leb_le. tauto. Qed.

Lemma dec_from_ge v s : v <= dec_from v s.
Proof.
  unfold dec_from. revert v; induction s as [|c s IH]; intro v; cbn [fold_left]; [lia|].
  etransitivity; [|apply IH]. lia.
Qed.

Lemma dec_from_cons v c s : dec_from v (c :: s) = dec_from (v * 10 + (c - 48)) s.
Proof. reflexivity. Qed.

Lemma max64_div10 : max64 / 10 = 1844674407370955161.
Proof. reflexivity. Qed.

(* the loop returns a value exactly when the rest is all digits and the exact
   (unbounded) decimal value fits in 64 bits; the value is that exact value *)
Lemma parse_u64_loop_spec s : forall v n, v <= max64 ->
  (parse_u64_loop s v = Some n <->
   (all_digits s = true /\ dec_from v s = n /\ n <= max64)).
Proof.
  induction s as [|ch s IH]; intros v n Hv; cbn [parse_u64_loop all_digits forallb].
  - unfold dec_from; cbn. split.
    + intro H; inversion H; subst. auto.
    + intros (_ & <- & _). reflexivity.
  - rewrite dec_from_cons. destruct (is_digit ch) eqn:Hd; cbn [negb andb].
    2:{ split; [discriminate|]. intros (H & _); discriminate. }
    apply is_digit_range in Hd. rewrite max64_div10.
    destruct (1844674407370955161 <? v) eqn:E1.
    { apply N.ltb_lt in E1. split; [discriminate|]. intros (_ & Hn & Hle).
      exfalso. pose proof (dec_from_ge (v * 10 + (ch - 48)) s) as G.
      unfold max64 in *. lia. }
    apply N.ltb_ge in E1.
    destruct (max64 - (ch - 48) <? v * 10) eqn:E2.
    { apply N.ltb_lt in E2. split; [discriminate|]. intros (_ & Hn & Hle).
      exfalso. pose proof (dec_from_ge (v * 10 + (ch - 48)) s) as G.
      unfold max64 in *. lia. }
    apply N.ltb_ge in E2. apply IH. unfold max64 in *. lia.
Qed.

Theorem try_parse_uint64_spec s n :
  try_parse_uint64 s = Some n <->
  (s <> [] /\ all_digits s = true /\ dec_value s = n /\ n <= max64).
Proof.
  unfold try_parse_uint64, dec_value. destruct s as [|c s].
  - split; [discriminate|]. intros (H & _); congruence.
  - rewrite parse_u64_loop_spec by (unfold max64; lia).
    split; [intros (A & B & C)|intros (_ & A & B & C)]; repeat split; auto; discriminate.
Qed.

Theorem try_parse_bounded_spec bound s n : bound <= max64 ->
  (try_parse_bounded bound s = Some n <->
   (s <> [] /\ all_digits s = true /\ dec_value s = n /\ n <= bound)).
Proof.
  intro Hb. unfold try_parse_bounded.
  destruct (try_parse_uint64 s) as [v|] eqn:E.
  - apply try_parse_uint64_spec in E as (A & B & C & D).
    destruct (bound <? v) eqn:F.
    + apply N.ltb_lt in F. split; [discriminate|]. intros (_ & _ & C' & D'). lia.
    + apply N.ltb_ge in F. split.
      * intro H; inversion H; subst. auto.
      * intros (_ & _ & C' & _). congruence.
  - split; [discriminate|]. intros (A & B & C & D).
    assert (try_parse_uint64 s = Some n) as H by (apply try_parse_uint64_spec; repeat split; auto; lia).
    congruence.
Qed.

(* a successful parse never returns a wrapped value: it is the exact decimal value *)
Corollary try_parse_uint64_none s :
  try_parse_uint64 s = None <-> (s = [] \/ all_digits s = false \/ max64 < dec_value s).
Proof.
  split.
  - intro H. destruct s as [|c s]; [auto|]. right.
    destruct (all_digits (c :: s)) eqn:A; [|auto]. right.
    destruct (N.ltb_spec max64 (dec_value (c :: s))) as [L|L]; [exact L|].
    assert (try_parse_uint64 (c :: s) = Some (dec_value (c :: s))) as K
      by (apply try_parse_uint64_spec; repeat split; auto; discriminate).
    congruence.
  - intros H. destruct (try_parse_uint64 s) as [n|] eqn:E; [|reflexivity].
    apply try_parse_uint64_spec in E as (A & B & C & D).
    destruct H as [H|[H|H]]; [congruence|congruence|lia].
Qed.

(* ---- split_string ---- *)
Lemma pieces_nonempty d s : pieces d s <> [].
Proof. destruct s as [|c s]; cbn; [discriminate|]. destruct (c =? d); [discriminate|].
  destruct (pieces d s); discriminate. Qed.

Lemma split_string_loop_spec d s : forall cur,
  split_string_loop s d cur =
  match s with
  | [] => []
  | _ => match pieces d s with
         | p :: ps => drop_last_empty ((rev cur ++ p) :: ps)
         | [] => []
         end
  end.
Proof.
  induction s as [|c s IH]; intro cur; [reflexivity|].
  cbn [split_string_loop pieces]. destruct (c =? d) eqn:E.
  - rewrite IH. rewrite app_nil_r. destruct s as [|c' s'].
    + cbn. destruct (rev cur); reflexivity.
    + destruct (pieces d (c' :: s')) as [|p ps] eqn:P; [exfalso; eapply pieces_nonempty; eauto|].
      cbn [rev app]. cbn [drop_last_empty].
      destruct (rev cur) eqn:R; [|reflexivity].
      destruct ps; [|reflexivity]. destruct p; reflexivity.
  - destruct s as [|c' s'].
    + cbn. destruct (rev cur ++ [c]) eqn:R.
      * destruct (rev cur); discriminate.
      * rewrite <- R. reflexivity.
    + rewrite IH.
      destruct (pieces d (c' :: s')) as [|p ps] eqn:P; [exfalso; eapply pieces_nonempty; eauto|].
      cbn [rev]. rewrite <- app_assoc. reflexivity.
Qed.

Theorem split_string_spec d s : split_string s d = drop_last_empty (pieces d s).
Proof.
  unfold split_string. rewrite split_string_loop_spec. destruct s as [|c s]; [reflexivity|].
  destruct (pieces d (c :: s)) eqn:P; [exfalso; eapply pieces_nonempty; eauto|]. reflexivity.
Qed.
