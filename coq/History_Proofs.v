(* History_Proofs.v - C02 over arbitrary mixed histories: simple commands, TYPE, rename, login, downloads, uploads,
   listings, refused transfers, in any order and any number, in the passive modes without TLS, against a peer whose
   script answers each command as RFC 959 prescribes: the k-th call returns exactly the replies generated for its own
   commands and the session is in step after every call. *)
From LibFtp Require Import Bytes Decimal Reply Endpoint Ascii DataConn DataConn_Proofs Client Client_Proofs Login_Proofs Transfer_Proofs Transfer_More Modes_Proofs Ctl_Proofs.
Local Open Scope N_scope.

(* the part of the state the calls depend on and must re-establish *)
Definition Inv (w : world) (rs : list reaction) : Prop :=
  insync w rs /\ w_data w = None /\ c_mode (w_cfg w) = Passive /\ c_tls (w_cfg w) = false /\ w_ssl w = false.

(* one served call: the call, the reactions of the peer it consumes, what it returns.
   [rfc] is the RFC 2428 flag of the session (EPSV vs PASV) *)
(* the replies a call hands back to its caller *)
Definition outcome_replies (o : outcome) : option (list reply) :=
  match o with
  | OReturn (RvReply x) => Some [x]
  | OReturn (RvReplies l) => Some l
  | OReturn (RvList l _) => Some l
  | OReturn (RvOptReply (Some x)) => Some [x]
  | OReturn (RvOptReply None) => Some []
  | OReturn RvUnit => Some []
  | OThrow | OBlocked => None
  end.

Inductive serves (rfc : bool) (t : ttype) : api -> list reaction -> list reply -> Prop :=
| sv_simple verb arg r x :
    arg_ok arg -> simple_reaction r x -> serves rfc t (ASimple verb arg) [r] [x]
| sv_type t0 r x :
    simple_reaction r x -> serves rfc t (ASetType t0) [r] [x]
| sv_login u pw rs xs ex :
    has_crlf u = false -> has_crlf pw = false -> simple_all rs xs ->
    login_opt false t u pw xs = Some ex -> length ex = length xs ->
    serves rfc t (ALogin u pw) rs (map snd ex)
| sv_rename_refused a b r1 x1 :
    has_crlf a = false -> has_crlf b = false -> simple_reaction r1 x1 -> code x1 <> 350 ->
    serves rfc t (ARename a b) [r1] [x1]
| sv_rename a b r1 r2 x1 x2 :
    has_crlf a = false -> has_crlf b = false -> simple_reaction r1 x1 -> code x1 = 350 -> simple_reaction r2 x2 ->
    serves rfc t (ARename a b) [r1; r2] [x1; x2]
| sv_download path r1 r2 x1 x2 x3 ip port :
    has_crlf path = false -> simple_reaction r1 x1 -> is_negative x1 = false ->
    (if rfc then try_parse_epsv_reply (text x1) = Some port /\ ip = None
     else exists a, try_parse_pasv_reply (text x1) = Some (a, port) /\ ip = Some a) ->
    dp_reachable (r_data r1) = true -> accepts_transfer r2 x2 x3 -> dp_end (r_data r2) = DEof ->
    serves rfc t (ADownload path None None) [r1; r2] [x1; x2; x3]
| sv_upload u path chunks r1 r2 x1 x2 x3 ip port :
    has_crlf path = false -> simple_reaction r1 x1 -> is_negative x1 = false ->
    (if rfc then try_parse_epsv_reply (text x1) = Some port /\ ip = None
     else exists a, try_parse_pasv_reply (text x1) = Some (a, port) /\ ip = Some a) ->
    dp_reachable (r_data r1) = true -> accepts_transfer r2 x2 x3 ->
    serves rfc t (AUpload u path chunks None) [r1; r2] [x1; x2; x3]
| sv_download_refused_at_setup path cb f r1 x1 :
    has_crlf path = false -> simple_reaction r1 x1 -> is_negative x1 = true ->
    serves rfc t (ADownload path cb f) [r1] [x1]
| sv_download_refused_at_command path cb f r1 r2 x1 x2 ip port :
    has_crlf path = false -> simple_reaction r1 x1 -> is_negative x1 = false ->
    (if rfc then try_parse_epsv_reply (text x1) = Some port /\ ip = None
     else exists a, try_parse_pasv_reply (text x1) = Some (a, port) /\ ip = Some a) ->
    dp_reachable (r_data r1) = true -> simple_reaction r2 x2 -> is_negative x2 = true ->
    serves rfc t (ADownload path cb f) [r1; r2] [x1; x2]
| sv_upload_refused_at_command u path chunks cb r1 r2 x1 x2 ip port :
    has_crlf path = false -> simple_reaction r1 x1 -> is_negative x1 = false ->
    (if rfc then try_parse_epsv_reply (text x1) = Some port /\ ip = None
     else exists a, try_parse_pasv_reply (text x1) = Some (a, port) /\ ip = Some a) ->
    dp_reachable (r_data r1) = true -> simple_reaction r2 x2 -> is_negative x2 = true ->
    serves rfc t (AUpload u path chunks cb) [r1; r2] [x1; x2]
| sv_list path names r1 r2 x1 x2 x3 ip port :
    arg_ok path -> simple_reaction r1 x1 -> is_negative x1 = false ->
    (if rfc then try_parse_epsv_reply (text x1) = Some port /\ ip = None
     else exists a, try_parse_pasv_reply (text x1) = Some (a, port) /\ ip = Some a) ->
    dp_reachable (r_data r1) = true -> accepts_transfer r2 x2 x3 -> dp_end (r_data r2) = DEof ->
    serves rfc t (AList path names) [r1; r2] [x1; x2; x3]
| sv_download_cancelled path answers r1 r2 r3 x1 x2 x4 x5 ip port :
    has_crlf path = false -> simple_reaction r1 x1 -> is_negative x1 = false ->
    (if rfc then try_parse_epsv_reply (text x1) = Some port /\ ip = None
     else exists a, try_parse_pasv_reply (text x1) = Some (a, port) /\ ip = Some a) ->
    dp_reachable (r_data r1) = true -> simple_reaction r2 x2 -> is_negative x2 = false ->
    (forall t, exists ev pr answers' answers'',
        data_recv t (mkSink None O) (dp_segs (r_data r2)) (dp_end (r_data r2)) (Some answers) = (ev, pr, Some answers') /\
        pr <> PThrow /\ poll answers' = (true, answers'')) ->
    r_now r3 = [RReply x4; RReply x5] -> r_on_close r3 = [] -> r_close_after r3 = false -> code x4 = 426 -> code x5 <> 421 ->
    serves rfc t (ADownload path (Some answers) None) [r1; r2; r3] [x1; x2; x4; x5].

(* the transfer type after a call: only an acknowledged TYPE changes it *)
Definition next_type (t : ttype) (c : api) (xs : list reply) : ttype :=
  match c, xs with
  | ASetType t0, [x] => if is_positive x then t0 else t
  | _, _ => t
  end.

Lemma inv_after w c rest :
  w_data w = None -> c_mode (w_cfg w) = Passive -> c_tls (w_cfg w) = false -> w_ssl w = false ->
  match c with AConnect _ _ _ | ALogout | ADisconnect _ | ASetMode _ | ASetRfc2428 _ => False | _ => True end ->
  insync (snd (step w c)) rest ->
  Inv (snd (step w c)) rest /\ c_rfc2428 (w_cfg (snd (step w c))) = c_rfc2428 (w_cfg w) /\
  w_script (snd (step w c)) = w_script w.
Proof.
  intros Hd Hm Ht Hs Hc Hi.
  pose proof (step_releases_data c w Hd) as D.
  pose proof (step_keeps_tls_config c w) as (K1 & _).
  pose proof (step_keeps_modes c w) as M.
  pose proof (step_keeps_ctl c w) as K.
  destruct c; try contradiction; destruct M as (M1 & M2); destruct K as (Ks & Kl);
    (split; [split; [exact Hi|split; [exact D|split; [rewrite M1; exact Hm|split; [rewrite K1; exact Ht|exact (Kl Hs)]]]]|split; [exact M2|exact Ks]]).
Qed.

(* one served call from a session in step: the replies handed back are as prescribed and the invariant is re-established *)
Theorem served_step w c rs rest xs :
  Inv w (rs ++ rest) -> serves (c_rfc2428 (w_cfg w)) (c_type (w_cfg w)) c rs xs ->
  outcome_replies (fst (step w c)) = Some xs /\ Inv (snd (step w c)) rest /\
  c_rfc2428 (w_cfg (snd (step w c))) = c_rfc2428 (w_cfg w) /\
  c_type (w_cfg (snd (step w c))) = next_type (c_type (w_cfg w)) c xs /\
  w_script (snd (step w c)) = w_script w.
Proof.
  intros (Hi & Hd & Hm & Ht & Hssl) S.
  assert (Fin : forall o w', step w c = (o, w') -> outcome_replies o = Some xs -> insync w' rest ->
                match c with AConnect _ _ _ | ALogout | ADisconnect _ | ASetMode _ | ASetRfc2428 _ => False | _ => True end ->
                c_type (w_cfg w') = next_type (c_type (w_cfg w)) c xs ->
                outcome_replies (fst (step w c)) = Some xs /\ Inv (snd (step w c)) rest /\
                c_rfc2428 (w_cfg (snd (step w c))) = c_rfc2428 (w_cfg w) /\
                c_type (w_cfg (snd (step w c))) = next_type (c_type (w_cfg w)) c xs /\
                w_script (snd (step w c)) = w_script w).
  { intros o w' E Ho Is Hc Hty. pose proof (inv_after w c rest Hd Hm Ht Hssl Hc) as IA. rewrite E in *. cbn [fst snd] in *.
    destruct (IA Is) as (I1 & I2 & I3). auto. }
  pose proof Hi as (Hr & Hp & Hc).
  inversion S; subst; cbn [app] in *.
  - destruct (simple_call w verb arg r rest x Hr Hp Hc H0 H) as (w' & E & A & B & C & Cf & _).
    apply (Fin _ w' E eq_refl); [exact (conj A (conj B C))|exact I|rewrite Cf; reflexivity].
  - destruct (set_type_call w t0 r rest x Hr Hp Hc H) as (w' & E & A & B & C & Ty & _).
    apply (Fin _ w' E eq_refl); [exact (conj A (conj B C))|exact I|exact Ty].
  - destruct (login_call_exact w u pw rs xs0 rest ex Hi H1 H H0) as (w' & E & Is & Cf & _); [rewrite Ht; exact H2|exact H3|].
    apply (Fin _ w' E eq_refl Is I). rewrite Cf. reflexivity.
  - destruct (rename_call w a b r1 rest x1 Hr Hp Hc H1 H H0) as (R1 & _).
    destruct (R1 H2) as (w' & E & A & B & C & Cf & _).
    apply (Fin _ w' E eq_refl); [exact (conj A (conj B C))|exact I|rewrite Cf; reflexivity].
  - destruct (rename_call w a b r1 (r2 :: rest) x1 Hr Hp Hc H1 H H0) as (_ & R2).
    destruct (R2 H2 r2 rest x2 eq_refl H3) as (w' & E & A & B & C & Cf & _).
    apply (Fin _ w' E eq_refl); [exact (conj A (conj B C))|exact I|rewrite Cf; reflexivity].
  - destruct (download_passive_complete w path r1 r2 rest x1 x2 x3 ip port Hi Hd Hm Ht H H0 H1 H2 H3 H4 H5) as (w' & E & Is & _ & Cf & _).
    apply (Fin _ w' E eq_refl Is I). rewrite Cf. reflexivity.
  - destruct (upload_passive_complete w u path chunks r1 r2 rest x1 x2 x3 ip port Hi Hd Hm Ht H H0 H1 H2 H3 H4) as (w' & E & Is & _ & Cf & _).
    apply (Fin _ w' E eq_refl Is I). rewrite Cf. reflexivity.
  - destruct (refused_at_passive_setup w RETR_ path (mkIo cb (mkSink f O) []) r1 rest x1 Hr Hp Hd Hc H0 Hm H1 H) as (w' & E & A & B & C & _ & Cf & _).
    change (run _ (set_io w (mkIo cb (mkSink f O) []))) with (step w (ADownload path cb f)) in E.
    apply (Fin _ w' E eq_refl); [exact (conj A (conj B C))|exact I|rewrite Cf; reflexivity].
  - destruct (refused_at_transfer_command_passive w RETR_ path (mkIo cb (mkSink f O) []) (fun acc => PumpIn (fun _ => finish_transfer acc)) r1 r2 rest x1 x2 ip port
                Hi Hd Hm H H0 H1 H2 H3 H4 H5) as (w' & E & Is & _ & Cf & _).
    change (run _ (set_io w (mkIo cb (mkSink f O) []))) with (step w (ADownload path cb f)) in E.
    apply (Fin _ w' E eq_refl Is I). rewrite Cf. reflexivity.
  - destruct (refused_at_transfer_command_passive w (upverb_bytes u) path (mkIo cb (mkSink None O) chunks) (fun acc => PumpOut (fun _ => finish_transfer acc)) r1 r2 rest x1 x2 ip port
                Hi Hd Hm H H0 H1 H2 H3 H4 H5) as (w' & E & Is & _ & Cf & _).
    change (run _ (set_io w (mkIo cb (mkSink None O) chunks))) with (step w (AUpload u path chunks cb)) in E.
    apply (Fin _ w' E eq_refl Is I). rewrite Cf. reflexivity.
  - destruct (list_passive_complete w path names r1 r2 rest x1 x2 x3 ip port Hi Hd Hm Ht H H0 H1 H2 H3 H4 H5) as (w' & E & Is & _ & Cf & _).
    apply (Fin _ w' E eq_refl Is I). rewrite Cf. reflexivity.
  - destruct (H6 (c_type (w_cfg w))) as (ev & pr & answers' & answers'' & DR & NT & PL).
    destruct (download_cancelled_passive w path answers answers' answers'' ev r1 r2 r3 rest x1 x2 x4 x5 ip port pr
                Hi Hd Hm Ht H H0 H1 H2 H3 H4 H5 DR NT PL H7 H8 H9 H10 H11) as (w' & E & Is & _ & Cf & _).
    apply (Fin _ w' E eq_refl Is I). rewrite Cf. reflexivity.
Qed.

(* a history: calls, the reactions each of them consumes, the replies each of them returns; the transfer type is
   threaded through (an acknowledged TYPE changes what login and the transfers do afterwards) *)
Inductive history (rfc : bool) : ttype -> list api -> list reaction -> list (list reply) -> Prop :=
| h_nil t : history rfc t [] [] []
| h_cons t c rs xs cs rss xss :
    serves rfc t c rs xs -> history rfc (next_type t c xs) cs rss xss -> history rfc t (c :: cs) (rs ++ rss) (xs :: xss).

Lemma lockstep_mixed_aux rfc t cs rss xss : history rfc t cs rss xss ->
  forall w rest, c_rfc2428 (w_cfg w) = rfc -> c_type (w_cfg w) = t -> Inv w (rss ++ rest) ->
  map outcome_replies (fst (steps w cs)) = map Some xss /\ Inv (snd (steps w cs)) rest /\
  w_script (snd (steps w cs)) = w_script w.
Proof.
  induction 1 as [t|t c rs xs cs rss xss S Hh IH]; intros w rest Hrfc Hty Hi.
  - cbn. split; [reflexivity|]. split; [exact Hi|reflexivity].
  - rewrite <- app_assoc in Hi. subst rfc t.
    destruct (served_step w c rs (rss ++ rest) xs Hi S) as (E1 & I1 & R1 & T1 & Sc1).
    cbn [steps]. destruct (step w c) as [o1 w1] eqn:St. cbn [fst snd] in E1, I1, R1, T1, Sc1.
    destruct (IH w1 rest R1 T1 I1) as (E2 & I2 & Sc2).
    destruct (steps w1 cs) as [os2 w2]. cbn [fst snd] in E2, I2, Sc2.
    destruct o1; try discriminate; cbn [fst snd map]; rewrite E1, E2; (split; [reflexivity|]; split; [exact I2|congruence]).
Qed.

(* C02: every call of every such history returns exactly the replies generated for its own commands, and the session
   is in step at the end (hence after every prefix: a prefix of a history is a history) *)
Theorem lockstep_mixed_histories : forall cs rss xss w rest,
  Inv w (rss ++ rest) -> history (c_rfc2428 (w_cfg w)) (c_type (w_cfg w)) cs rss xss ->
  map outcome_replies (fst (steps w cs)) = map Some xss /\ Inv (snd (steps w cs)) rest /\
  w_script (snd (steps w cs)) = w_script w.
Proof. intros cs rss xss w rest Hi Hh. exact (lockstep_mixed_aux _ _ cs rss xss Hh w rest eq_refl eq_refl Hi). Qed.


(* non-vacuity: NOOP, a download (EPSV), TYPE A, a refused upload, PWD - one history, in step throughout *)
Definition ex_r (c : N) (t : bytes) : reaction := mkR [RReply (mkReply c t)] [] false false true no_plan.
Definition ex_epsv : reaction :=
  mkR [RReply (mkReply 229 [40;124;124;124;53;124;41])] [] false false true (mkDP true true [] DEof true).
Definition ex_retr : reaction :=
  mkR [RReply (mkReply 150 [])] [RReply (mkReply 226 [])] false false true (mkDP true true [[1;2];[3]] DEof true).
Definition ex_calls : list api :=
  [ASimple [78;79;79;80] None; ADownload [102] None None; ASetType TAscii; AUpload UStor [103] [[9]] None; ASimple [80;87;68] None].
Definition ex_script : list reaction :=
  [ex_r 200 []] ++ [ex_epsv; ex_retr] ++ [ex_r 200 [65]] ++ [ex_epsv; ex_r 550 []] ++ [ex_r 257 []] ++ [].
Example ex_history : history true TBinary ex_calls ex_script
  [[mkReply 200 []]; [mkReply 229 [40;124;124;124;53;124;41]; mkReply 150 []; mkReply 226 []]; [mkReply 200 [65]];
   [mkReply 229 [40;124;124;124;53;124;41]; mkReply 550 []]; [mkReply 257 []]].
Proof.
  unfold ex_calls, ex_script.
  apply h_cons; [apply sv_simple; [exact I|repeat split; discriminate]|].
  apply h_cons; [eapply (sv_download true _ [102] ex_epsv ex_retr _ _ _ None 5); try reflexivity;
                 repeat split; try reflexivity; discriminate|].
  apply h_cons; [apply sv_type; repeat split; discriminate|].
  apply h_cons; [eapply (sv_upload_refused_at_command true _ UStor [103] [[9]] None ex_epsv (ex_r 550 []) _ _ None 5); try reflexivity;
                 repeat split; try reflexivity; discriminate|].
  apply h_cons; [apply sv_simple; [exact I|repeat split; discriminate]|].
  apply h_nil.
Qed.
