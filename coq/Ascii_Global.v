(* Ascii_Global.v - C05 over EVERY receiving call, every state and every behaviour of the server: in ASCII type, what a call
   hands to the caller's sink is the CRLF->LF conversion of what it read from the data connection - once the data loop has
   ended without an error (the sink was flushed) exactly [from_crlf] of all the bytes read, a lone trailing CR included; and
   when the loop failed, the conversion of what was read with at most one CR still held back - however the bytes were split
   into reads, whether the transfer completes, is cancelled or is cut. *)
From LibFtp Require Import Bytes Decimal Reply Endpoint Ascii Ascii_Proofs DataConn DataConn_Proofs Client Client_Proofs Bytes_Global.
Local Open Scope N_scope.

Definition conv_ev (ev : list io_event) : Prop :=
  (count_ev is_flush ev = O ->
     exists b, forall tail, sink_bytes ev ++ from_crlf (cr_if b ++ tail) = from_crlf (net_in_bytes ev ++ tail)) /\
  (count_ev is_flush ev <> O -> sink_bytes ev = from_crlf (net_in_bytes ev)).
Definition nul_ev (ev : list io_event) : Prop := sink_bytes ev = [] /\ net_in_bytes ev = [] /\ count_ev is_flush ev = O.

Definition conv (tr : list event) : Prop := conv_ev (ios tr).
Definition nul (tr : list event) : Prop := nul_ev (ios tr).

Lemma nul_app a b : nul a -> nul b -> nul (a ++ b).
Proof.
  unfold nul, nul_ev. intros (A1 & A2 & A3) (B1 & B2 & B3).
  rewrite ios_app, sink_bytes_app, net_in_app, count_ev_app, A1, A2, A3, B1, B2, B3. repeat split.
Qed.

Lemma nul_conv a : nul a -> conv a.
Proof.
  unfold nul, nul_ev, conv, conv_ev. intros (A1 & A2 & A3). rewrite A1, A2, A3. split; [|intro X; destruct X; reflexivity].
  intros _. exists false. intro tail. reflexivity.
Qed.

Lemma nul_conv_app a b : nul a -> conv b -> conv (a ++ b).
Proof.
  unfold nul, nul_ev, conv, conv_ev. intros (A1 & A2 & A3) B.
  rewrite ios_app, sink_bytes_app, net_in_app, count_ev_app, A1, A2, A3. exact B.
Qed.

Lemma conv_nul_app a b : conv a -> nul b -> conv (a ++ b).
Proof.
  unfold nul, nul_ev, conv, conv_ev. intros A (B1 & B2 & B3).
  rewrite ios_app, sink_bytes_app, net_in_app, count_ev_app, B1, B2, B3, !app_nil_r, Nat.add_0_r. exact A.
Qed.

Lemma quiet_nul es : Forall quiet es -> nul es.
Proof. intro Q. unfold nul. rewrite (quiet_ios es Q). repeat split. Qed.

(* one data loop in ASCII type with a sink that does not fail *)
Lemma data_recv_conv s segs e cb ev r cb' : good_sink s -> data_recv TAscii s segs e cb = (ev, r, cb') -> conv_ev ev.
Proof.
  intros G H. unfold data_recv in H.
  destruct (start_events cb) as [[ev0 c] cb1] eqn:S0.
  destruct (start_events_quiet _ _ _ _ S0) as (Q1 & Q2 & Q3 & _).
  destruct c.
  { inversion H; subst. unfold conv_ev. rewrite Q1, Q2, Q3. split; [|intro X; destruct X; reflexivity].
    intros _. exists false. intro tail. reflexivity. }
  destruct (recv_loop TAscii false s segs e cb1) as [[[[ev1 r1] p] s1] cb2] eqn:R.
  destruct (recv_loop_ascii _ _ _ _ _ _ _ _ _ _ G R) as (A & B & C & _).
  rewrite (sink_fails_good s1 C), andb_false_r in H. cbn [cr_if app] in A.
  assert (Fin : forall en, count_ev is_flush en = O -> sink_bytes en = [] -> net_in_bytes en = [] ->
            conv_ev (ev0 ++ ev1 ++ ((if p then [IoSinkWrite [CR]] else []) ++ [IoSinkFlush]) ++ en)).
  { intros en E1 E2 E3. unfold conv_ev.
    rewrite !count_ev_app, !sink_bytes_app, !net_in_app, Q1, Q2, Q3, B, E1, E2, E3. cbn [app Nat.add].
    split.
    - intro X. exfalso. destruct p; cbn in X; discriminate.
    - intros _. specialize (A []). rewrite !app_nil_r in A. destruct p; cbn in A; cbn; rewrite ?app_nil_r in *; rewrite <- A; reflexivity. }
  destruct r1; inversion H; subst; try (rewrite app_assoc; rewrite <- app_assoc; apply Fin; destruct cb; reflexivity).
  unfold conv_ev. rewrite !count_ev_app, !sink_bytes_app, !net_in_app, Q1, Q2, Q3, B. cbn [app Nat.add].
  split; [|intro X; destruct X; reflexivity]. intros _. exists p. exact A.
Qed.

Definition inv (w : world) : Prop := c_type (w_cfg w) = TAscii /\ good_sink (io_sink (w_io w)).

(* a step that hands nothing to a sink, reads nothing from a data connection and keeps the transfer type and the sink *)
Definition Na (w w' : world) : Prop :=
  exists tr, w_trace w' = w_trace w ++ tr /\ nul tr /\ c_type (w_cfg w') = c_type (w_cfg w) /\ io_sink (w_io w') = io_sink (w_io w).

(* what a program adds: nothing ([done] = the data loop is behind us), or a converted stream *)
Definition Res (done : bool) (w w' : world) : Prop :=
  exists tr, w_trace w' = w_trace w ++ tr /\ if done then nul tr else conv tr.

Lemma inv_keep w w' : Na w w' -> inv w -> inv w'.
Proof. intros (_ & _ & _ & C & S) (A & B). split; [rewrite C; exact A|rewrite S; exact B]. Qed.

Lemma Na_refl w : Na w w.
Proof. exists []. rewrite app_nil_r. repeat split. Qed.

Lemma Res_refl done w : Res done w w.
Proof. exists []. rewrite app_nil_r. split; [reflexivity|]. destruct done; [repeat split|apply nul_conv; repeat split]. Qed.

Lemma Na_trans a b c : Na a b -> Na b c -> Na a c.
Proof.
  intros (t1 & E1 & B1 & C1 & S1) (t2 & E2 & B2 & C2 & S2). exists (t1 ++ t2). rewrite E2, E1, app_assoc. split; [reflexivity|].
  split; [apply nul_app; assumption|]. split; congruence.
Qed.

Lemma Na_then done a b c : Na a b -> (inv b -> Res done b c) -> inv a -> Res done a c.
Proof.
  intros H K I0. destruct (K (inv_keep _ _ H I0)) as (t2 & E2 & R2). destruct H as (t1 & E1 & B1 & _).
  exists (t1 ++ t2). rewrite E2, E1, app_assoc. split; [reflexivity|].
  destruct done; [apply nul_app; assumption|apply nul_conv_app; assumption].
Qed.

Lemma Na_weaken done a b : Na a b -> Res done a b.
Proof. intros (t & E & B & _). exists t. split; [exact E|]. destruct done; [exact B|apply nul_conv; exact B]. Qed.

Lemma Na_quiet w w' es : w_trace w' = w_trace w ++ es -> Forall quiet es -> w_cfg w' = w_cfg w -> w_io w' = w_io w -> Na w w'.
Proof. intros E Q C S. exists es. split; [exact E|]. split; [apply quiet_nul; exact Q|]. rewrite C, S. split; reflexivity. Qed.

Lemma Na_notify w e : Na w (notify w e).
Proof. apply (Na_quiet _ _ (map (fun o => EObs o e) (w_obs w))); [reflexivity|apply q_obs|reflexivity|reflexivity]. Qed.

Ltac qall := repeat (first [apply Forall_nil | apply Forall_cons; [exact I|]]).
Ltac sq := first
  [ apply (Na_quiet _ _ []); [cbn [w_trace emit set_trace set_queues set_io set_data set_cfg set_ctl set_obs release_pending notify];
                             rewrite ?app_nil_r; reflexivity|constructor|reflexivity|reflexivity]
  | (eapply Na_quiet; [cbn [w_trace emit set_trace set_queues set_io set_data set_cfg set_ctl set_obs release_pending notify];
                       rewrite <- ?app_assoc; reflexivity|qall|reflexivity|reflexivity]) ].

Lemma Na_do_send w line w' : do_send w line = Some w' -> Na w w'.
Proof.
  unfold do_send. destruct (negb _); [discriminate|]. destruct (_ && negb _); [discriminate|].
  set (w1 := notify w (ORequest line)).
  assert (G1 : Na w w1) by apply Na_notify.
  destruct (w_peer_closed w1); intro H; inversion H; subst; clear H.
  - eapply Na_trans; [exact G1|]. sq.
  - eapply Na_trans; [exact G1|].
    match goal with |- Na w1 (peer_react ?W) => apply (Na_trans _ W) end.
    + sq.
    + destruct (peer_react_same (emit w1 [EWire (w_ssl w1 && w_tls_up w1) (w_ord w1) line])) as (A & B).
      apply (Na_quiet _ _ []); [rewrite app_nil_r; apply peer_react_trace|constructor|exact A|exact B].
Qed.

Lemma Na_close_data w : Na w (close_data w).
Proof.
  unfold close_data. destruct (w_data w) as [d|]; [|apply Na_refl].
  destruct (d_sock d), (d_acc d); cbv zeta.
  - apply (Na_quiet _ _ [EData DClose; EData DAccClose]); [cbn [w_trace set_data emit set_trace release_pending set_queues]; rewrite <- app_assoc; reflexivity|qall|reflexivity|reflexivity].
  - apply (Na_quiet _ _ [EData DClose]); [reflexivity|qall|reflexivity|reflexivity].
  - apply (Na_quiet _ _ [EData DAccClose]); [reflexivity|qall|reflexivity|reflexivity].
  - apply (Na_quiet _ _ []); [rewrite app_nil_r; reflexivity|constructor|reflexivity|reflexivity].
Qed.

Lemma Na_ctl_disconnect w : Na w (snd (ctl_disconnect w)).
Proof.
  unfold ctl_disconnect. cbn [snd].
  eapply Na_quiet; [cbn [w_trace set_queues set_ctl emit set_trace]; reflexivity| |reflexivity|reflexivity].
  destruct (w_ssl w); cbn [app]; qall.
Qed.

(* receiving programs: one data loop (download or listing) at most on every path, no upload, no change of the transfer type *)
Fixpoint ga (p : prog) (done : bool) : Prop :=
  match p with
  | Ret _ | Throw => True
  | SetTypeCfg _ _ | PumpOut _ => False
  | PumpIn k => done = false /\ forall x, ga (k x) true
  | PumpInList k => done = false /\ forall t, ga (k t) true
  | Recv k => forall r, ga (k r) done
  | GetCfg k => forall c, ga (k c) done
  | IsOpen k | IsSsl k | Poll k => forall b, ga (k b) done
  | CheckArg _ k | Send _ _ k | SendRaw _ k | SendAdv _ k | Notify _ k | CtlConnect _ _ k | CtlSetSsl _ k
  | CtlHandshake k | CtlTlsShutdown k | CtlDisconnect k | DNew k | DConnect _ _ k | DListenP k | DAccept k | DHandshakeP k
  | DDisconnect _ k | Scope k => ga k done
  end.

Ltac ih IH N := let Ib := fresh "Ib" in intro Ib; apply IH; [first [exact N | apply N]|exact Ib].

Lemma run_ga : forall p done w, ga p done -> inv w -> Res done w (snd (run p w)).
Proof.
  induction p as [v| |a k IH|verb arg k IH|line k IH|a k IH|k IH|e k IH|k IH|t k IH|k IH|k IH|h pt k IH|on k IH|k IH|k IH|k IH
                 |k IH|ip port k IH|k IH|k IH|k IH|g k IH|k IH|k IH|k IH|k IH|body IH]; intros done w N T; cbn [run]; cbn [ga] in N.
  - apply Res_refl.
  - apply Res_refl.
  - destruct (has_crlf a); [apply Res_refl|apply IH; assumption].
  - destruct arg as [a|].
    + destruct (has_crlf a); [apply Res_refl|].
      destruct (do_send w _) as [w'|] eqn:X; cbn [snd];
        [eapply Na_then; [eapply Na_do_send; exact X|ih IH N|exact T]|eapply Na_weaken; apply Na_notify].
    + destruct (do_send w _) as [w'|] eqn:X; cbn [snd];
        [eapply Na_then; [eapply Na_do_send; exact X|ih IH N|exact T]|eapply Na_weaken; apply Na_notify].
  - destruct (do_send w _) as [w'|] eqn:X; cbn [snd];
      [eapply Na_then; [eapply Na_do_send; exact X|ih IH N|exact T]|eapply Na_weaken; apply Na_notify].
  - destruct (match a with AdvEprt => Some (make_eprt_command _ _) | AdvPort => _ end) as [line|]; [|apply Res_refl].
    destruct (do_send w _) as [w'|] eqn:X; cbn [snd];
      [eapply Na_then; [eapply Na_do_send; exact X|ih IH N|exact T]|eapply Na_weaken; apply Na_notify].
  - (* Recv *)
    destruct (negb (w_open w)); [apply Res_refl|].
    destruct (w_backlog w) as [|[t [x|]] rest].
    + destruct (w_peer_closed w); apply Res_refl.
    + set (w1 := emit (set_queues w rest (w_pending w)) [ERecv t x]).
      assert (G1 : Na w w1) by (unfold w1; sq).
      destruct (code x =? 421).
      * destruct (ctl_disconnect w1) as [ok w2] eqn:D.
        pose proof (Na_ctl_disconnect w1) as G2. rewrite D in G2. cbn [snd] in G2.
        destruct ok; cbn [snd].
        -- eapply Na_then; [eapply Na_trans; [exact G1|]; eapply Na_trans; [exact G2|apply Na_notify]| |exact T].
           intro Ib. apply IH; [apply N|exact Ib].
        -- eapply Na_weaken. eapply Na_trans; [exact G1|exact G2].
      * eapply Na_then; [eapply Na_trans; [exact G1|apply Na_notify]| |exact T]. intro Ib. apply IH; [apply N|exact Ib].
    + cbn [snd]. eapply Na_weaken. sq.
  - eapply Na_then; [apply Na_notify|ih IH N|exact T].
  - apply IH; [apply N|exact T].
  - destruct N.
  - apply IH; [apply N|exact T].
  - apply IH; [apply N|exact T].
  - (* CtlConnect *)
    match goal with |- context [match w_script ?w0 with _ => _ end] => set (W0 := w0) end.
    assert (X0 : Na w W0) by (unfold W0; destruct (w_open w); sq).
    destruct (w_script W0) as [|s rest]; cbn [snd].
    + eapply Na_weaken. eapply Na_trans; [exact X0|sq].
    + destruct (negb (s_reachable s)); cbn [snd].
      * eapply Na_weaken. eapply Na_trans; [exact X0|].
        eapply Na_quiet; [cbn [w_trace emit set_trace]; reflexivity|qall|reflexivity|reflexivity].
      * eapply Na_then; [eapply Na_trans; [exact X0|]|ih IH N|exact T].
        eapply Na_quiet; [cbn [w_trace emit set_trace]; reflexivity|qall|reflexivity|reflexivity].
  - eapply Na_then; [|ih IH N|exact T]. sq.
  - destruct (w_last_tls_ok w && negb (w_peer_closed w)); cbn [snd]; [eapply Na_then; [|ih IH N|exact T]|eapply Na_weaken]; sq.
  - destruct (w_tls_up w && w_tls_clean w && negb (w_peer_closed w)); cbn [snd]; [eapply Na_then; [|ih IH N|exact T]|eapply Na_weaken]; sq.
  - destruct (ctl_disconnect w) as [ok w1] eqn:D.
    pose proof (Na_ctl_disconnect w) as G2. rewrite D in G2. cbn [snd] in G2.
    destruct ok; cbn [snd]; [eapply Na_then; [exact G2|ih IH N|exact T]|eapply Na_weaken; exact G2].
  - eapply Na_then; [|ih IH N|exact T]. sq.
  - destruct (dp_reachable (w_plan w)); cbn [snd]; [eapply Na_then; [|ih IH N|exact T]|eapply Na_weaken]; sq.
  - eapply Na_then; [|ih IH N|exact T]. sq.
  - destruct (dp_reachable (w_plan w)); cbn [snd]; [eapply Na_then; [|ih IH N|exact T]; sq|apply Res_refl].
  - destruct (dp_tls_ok (w_plan w)); cbn [snd]; [eapply Na_then; [|ih IH N|exact T]|eapply Na_weaken]; sq.
  - destruct (w_data w) as [d|]; [|apply IH; assumption].
    destruct (d_ssl d && negb (dp_shutdown_ok (w_plan w))); cbn [snd]; [eapply Na_weaken; sq|].
    eapply Na_then; [|ih IH N|exact T]. eapply Na_trans; [|apply Na_close_data].
    destruct (d_ssl d), g; cbn [app]; sq.
  - (* PumpIn *)
    destruct N as (-> & N). destruct T as (Ty & Gs). rewrite Ty.
    destruct (data_recv TAscii _ _ _ _) as [[ev x] cb'] eqn:DR.
    pose proof (data_recv_conv _ _ _ _ _ _ _ Gs DR) as B.
    match goal with |- context [set_io ?A0 ?B0] => set (W1 := set_io A0 B0) end.
    assert (E1 : w_trace W1 = w_trace w ++ map EIo ev) by reflexivity.
    assert (O1 : conv (map EIo ev)) by (unfold conv; rewrite ios_io; exact B).
    assert (T1 : inv W1) by (split; assumption).
    destruct x; cbn [snd];
      try (exists (map EIo ev); split; [exact E1|exact O1]);
      (match goal with |- context [run (k ?R0) W1] => destruct (IH R0 true W1 (N R0) T1) as (t2 & E2 & R2) end; exists (map EIo ev ++ t2); split;
        [rewrite E2, E1, app_assoc; reflexivity|apply conv_nul_app; assumption]).
  - (* PumpInList: its own sink, always good *)
    destruct N as (-> & N). destruct T as (Ty & Gs). rewrite Ty.
    destruct (data_recv TAscii _ _ _ _) as [[ev x] cb'] eqn:DR.
    assert (G0 : good_sink (mkSink None O)) by reflexivity.
    pose proof (data_recv_conv _ _ _ _ _ _ _ G0 DR) as B.
    match goal with |- context [emit w ?Z] => set (W1 := emit w Z) end.
    assert (E1 : w_trace W1 = w_trace w ++ map EIo ev) by reflexivity.
    assert (O1 : conv (map EIo ev)) by (unfold conv; rewrite ios_io; exact B).
    assert (T1 : inv W1) by (split; assumption).
    destruct x; cbn [snd];
      try (exists (map EIo ev); split; [exact E1|exact O1]);
      (match goal with |- context [run (k ?R0) W1] => destruct (IH R0 true W1 (N R0) T1) as (t2 & E2 & R2) end; exists (map EIo ev ++ t2); split;
        [rewrite E2, E1, app_assoc; reflexivity|apply conv_nul_app; assumption]).
  - destruct N.
  - (* Poll *)
    destruct (io_cb (w_io w)) as [answers|]; [|apply IH; [apply N|exact T]].
    destruct (poll answers) as [a answers'].
    eapply Na_then; [|intro Ib; apply IH; [apply N|exact Ib]|exact T].
    exists [EIo (IoPoll a)]. split; [reflexivity|]. split; [repeat split|]. split; reflexivity.
  - (* Scope *)
    destruct (run body w) as [o w1] eqn:Rn. cbn [snd].
    pose proof (IH done w N T) as (tr & X & F). rewrite Rn in X. cbn [snd] in X.
    destruct (Na_close_data w1) as (t2 & X2 & F2 & _).
    exists (tr ++ t2). split.
    + cbn [w_trace set_data]. rewrite X2, X, app_assoc. reflexivity.
    + destruct done; [apply nul_app; assumption|apply conv_nul_app; assumption].
Qed.

(* ------------------------------------------------------------------ the operations *)
Ltac gat := repeat (cbn [ga]; first
  [ exact I | intro
  | match goal with
    | |- ga (if ?b then _ else _) _ => destruct b
    | |- ga (match ?x with _ => _ end) _ => destruct x
    | |- ga (let _ := _ in _) _ => cbv zeta
    end ]).

Lemma ga_process_login u pw acc k done : (forall a, ga (k a) done) -> ga (process_login u pw acc k) done.
Proof. intro K. unfold process_login, process_command, process_raw. gat; apply K. Qed.

Lemma ga_cdc verb arg acc k_ok k_none done : (forall a, ga (k_ok a) done) -> (forall a, ga (k_none a) done) ->
  ga (create_data_connection verb arg acc k_ok k_none) done.
Proof.
  intros K1 K2. unfold create_data_connection, process_command. cbn [ga]. intro c.
  destruct (c_mode c), (c_rfc2428 c); gat; first [apply K1 | apply K2].
Qed.

Lemma ga_finish acc done : ga (finish_transfer acc) done.
Proof. unfold finish_transfer, process_abort, process_command. gat. Qed.

Lemma ga_connect h p l done : ga (op_connect h p l) done.
Proof.
  unfold op_connect, process_raw. cbv zeta.
  assert (LP : forall acc, ga (match l with
                | None => Ret (RvReplies acc)
                | Some (u, pw) => process_login u pw acc (fun acc' => Ret (RvReplies acc')) end) done).
  { intro acc. destruct l as [[u pw]|]; [apply ga_process_login; intros; exact I|exact I]. }
  destruct l as [[u pw]|]; gat; try apply LP; try (apply ga_process_login; intros; exact I).
Qed.

(* every receiving call (all but set_transfer_type and the uploads; a download's sink must not fail), every state in ASCII
   type, every server *)
Theorem step_sink_gets_the_conversion a w : receives a -> c_type (w_cfg w) = TAscii ->
  exists tr, w_trace (snd (step w a)) = w_trace w ++ tr /\ conv_ev (ios tr).
Proof.
  intros RC Ty.
  assert (ST : forall p i, ga p false -> good_sink (io_sink i) ->
            exists tr, w_trace (snd (run p (set_io w i))) = w_trace w ++ tr /\ conv_ev (ios tr)).
  { intros p i N G. assert (T : inv (set_io w i)) by (split; [exact Ty|exact G]).
    destruct (run_ga p false (set_io w i) N T) as (tr & X & B). exists tr. split; [exact X|exact B]. }
  assert (GN : good_sink (io_sink no_io)) by reflexivity.
  assert (Z : conv_ev (ios [])) by (apply (nul_conv []); repeat split).
  destruct a as [h p l|u pw| |v arg|t|x y|path cb f|uv path ch cb|path names|g|o|o|md|b]; unfold step; cbn [prog_of io_of];
    try (exists []; rewrite app_nil_r; split; [reflexivity|exact Z]); try (destruct RC; fail).
  - apply ST; [apply ga_connect|exact GN].
  - apply ST; [unfold op_login; apply ga_process_login; intros; exact I|exact GN].
  - apply ST; [unfold op_logout, process_command; gat|exact GN].
  - apply ST; [unfold op_simple, process_command; gat|exact GN].
  - apply ST; [unfold op_rename, process_command; gat|exact GN].
  - destruct f as [n|]; [destruct RC|].
    apply ST; [|reflexivity]. unfold op_download. cbn [ga]. apply ga_cdc; [|intros; exact I].
    intro a. cbn [ga]. split; [reflexivity|]. intro x. apply ga_finish.
  - apply ST; [|exact GN]. unfold op_list. cbn [ga]. apply ga_cdc; [|intros; exact I]. intro a. cbn [ga]. split; [reflexivity|]. gat.
  - apply ST; [unfold op_disconnect, process_command; destruct g; gat|exact GN].
Qed.

(* read back: once the sink was flushed it holds exactly the conversion of all that was read *)
Corollary flushed_sink_holds_the_conversion a w tr : receives a -> c_type (w_cfg w) = TAscii ->
  w_trace (snd (step w a)) = w_trace w ++ tr -> In IoSinkFlush (ios tr) ->
  sink_bytes (ios tr) = from_crlf (net_in_bytes (ios tr)).
Proof.
  intros RC Ty E F. destruct (step_sink_gets_the_conversion a w RC Ty) as (tr' & E' & _ & C2).
  rewrite E in E'. apply app_inv_head in E'. subst tr'. apply C2.
  clear - F. induction (ios tr) as [|e l IH]; [destruct F|]. destruct F as [->|F]; [cbn; discriminate|].
  unfold count_ev in *. cbn [filter]. destruct (is_flush e); [cbn; discriminate|apply IH; exact F].
Qed.

(* non-vacuity: a download whose CRLF pairs are split across reads and that ends in a lone CR *)
Definition ascii_script : list session :=
  let say c := mkR [RReply (mkReply c [])] [] false false true no_plan in
  let epsv := mkR [RReply (mkReply 229 [40;124;124;124;53;124;41])] [] false false true (mkDP true true [] DEof true) in
  let retr := mkR [RReply (mkReply 150 []); RReply (mkReply 226 [])] [] false false true (mkDP true true [[97;13]; [10;98;13]; [13;10]; [99;13]] DEof true) in
  [mkSess true false true (say 220) [epsv; retr]].

Example ascii_example :
  let w0 := init_world (mkConfig Passive true TAscii false false) ascii_script in
  let tr := w_trace (snd (steps w0 [AConnect [104] 21 None; ADownload [102] None None])) in
  sink_bytes (ios tr) = [97;10;98;13;10;99;13] /\ net_in_bytes (ios tr) = [97;13;10;98;13;13;10;99;13] /\ In IoSinkFlush (ios tr).
Proof. vm_compute. repeat split. tauto. Qed.

(* the same stream cut by an error after the second read: the CR read last is held back, the rest is converted *)
Definition ascii_cut_script : list session :=
  let say c := mkR [RReply (mkReply c [])] [] false false true no_plan in
  let epsv := mkR [RReply (mkReply 229 [40;124;124;124;53;124;41])] [] false false true (mkDP true true [] DEof true) in
  let retr := mkR [RReply (mkReply 150 [])] [] false false true (mkDP true true [[97;13]; [10;98;13]] DErr true) in
  [mkSess true false true (say 220) [epsv; retr]].

Example ascii_cut_example :
  let w0 := init_world (mkConfig Passive true TAscii false false) ascii_cut_script in
  let tr := w_trace (snd (steps w0 [AConnect [104] 21 None; ADownload [102] None None])) in
  sink_bytes (ios tr) = [97;10;98] /\ net_in_bytes (ios tr) = [97;13;10;98;13] /\ count_ev is_flush (ios tr) = O.
Proof. vm_compute. repeat split. Qed.
