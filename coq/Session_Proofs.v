(* Session_Proofs.v - a whole session, from a disconnected client back to a disconnected client. *)
From LibFtp Require Import Bytes Decimal Reply Endpoint Ascii DataConn DataConn_Proofs Client Client_Proofs Login_Proofs Transfer_Proofs Transfer_More Modes_Proofs Ctl_Proofs History_Proofs History2_Proofs.
Local Open Scope N_scope.

Lemma run_isssl k w : run (IsSsl k) w = run (k (w_ssl w)) w.
Proof. reflexivity. Qed.
Lemma run_ctldisconnect_plain k w : w_ssl w = false ->
  run (CtlDisconnect k) w = run k (snd (ctl_disconnect w)).
Proof. intro H. cbn [run]. unfold ctl_disconnect. rewrite H. reflexivity. Qed.

(* graceful disconnect from a plain session in step: QUIT, its reply, then the connection is closed *)
Theorem quit_call w r rest x :
  insync w (r :: rest) -> w_ssl w = false -> simple_reaction r x ->
  exists w', step w (ADisconnect true) = (OReturn (RvOptReply (Some x)), w') /\
    w_open w' = false /\ w_ssl w' = false /\ w_backlog w' = [] /\ w_pending w' = [] /\ w_data w' = w_data w /\
    w_script w' = w_script w /\
    wire_events (skipn (length (w_trace w)) (w_trace w')) = [WLine QUIT_; WReply x].
Proof.
  intros ((Ho & Hs & Hpc & Hb) & Hp & Hc) Hssl (R1n & R1c & R1a & R1x).
  destruct w as [cfg f2 f3 f4 f5 f6 f7 f8 f9 f10 f11 f12 f13 f14 f15 f16 f17 f18 f19 f20].
  cbn in Ho, Hs, Hpc, Hb, Hp, Hc, Hssl. subst.
  destruct r as [n1 oc1 dp1 ca1 tl1 d1]. cbn in R1n, R1c, R1a. subst.
  rewrite step_disconnect_unfold. unfold op_disconnect.
  erewrite (xchg QUIT_ None _ _ _ _ x); [| repeat split; auto | reflexivity | repeat split; auto | exact I].
  cbv beta. rewrite run_isopen. 
  replace (w_open (after_command _ (line_of QUIT_ None) x)) with true by reflexivity. cbv iota.
  rewrite run_ctldisconnect_plain by reflexivity.
  rewrite run_isssl.
  replace (w_ssl (snd (ctl_disconnect _))) with false by reflexivity. cbv iota.
  rewrite run_ret.
  eexists. split; [reflexivity|].
  split; [reflexivity|]. split; [reflexivity|]. split; [reflexivity|]. split; [reflexivity|]. split; [reflexivity|].
  split; [reflexivity|].
  trace_facts. unfold ctl_disconnect. cbn. rewrite <- ?app_assoc, ?skipn_app_len. norm_events. reflexivity.
Qed.

Lemma steps_app w l1 l2 :
  Forall (fun o => o <> OBlocked) (fst (steps w l1)) ->
  steps w (l1 ++ l2) = (fst (steps w l1) ++ fst (steps (snd (steps w l1)) l2), snd (steps (snd (steps w l1)) l2)).
Proof.
  revert w. induction l1 as [|a l1 IH]; intros w H.
  - cbn. destruct (steps w l2); reflexivity.
  - cbn [app steps] in *. destruct (step w a) as [o w1].
    destruct o; cbn [fst snd] in *.
    + destruct (steps w1 l1) as [os w2] eqn:S1. cbn [fst snd] in *. inversion H; subst.
      specialize (IH w1). rewrite S1 in IH. cbn [fst snd] in IH. rewrite (IH H3).
      destruct (steps w2 l2); reflexivity.
    + destruct (steps w1 l1) as [os w2] eqn:S1. cbn [fst snd] in *. inversion H; subst.
      specialize (IH w1). rewrite S1 in IH. cbn [fst snd] in IH. rewrite (IH H3).
      destruct (steps w2 l2); reflexivity.
    + inversion H; subst. congruence.
Qed.

Lemma replies_not_blocked os xss : map outcome_replies os = map Some xss -> Forall (fun o => o <> OBlocked) os.
Proof.
  revert xss. induction os as [|o os IH]; intros xss H; [constructor|].
  destruct xss as [|xs xss]; [discriminate|]. cbn [map] in H. inversion H. constructor; [|eapply IH; eassumption].
  intro E. subst o. discriminate.
Qed.

(* C02 / C13 / C17 over a WHOLE SESSION: connect, any history as above, QUIT - from a disconnected client to a
   disconnected client: every call returns exactly the replies to its own commands (the greeting for connect, the 221
   for disconnect), and at the end the client is disconnected, plain, holds no socket, and the peer's script is used up *)
Theorem whole_session w0 h p s srest g cs rss xss rq xq :
  w_open w0 = false -> w_data w0 = None -> w_script w0 = s :: srest -> s_reachable s = true ->
  c_mode (w_cfg w0) = Passive -> c_tls (w_cfg w0) = false ->
  r_now (s_greeting s) = [RReply g] -> r_close_after (s_greeting s) = false -> code g <> 421 -> code g <> 120 ->
  s_reactions s = rss ++ [rq] ->
  history (c_rfc2428 (w_cfg w0)) (c_type (w_cfg w0)) cs rss xss -> simple_reaction rq xq ->
  let '(os, w') := steps w0 (AConnect h p None :: cs ++ [ADisconnect true]) in
  map outcome_replies os = map Some ([g] :: xss ++ [[xq]]) /\
  w_open w' = false /\ w_ssl w' = false /\ w_data w' = None /\ held w' = O /\ w_script w' = srest /\
  w_backlog w' = [] /\ w_pending w' = [].
Proof.
  intros Ho Hd Hscr Hre Hm Ht Gn Gc G421 G120 Hrs Hh Sq.
  destruct (connect_plain w0 h p s srest g Ho Hscr Hre Ht Gn Gc G421 G120) as (w1 & E1 & I1 & Sc1 & Ssl1 & Cf1 & _).
  pose proof (step_releases_data (AConnect h p None) w0 Hd) as D1. rewrite E1 in D1. cbn [snd] in D1.
  rewrite Hrs in I1.
  assert (Inv1 : Inv w1 (rss ++ [rq])).
  { split; [exact I1|]. split; [exact D1|]. rewrite Cf1. auto. }
  rewrite <- Cf1 in Hh.
  destruct (lockstep_mixed_histories cs rss xss w1 [rq] Inv1 Hh) as (E2 & (I2 & D2 & M2 & T2 & Ssl2) & Sc2).
  pose proof (replies_not_blocked _ _ E2) as NB.
  cbn [steps]. rewrite E1. rewrite (steps_app w1 cs [ADisconnect true] NB).
  set (w2 := snd (steps w1 cs)) in *.
  destruct (quit_call w2 rq [] xq I2 Ssl2 Sq) as (w3 & E3 & O3 & S3 & B3 & P3 & D3 & Sc3 & _).
  cbn [steps]. rewrite E3. cbn [fst snd map app].
  split. { rewrite map_app, E2, map_app. reflexivity. }
  split; [exact O3|]. split; [exact S3|]. split; [rewrite D3; exact D2|].
  split. { unfold held. rewrite O3, D3, D2. reflexivity. }
  split; [rewrite Sc3, Sc2; exact Sc1|]. auto.
Qed.


Lemma run_ctldisconnect_tls k w : w_ssl w = true -> w_tls_up w = true -> w_tls_clean w = true ->
  run (CtlDisconnect k) w = run k (snd (ctl_disconnect w)).
Proof. intros H1 H2 H3. cbn [run]. unfold ctl_disconnect. rewrite H1, H2, H3. reflexivity. Qed.

(* graceful disconnect from a TLS session in step, the peer answering the close-notify: QUIT goes out inside TLS, its reply is
   returned, the TLS layer is shut down, the connection closed, and the socket object is plain again *)
Theorem quit_call_tls w r rest x :
  insync w (r :: rest) -> w_ssl w = true -> w_tls_up w = true -> w_tls_clean w = true -> simple_reaction r x ->
  exists w', step w (ADisconnect true) = (OReturn (RvOptReply (Some x)), w') /\
    w_open w' = false /\ w_ssl w' = false /\ w_tls_up w' = false /\ w_backlog w' = [] /\ w_pending w' = [] /\ w_data w' = w_data w /\
    w_script w' = w_script w /\
    skipn (length (w_trace w)) (w_trace w') =
      block (w_obs w) (ORequest QUIT_) ++ [EWire true (w_ord w) QUIT_] ++ [ERecv (w_ord w) x] ++ block (w_obs w) (OReply x) ++
      [ECtl (CTlsShutdown true); ECtl CTcpShutdown; ECtl CClose; ECtl (CSetSsl false)].
Proof.
  intros ((Ho & Hs & Hpc & Hb) & Hp & Hc) Hssl Hup Hcl (R1n & R1c & R1a & R1x).
  destruct w as [cfg f2 f3 f4 f5 f6 f7 f8 f9 f10 f11 f12 f13 f14 f15 f16 f17 f18 f19 f20].
  cbn in Ho, Hs, Hpc, Hb, Hp, Hc, Hssl, Hup, Hcl. subst.
  destruct r as [n1 oc1 dp1 ca1 tl1 d1]. cbn in R1n, R1c, R1a. subst.
  rewrite step_disconnect_unfold. unfold op_disconnect.
  erewrite (xchg QUIT_ None _ _ _ _ x); [| repeat split; auto | reflexivity | repeat split; auto | exact I].
  cbv beta. rewrite run_isopen.
  replace (w_open (after_command _ (line_of QUIT_ None) x)) with true by reflexivity. cbv iota.
  rewrite run_ctldisconnect_tls by reflexivity.
  rewrite run_isssl.
  replace (w_ssl (snd (ctl_disconnect _))) with false by reflexivity. cbv iota.
  rewrite run_ret.
  eexists. split; [reflexivity|].
  split; [reflexivity|]. split; [reflexivity|]. split; [reflexivity|]. split; [reflexivity|]. split; [reflexivity|].
  split; [reflexivity|]. split; [reflexivity|].
  unfold ctl_disconnect, block, line_of. cbn. rewrite <- ?app_assoc, ?skipn_app_len, ?app_nil_r. reflexivity.
Qed.

(* the TLS state along a history of calls none of which touches the control socket: unchanged while connected *)
Lemma historyK_calls_noctl k t cs rss xss : historyK k t cs rss xss ->
  Forall (fun c => match c with AConnect _ _ _ | ALogout | ADisconnect _ | ASetMode _ | ASetRfc2428 _ => False | _ => True end) cs.
Proof. induction 1 as [|t c rs xs cs rss xss S _ IH]; constructor; [inversion S; exact I|exact IH]. Qed.

Lemma steps_keept cs : forall w,
  Forall (fun c => match c with AConnect _ _ _ | ALogout | ADisconnect _ | ASetMode _ | ASetRfc2428 _ => False | _ => True end) cs ->
  keept w (snd (steps w cs)) /\ keepc w (snd (steps w cs)).
Proof.
  induction cs as [|c cs IH]; intros w F.
  - cbn. split; [apply keept_refl|apply keepc_refl].
  - inversion F as [|? ? Hc F']; subst. cbn [steps].
    pose proof (step_keeps_tls_state c w) as T1. pose proof (step_keeps_ctl c w) as C1.
    destruct (step w c) as [o w1]. cbn [snd] in T1, C1.
    assert (T1' : keept w w1) by (destruct c; try contradiction; exact T1).
    assert (C1' : keepc w w1) by (destruct c; try contradiction; exact C1).
    destruct o.
    + destruct (IH w1 F') as (T2 & C2). destruct (steps w1 cs) as [os w2]. cbn [snd] in *.
      split; [eapply keept_trans; eassumption|eapply keepc_trans; eassumption].
    + destruct (IH w1 F') as (T2 & C2). destruct (steps w1 cs) as [os w2]. cbn [snd] in *.
      split; [eapply keept_trans; eassumption|eapply keepc_trans; eassumption].
    + cbn [snd]. auto.
Qed.

(* C02 / C11 / C13 / C17 over a whole TLS session: connect with AUTH TLS and handshake, any history (all configurations),
   QUIT with the TLS shutdown: every call returns its own replies; at the end the client is disconnected, its socket object
   plain, no socket held, the script used up *)
Theorem whole_session_tls w0 h p s srest g a r1 cs rss xss rq xq :
  w_open w0 = false -> w_data w0 = None -> w_script w0 = s :: srest -> s_reachable s = true -> c_tls (w_cfg w0) = true ->
  r_now (s_greeting s) = [RReply g] -> r_close_after (s_greeting s) = false -> code g <> 421 -> code g <> 120 -> is_negative g = false ->
  s_reactions s = r1 :: rss ++ [rq] -> simple_reaction r1 a -> is_negative a = false -> r_tls_ok r1 = true ->
  s_tls_close_clean s = true ->
  (forall w1, w_cfg w1 = w_cfg w0 -> w_cur6 w1 = s_ip6 s -> historyK (kit_of w1) (c_type (w_cfg w0)) cs rss xss) ->
  simple_reaction rq xq ->
  let '(os, w') := steps w0 (AConnect h p None :: cs ++ [ADisconnect true]) in
  map outcome_replies os = map Some ([g; a] :: xss ++ [[xq]]) /\
  w_open w' = false /\ w_ssl w' = false /\ w_tls_up w' = false /\ w_data w' = None /\ held w' = O /\ w_script w' = srest.
Proof.
  intros Ho Hd Hscr Hre Ht Gn Gc G421 G120 Ng Hrs S1 Na Tok Hclean Hh Sq.
  destruct (connect_tls w0 h p s srest g r1 (rss ++ [rq]) a Ho Hscr Hre Ht Gn Gc G421 G120 Ng Hrs S1 Na Tok)
    as (w1 & E1 & I1 & Ssl1 & Up1 & Sid1 & Sc1 & Cf1 & C61 & Cl1 & D1 & _).
  assert (Inv1 : InvK w1 (rss ++ [rq])) by (split; [exact I1|rewrite D1; exact Hd]).
  specialize (Hh w1 Cf1 C61). rewrite <- Cf1 in Hh.
  destruct (lockstep_all_configurations cs rss xss w1 [rq] Inv1 Hh) as (E2 & (I2 & D2)).
  pose proof (replies_not_blocked _ _ E2) as NB.
  destruct (steps_keept cs w1 (historyK_calls_noctl _ _ _ _ _ Hh)) as (KT & KC).
  cbn [steps]. rewrite E1. rewrite (steps_app w1 cs [ADisconnect true] NB).
  set (w2 := snd (steps w1 cs)) in *.
  assert (Ho2 : w_open w2 = true) by (destruct I2 as ((X & _) & _); exact X).
  destruct (KT Ho2) as (_ & Ssl2 & Up2 & _ & _ & Cl2). destruct KC as (Sc2 & _).
  destruct (quit_call_tls w2 rq [] xq I2 ltac:(rewrite Ssl2; exact Ssl1) ltac:(rewrite Up2; exact Up1) ltac:(rewrite Cl2, Cl1; exact Hclean) Sq)
    as (w3 & E3 & O3 & S3 & U3 & B3 & P3 & D3 & Sc3 & _).
  cbn [steps]. rewrite E3. cbn [fst snd map app].
  split. { rewrite map_app, E2, map_app. reflexivity. }
  split; [exact O3|]. split; [exact S3|]. split; [exact U3|]. split; [rewrite D3; exact D2|].
  split. { unfold held. rewrite O3, D3, D2. reflexivity. }
  rewrite Sc3, Sc2. exact Sc1.
Qed.
