(* C16 - typed replies carry a value exactly when the 213 payload is well-formed. *)
From LibFtp Require Import Bytes Decimal Decimal_Proofs Reply Typed Typed_Proofs.
Local Open Scope N_scope.

(* SIZE: a value exactly when the code is 213 and the text after the first four characters is a
   non-empty digit string whose exact decimal value is at most 2^64-1; the value is that number *)
Theorem C16_size_iff : forall r n,
  parse_size r = Some n <->
  (code r = 213 /\
   let t := skipn 4 (text r) in
   t <> [] /\ all_digits t = true /\ dec_value t = n /\ n <= 18446744073709551615).
Proof. exact size_iff. Qed.
Print Assumptions C16_size_iff.

(* MDTM: a value exactly when the code is 213, the text after four characters is an RFC 3659
   time-val (14DIGIT [ "." 1*DIGIT ]) and the fraction fits 32 bits; the seven fields are the
   digits written. (Both directions: "only when", and "a time-val whose fraction fits always".) *)
Theorem C16_mdtm_iff : forall r dt,
  parse_datetime r = Some dt <->
  (code r = 213 /\
   let tv := skipn 4 (text r) in
   is_time_val tv = true /\ dec_value (skipn 15 tv) <= 4294967295 /\ dt = fields_of tv).
Proof. exact mdtm_spec. Qed.
Print Assumptions C16_mdtm_iff.

(* LIST: lines are the LF-separated pieces (a final empty piece is not a line), each minus one
   trailing CR *)
Theorem C16_list_lines : forall s,
  parse_file_list s = map strip_cr (drop_last_empty (pieces LF s)).
Proof. exact list_lines. Qed.
Print Assumptions C16_list_lines.

(* the parsers are total functions of (code, text): they cannot throw, and they do not alter the
   reply they are built from (the typed replies copy it - checked by the correspondence) *)

(* history: the pinned code accepted "213 20240101120000X5" (finding F10) *)
Theorem C16_mdtm_refuted_on_pinned :
  exists r, parse_datetime_pinned r <> None /\ is_time_val (skipn 4 (text r)) = false.
Proof. exact mdtm_refuted_on_pinned. Qed.
Print Assumptions C16_mdtm_refuted_on_pinned.

Example C16_example_size : parse_size (mkReply 213 [50;49;51;32;49;50;51]) = Some 123.
Proof. reflexivity. Qed.
Example C16_example_mdtm :
  parse_datetime (mkReply 213 [50;49;51;32; 50;48;50;52;48;49;48;50;49;50;51;52;53;54; 46; 55;56])
  = Some (mkDT 2024 1 2 12 34 56 78).
Proof. vm_compute. reflexivity. Qed.
