(* Cancel_Global.v - C12 over EVERY call, every state, either transfer type and every behaviour of the server: once the
   transfer callback, polled inside a transfer (between begin and end), has answered 'cancelled', the call reads nothing more
   from and writes nothing more to the data connection and notifies no further block - cancellation stops the transfer. *)
From LibFtp Require Import Bytes Decimal Reply Endpoint DataConn DataConn_Proofs Client Client_Proofs Bytes_Global.
Local Open Scope N_scope.

Inductive phase := Out | Run | Canc.

Definition chk1 (st : phase) (e : io_event) : option phase :=
  match e with
  | IoPoll true => Some (match st with Run => Canc | s => s end)
  | IoBegin => Some Run
  | IoEnd => Some Out
  | IoNotify _ | IoNetRead _ | IoNetWrite _ => match st with Canc => None | s => Some s end
  | _ => Some st
  end.

Fixpoint chk (st : phase) (ev : list io_event) : option phase :=
  match ev with
  | [] => Some st
  | e :: ev' => match chk1 st e with Some s => chk s ev' | None => None end
  end.

Lemma chk_app a : forall st b, chk st (a ++ b) = match chk st a with Some s => chk s b | None => None end.
Proof. induction a as [|e a IH]; intros st b; [reflexivity|]. cbn [app chk]. destruct (chk1 st e); [apply IH|reflexivity]. Qed.

(* [polls]: accepted outside a transfer, and ends outside *)
Definition polls (ev : list io_event) : Prop := chk Out ev = Some Out.
Definition shaped (ev : list io_event) : Prop := exists st', chk Out ev = Some st'.

Lemma polls_app a b : polls a -> polls b -> polls (a ++ b).
Proof. unfold polls. intros A B. rewrite chk_app, A. exact B. Qed.
Lemma polls_shaped a : polls a -> shaped a.
Proof. intro A. exists Out. exact A. Qed.
Lemma polls_shaped_app a b : polls a -> shaped b -> shaped (a ++ b).
Proof. intros A (s & B). exists s. rewrite chk_app, A. exact B. Qed.

Definition nul (tr : list event) : Prop := polls (ios tr).
Definition conv (tr : list event) : Prop := shaped (ios tr).

Lemma nul_app a b : nul a -> nul b -> nul (a ++ b).
Proof. unfold nul. rewrite ios_app. apply polls_app. Qed.
Lemma nul_conv a : nul a -> conv a.
Proof. apply polls_shaped. Qed.
Lemma nul_conv_app a b : nul a -> conv b -> conv (a ++ b).
Proof. unfold nul, conv. rewrite ios_app. apply polls_shaped_app. Qed.
Lemma conv_noio_app a b : conv a -> ios b = [] -> conv (a ++ b).
Proof. unfold conv. intros A B. rewrite ios_app, B, app_nil_r. exact A. Qed.
Lemma quiet_nul es : Forall quiet es -> nul es.
Proof. intro Q. unfold nul. rewrite (quiet_ios es Q). reflexivity. Qed.

(* the download loop with a sink that does not fail *)
Lemma recv_loop_out t : forall segs prev s e ev r p s' cb',
  good_sink s -> recv_loop t prev s segs e None = (ev, r, p, s', cb') -> chk Out ev = Some Out.
Proof.
  induction segs as [|seg rest IH]; intros prev s e ev r p s' cb' G H.
  - cbn in H. destruct e; inversion H; subst; reflexivity.
  - cbn [recv_loop] in H. destruct (sink_write t prev seg) as [o p0]. rewrite (sink_fails_good s G) in H.
    destruct (recv_loop t p0 (sink_next s) rest e None) as [[[[ev1 r1] p1] s1] cb1] eqn:R.
    inversion H; subst. cbn [chk chk1]. exact (IH _ _ _ _ _ _ _ _ (good_sink_next s G) R).
Qed.

Lemma recv_loop_run t : forall segs prev s e answers ev r p s' cb',
  good_sink s -> recv_loop t prev s segs e (Some answers) = (ev, r, p, s', cb') -> exists st', chk Run ev = Some st'.
Proof.
  induction segs as [|seg rest IH]; intros prev s e answers ev r p s' cb' G H.
  - cbn in H. destruct e; inversion H; subst; exists Run; reflexivity.
  - cbn [recv_loop] in H. destruct (sink_write t prev seg) as [o p0]. rewrite (sink_fails_good s G) in H.
    destruct (poll answers) as [a answers']. destruct a.
    + inversion H; subst. exists Canc. reflexivity.
    + destruct (recv_loop t p0 (sink_next s) rest e (Some answers')) as [[[[ev1 r1] p1] s1] cb1] eqn:R.
      inversion H; subst. cbn [app chk chk1]. exact (IH _ _ _ _ _ _ _ _ _ (good_sink_next s G) R).
Qed.

Lemma tail_out st (b : bool) en : en = [] \/ en = [IoEnd] -> (en = [] -> st = Out) ->
  chk st (((if b then [IoSinkWrite [CR]] else []) ++ [IoSinkFlush]) ++ en) = Some Out.
Proof. intros [->| ->] K; [rewrite (K eq_refl)|]; destruct b; reflexivity. Qed.

Lemma data_recv_shaped t s segs e cb ev r cb' : good_sink s -> data_recv t s segs e cb = (ev, r, cb') ->
  shaped ev /\ (r <> PThrow -> polls ev).
Proof.
  intros G H. unfold data_recv in H. destruct cb as [answers|]; cbn [start_events] in H.
  - destruct (poll answers) as [a answers']. destruct a; cbn [app] in H.
    + inversion H; subst. split; [exists Out; reflexivity|intros _; reflexivity].
    + destruct (recv_loop t false s segs e (Some answers')) as [[[[ev1 r1] p] s1] cb2] eqn:R.
      destruct (recv_loop_run _ _ _ _ _ _ _ _ _ _ _ G R) as (st' & A).
      assert (X : forall tl, chk st' tl = Some Out -> polls (IoPoll false :: IoBegin :: ev1 ++ tl)).
      { intros tl T. unfold polls. cbn [chk chk1]. rewrite chk_app, A. exact T. }
      destruct r1; [| | |inversion H; subst; split; [exists st'; cbn [chk chk1]; exact A|intro K; destruct K; reflexivity]];
        (destruct ((match t with TAscii => p | TBinary => false end) && sink_fails s1);
         [inversion H; subst; split; [exists st'; cbn [chk chk1]; rewrite chk_app, A; reflexivity|intro K; destruct K; reflexivity]
         |inversion H; subst; assert (P0 : polls (IoPoll false :: IoBegin :: ev1 ++
              ((if match t with TAscii => p | TBinary => false end then [IoSinkWrite [CR]] else []) ++ [IoSinkFlush]) ++ [IoEnd]))
            by (apply X; apply tail_out; [right; reflexivity|discriminate]);
          split; [apply polls_shaped; exact P0|intros _; exact P0]]).
  - destruct (recv_loop t false s segs e None) as [[[[ev1 r1] p] s1] cb2] eqn:R.
    pose proof (recv_loop_out _ _ _ _ _ _ _ _ _ _ G R) as A. cbn [app] in H.
    destruct r1; [| | |inversion H; subst; split; [exists Out; exact A|intros _; exact A]];
      (destruct ((match t with TAscii => p | TBinary => false end) && sink_fails s1);
       [inversion H; subst; split; [exists Out; rewrite chk_app, A; reflexivity|intro K; destruct K; reflexivity]
       |inversion H; subst; assert (P0 : polls (ev1 ++
            ((if match t with TAscii => p | TBinary => false end then [IoSinkWrite [CR]] else []) ++ [IoSinkFlush]) ++ []))
          by (unfold polls; rewrite chk_app, A; apply tail_out; [left; reflexivity|reflexivity]);
        split; [apply polls_shaped; exact P0|intros _; exact P0]]).
Qed.

Lemma send_loop_out : forall blocks ev r cb', send_loop blocks None = (ev, r, cb') -> chk Out ev = Some Out.
Proof.
  induction blocks as [|b rest IH]; intros ev r cb' H.
  - inversion H; subst. reflexivity.
  - cbn [send_loop] in H. destruct (send_loop rest None) as [[ev1 r1] cb1] eqn:R. inversion H; subst.
    cbn [chk chk1]. apply (IH _ _ _ eq_refl).
Qed.

Lemma send_loop_run : forall blocks answers ev r cb', send_loop blocks (Some answers) = (ev, r, cb') -> exists st', chk Run ev = Some st'.
Proof.
  induction blocks as [|b rest IH]; intros answers ev r cb' H.
  - inversion H; subst. exists Run. reflexivity.
  - cbn [send_loop] in H. destruct (poll answers) as [a answers']. destruct a.
    + inversion H; subst. exists Canc. reflexivity.
    + destruct (send_loop rest (Some answers')) as [[ev1 r1] cb1] eqn:R. inversion H; subst.
      cbn [app chk chk1]. apply (IH _ _ _ _ R).
Qed.

Lemma data_send_polls t blk chunks cb ev r cb' : data_send t blk chunks cb = (ev, r, cb') -> polls ev.
Proof.
  intro H. unfold data_send in H. destruct cb as [answers|]; cbn [start_events] in H.
  - destruct (poll answers) as [a answers']. destruct a; cbn [app] in H.
    + inversion H; subst. reflexivity.
    + destruct (send_loop (upload_blocks t blk chunks) (Some answers')) as [[ev1 r1] cb2] eqn:R.
      destruct (send_loop_run _ _ _ _ _ R) as (st' & A). inversion H; subst.
      unfold polls. cbn [chk chk1]. rewrite chk_app, A. reflexivity.
  - destruct (send_loop (upload_blocks t blk chunks) None) as [[ev1 r1] cb2] eqn:R.
    pose proof (send_loop_out _ _ _ _ R) as A. inversion H; subst. cbn [app]. unfold polls. rewrite app_nil_r. exact A.
Qed.

(* the state the theorem is about: the call's sink does not fail *)
Definition inv (w : world) : Prop := good_sink (io_sink (w_io w)).

Definition Na (w w' : world) : Prop := exists tr, w_trace w' = w_trace w ++ tr /\ nul tr /\ (inv w -> inv w').
Definition Res (done : bool) (w w' : world) : Prop :=
  exists tr, w_trace w' = w_trace w ++ tr /\ if done then nul tr else conv tr.

Lemma inv_keep w w' : Na w w' -> inv w -> inv w'.
Proof. intros (_ & _ & _ & K). exact K. Qed.

Lemma nul_nil : nul [].
Proof. reflexivity. Qed.

Lemma Na_refl w : Na w w.
Proof. exists []. rewrite app_nil_r. split; [reflexivity|]. split; [exact nul_nil|]. intro X; exact X. Qed.

Lemma Res_refl done w : Res done w w.
Proof. exists []. rewrite app_nil_r. split; [reflexivity|]. destruct done; [exact nul_nil|apply nul_conv; exact nul_nil]. Qed.

Lemma Na_trans a b c : Na a b -> Na b c -> Na a c.
Proof.
  intros (t1 & E1 & B1 & K1) (t2 & E2 & B2 & K2). exists (t1 ++ t2). rewrite E2, E1, app_assoc. split; [reflexivity|].
  split; [apply nul_app; assumption|auto].
Qed.

Lemma Na_then done a b c : Na a b -> (inv b -> Res done b c) -> inv a -> Res done a c.
Proof.
  intros H K I0. destruct (K (inv_keep _ _ H I0)) as (t2 & E2 & R2). destruct H as (t1 & E1 & B1 & _).
  exists (t1 ++ t2). rewrite E2, E1, app_assoc. split; [reflexivity|].
  destruct done; [apply nul_app; assumption|apply nul_conv_app; assumption].
Qed.

Lemma Na_weaken done a b : Na a b -> Res done a b.
Proof. intros (t & E & B & _). exists t. split; [exact E|]. destruct done; [exact B|apply nul_conv; exact B]. Qed.

Lemma Na_quiet w w' es : w_trace w' = w_trace w ++ es -> Forall quiet es -> w_cfg w' = w_cfg w -> w_io w' = w_io w -> Na w w'.
Proof. intros E Q _ S. exists es. split; [exact E|]. split; [apply quiet_nul; exact Q|]. unfold inv. rewrite S. auto. Qed.

Lemma Na_notify w e : Na w (notify w e).
Proof. apply (Na_quiet _ _ (map (fun o => EObs o e) (w_obs w))); [reflexivity|apply q_obs|reflexivity|reflexivity]. Qed.

Ltac qall := repeat (first [apply Forall_nil | apply Forall_cons; [exact I|]]).
Ltac sq := first
  [ apply (Na_quiet _ _ []); [cbn [w_trace emit set_trace set_queues set_io set_data set_cfg set_ctl set_obs release_pending notify];
                             rewrite ?app_nil_r; reflexivity|constructor|reflexivity|reflexivity]
  | (eapply Na_quiet; [cbn [w_trace emit set_trace set_queues set_io set_data set_cfg set_ctl set_obs release_pending notify];
                       rewrite <- ?app_assoc; reflexivity|qall|reflexivity|reflexivity]) ].

Lemma Na_do_send w line w' : do_send w line = Some w' -> Na w w'.
Proof.
  unfold do_send. destruct (negb _); [discriminate|]. destruct (_ && negb _); [discriminate|].
  set (w1 := notify w (ORequest line)).
  assert (G1 : Na w w1) by apply Na_notify.
  destruct (w_peer_closed w1); intro H; inversion H; subst; clear H.
  - eapply Na_trans; [exact G1|]. sq.
  - eapply Na_trans; [exact G1|].
    match goal with |- Na w1 (peer_react ?W) => apply (Na_trans _ W) end.
    + sq.
    + destruct (peer_react_same (emit w1 [EWire (w_ssl w1 && w_tls_up w1) (w_ord w1) line])) as (A & B).
      apply (Na_quiet _ _ []); [rewrite app_nil_r; apply peer_react_trace|constructor|exact A|exact B].
Qed.

Lemma Na_close_data w : Na w (close_data w).
Proof.
  unfold close_data. destruct (w_data w) as [d|]; [|apply Na_refl].
  destruct (d_sock d), (d_acc d); cbv zeta.
  - apply (Na_quiet _ _ [EData DClose; EData DAccClose]); [cbn [w_trace set_data emit set_trace release_pending set_queues]; rewrite <- app_assoc; reflexivity|qall|reflexivity|reflexivity].
  - apply (Na_quiet _ _ [EData DClose]); [reflexivity|qall|reflexivity|reflexivity].
  - apply (Na_quiet _ _ [EData DAccClose]); [reflexivity|qall|reflexivity|reflexivity].
  - apply (Na_quiet _ _ []); [rewrite app_nil_r; reflexivity|constructor|reflexivity|reflexivity].
Qed.

Lemma Na_ctl_disconnect w : Na w (snd (ctl_disconnect w)).
Proof.
  unfold ctl_disconnect. cbn [snd].
  eapply Na_quiet; [cbn [w_trace set_queues set_ctl emit set_trace]; reflexivity| |reflexivity|reflexivity].
  destruct (w_ssl w); cbn [app]; qall.
Qed.

Lemma close_data_noio w : exists t2, w_trace (close_data w) = w_trace w ++ t2 /\ ios t2 = [].
Proof.
  unfold close_data. destruct (w_data w) as [d|]; [|exists []; rewrite app_nil_r; split; reflexivity].
  destruct (d_sock d), (d_acc d); cbv zeta.
  - exists [EData DClose; EData DAccClose]. split; [cbn [w_trace set_data emit set_trace release_pending set_queues]; rewrite <- app_assoc; reflexivity|reflexivity].
  - exists [EData DClose]. split; reflexivity.
  - exists [EData DAccClose]. split; reflexivity.
  - exists []. rewrite app_nil_r. split; reflexivity.
Qed.

(* programs with one data loop at most on every path *)
Fixpoint gb (p : prog) (done : bool) : Prop :=
  match p with
  | Ret _ | Throw => True
  | PumpIn k | PumpOut k => done = false /\ forall x, gb (k x) true
  | PumpInList k => done = false /\ forall x, gb (k x) true
  | Recv k => forall r, gb (k r) done
  | GetCfg k => forall c, gb (k c) done
  | IsOpen k | IsSsl k | Poll k => forall b, gb (k b) done
  | SetTypeCfg _ k | CheckArg _ k | Send _ _ k | SendRaw _ k | SendAdv _ k | Notify _ k | CtlConnect _ _ k | CtlSetSsl _ k
  | CtlHandshake k | CtlTlsShutdown k | CtlDisconnect k | DNew k | DConnect _ _ k | DListenP k | DAccept k | DHandshakeP k
  | DDisconnect _ k | Scope k => gb k done
  end.

Ltac ih IH N := let Ib := fresh "Ib" in intro Ib; apply IH; [first [exact N | apply N]|exact Ib].

Lemma run_gb : forall p done w, gb p done -> inv w -> Res done w (snd (run p w)).
Proof.
  induction p as [v| |a k IH|verb arg k IH|line k IH|a k IH|k IH|e k IH|k IH|t k IH|k IH|k IH|h pt k IH|on k IH|k IH|k IH|k IH
                 |k IH|ip port k IH|k IH|k IH|k IH|g k IH|k IH|k IH|k IH|k IH|body IH]; intros done w N T; cbn [run]; cbn [gb] in N.
  - apply Res_refl.
  - apply Res_refl.
  - destruct (has_crlf a); [apply Res_refl|apply IH; assumption].
  - destruct arg as [a|].
    + destruct (has_crlf a); [apply Res_refl|].
      destruct (do_send w _) as [w'|] eqn:X; cbn [snd];
        [eapply Na_then; [eapply Na_do_send; exact X|ih IH N|exact T]|eapply Na_weaken; apply Na_notify].
    + destruct (do_send w _) as [w'|] eqn:X; cbn [snd];
        [eapply Na_then; [eapply Na_do_send; exact X|ih IH N|exact T]|eapply Na_weaken; apply Na_notify].
  - destruct (do_send w _) as [w'|] eqn:X; cbn [snd];
      [eapply Na_then; [eapply Na_do_send; exact X|ih IH N|exact T]|eapply Na_weaken; apply Na_notify].
  - destruct (match a with AdvEprt => Some (make_eprt_command _ _) | AdvPort => _ end) as [line|]; [|apply Res_refl].
    destruct (do_send w _) as [w'|] eqn:X; cbn [snd];
      [eapply Na_then; [eapply Na_do_send; exact X|ih IH N|exact T]|eapply Na_weaken; apply Na_notify].
  - (* Recv *)
    destruct (negb (w_open w)); [apply Res_refl|].
    destruct (w_backlog w) as [|[t [x|]] rest].
    + destruct (w_peer_closed w); apply Res_refl.
    + set (w1 := emit (set_queues w rest (w_pending w)) [ERecv t x]).
      assert (G1 : Na w w1) by (unfold w1; sq).
      destruct (code x =? 421).
      * destruct (ctl_disconnect w1) as [ok w2] eqn:D.
        pose proof (Na_ctl_disconnect w1) as G2. rewrite D in G2. cbn [snd] in G2.
        destruct ok; cbn [snd].
        -- eapply Na_then; [eapply Na_trans; [exact G1|]; eapply Na_trans; [exact G2|apply Na_notify]| |exact T].
           intro Ib. apply IH; [apply N|exact Ib].
        -- eapply Na_weaken. eapply Na_trans; [exact G1|exact G2].
      * eapply Na_then; [eapply Na_trans; [exact G1|apply Na_notify]| |exact T]. intro Ib. apply IH; [apply N|exact Ib].
    + cbn [snd]. eapply Na_weaken. sq.
  - eapply Na_then; [apply Na_notify|ih IH N|exact T].
  - apply IH; [apply N|exact T].
  - eapply Na_then; [|ih IH N|exact T]. exists [ESetType t]. split; [reflexivity|]. split; [exact nul_nil|]. intro X; exact X.
  - apply IH; [apply N|exact T].
  - apply IH; [apply N|exact T].
  - (* CtlConnect *)
    match goal with |- context [match w_script ?w0 with _ => _ end] => set (W0 := w0) end.
    assert (X0 : Na w W0) by (unfold W0; destruct (w_open w); sq).
    destruct (w_script W0) as [|s rest]; cbn [snd].
    + eapply Na_weaken. eapply Na_trans; [exact X0|sq].
    + destruct (negb (s_reachable s)); cbn [snd].
      * eapply Na_weaken. eapply Na_trans; [exact X0|].
        eapply Na_quiet; [cbn [w_trace emit set_trace]; reflexivity|qall|reflexivity|reflexivity].
      * eapply Na_then; [eapply Na_trans; [exact X0|]|ih IH N|exact T].
        eapply Na_quiet; [cbn [w_trace emit set_trace]; reflexivity|qall|reflexivity|reflexivity].
  - eapply Na_then; [|ih IH N|exact T]. sq.
  - destruct (w_last_tls_ok w && negb (w_peer_closed w)); cbn [snd]; [eapply Na_then; [|ih IH N|exact T]|eapply Na_weaken]; sq.
  - destruct (w_tls_up w && w_tls_clean w && negb (w_peer_closed w)); cbn [snd]; [eapply Na_then; [|ih IH N|exact T]|eapply Na_weaken]; sq.
  - destruct (ctl_disconnect w) as [ok w1] eqn:D.
    pose proof (Na_ctl_disconnect w) as G2. rewrite D in G2. cbn [snd] in G2.
    destruct ok; cbn [snd]; [eapply Na_then; [exact G2|ih IH N|exact T]|eapply Na_weaken; exact G2].
  - eapply Na_then; [|ih IH N|exact T]. sq.
  - destruct (dp_reachable (w_plan w)); cbn [snd]; [eapply Na_then; [|ih IH N|exact T]|eapply Na_weaken]; sq.
  - eapply Na_then; [|ih IH N|exact T]. sq.
  - destruct (dp_reachable (w_plan w)); cbn [snd]; [eapply Na_then; [|ih IH N|exact T]; sq|apply Res_refl].
  - destruct (dp_tls_ok (w_plan w)); cbn [snd]; [eapply Na_then; [|ih IH N|exact T]|eapply Na_weaken]; sq.
  - destruct (w_data w) as [d|]; [|apply IH; assumption].
    destruct (d_ssl d && negb (dp_shutdown_ok (w_plan w))); cbn [snd]; [eapply Na_weaken; sq|].
    eapply Na_then; [|ih IH N|exact T]. eapply Na_trans; [|apply Na_close_data].
    destruct (d_ssl d), g; cbn [app]; sq.
  - (* PumpIn *)
    destruct N as (-> & N). unfold inv in T.
    destruct (data_recv _ _ _ _ _) as [[ev x] cb'] eqn:DR.
    destruct (data_recv_shaped _ _ _ _ _ _ _ _ T DR) as (B & B2).
    match goal with |- context [set_io ?A0 ?B0] => set (W1 := set_io A0 B0) end.
    assert (E1 : w_trace W1 = w_trace w ++ map EIo ev) by reflexivity.
    assert (O1 : conv (map EIo ev)) by (unfold conv; rewrite ios_io; exact B).
    assert (T1 : inv W1) by exact T.
    destruct x; cbn [snd];
      try (exists (map EIo ev); split; [exact E1|exact O1]);
      (match goal with |- context [run (k ?R0) W1] => destruct (IH R0 true W1 (N R0) T1) as (t2 & E2 & R2) end; exists (map EIo ev ++ t2); split;
        [rewrite E2, E1, app_assoc; reflexivity|apply nul_conv; apply nul_app; [unfold nul; rewrite ios_io; apply B2; discriminate|exact R2]]).
  - (* PumpInList: its own sink, always good *)
    destruct N as (-> & N).
    destruct (data_recv _ _ _ _ _) as [[ev x] cb'] eqn:DR.
    assert (G0 : good_sink (mkSink None O)) by reflexivity.
    destruct (data_recv_shaped _ _ _ _ _ _ _ _ G0 DR) as (B & B2).
    match goal with |- context [emit w ?Z] => set (W1 := emit w Z) end.
    assert (E1 : w_trace W1 = w_trace w ++ map EIo ev) by reflexivity.
    assert (O1 : conv (map EIo ev)) by (unfold conv; rewrite ios_io; exact B).
    assert (T1 : inv W1) by exact T.
    destruct x; cbn [snd];
      try (exists (map EIo ev); split; [exact E1|exact O1]);
      (match goal with |- context [run (k ?R0) W1] => destruct (IH R0 true W1 (N R0) T1) as (t2 & E2 & R2) end; exists (map EIo ev ++ t2); split;
        [rewrite E2, E1, app_assoc; reflexivity|apply nul_conv; apply nul_app; [unfold nul; rewrite ios_io; apply B2; discriminate|exact R2]]).
  - (* PumpOut: the sink is not touched *)
    destruct N as (-> & N).
    destruct (data_send _ _ _ _) as [[ev x] cb'] eqn:DS.
    pose proof (data_send_polls _ _ _ _ _ _ _ DS) as B.
    match goal with |- context [set_io ?A0 ?B0] => set (W1 := set_io A0 B0) end.
    assert (E1 : w_trace W1 = w_trace w ++ map EIo ev) by reflexivity.
    assert (O1 : conv (map EIo ev)) by (unfold conv; rewrite ios_io; apply polls_shaped; exact B).
    assert (T1 : inv W1) by exact T.
    destruct x; cbn [snd];
      try (exists (map EIo ev); split; [exact E1|exact O1]);
      (match goal with |- context [run (k ?R0) W1] => destruct (IH R0 true W1 (N R0) T1) as (t2 & E2 & R2) end; exists (map EIo ev ++ t2); split;
        [rewrite E2, E1, app_assoc; reflexivity|apply nul_conv; apply nul_app; [unfold nul; rewrite ios_io; exact B|exact R2]]).
  - (* Poll *)
    destruct (io_cb (w_io w)) as [answers|]; [|apply IH; [apply N|exact T]].
    destruct (poll answers) as [a answers'].
    eapply Na_then; [|intro Ib; apply IH; [apply N|exact Ib]|exact T].
    exists [EIo (IoPoll a)]. split; [reflexivity|]. split; [destruct a; reflexivity|]. intro Gs; exact Gs.
  - (* Scope *)
    destruct (run body w) as [o w1] eqn:Rn. cbn [snd].
    pose proof (IH done w N T) as (tr & X & F). rewrite Rn in X. cbn [snd] in X.
    destruct (close_data_noio w1) as (t2 & X2 & F2).
    exists (tr ++ t2). split.
    + cbn [w_trace set_data]. rewrite X2, X, app_assoc. reflexivity.
    + destruct done; [apply nul_app; [exact F|unfold nul; rewrite F2; reflexivity]|apply conv_noio_app; assumption].
Qed.

(* ------------------------------------------------------------------ the operations *)
Ltac gbt := repeat (cbn [gb]; first
  [ exact I | intro
  | match goal with
    | |- gb (if ?b then _ else _) _ => destruct b
    | |- gb (match ?x with _ => _ end) _ => destruct x
    | |- gb (let _ := _ in _) _ => cbv zeta
    end ]).

Lemma gb_process_login u pw acc k done : (forall a, gb (k a) done) -> gb (process_login u pw acc k) done.
Proof. intro K. unfold process_login, process_command, process_raw. gbt; apply K. Qed.

Lemma gb_cdc verb arg acc k_ok k_none done : (forall a, gb (k_ok a) done) -> (forall a, gb (k_none a) done) ->
  gb (create_data_connection verb arg acc k_ok k_none) done.
Proof.
  intros K1 K2. unfold create_data_connection, process_command. cbn [gb]. intro c.
  destruct (c_mode c), (c_rfc2428 c); gbt; first [apply K1 | apply K2].
Qed.

Lemma gb_finish acc done : gb (finish_transfer acc) done.
Proof. unfold finish_transfer, process_abort, process_command. gbt. Qed.

Lemma gb_connect h p l done : gb (op_connect h p l) done.
Proof.
  unfold op_connect, process_raw. cbv zeta.
  assert (LP : forall acc, gb (match l with
                | None => Ret (RvReplies acc)
                | Some (u, pw) => process_login u pw acc (fun acc' => Ret (RvReplies acc')) end) done).
  { intro acc. destruct l as [[u pw]|]; [apply gb_process_login; intros; exact I|exact I]. }
  destruct l as [[u pw]|]; gbt; try apply LP; try (apply gb_process_login; intros; exact I).
Qed.

(* every call whose sink does not fail *)
Definition sink_ok (a : api) : Prop := match a with ADownload _ _ (Some _) => False | _ => True end.

Theorem step_cancellation_stops_the_transfer a w : sink_ok a ->
  exists tr st', w_trace (snd (step w a)) = w_trace w ++ tr /\ chk Out (ios tr) = Some st'.
Proof.
  intro RC.
  assert (ST : forall p i, gb p false -> good_sink (io_sink i) ->
            exists tr st', w_trace (snd (run p (set_io w i))) = w_trace w ++ tr /\ chk Out (ios tr) = Some st').
  { intros p i N G. assert (T : inv (set_io w i)) by exact G.
    destruct (run_gb p false (set_io w i) N T) as (tr & X & st' & B). exists tr, st'. split; [exact X|exact B]. }
  assert (GN : good_sink (io_sink no_io)) by reflexivity.
  destruct a as [h p l|u pw| |v arg|t|x y|path cb f|uv path ch cb|path names|g|o|o|md|b]; unfold step; cbn [prog_of io_of];
    try (exists [], Out; rewrite app_nil_r; split; reflexivity); try (destruct RC; fail).
  - apply ST; [apply gb_connect|exact GN].
  - apply ST; [unfold op_login; apply gb_process_login; intros; exact I|exact GN].
  - apply ST; [unfold op_logout, process_command; gbt|exact GN].
  - apply ST; [unfold op_simple, process_command; gbt|exact GN].
  - apply ST; [unfold op_set_type, process_command; gbt|exact GN].
  - apply ST; [unfold op_rename, process_command; gbt|exact GN].
  - destruct f as [n|]; [destruct RC|].
    apply ST; [|reflexivity]. unfold op_download. cbn [gb]. apply gb_cdc; [|intros; exact I].
    intro a. cbn [gb]. split; [reflexivity|]. intro x. apply gb_finish.
  - apply ST; [|reflexivity]. unfold op_upload. cbn [gb]. apply gb_cdc; [|intros; exact I].
    intro a. cbn [gb]. split; [reflexivity|]. intro x. apply gb_finish.
  - apply ST; [|exact GN]. unfold op_list. cbn [gb]. apply gb_cdc; [|intros; exact I]. intro a. cbn [gb]. split; [reflexivity|]. gbt.
  - apply ST; [unfold op_disconnect, process_command; destruct g; gbt|exact GN].
Qed.

(* read back: after a poll that answered 'cancelled' inside a transfer, nothing more is read from or written to the data
   connection and no further block is notified, up to the end of the transfer *)
Definition moves (e : io_event) : bool :=
  match e with IoNotify _ | IoNetRead _ | IoNetWrite _ => true | _ => false end.

Lemma chk_canc : forall ev st', chk Canc ev = Some st' ->
  forall pre post, ev = pre ++ post -> count_ev is_end pre = O -> count_ev is_begin pre = O -> count_ev moves pre = O.
Proof.
  induction ev as [|e ev IH]; intros st' H pre post E NE NB.
  - destruct pre; [reflexivity|discriminate].
  - destruct pre as [|x pre]; [reflexivity|]. cbn [app] in E. inversion E; subst x ev.
    cbn [chk] in H. unfold count_ev in *. cbn [filter] in *.
    destruct e as [[|]| | | | | | | |]; cbn [chk1 is_end is_begin moves] in *; try discriminate;
      try (apply (IH _ H pre post eq_refl NE NB)).
Qed.

Corollary nothing_moves_after_cancelled a w tr pre mid post : sink_ok a ->
  w_trace (snd (step w a)) = w_trace w ++ tr -> ios tr = pre ++ IoPoll true :: mid ++ post ->
  chk Out pre = Some Run -> count_ev is_end mid = O -> count_ev is_begin mid = O -> count_ev moves mid = O.
Proof.
  intros OK E S P NE NB. destruct (step_cancellation_stops_the_transfer a w OK) as (tr' & st' & E' & C).
  rewrite E in E'. apply app_inv_head in E'. subst tr'. rewrite S, chk_app, P in C. cbn [chk chk1] in C.
  exact (chk_canc _ _ C mid post eq_refl NE NB).
Qed.

(* non-vacuity: a download of three segments cancelled at the poll after the second: the third is never read *)
Definition cancel_script : list session :=
  let say c := mkR [RReply (mkReply c [])] [] false false true no_plan in
  let epsv := mkR [RReply (mkReply 229 [40;124;124;124;53;124;41])] [] false false true (mkDP true true [] DEof true) in
  let retr := mkR [RReply (mkReply 150 [])] [] false false true (mkDP true true [[1;2]; [3]; [4;5;6]] DEof true) in
  let abor := mkR [RReply (mkReply 426 []); RReply (mkReply 226 [])] [] false false true no_plan in
  [mkSess true false true (say 220) [epsv; retr; abor]].

Example cancel_example :
  let w0 := init_world (mkConfig Passive true TBinary false false) cancel_script in
  let w1 := snd (steps w0 [AConnect [104] 21 None]) in
  let tr := skipn (length (w_trace w1)) (w_trace (snd (step w1 (ADownload [102] (Some [false; false; true; true]) None)))) in
  net_in_bytes (ios tr) = [1;2;3] /\ chk Out (ios tr) = Some Out.
Proof. vm_compute. split; reflexivity. Qed.
