(* C17 - no socket outlives its purpose, whatever the history. *)
From LibFtp Require Import Bytes Decimal Reply Endpoint Ascii DataConn DataConn_Proofs Client Client_Proofs Login_Proofs Transfer_Proofs Transfer_More Modes_Proofs Ctl_Proofs History_Proofs Session_Proofs.
Local Open Scope N_scope.

(* for every history of API calls, every configuration and every script of the peer (successful, refused,
   cancelled, failing at any point): after every call - whether it returned, threw or blocked - the client holds
   no data socket and no listening socket; it holds exactly its control socket while it reports connected *)
Theorem C17_socket_invariant : forall (l : list api) (w : world), w_data w = None ->
  w_data (snd (steps w l)) = None /\
  held (snd (steps w l)) = (if w_open (snd (steps w l)) then 1 else 0)%nat.
Proof. exact socket_invariant. Qed.
Print Assumptions C17_socket_invariant.

(* one call *)
Theorem C17_call_releases_data : forall a w, w_data w = None -> w_data (snd (step w a)) = None.
Proof. exact step_releases_data. Qed.
Print Assumptions C17_call_releases_data.

(* the bracket that models the unique_ptr<data_connection> of an operation: whatever the body does and however it
   ends, leaving the scope closes what is still open *)
Theorem C17_scope_closes : forall body w, w_data (snd (run (Scope body) w)) = None.
Proof. intros body w. cbn [run]. destruct (run body w) as [o w1]. reflexivity. Qed.
Print Assumptions C17_scope_closes.

(* a fresh client holds nothing; destroying the client closes the control socket it may still hold (socket
   destructors), so the descriptor count does not grow with the number of operations *)
Example C17_initial : forall cfg script, held (init_world cfg script) = O.
Proof. reflexivity. Qed.

(* after a whole session (connect, any history, QUIT) the client holds no socket at all *)
Theorem C17_whole_session_leaves_nothing : forall w0 h p s srest g cs rss xss rq xq,
  w_open w0 = false -> w_data w0 = None -> w_script w0 = s :: srest -> s_reachable s = true ->
  c_mode (w_cfg w0) = Passive -> c_tls (w_cfg w0) = false ->
  r_now (s_greeting s) = [RReply g] -> r_close_after (s_greeting s) = false -> code g <> 421 -> code g <> 120 ->
  s_reactions s = rss ++ [rq] ->
  history (c_rfc2428 (w_cfg w0)) (c_type (w_cfg w0)) cs rss xss -> simple_reaction rq xq ->
  let '(os, w') := steps w0 (AConnect h p None :: cs ++ [ADisconnect true]) in
  map outcome_replies os = map Some ([g] :: xss ++ [[xq]]) /\
  w_open w' = false /\ w_ssl w' = false /\ w_data w' = None /\ held w' = O /\ w_script w' = srest /\
  w_backlog w' = [] /\ w_pending w' = [].
Proof. exact whole_session. Qed.
Print Assumptions C17_whole_session_leaves_nothing.
