(* C17 - no socket outlives its purpose, whatever the history. *)
From LibFtp Require Import Bytes Decimal Reply Endpoint DataConn Client Client_Proofs.
Local Open Scope N_scope.

(* for every history of API calls, every configuration and every script of the peer (successful, refused,
   cancelled, failing at any point): after every call - whether it returned, threw or blocked - the client holds
   no data socket and no listening socket; it holds exactly its control socket while it reports connected *)
Theorem C17_socket_invariant : forall (l : list api) (w : world), w_data w = None ->
  w_data (snd (steps w l)) = None /\
  held (snd (steps w l)) = (if w_open (snd (steps w l)) then 1 else 0)%nat.
Proof. exact socket_invariant. Qed.
Print Assumptions C17_socket_invariant.

(* one call *)
Theorem C17_call_releases_data : forall a w, w_data w = None -> w_data (snd (step w a)) = None.
Proof. exact step_releases_data. Qed.
Print Assumptions C17_call_releases_data.

(* the bracket that models the unique_ptr<data_connection> of an operation: whatever the body does and however it
   ends, leaving the scope closes what is still open *)
Theorem C17_scope_closes : forall body w, w_data (snd (run (Scope body) w)) = None.
Proof. intros body w. cbn [run]. destruct (run body w) as [o w1]. reflexivity. Qed.
Print Assumptions C17_scope_closes.

(* a fresh client holds nothing; destroying the client closes the control socket it may still hold (socket
   destructors), so the descriptor count does not grow with the number of operations *)
Example C17_initial : forall cfg script, held (init_world cfg script) = O.
Proof. reflexivity. Qed.
