(* Counts_Global.v - C12 over EVERY transfer call with a callback, every state, either transfer type and every behaviour of
   the server: the sum of the sizes the callback is notified of equals the number of bytes the call moved over the data
   connection (read from it in a download, written to it in an upload) - whether the transfer completes, is cancelled, is cut
   or the call fails. *)
From LibFtp Require Import Bytes Decimal Reply Endpoint DataConn DataConn_Proofs Client Client_Proofs Bytes_Global.
From Coq Require Import Lia.
Local Open Scope N_scope.

Definition moved (ev : list io_event) : nat := (length (net_in_bytes ev) + length (net_out_bytes ev))%nat.
Definition cnt_ev (ev : list io_event) : Prop := notified ev = moved ev.
Definition cnt (tr : list event) : Prop := cnt_ev (ios tr).

Lemma moved_app a b : moved (a ++ b) = (moved a + moved b)%nat.
Proof. unfold moved. rewrite net_in_app, net_out_app, !app_length. lia. Qed.

Lemma cnt_ev_app a b : cnt_ev a -> cnt_ev b -> cnt_ev (a ++ b).
Proof. unfold cnt_ev. intros A B. rewrite notified_app, moved_app, A, B. reflexivity. Qed.

Lemma cnt_app a b : cnt a -> cnt b -> cnt (a ++ b).
Proof. unfold cnt. rewrite ios_app. apply cnt_ev_app. Qed.

Lemma quiet_cnt es : Forall quiet es -> cnt es.
Proof. intro Q. unfold cnt. rewrite (quiet_ios es Q). reflexivity. Qed.

(* the download loop with a callback and a sink that does not fail, either type *)
Lemma recv_loop_counts t : forall segs prev s e answers ev r p s' cb',
  good_sink s -> recv_loop t prev s segs e (Some answers) = (ev, r, p, s', cb') -> cnt_ev ev /\ cb' <> None.
Proof.
  induction segs as [|seg rest IH]; intros prev s e answers ev r p s' cb' G H.
  - cbn in H. destruct e; inversion H; subst; split; [reflexivity|discriminate|reflexivity|discriminate].
  - cbn [recv_loop] in H. destruct (sink_write t prev seg) as [o p0]. rewrite (sink_fails_good s G) in H.
    destruct (poll answers) as [a answers']. destruct a.
    + inversion H; subst. split; [|discriminate]. unfold cnt_ev, moved. cbn. rewrite !app_nil_r. lia.
    + destruct (recv_loop t p0 (sink_next s) rest e (Some answers')) as [[[[ev1 r1] p1] s1] cb1] eqn:R.
      inversion H; subst. destruct (IH _ _ _ _ _ _ _ _ _ (good_sink_next s G) R) as (A & B). split; [|exact B].
      apply (cnt_ev_app [IoNetRead seg; IoSinkWrite o; IoNotify (length seg); IoPoll false]); [|exact A].
      unfold cnt_ev, moved. cbn. rewrite !app_nil_r. lia.
Qed.

Lemma data_recv_counts t s segs e answers ev r cb' : good_sink s ->
  data_recv t s segs e (Some answers) = (ev, r, cb') -> cnt_ev ev /\ cb' <> None.
Proof.
  intros G H. unfold data_recv in H. cbn [start_events] in H. destruct (poll answers) as [a answers'].
  destruct a; cbn [app] in H.
  - inversion H; subst. split; [reflexivity|discriminate].
  - destruct (recv_loop t false s segs e (Some answers')) as [[[[ev1 r1] p] s1] cb2] eqn:R.
    destruct (recv_loop_counts _ _ _ _ _ _ _ _ _ _ _ G R) as (A & B).
    assert (X : forall tl, cnt_ev tl -> cnt_ev (IoPoll false :: IoBegin :: ev1 ++ tl)).
    { intros tl T. apply (cnt_ev_app [IoPoll false; IoBegin]); [reflexivity|]. apply cnt_ev_app; assumption. }
    destruct r1; [| | |inversion H; subst; split; [|exact B]; rewrite <- (app_nil_r ev1); apply X; reflexivity];
      (destruct ((match t with TAscii => p | TBinary => false end) && sink_fails s1);
       [inversion H; subst; split; [|exact B]; apply X; reflexivity
       |inversion H; subst; split; [|exact B]; apply X;
        destruct (match t with TAscii => p | TBinary => false end); reflexivity]).
Qed.

Lemma send_loop_counts : forall blocks answers ev r cb',
  send_loop blocks (Some answers) = (ev, r, cb') -> cnt_ev ev /\ cb' <> None.
Proof.
  induction blocks as [|b rest IH]; intros answers ev r cb' H.
  - inversion H; subst. split; [reflexivity|discriminate].
  - cbn [send_loop] in H. destruct (poll answers) as [a answers']. destruct a.
    + inversion H; subst. split; [|discriminate]. unfold cnt_ev, moved. cbn. rewrite !app_nil_r. lia.
    + destruct (send_loop rest (Some answers')) as [[ev1 r1] cb1] eqn:R. inversion H; subst.
      destruct (IH _ _ _ _ R) as (A & B). split; [|exact B].
      apply (cnt_ev_app [IoNetWrite b; IoNotify (length b); IoPoll false]); [|exact A].
      unfold cnt_ev, moved. cbn. rewrite !app_nil_r. lia.
Qed.

Lemma data_send_counts t blk chunks answers ev r cb' :
  data_send t blk chunks (Some answers) = (ev, r, cb') -> cnt_ev ev /\ cb' <> None.
Proof.
  intro H. unfold data_send in H. cbn [start_events] in H. destruct (poll answers) as [a answers'].
  destruct a; cbn [app] in H.
  - inversion H; subst. split; [reflexivity|discriminate].
  - destruct (send_loop (upload_blocks t blk chunks) (Some answers')) as [[ev1 r1] cb2] eqn:R.
    destruct (send_loop_counts _ _ _ _ _ R) as (A & B). inversion H; subst. split; [|exact B].
    apply (cnt_ev_app [IoPoll false; IoBegin]); [reflexivity|]. apply cnt_ev_app; [exact A|reflexivity].
Qed.

(* the state the theorem is about: the call has a callback, and its sink does not fail *)
Definition inv (w : world) : Prop := io_cb (w_io w) <> None /\ good_sink (io_sink (w_io w)).

Definition St (w w' : world) : Prop := exists tr, w_trace w' = w_trace w ++ tr /\ cnt tr /\ (inv w -> inv w').
Definition Sx (w w' : world) : Prop := exists tr, w_trace w' = w_trace w ++ tr /\ cnt tr.

Lemma inv_keep w w' : St w w' -> inv w -> inv w'.
Proof. intros (_ & _ & _ & K). exact K. Qed.

Lemma St_refl w : St w w.
Proof. exists []. rewrite app_nil_r. split; [reflexivity|]. split; [reflexivity|]. intro X; exact X. Qed.
Lemma Sx_refl w : Sx w w.
Proof. exists []. rewrite app_nil_r. split; reflexivity. Qed.

Lemma St_trans a b c : St a b -> St b c -> St a c.
Proof.
  intros (t1 & E1 & B1 & K1) (t2 & E2 & B2 & K2). exists (t1 ++ t2). rewrite E2, E1, app_assoc. split; [reflexivity|].
  split; [apply cnt_app; assumption|auto].
Qed.

Lemma St_then a b c : St a b -> (inv b -> Sx b c) -> inv a -> Sx a c.
Proof.
  intros H K I0. destruct (K (inv_keep _ _ H I0)) as (t2 & E2 & B2). destruct H as (t1 & E1 & B1 & _).
  exists (t1 ++ t2). rewrite E2, E1, app_assoc. split; [reflexivity|apply cnt_app; assumption].
Qed.

Lemma St_weaken a b : St a b -> Sx a b.
Proof. intros (t & E & B & _). exists t. split; assumption. Qed.

Lemma St_quiet w w' es : w_trace w' = w_trace w ++ es -> Forall quiet es -> w_cfg w' = w_cfg w -> w_io w' = w_io w -> St w w'.
Proof. intros E Q _ S. exists es. split; [exact E|]. split; [apply quiet_cnt; exact Q|]. unfold inv. rewrite S. auto. Qed.

Lemma St_notify w e : St w (notify w e).
Proof. apply (St_quiet _ _ (map (fun o => EObs o e) (w_obs w))); [reflexivity|apply q_obs|reflexivity|reflexivity]. Qed.

Ltac qall := repeat (first [apply Forall_nil | apply Forall_cons; [exact I|]]).
Ltac sq := first
  [ apply (St_quiet _ _ []); [cbn [w_trace emit set_trace set_queues set_io set_data set_cfg set_ctl set_obs release_pending notify];
                             rewrite ?app_nil_r; reflexivity|constructor|reflexivity|reflexivity]
  | (eapply St_quiet; [cbn [w_trace emit set_trace set_queues set_io set_data set_cfg set_ctl set_obs release_pending notify];
                       rewrite <- ?app_assoc; reflexivity|qall|reflexivity|reflexivity]) ].

Lemma St_do_send w line w' : do_send w line = Some w' -> St w w'.
Proof.
  unfold do_send. destruct (negb _); [discriminate|]. destruct (_ && negb _); [discriminate|].
  set (w1 := notify w (ORequest line)).
  assert (G1 : St w w1) by apply St_notify.
  destruct (w_peer_closed w1); intro H; inversion H; subst; clear H.
  - eapply St_trans; [exact G1|]. sq.
  - eapply St_trans; [exact G1|].
    match goal with |- St w1 (peer_react ?W) => apply (St_trans _ W) end.
    + sq.
    + destruct (peer_react_same (emit w1 [EWire (w_ssl w1 && w_tls_up w1) (w_ord w1) line])) as (A & B).
      apply (St_quiet _ _ []); [rewrite app_nil_r; apply peer_react_trace|constructor|exact A|exact B].
Qed.

Lemma St_close_data w : St w (close_data w).
Proof.
  unfold close_data. destruct (w_data w) as [d|]; [|apply St_refl].
  destruct (d_sock d), (d_acc d); cbv zeta.
  - apply (St_quiet _ _ [EData DClose; EData DAccClose]); [cbn [w_trace set_data emit set_trace release_pending set_queues]; rewrite <- app_assoc; reflexivity|qall|reflexivity|reflexivity].
  - apply (St_quiet _ _ [EData DClose]); [reflexivity|qall|reflexivity|reflexivity].
  - apply (St_quiet _ _ [EData DAccClose]); [reflexivity|qall|reflexivity|reflexivity].
  - apply (St_quiet _ _ []); [rewrite app_nil_r; reflexivity|constructor|reflexivity|reflexivity].
Qed.

Lemma St_ctl_disconnect w : St w (snd (ctl_disconnect w)).
Proof.
  unfold ctl_disconnect. cbn [snd].
  eapply St_quiet; [cbn [w_trace set_queues set_ctl emit set_trace]; reflexivity| |reflexivity|reflexivity].
  destruct (w_ssl w); cbn [app]; qall.
Qed.

(* transfer programs: data loops that take the call's callback (download, upload); listings - which have none - excluded *)
Fixpoint gc (p : prog) : Prop :=
  match p with
  | Ret _ | Throw => True
  | PumpInList _ => False
  | Recv k => forall r, gc (k r)
  | GetCfg k => forall c, gc (k c)
  | IsOpen k | IsSsl k | Poll k => forall b, gc (k b)
  | PumpIn k | PumpOut k => forall x, gc (k x)
  | SetTypeCfg _ k | CheckArg _ k | Send _ _ k | SendRaw _ k | SendAdv _ k | Notify _ k | CtlConnect _ _ k | CtlSetSsl _ k
  | CtlHandshake k | CtlTlsShutdown k | CtlDisconnect k | DNew k | DConnect _ _ k | DListenP k | DAccept k | DHandshakeP k
  | DDisconnect _ k | Scope k => gc k
  end.

Ltac ih IH N := let Ib := fresh "Ib" in intro Ib; apply IH; [first [exact N | apply N]|exact Ib].

Lemma run_gc : forall p w, gc p -> inv w -> Sx w (snd (run p w)).
Proof.
  induction p as [v| |a k IH|verb arg k IH|line k IH|a k IH|k IH|e k IH|k IH|t k IH|k IH|k IH|h pt k IH|on k IH|k IH|k IH|k IH
                 |k IH|ip port k IH|k IH|k IH|k IH|g k IH|k IH|k IH|k IH|k IH|body IH]; intros w N T; cbn [run]; cbn [gc] in N.
  - apply Sx_refl.
  - apply Sx_refl.
  - destruct (has_crlf a); [apply Sx_refl|apply IH; assumption].
  - destruct arg as [a|].
    + destruct (has_crlf a); [apply Sx_refl|].
      destruct (do_send w _) as [w'|] eqn:X; cbn [snd];
        [eapply St_then; [eapply St_do_send; exact X|ih IH N|exact T]|eapply St_weaken; apply St_notify].
    + destruct (do_send w _) as [w'|] eqn:X; cbn [snd];
        [eapply St_then; [eapply St_do_send; exact X|ih IH N|exact T]|eapply St_weaken; apply St_notify].
  - destruct (do_send w _) as [w'|] eqn:X; cbn [snd];
      [eapply St_then; [eapply St_do_send; exact X|ih IH N|exact T]|eapply St_weaken; apply St_notify].
  - destruct (match a with AdvEprt => Some (make_eprt_command _ _) | AdvPort => _ end) as [line|]; [|apply Sx_refl].
    destruct (do_send w _) as [w'|] eqn:X; cbn [snd];
      [eapply St_then; [eapply St_do_send; exact X|ih IH N|exact T]|eapply St_weaken; apply St_notify].
  - (* Recv *)
    destruct (negb (w_open w)); [apply Sx_refl|].
    destruct (w_backlog w) as [|[t [x|]] rest].
    + destruct (w_peer_closed w); apply Sx_refl.
    + set (w1 := emit (set_queues w rest (w_pending w)) [ERecv t x]).
      assert (G1 : St w w1) by (unfold w1; sq).
      destruct (code x =? 421).
      * destruct (ctl_disconnect w1) as [ok w2] eqn:D.
        pose proof (St_ctl_disconnect w1) as G2. rewrite D in G2. cbn [snd] in G2.
        destruct ok; cbn [snd].
        -- eapply St_then; [eapply St_trans; [exact G1|]; eapply St_trans; [exact G2|apply St_notify]| |exact T].
           intro Ib. apply IH; [apply N|exact Ib].
        -- eapply St_weaken. eapply St_trans; [exact G1|exact G2].
      * eapply St_then; [eapply St_trans; [exact G1|apply St_notify]| |exact T]. intro Ib. apply IH; [apply N|exact Ib].
    + cbn [snd]. eapply St_weaken. sq.
  - eapply St_then; [apply St_notify|ih IH N|exact T].
  - apply IH; [apply N|exact T].
  - eapply St_then; [|ih IH N|exact T]. exists [ESetType t]. split; [reflexivity|]. split; [reflexivity|]. intro X; exact X.
  - apply IH; [apply N|exact T].
  - apply IH; [apply N|exact T].
  - (* CtlConnect *)
    match goal with |- context [match w_script ?w0 with _ => _ end] => set (W0 := w0) end.
    assert (X0 : St w W0) by (unfold W0; destruct (w_open w); sq).
    destruct (w_script W0) as [|s rest]; cbn [snd].
    + eapply St_weaken. eapply St_trans; [exact X0|sq].
    + destruct (negb (s_reachable s)); cbn [snd].
      * eapply St_weaken. eapply St_trans; [exact X0|].
        eapply St_quiet; [cbn [w_trace emit set_trace]; reflexivity|qall|reflexivity|reflexivity].
      * eapply St_then; [eapply St_trans; [exact X0|]|ih IH N|exact T].
        eapply St_quiet; [cbn [w_trace emit set_trace]; reflexivity|qall|reflexivity|reflexivity].
  - eapply St_then; [|ih IH N|exact T]. sq.
  - destruct (w_last_tls_ok w && negb (w_peer_closed w)); cbn [snd]; [eapply St_then; [|ih IH N|exact T]|eapply St_weaken]; sq.
  - destruct (w_tls_up w && w_tls_clean w && negb (w_peer_closed w)); cbn [snd]; [eapply St_then; [|ih IH N|exact T]|eapply St_weaken]; sq.
  - destruct (ctl_disconnect w) as [ok w1] eqn:D.
    pose proof (St_ctl_disconnect w) as G2. rewrite D in G2. cbn [snd] in G2.
    destruct ok; cbn [snd]; [eapply St_then; [exact G2|ih IH N|exact T]|eapply St_weaken; exact G2].
  - eapply St_then; [|ih IH N|exact T]. sq.
  - destruct (dp_reachable (w_plan w)); cbn [snd]; [eapply St_then; [|ih IH N|exact T]|eapply St_weaken]; sq.
  - eapply St_then; [|ih IH N|exact T]. sq.
  - destruct (dp_reachable (w_plan w)); cbn [snd]; [eapply St_then; [|ih IH N|exact T]; sq|apply Sx_refl].
  - destruct (dp_tls_ok (w_plan w)); cbn [snd]; [eapply St_then; [|ih IH N|exact T]|eapply St_weaken]; sq.
  - destruct (w_data w) as [d|]; [|apply IH; assumption].
    destruct (d_ssl d && negb (dp_shutdown_ok (w_plan w))); cbn [snd]; [eapply St_weaken; sq|].
    eapply St_then; [|ih IH N|exact T]. eapply St_trans; [|apply St_close_data].
    destruct (d_ssl d), g; cbn [app]; sq.
  - (* PumpIn *)
    destruct T as (Cb & Gs). destruct (io_cb (w_io w)) as [answers|] eqn:CB; [|destruct Cb; reflexivity].
    destruct (data_recv _ _ _ _ _) as [[ev x] cb'] eqn:DR.
    destruct (data_recv_counts _ _ _ _ _ _ _ _ Gs DR) as (B & B2).
    match goal with |- context [set_io ?A0 ?B0] => set (W1 := set_io A0 B0) end.
    assert (G1 : St w W1).
    { exists (map EIo ev). unfold W1. split; [reflexivity|]. split; [unfold cnt; rewrite ios_io; exact B|]. intros _. split; [exact B2|exact Gs]. }
    assert (T0 : inv w) by (split; [rewrite CB; discriminate|exact Gs]).
    destruct x; cbn [snd]; try (eapply St_weaken; exact G1); (eapply St_then; [exact G1| |exact T0]; intro Ib; apply IH; [apply N|exact Ib]).
  - destruct N.
  - (* PumpOut *)
    destruct T as (Cb & Gs). destruct (io_cb (w_io w)) as [answers|] eqn:CB; [|destruct Cb; reflexivity].
    destruct (data_send _ _ _ _) as [[ev x] cb'] eqn:DS.
    destruct (data_send_counts _ _ _ _ _ _ _ DS) as (B & B2).
    match goal with |- context [set_io ?A0 ?B0] => set (W1 := set_io A0 B0) end.
    assert (G1 : St w W1).
    { exists (map EIo ev). unfold W1. split; [reflexivity|]. split; [unfold cnt; rewrite ios_io; exact B|]. intros _. split; [exact B2|exact Gs]. }
    assert (T0 : inv w) by (split; [rewrite CB; discriminate|exact Gs]).
    destruct x; cbn [snd]; try (eapply St_weaken; exact G1); (eapply St_then; [exact G1| |exact T0]; intro Ib; apply IH; [apply N|exact Ib]).
  - (* Poll *)
    destruct (io_cb (w_io w)) as [answers|]; [|apply IH; [apply N|exact T]].
    destruct (poll answers) as [a answers'].
    eapply St_then; [|intro Ib; apply IH; [apply N|exact Ib]|exact T].
    exists [EIo (IoPoll a)]. split; [reflexivity|]. split; [reflexivity|]. intros (_ & Gs). split; [discriminate|exact Gs].
  - (* Scope *)
    destruct (run body w) as [o w1] eqn:Rn. cbn [snd].
    pose proof (IH w N T) as (tr & X & F). rewrite Rn in X. cbn [snd] in X.
    destruct (St_close_data w1) as (t2 & X2 & F2 & _).
    exists (tr ++ t2). split.
    + cbn [w_trace set_data]. rewrite X2, X, app_assoc. reflexivity.
    + apply cnt_app; assumption.
Qed.

(* ------------------------------------------------------------------ the operations *)
Ltac gct := repeat (cbn [gc]; first
  [ exact I | intro
  | match goal with
    | |- gc (if ?b then _ else _) => destruct b
    | |- gc (match ?x with _ => _ end) => destruct x
    | |- gc (let _ := _ in _) => cbv zeta
    end ]).

Lemma gc_cdc verb arg acc k_ok k_none : (forall a, gc (k_ok a)) -> (forall a, gc (k_none a)) ->
  gc (create_data_connection verb arg acc k_ok k_none).
Proof.
  intros K1 K2. unfold create_data_connection, process_command. cbn [gc]. intro c.
  destruct (c_mode c), (c_rfc2428 c); gct; first [apply K1 | apply K2].
Qed.

Lemma gc_finish acc : gc (finish_transfer acc).
Proof. unfold finish_transfer, process_abort, process_command. gct. Qed.

(* the calls this theorem is about: downloads (with a sink that does not fail) and uploads that were given a callback *)
Definition with_callback (a : api) : Prop :=
  match a with ADownload _ (Some _) None | AUpload _ _ _ (Some _) => True | _ => False end.

(* every such call, every state, either transfer type, every server: the sizes the callback was notified of add up to the
   bytes read from plus the bytes written to the data connection *)
Theorem step_callback_counts_what_moved a w : with_callback a ->
  exists tr, w_trace (snd (step w a)) = w_trace w ++ tr /\
    notified (ios tr) = (length (net_in_bytes (ios tr)) + length (net_out_bytes (ios tr)))%nat.
Proof.
  intro WC.
  assert (ST : forall p i, gc p -> io_cb i <> None -> good_sink (io_sink i) ->
            exists tr, w_trace (snd (run p (set_io w i))) = w_trace w ++ tr /\
              notified (ios tr) = (length (net_in_bytes (ios tr)) + length (net_out_bytes (ios tr)))%nat).
  { intros p i N C G. assert (T : inv (set_io w i)) by (split; [exact C|exact G]).
    destruct (run_gc p (set_io w i) N T) as (tr & X & B). exists tr. split; [exact X|exact B]. }
  destruct a as [h p l|u pw| |v arg|t|x y|path cb f|uv path ch cb|path names|g|o|o|md|b]; try (destruct WC; fail);
    unfold step; cbn [prog_of io_of].
  - destruct cb as [answers|]; [|destruct WC]. destruct f as [n|]; [destruct WC|].
    apply ST; [|discriminate|reflexivity]. unfold op_download. cbn [gc]. apply gc_cdc; [|intros; exact I].
    intro a. cbn [gc]. intro x. apply gc_finish.
  - destruct cb as [answers|]; [|destruct WC].
    apply ST; [|discriminate|reflexivity]. unfold op_upload. cbn [gc]. apply gc_cdc; [|intros; exact I].
    intro a. cbn [gc]. intro x. apply gc_finish.
Qed.

(* non-vacuity: an ASCII download of three segments with a callback that cancels at its third poll: two blocks were read,
   the callback was told of exactly their sizes *)
Definition counts_script : list session :=
  let say c := mkR [RReply (mkReply c [])] [] false false true no_plan in
  let epsv := mkR [RReply (mkReply 229 [40;124;124;124;53;124;41])] [] false false true (mkDP true true [] DEof true) in
  let retr := mkR [RReply (mkReply 150 [])] [] false false true (mkDP true true [[1;13]; [10;3;4]; [5;6;7;8]] DEof true) in
  let abor := mkR [RReply (mkReply 426 []); RReply (mkReply 226 [])] [] false false true no_plan in
  [mkSess true false true (say 220) [epsv; retr; abor]].

Example counts_example :
  let w0 := init_world (mkConfig Passive true TAscii false false) counts_script in
  let w1 := snd (steps w0 [AConnect [104] 21 None]) in
  let tr := skipn (length (w_trace w1)) (w_trace (snd (step w1 (ADownload [102] (Some [false; false; true]) None)))) in
  notified (ios tr) = 5%nat /\ net_in_bytes (ios tr) = [1;13;10;3;4] /\ net_out_bytes (ios tr) = [].
Proof. vm_compute. repeat split. Qed.
