(* Decimal.v - model of ftp::detail::utils::try_parse_uint8/16/32/64 (src/utils.cpp:60-130),
   utils::split_string (src/utils.cpp:28-58) and std::to_string on unsigned values. *)
From LibFtp Require Export Bytes.
Local Open Scope N_scope.

Definition is_digit (c : N) : bool := (48 <=? c) && (c <=? 57).

Definition max8  : N := 255.
Definition max16 : N := 65535.
Definition max32 : N := 4294967295.
Definition max64 : N := 18446744073709551615.

(* the loop of try_parse_uint64, with every overflow test of the C++ code *)
Fixpoint parse_u64_loop (s : bytes) (value : N) : option N :=
  match s with
  | [] => Some value
  | ch :: s' =>
      if negb (is_digit ch) then None else
      let digit := ch - 48 in
      if max64 / 10 <? value then None else
      let value10 := value * 10 in
      if max64 - digit <? value10 then None else
      parse_u64_loop s' (value10 + digit)
  end.

Definition try_parse_uint64 (s : bytes) : option N :=
  match s with [] => None | _ => parse_u64_loop s 0 end.

Definition try_parse_bounded (bound : N) (s : bytes) : option N :=
  match try_parse_uint64 s with
  | Some v => if bound <? v then None else Some v
  | None => None
  end.

Definition try_parse_uint8  := try_parse_bounded max8.
Definition try_parse_uint16 := try_parse_bounded max16.
Definition try_parse_uint32 := try_parse_bounded max32.

(* ---- specification side: the unbounded decimal value of a digit string ---- *)
Definition all_digits (s : bytes) : bool := forallb is_digit s.

Definition dec_from (v : N) (s : bytes) : N := fold_left (fun a c => a * 10 + (c - 48)) s v.
Definition dec_value (s : bytes) : N := dec_from 0 s.

(* ---- utils::split_string ---- *)
Fixpoint split_string_loop (s : bytes) (del : N) (cur : bytes) : list bytes :=
  match s with
  | [] => []
  | ch :: s' =>
      if ch =? del then rev cur :: split_string_loop s' del []
      else match s' with
           | [] => [rev (ch :: cur)]
           | _ => split_string_loop s' del (ch :: cur)
           end
  end.
Definition split_string (s : bytes) (del : N) : list bytes := split_string_loop s del [].

(* specification: pieces between delimiters; the library drops a final empty piece *)
Fixpoint pieces (del : N) (s : bytes) : list bytes :=
  match s with
  | [] => [[]]
  | c :: s' =>
      if c =? del then [] :: pieces del s'
      else match pieces del s' with
           | p :: ps => (c :: p) :: ps
           | [] => [[c]]
           end
  end.

Fixpoint drop_last_empty (l : list bytes) : list bytes :=
  match l with
  | [] => []
  | [[]] => []
  | x :: l' => x :: drop_last_empty l'
  end.

(* ---- std::to_string for unsigned values: decimal digits, no leading zeros ---- *)
Fixpoint to_digits_fuel (fuel : nat) (n : N) (acc : bytes) : bytes :=
  match fuel with
  | O => acc
  | S f => let acc' := (48 + n mod 10) :: acc in
           if n <? 10 then acc' else to_digits_fuel f (n / 10) acc'
  end.
(* 20 digits are enough for every 64-bit value; callers pass values < 2^64 *)
Definition to_string (n : N) : bytes := to_digits_fuel 20 n [].
