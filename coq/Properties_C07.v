(* C07 - a refused transfer moves no data, leaks nothing and leaves the session usable. *)
From LibFtp Require Import Bytes Decimal Reply Endpoint Ascii DataConn DataConn_Proofs Client Client_Proofs Login_Proofs Transfer_Proofs Transfer_More Refusals Moves_Global.
Local Open Scope N_scope.

(* Refusal at the set-up command in passive mode (EPSV or PASV answered by any negative reply other than 421), for
   every transfer verb, path, sink/source/callback, script tail and trace so far: the operation returns exactly that
   reply, performs no sink write, no flush, no source read and no callback event (no EIo event at all), opens no
   data socket (no EData event), and leaves the session as a simple command would: nothing unread, nothing pending,
   the next reaction of the peer is the next one in the script. *)
Theorem C07_refused_at_passive_setup : forall w verb path io r rest x,
  ready w -> w_pending w = [] -> w_data w = None -> w_cur w = r :: rest -> simple_reaction r x ->
  c_mode (w_cfg w) = Passive -> is_negative x = true -> has_crlf path = false ->
  let setup := if c_rfc2428 (w_cfg w) then EPSV_ else PASV_ in
  exists w',
    run (CheckArg path (Scope (create_data_connection verb (Some path) []
            (fun acc => PumpIn (fun _ => finish_transfer acc)) (fun acc => Ret (RvReplies acc))))) (set_io w io)
      = (OReturn (RvReplies [x]), w') /\
    ready w' /\ w_pending w' = [] /\ w_cur w' = rest /\ w_data w' = None /\ w_cfg w' = w_cfg w /\
    io_events (skipn (length (w_trace w)) (w_trace w')) = [] /\
    data_events (skipn (length (w_trace w)) (w_trace w')) = [] /\
    wire_events (skipn (length (w_trace w)) (w_trace w')) = [WLine setup; WReply x].
Proof. exact refused_at_passive_setup. Qed.
Print Assumptions C07_refused_at_passive_setup.

(* on EVERY path - refusal at the set-up command, at the transfer command, in any mode, or an exception anywhere -
   no data socket or listening socket of the attempt survives the call *)
Theorem C07_no_leak : forall a w, w_data w = None -> w_data (snd (step w a)) = None.
Proof. exact step_releases_data. Qed.
Print Assumptions C07_no_leak.

(* PARTIAL: the full statement - the same conclusion for a refusal at the transfer command itself and for the two
   active modes - is decided by the correspondence (bin/props/proto.py, oracle_transfers) on generated histories;
   the Coq theorem above covers the set-up step of the passive modes. *)

(* refusal at the transfer command itself (RETR / STOR / STOU / APPE / LIST / NLST answered 4xx / 5xx), passive modes, for
   every operation (any continuation k_ok), sink, source and callback: the two replies received are returned, no sink /
   source / callback event happens, the data connection that had been opened is closed, and the session is in step *)
Theorem C07_refused_at_transfer_command : forall w verb path io k_ok r1 r2 rest x1 x2 ip port,
  insync w (r1 :: r2 :: rest) -> w_data w = None ->
  c_mode (w_cfg w) = Passive -> has_crlf path = false ->
  simple_reaction r1 x1 -> is_negative x1 = false -> passive_target (w_cfg w) x1 ip port ->
  dp_reachable (r_data r1) = true ->
  simple_reaction r2 x2 -> is_negative x2 = true ->
  exists w',
    run (CheckArg path (Scope (create_data_connection verb (Some path) [] k_ok (fun acc => Ret (RvReplies acc))))) (set_io w io)
      = (OReturn (RvReplies [x1; x2]), w') /\
    insync w' rest /\ w_data w' = None /\ w_cfg w' = w_cfg w /\
    io_events (skipn (length (w_trace w)) (w_trace w')) = [] /\
    wire_events (skipn (length (w_trace w)) (w_trace w')) =
      [WLine (setup_line (w_cfg w)); WReply x1; WLine (verb ++ SP :: path); WReply x2] /\
    data_events (skipn (length (w_trace w)) (w_trace w')) =
      [DNewObj; DConnectTo ip port true; DTcpShutdown; DClose].
Proof. exact refused_at_transfer_command_passive. Qed.
Print Assumptions C07_refused_at_transfer_command.

(* non-vacuity: EPSV answered 550, then the session carries on *)
Definition c07_script : list session :=
  [mkSess true false true (mkR [RReply (mkReply 220 [50;50;48])] [] false false true no_plan)
     [mkR [RReply (mkReply 550 [53;53;48])] [] false false true no_plan;
      mkR [RReply (mkReply 200 [50;48;48])] [] false false true no_plan]].
Example C07_example :
  let w0 := init_world (mkConfig Passive true TBinary false false) c07_script in
  let '(os, w) := steps w0 [AConnect [104] 21 None; ADownload [102] (Some [false]) None; ASimple [78;79;79;80] None] in
  os = [OReturn (RvReplies [mkReply 220 [50;50;48]]); OReturn (RvReplies [mkReply 550 [53;53;48]]);
        OReturn (RvReply (mkReply 200 [50;48;48]))] /\ io_events (w_trace w) = [] /\ held w = 1%nat.
Proof. vm_compute. auto. Qed.

(* EPRT / PORT refused: the reply is returned, nothing moved, the listener is closed, the session is in step *)
Theorem C07_refused_at_active_setup : forall w verb path io k_ok r1 rest x1 line,
  insync w (r1 :: rest) -> w_data w = None ->
  c_mode (w_cfg w) = Active -> has_crlf path = false -> adv_cmd w = Some line ->
  simple_reaction r1 x1 -> is_negative x1 = true ->
  exists w',
    run (CheckArg path (Scope (create_data_connection verb (Some path) [] k_ok (fun acc => Ret (RvReplies acc))))) (set_io w io)
      = (OReturn (RvReplies [x1]), w') /\
    insync w' rest /\ w_data w' = None /\ w_cfg w' = w_cfg w /\
    io_events (skipn (length (w_trace w)) (w_trace w')) = [] /\
    wire_events (skipn (length (w_trace w)) (w_trace w')) = [WLine line; WReply x1] /\
    data_events (skipn (length (w_trace w)) (w_trace w')) = [DNewObj; DListen; DAccClose].
Proof. exact refused_at_active_setup. Qed.
Print Assumptions C07_refused_at_active_setup.

(* the transfer command refused in the active modes: nothing is accepted, nothing moved, the listener is closed *)
Theorem C07_refused_at_transfer_command_active : forall w verb path io k_ok r1 r2 rest x1 x2 line,
  insync w (r1 :: r2 :: rest) -> w_data w = None ->
  c_mode (w_cfg w) = Active -> has_crlf path = false -> adv_cmd w = Some line ->
  simple_reaction r1 x1 -> is_negative x1 = false ->
  simple_reaction r2 x2 -> is_negative x2 = true ->
  exists w',
    run (CheckArg path (Scope (create_data_connection verb (Some path) [] k_ok (fun acc => Ret (RvReplies acc))))) (set_io w io)
      = (OReturn (RvReplies [x1; x2]), w') /\
    insync w' rest /\ w_data w' = None /\ w_cfg w' = w_cfg w /\
    io_events (skipn (length (w_trace w)) (w_trace w')) = [] /\
    wire_events (skipn (length (w_trace w)) (w_trace w')) = [WLine line; WReply x1; WLine (verb ++ SP :: path); WReply x2] /\
    data_events (skipn (length (w_trace w)) (w_trace w')) = [DNewObj; DListen; DAccClose].
Proof. exact refused_at_transfer_command_active. Qed.
Print Assumptions C07_refused_at_transfer_command_active.

(* ... and for LISTINGS (LIST / NLST, with or without a path; Refusals.v proves the four refusal theorems for any verb,
   argument, continuation and result shape): refused at the set-up command or at LIST / NLST itself, passive and active *)
Theorem C07_list_refused_at_setup_passive : forall w path names r1 rest x1,
  arg_ok path -> insync w (r1 :: rest) -> w_data w = None -> c_mode (w_cfg w) = Passive ->
  simple_reaction r1 x1 -> is_negative x1 = true ->
  exists w', step w (AList path names) = (OReturn (RvList [x1] []), w') /\
    insync w' rest /\ w_data w' = None /\ w_cfg w' = w_cfg w /\
    io_events (skipn (length (w_trace w)) (w_trace w')) = [] /\
    wire_events (skipn (length (w_trace w)) (w_trace w')) = [WLine (setup_line (w_cfg w)); WReply x1] /\
    data_events (skipn (length (w_trace w)) (w_trace w')) = [].
Proof. exact list_refused_at_setup_passive. Qed.
Print Assumptions C07_list_refused_at_setup_passive.

Theorem C07_list_refused_at_command_passive : forall w path names r1 r2 rest x1 x2 ip port,
  arg_ok path -> insync w (r1 :: r2 :: rest) -> w_data w = None -> c_mode (w_cfg w) = Passive ->
  simple_reaction r1 x1 -> is_negative x1 = false -> passive_target (w_cfg w) x1 ip port ->
  dp_reachable (r_data r1) = true ->
  simple_reaction r2 x2 -> is_negative x2 = true ->
  exists w', step w (AList path names) = (OReturn (RvList [x1; x2] []), w') /\
    insync w' rest /\ w_data w' = None /\ w_cfg w' = w_cfg w /\
    io_events (skipn (length (w_trace w)) (w_trace w')) = [] /\
    wire_events (skipn (length (w_trace w)) (w_trace w')) =
      [WLine (setup_line (w_cfg w)); WReply x1; WLine (line_of (list_verb names) path); WReply x2] /\
    data_events (skipn (length (w_trace w)) (w_trace w')) =
      [DNewObj; DConnectTo ip port true; DTcpShutdown; DClose].
Proof. exact list_refused_at_command_passive. Qed.
Print Assumptions C07_list_refused_at_command_passive.

Theorem C07_list_refused_at_setup_active : forall w path names r1 rest x1 line,
  arg_ok path -> insync w (r1 :: rest) -> w_data w = None -> c_mode (w_cfg w) = Active -> adv_cmd w = Some line ->
  simple_reaction r1 x1 -> is_negative x1 = true ->
  exists w', step w (AList path names) = (OReturn (RvList [x1] []), w') /\
    insync w' rest /\ w_data w' = None /\ w_cfg w' = w_cfg w /\
    io_events (skipn (length (w_trace w)) (w_trace w')) = [] /\
    wire_events (skipn (length (w_trace w)) (w_trace w')) = [WLine line; WReply x1] /\
    data_events (skipn (length (w_trace w)) (w_trace w')) = [DNewObj; DListen; DAccClose].
Proof. exact list_refused_at_setup_active. Qed.
Print Assumptions C07_list_refused_at_setup_active.

Theorem C07_list_refused_at_command_active : forall w path names r1 r2 rest x1 x2 line,
  arg_ok path -> insync w (r1 :: r2 :: rest) -> w_data w = None -> c_mode (w_cfg w) = Active -> adv_cmd w = Some line ->
  simple_reaction r1 x1 -> is_negative x1 = false ->
  simple_reaction r2 x2 -> is_negative x2 = true ->
  exists w', step w (AList path names) = (OReturn (RvList [x1; x2] []), w') /\
    insync w' rest /\ w_data w' = None /\ w_cfg w' = w_cfg w /\
    io_events (skipn (length (w_trace w)) (w_trace w')) = [] /\
    wire_events (skipn (length (w_trace w)) (w_trace w')) = [WLine line; WReply x1; WLine (line_of (list_verb names) path); WReply x2] /\
    data_events (skipn (length (w_trace w)) (w_trace w')) = [DNewObj; DListen; DAccClose].
Proof. exact list_refused_at_command_active. Qed.
Print Assumptions C07_list_refused_at_command_active.

(* an upload refused at EPSV / PASV: the source is not read *)
Theorem C07_upload_refused_at_setup_passive : forall w u path chunks cb r1 rest x1,
  has_crlf path = false -> insync w (r1 :: rest) -> w_data w = None -> c_mode (w_cfg w) = Passive ->
  simple_reaction r1 x1 -> is_negative x1 = true ->
  exists w', step w (AUpload u path chunks cb) = (OReturn (RvReplies [x1]), w') /\
    insync w' rest /\ w_data w' = None /\ w_cfg w' = w_cfg w /\
    io_events (skipn (length (w_trace w)) (w_trace w')) = [] /\
    wire_events (skipn (length (w_trace w)) (w_trace w')) = [WLine (setup_line (w_cfg w)); WReply x1] /\
    data_events (skipn (length (w_trace w)) (w_trace w')) = [].
Proof. exact upload_refused_at_setup_passive. Qed.
Print Assumptions C07_upload_refused_at_setup_passive.

(* ------------------------------------------------------------------ every call, every state, every server *)
(* [okio None tr]: in the events tr a call adds to the trace, every event that touches the caller's sink, source or
   transfer callback or moves bytes on the data connection ([EIo]) happens while the most recent reply read in this call
   ([ERecv]) is a non-negative one - never before the first reply, and never after a refusal, whatever the server does *)
Theorem C07_nothing_moves_unless_accepted : forall a w,
  exists tr, w_trace (snd (step w a)) = w_trace w ++ tr /\ okio None tr.
Proof. exact step_moves_only_when_accepted. Qed.
Print Assumptions C07_nothing_moves_unless_accepted.

(* read on the trace: whatever precedes such an event ends with a non-negative most recent reply *)
Theorem C07_nothing_moves_after_a_refusal : forall a w tr pre e post,
  w_trace (snd (step w a)) = w_trace w ++ tr -> tr = pre ++ EIo e :: post ->
  exists r, lastr None pre = Some r /\ is_negative r = false.
Proof. exact nothing_moves_after_a_refusal. Qed.
Print Assumptions C07_nothing_moves_after_a_refusal.

Example C07_moves_example :
  let run_it code := w_trace (snd (steps (init_world (mkConfig Passive true TBinary false false) (moves_script code))
                                         [AConnect [104%N] 21%N None; ADownload [102%N] None None])) in
  (0 < io_count (run_it 150%N))%nat /\ io_count (run_it 550%N) = O.
Proof. exact moves_example. Qed.

(* ---- the session stays usable: every call but connect / disconnect, every state, every server (Stays_Global.v) ---- *)
From LibFtp Require Closing_Global Stays_Global.

(* unless a 421 was read in it, a call leaves the control connection as it found it: after a refused command, a refused or
   failed transfer, a reply that never came, the client is still connected *)
Theorem C07_call_leaves_the_connection_as_it_was : forall a w, Stays_Global.keeps a ->
  exists tr, w_trace (snd (step w a)) = w_trace w ++ tr /\
    (~ Closing_Global.has421 tr -> w_open (snd (step w a)) = w_open w).
Proof. exact Stays_Global.step_leaves_the_connection_as_it_was. Qed.
Print Assumptions C07_call_leaves_the_connection_as_it_was.

Example C07_example_still_connected_after_refusal_and_failure :
  let w0 := init_world (mkConfig Passive true TBinary false false) Stays_Global.stays_script in
  let w1 := snd (steps w0 [AConnect [104] 21 None]) in
  let w2 := snd (step w1 (ADownload [102] None None)) in
  let w3 := snd (step w2 (ADownload [103] None None)) in
  w_open w1 = true /\ w_open w2 = true /\ fst (step w2 (ADownload [103] None None)) = OThrow /\ w_open w3 = true.
Proof. exact Stays_Global.stays_example. Qed.
